#!/bin/bash
# usage: ./run.sh <property-id|all> <quick|thorough>
# Static verification of /repo's current working tree. Exit 0 = property held on everything
# analysed; exit 1 + "VIOLATION property=<id> replay=<path>" = violation; exit 2 = checker broken.
set -u
cd "$(dirname "$0")"
VERIF=$(pwd)
ID=${1:?property id}
TIER=${2:-quick}
export GOFLAGS=-mod=mod GOPROXY=off GOSUMDB=off GOTOOLCHAIN=local GOWORK=off
unset GOARCH
REPO=${VERIF_REPO:-/repo}
BIN=$VERIF/bin/cqoscheck
if [ ! -x "$BIN" ] || [ -n "$(find "$VERIF/checker" -name '*.go' -newer "$BIN" 2>/dev/null | head -1)" ]; then
  # build beside the target and rename, so that checks running in parallel never see a missing or half-written binary
  mkdir -p "$VERIF/bin"
  (cd "$VERIF/checker" && go build -o "$BIN.$$" . && mv -f "$BIN.$$" "$BIN") || { rm -f "$BIN.$$"; echo "checker build failed"; exit 2; }
fi
if [ "$TIER" = quick ]; then
  exec "$BIN" -property "$ID" -tier quick -repo "$REPO" -evidence "$VERIF/evidence" -known "$VERIF/known_findings.json"
fi
exec "$VERIF/thorough.sh" "$ID" "$REPO"
