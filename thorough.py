#!/usr/bin/env python3
"""Thorough tier for one property.

1. the property's rules on the current tree under three build configurations
   (amd64, GOARCH=386, -tags verif), one process per configuration;
2. self-validation of the rules: every seeded mutant in selftest/<ID>/mutants must make the
   checker report a violation (naming the expected rule instance when an .expect file exists),
   every benign variant in selftest/<ID>/benign must add no violation relative to the
   unpatched tree. Patches are applied to scratch copies of the *current* tree which are
   removed as soon as their run ends.

Exit status is decided by the rules on the current tree only (step 1); self-validation
failures are printed as SELFTEST-FAILED and recorded in the evidence file.
"""
import concurrent.futures as cf
import glob
import hashlib
import json
import os
import re
import shutil
import subprocess
import sys
import tempfile
import time

VERIF = os.path.dirname(os.path.abspath(__file__))
BIN = os.path.join(VERIF, "bin", "cqoscheck")
KNOWN = os.path.join(VERIF, "known_findings.json")


def run_checker(pid, repo, extra, evdir=None, tier="thorough"):
    cmd = [BIN, "-property", pid, "-tier", tier, "-repo", repo, "-known", KNOWN]
    if evdir is None:
        cmd += ["-no-evidence", "-evidence", os.path.join(repo, ".ev")]
    else:
        cmd += ["-evidence", evdir]
    cmd += extra
    p = subprocess.run(cmd, stdout=subprocess.PIPE, stderr=subprocess.STDOUT, text=True)
    return p.returncode, p.stdout


def violation_keys(out, pid):
    keys = set()
    for line in out.splitlines():
        m = re.match(r"^%s/(\S+) (\S+) (\S+)$" % re.escape(pid), line)
        if m:
            keys.add(m.group(3))
        if line.startswith("%s/FATAL" % pid):
            keys.add("FATAL:" + line)
    return keys


_TREE_HASH = {}


def tree_hash(repo):
    """Hash of the analysed tree (every file outside .git), so that cached self-validation results
    are reused only for exactly the same sources."""
    if repo in _TREE_HASH:
        return _TREE_HASH[repo]
    h = hashlib.sha256()
    for root, dirs, files in sorted(os.walk(repo)):
        dirs[:] = sorted(d for d in dirs if d != ".git")
        for f in sorted(files):
            p = os.path.join(root, f)
            h.update(os.path.relpath(p, repo).encode() + b"\0")
            try:
                with open(p, "rb") as fh:
                    h.update(fh.read())
            except OSError:
                h.update(b"?")
            h.update(b"\0")
    _TREE_HASH[repo] = h.hexdigest()
    return _TREE_HASH[repo]


def file_hash(path):
    with open(path, "rb") as fh:
        return hashlib.sha256(fh.read()).hexdigest()


def split_by_property(out):
    """Output of `-property all`: the lines of each property, keyed by id."""
    per = {}
    cur = None
    for line in out.splitlines():
        m = re.match(r"^(C\d\d)/", line)
        m2 = re.match(r"^property (C\d\d) ", line)
        m3 = re.match(r"^VIOLATION property=(C\d\d) ", line)
        if m:
            cur = m.group(1)
        elif m2:
            cur = m2.group(1)
        elif m3:
            cur = m3.group(1)
        elif not line.startswith(" "):
            cur = cur
        if cur:
            per.setdefault(cur, []).append(line)
    return per


def scratch_run(pid, repo, patch):
    """Runs the checker on a scratch copy of the tree with `patch` applied. The patched tree is
    analysed once for all properties and the per-property results are kept in .cache/ (keyed by the
    sources of the tree, the patch and the checker binary), so that the thorough checks of the other
    properties do not repeat the work. Any cache problem falls back to a direct run."""
    cache_file = None
    try:
        key = hashlib.sha256((tree_hash(repo) + file_hash(patch) + file_hash(BIN) + file_hash(KNOWN)).encode()).hexdigest()
        cdir = os.path.join(VERIF, ".cache", "selftest")
        os.makedirs(cdir, exist_ok=True)
        cache_file = os.path.join(cdir, key + ".json")
        if os.path.exists(cache_file):
            c = json.load(open(cache_file))
            if c.get("applies") is False:
                return None, "patch does not apply"
            if pid in c.get("per", {}):
                r = c["per"][pid]
                return r["rc"], r["out"]
    except Exception:
        cache_file = None
    t = tempfile.mkdtemp(prefix="cqos-selftest.")
    try:
        subprocess.run(["rsync", "-a", "--exclude", ".git", repo.rstrip("/") + "/", t + "/"], check=True)
        ap = subprocess.run(["patch", "-p1", "-s", "--no-backup-if-mismatch", "-i", patch], cwd=t,
                            stdout=subprocess.PIPE, stderr=subprocess.STDOUT, text=True)
        if ap.returncode != 0:
            if cache_file:
                try:
                    json.dump({"applies": False}, open(cache_file + ".%d.tmp" % os.getpid(), "w"))
                    os.replace(cache_file + ".%d.tmp" % os.getpid(), cache_file)
                except Exception:
                    pass
            return None, "patch does not apply"
        if cache_file:
            rc_all, out_all = run_checker("all", t, [])
            out_all = out_all.replace(t + "/", "").replace(t, "<scratch>")
            per = split_by_property(out_all)
            if rc_all in (0, 1) and pid in per:
                entry = {"applies": True, "per": {}}
                for k, lines in per.items():
                    o = "\n".join(lines) + "\n"
                    entry["per"][k] = {"rc": 1 if ("VIOLATION property=%s " % k) in o else 0, "out": o}
                try:
                    json.dump(entry, open(cache_file + ".%d.tmp" % os.getpid(), "w"))
                    os.replace(cache_file + ".%d.tmp" % os.getpid(), cache_file)
                except Exception:
                    pass
                return entry["per"][pid]["rc"], entry["per"][pid]["out"]
        rc, out = run_checker(pid, t, [])
        return rc, out.replace(t + "/", "").replace(t, "<scratch>")
    finally:
        shutil.rmtree(t, ignore_errors=True)


def main():
    pid, repo = sys.argv[1], sys.argv[2]
    t0 = time.time()
    evdir = os.path.join(VERIF, "evidence")
    tmp_ev = tempfile.mkdtemp(prefix="cqos-ev.")
    jobs = {}
    results = {}
    with cf.ThreadPoolExecutor(max_workers=14) as ex:
        jobs["GOARCH=386"] = ex.submit(run_checker, pid, repo, ["-goarch", "386"], os.path.join(tmp_ev, "386"))
        jobs["-tags verif"] = ex.submit(run_checker, pid, repo, ["-tags", "verif"], os.path.join(tmp_ev, "verif"))
        jobs["main"] = ex.submit(run_checker, pid, repo, [], evdir)
        muts = sorted(glob.glob(os.path.join(VERIF, "selftest", pid, "mutants", "*.patch")))
        # independently written breaking changes (sub-agents) for this property
        for meta_p in sorted(glob.glob(os.path.join(VERIF, "seeded", "*", "meta.json"))):
            try:
                if json.load(open(meta_p)).get("property") == pid:
                    muts.append(os.path.join(os.path.dirname(meta_p), "patch.diff"))
            except Exception:
                pass
        bens = sorted(glob.glob(os.path.join(VERIF, "selftest", pid, "benign", "*.patch")))
        # behaviour-preserving refactorings that every property must stay silent on
        bens += sorted(glob.glob(os.path.join(VERIF, "selftest", "ALL", "benign", "*.patch")))
        for m in muts + bens:
            jobs[m] = ex.submit(scratch_run, pid, repo, m)
        for k, f in jobs.items():
            results[k] = f.result()
    shutil.rmtree(tmp_ev, ignore_errors=True)

    rc_main, out_main = results["main"]
    sys.stdout.write(out_main)
    exit_code = rc_main
    base_keys = violation_keys(out_main, pid)
    extra_cfg = []
    for cfg in ("GOARCH=386", "-tags verif"):
        rc, out = results[cfg]
        keys = violation_keys(out, pid)
        head = next((l for l in out.splitlines() if l.startswith("property ")), out.splitlines()[0] if out else "")
        extra_cfg.append({"config": cfg, "exit": rc, "summary": head, "violations": sorted(keys)})
        print("config %-12s exit=%d %s" % (cfg, rc, head))
        if rc != 0:
            if rc == 1 and "VIOLATION property=" not in out_main:
                # a violation visible only under this configuration
                for line in out.splitlines():
                    if line.startswith(pid + "/") or line.startswith("       "):
                        print("[%s] %s" % (cfg, line))
                replay = os.path.join(evdir, "replay", pid + "." + cfg.replace(" ", "_").replace("=", "_") + ".txt")
                os.makedirs(os.path.dirname(replay), exist_ok=True)
                open(replay, "w").write(out)
                print("VIOLATION property=%s replay=%s" % (pid, replay))
            exit_code = max(exit_code, rc)

    selftest = []
    failed = 0
    for m in muts:
        rc, out = results[m]
        name = os.path.basename(m)
        if name == "patch.diff":
            name = "seeded/" + os.path.basename(os.path.dirname(m))
        exp_file = m[:-6] + ".expect"
        expect = open(exp_file).read().split() if os.path.exists(exp_file) else []
        if rc is None:
            selftest.append({"patch": name, "kind": "mutant", "status": "skipped", "why": out})
            continue
        keys = violation_keys(out, pid)
        new = keys - base_keys
        ok = rc == 1 and len(new) > 0 and all(any(e in k for k in new) for e in expect)
        if rc == 1 and not new and keys:
            selftest.append({"patch": name, "kind": "mutant", "status": "skipped", "why": "its instance already fails on the current tree"})
            continue
        selftest.append({"patch": name, "kind": "mutant", "status": "fired" if ok else "MISSED", "reported": sorted(new)[:6]})
        if not ok:
            failed += 1
            print("SELFTEST-FAILED mutant %s: exit=%s new=%s expected=%s" % (name, rc, sorted(new), expect))
    for b in bens:
        rc, out = results[b]
        name = os.path.basename(b)
        if rc is None:
            selftest.append({"patch": name, "kind": "benign", "status": "skipped", "why": out})
            continue
        new = violation_keys(out, pid) - base_keys
        ok = not new and rc in (0, 1)
        selftest.append({"patch": name, "kind": "benign", "status": "silent" if ok else "FALSE-ALARM", "reported": sorted(new)[:6]})
        if not ok:
            failed += 1
            print("SELFTEST-FAILED benign %s: exit=%s new=%s" % (name, rc, sorted(new)))
    fired = sum(1 for s in selftest if s["status"] == "fired")
    silent = sum(1 for s in selftest if s["status"] == "silent")
    skipped = sum(1 for s in selftest if s["status"] == "skipped")
    print("self-validation: %d mutants fired, %d benign silent, %d skipped, %d failed" % (fired, silent, skipped, failed))

    evp = os.path.join(evdir, pid + ".json")
    try:
        ev = json.load(open(evp))
        ev["coverage"]["build_configs_extra"] = extra_cfg
        ev["coverage"]["self_validation"] = {"fired": fired, "silent": silent, "skipped": skipped, "failed": failed, "patches": selftest}
        ev["wall_s"] = time.time() - t0
        if exit_code == 1 and ev.get("violations", 0) == 0:
            ev["violations"] = sum(len(c["violations"]) for c in extra_cfg)
        json.dump(ev, open(evp, "w"), indent=1)
    except Exception as e:  # evidence missing = checker failure, already reflected in exit code
        print("cannot update evidence:", e)
        exit_code = max(exit_code, 2)
    sys.exit(exit_code)


if __name__ == "__main__":
    main()
