#!/usr/bin/env python3
"""Generates MANIFEST.json from the table below (kept in one place so it stays valid)."""
import json, os, subprocess

CLAIMED = {
 "C20": ("confinement analysis: per-field access contexts (ctor/goroutine/API) from SSA + call graph; who-may-write rules",
         "Every field of the 8 discipline structs is proven immutable-after-spawn or confined to one scheduler goroutine; globals and user maps are never written. A static proof of race freedom for library state, not a dynamic race detector; user callbacks and third-party breaker are outside it.",
         "DESIGN.md section 5 C20"),
}

PENDING_REASON = "check not built yet in this round of the framework (design in DESIGN.md section 5); not claimed until its rules run"

def main():
    props = [json.loads(l) for l in open("properties.jsonl")]
    checks, na = [], []
    for p in props:
        pid = p["id"]
        if pid in CLAIMED:
            tech, text, ref = CLAIMED[pid]
            checks.append({
                "property_id": pid,
                "quick_cmd": f"./run.sh {pid} quick",
                "thorough_cmd": f"./run.sh {pid} thorough",
                "evidence_file": f"/verif/evidence/{pid}.json",
                "replay_cmd_template": "cat {path}",
                "engine": "cqoscheck",
                "level_claimed": {"category": "other", "text": text, "design_ref": ref},
                "level_note": "Trusted: Go semantics, x/tools v0.29.0 type checker + SSA builder, breaker v0.1.0 as read, the documented user contract, and the paper arguments of DESIGN.md section 5 that lead from discharged structural obligations to the behavioural statement.",
                "technique": "static analysis: " + tech,
            })
        else:
            na.append({"property_id": pid, "reason": NA.get(pid, PENDING_REASON)})
    m = {
        "version": 1,
        "setup_cmd": "cd /verif/checker && GOFLAGS=-mod=mod GOPROXY=off GOSUMDB=off GOTOOLCHAIN=local GOWORK=off go build -o /verif/bin/cqoscheck .",
        "hooks": {
            "guard": "verif",
            "enable": "none needed: static analysis reads the source; thorough tier additionally type-checks with -tags verif",
            "baseline_off_cmd": "for m in . ./v2; do (cd /repo/$m && GOFLAGS=-mod=mod go test -json -vet=off -count=1 -timeout 25m ./...); done",
            "source_commits": [],
            "add_only": True,
        },
        "engines": [{
            "name": "cqoscheck", "path": "/verif/checker",
            "serves_properties": sorted(CLAIMED),
            "kind_free_text": "repository-specific static analyser on go/packages + go/ssa (x/tools v0.29.0): symbolic use-def expressions, select decoding, typestate dataflow with inlining and defer replay, confinement/alias analysis",
        }],
        "checks": checks,
        "not_applicable": na,
        "notes": "All checks decide rules on /repo's current working tree without executing it. See DESIGN.md.",
    }
    json.dump(m, open("MANIFEST.json", "w"), indent=1)
    print(f"claimed {len(checks)}, not_applicable {len(na)}")

NA = {}
if __name__ == "__main__":
    main()
