#!/usr/bin/env python3
"""Generates MANIFEST.json from the table below (kept in one place so it stays valid)."""
import json, os, subprocess

CLAIMED = {
 "C02": ("typestate dataflow over SSA with inlining (item in hand: received -> forwarded exactly once), value-flow and who-may-access rules",
         "Safety half of exactly-once/tagged/FIFO: single mover proven by context analysis, exactly one successful output send per received item on every CFG path, tag identity by SSA value equality, no buffering of items, handlers call Handle then release once each. Liveness (eventual delivery) is not decided.",
         "DESIGN.md section 5 C02"),
 "C07": ("dominating-guard and path rules on SSA CFG: returns of the scheduling loop, drained marking, for-all helpers, deferred wait loop, signal placement, error origin",
         "Termination safety: signals can only follow 'all inputs observed drained and nothing in flight' on every path; err carries only divider-check errors. 'Promptly' and eventual termination are not decided.",
         "DESIGN.md section 5 C07"),
 "C16": ("blocking-operation inventory per goroutine, SCC decomposition of every CFG cycle with stop-exit requirement, defer run-order rules",
         "Every wait reachable from a v1 goroutine watches every stop signal of that goroutine or is an enumerated bounded idiom; every loop has a bounded trip count or leaves on stop; defers complete the breakers last. Found the waitCalcTactic hang (fixed) and the Simple graceful/stop finding (known). No real-time bound is derived.",
         "DESIGN.md section 5 C16"),
 "C19": ("go-statement inventory, signal placement and defer run-order rules, child-goroutine wake-up and join rules, cycle-exit check",
         "Every goroutine entry signals only in its last deferred calls, children are joined or bound to a channel closed at termination, no cycle lacks an exit. Relies on the user contract for releases and reads.",
         "DESIGN.md section 5 C19"),
 "C20": ("confinement analysis: per-field access contexts (ctor/goroutine/API) from SSA + call graph; who-may-write rules",
         "Every field of the 8 discipline structs is proven immutable-after-spawn or confined to one scheduler goroutine; globals and user maps are never written. A static proof of race freedom for library state, not a dynamic race detector; user callbacks and third-party breaker are outside it.",
         "DESIGN.md section 5 C20"),
}

PENDING_REASON = "check not built yet in this round of the framework (design in DESIGN.md section 5); not claimed until its rules run"

def main():
    props = [json.loads(l) for l in open("properties.jsonl")]
    checks, na = [], []
    for p in props:
        pid = p["id"]
        if pid in CLAIMED:
            tech, text, ref = CLAIMED[pid]
            checks.append({
                "property_id": pid,
                "quick_cmd": f"./run.sh {pid} quick",
                "thorough_cmd": f"./run.sh {pid} thorough",
                "evidence_file": f"/verif/evidence/{pid}.json",
                "replay_cmd_template": "cat {path}",
                "engine": "cqoscheck",
                "level_claimed": {"category": "other", "text": text, "design_ref": ref},
                "level_note": "Trusted: Go semantics, x/tools v0.29.0 type checker + SSA builder, breaker v0.1.0 as read, the documented user contract, and the paper arguments of DESIGN.md section 5 that lead from discharged structural obligations to the behavioural statement.",
                "technique": "static analysis: " + tech,
            })
        else:
            na.append({"property_id": pid, "reason": NA.get(pid, PENDING_REASON)})
    m = {
        "version": 1,
        "setup_cmd": "cd /verif/checker && GOFLAGS=-mod=mod GOPROXY=off GOSUMDB=off GOTOOLCHAIN=local GOWORK=off go build -o /verif/bin/cqoscheck .",
        "hooks": {
            "guard": "verif",
            "enable": "none needed: static analysis reads the source; thorough tier additionally type-checks with -tags verif",
            "baseline_off_cmd": "for m in . ./v2; do (cd /repo/$m && GOFLAGS=-mod=mod go test -json -vet=off -count=1 -timeout 25m ./...); done",
            "source_commits": [],
            "add_only": True,
        },
        "engines": [{
            "name": "cqoscheck", "path": "/verif/checker",
            "serves_properties": sorted(CLAIMED),
            "kind_free_text": "repository-specific static analyser on go/packages + go/ssa (x/tools v0.29.0): symbolic use-def expressions, select decoding, typestate dataflow with inlining and defer replay, confinement/alias analysis",
        }],
        "checks": checks,
        "not_applicable": na,
        "notes": "All checks decide rules on /repo's current working tree without executing it. See DESIGN.md.",
    }
    json.dump(m, open("MANIFEST.json", "w"), indent=1)
    print(f"claimed {len(checks)}, not_applicable {len(na)}")

NA = {}
if __name__ == "__main__":
    main()
