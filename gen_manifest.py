#!/usr/bin/env python3
"""Generates MANIFEST.json from the table below (kept in one place so it stays valid)."""
import json, os, subprocess

CLAIMED = {
 "C01": ("bookkeeping events on SSA (map deltas), dominating guards, typestate of the allotment map over the inlined scheduler with call-result facts",
         "On every CFG path Σactual+Σtactic <= HandlersQuantity whenever the output can be written, and actual over-approximates the items in flight; with the confinement result (C20) this yields the bound for every schedule, divider and release order. The step from the invariant to the behavioural bound is the paper argument of DESIGN.md.",
         "DESIGN.md section 5 C01"),
 "C02": ("typestate dataflow over SSA with inlining (item in hand: received -> forwarded exactly once), value-flow and who-may-access rules",
         "Safety half of exactly-once/tagged/FIFO: single mover proven by context analysis, exactly one successful output send per received item on every CFG path, tag identity by SSA value equality, no buffering of items, handlers call Handle then release once each. Liveness (eventual delivery) is not decided.",
         "DESIGN.md section 5 C02"),
 "C03": ("typestate automata over the events of the inlined goroutine (receive/ingest/emit/reset/release), item-flow automaton, size facts from normalised comparison edges with infeasible-edge pruning",
         "The invariant concat(outputs)++buffer == accepted inputs is preserved by every operation the scheduler can perform, in any order; non-empty and size clauses from guards. Timing is irrelevant by construction.",
         "DESIGN.md section 5 C03"),
 "C04": ("loop-shape recognition (counted batch loop), typestate batch/delay alternation, symbolic form of the sleep amount",
         "Necessary structure only: Quantity writes per batch, a delay between any two batches, sleep >= Interval - time since the batch start. The numeric bounds are real-time statements and are not decided.",
         "DESIGN.md section 5 C04"),
 "C05": ("guard/assignment shape of the top-up, provenance of the strategic map, sortedness typestate",
         "Necessary structure only: exact deficit top-up with strict rejection, shares = divider(all priorities sorted, H) and kept fresh; occupancy under saturation is a liveness/arithmetic statement and is not decided.",
         "DESIGN.md section 5 C05"),
 "C06": ("select-shape rules, dominating-guard rules for blocking waits, round-structure typestate",
         "Necessary conditions for progress only (non-blocking input polls, guarded waits, two-phase round, zero-share rejection); eventual delivery is not statically decidable here.",
         "DESIGN.md section 5 C06"),
 "C07": ("dominating-guard and path rules on SSA CFG: returns of the scheduling loop, drained marking, for-all helpers, deferred wait loop, signal placement, error origin",
         "Termination safety: signals can only follow 'all inputs observed drained and nothing in flight' on every path; err carries only divider-check errors. 'Promptly' and eventual termination are not decided.",
         "DESIGN.md section 5 C07"),
 "C08": ("payload provenance (clone/alias) with mode-edge pruning, typestate send->release over events, `!unreleased` fact typestate, escape analysis of the buffer",
         "A delivered slice is a fresh clone in copy mode; in no-copy mode nothing can write the buffer between delivery and release (or ever again after a v1 stop).",
         "DESIGN.md section 5 C08"),
 "C09": ("typestate over events with size/tick/timeout facts: every send of the buffer classified by the facts valid at it; form of every timeout test; emit->passAt reset",
         "Structure: flushes happen only when full / timed out / at end of input (unite: oversize, would not fit); the real-time clause is not decided.",
         "DESIGN.md section 5 C09"),
 "C10": ("typestate over events: passAt writes justified by a send / tick / end, tick->test->flush path rule, every input receive watches the ticker, symbolic form of the ticker period",
         "Necessary structure only for the latency bound: no per-element timer reset, expired => flush, ticker period formula and its error exits; the bound itself is a real-time statement.",
         "DESIGN.md section 5 C10"),
 "C11": ("whole-slice ingest/forward automaton, payload provenance, fit-facts typestate",
         "Unite never splits an input slice: exactly one whole ingest or whole forward per slice, flush before a slice that would not fit.",
         "DESIGN.md section 5 C11"),
 "C12": ("item-flow automaton, closed-path typestate with call-result pruning, reachability of Sleep, symbolic form of the sleep amount",
         "Lossless ordered pass-through by a single mover, straight-line closing after the input closes, no pause inside a batch; 'within about ceil(N/Q) intervals' is not decided.",
         "DESIGN.md section 5 C12"),
 "C13": ("order-type dataflow (predicate abstraction over orderings of 0, minimum, Interval/Quantity) with recognised floor definitions",
         "Every return of Recalculate is checked in every order type that reaches it: validity, minimality, error regions. Found the minimum-boundary defect (fixed). Arithmetic enters only through the two recognised floor definitions and a paper lemma.",
         "DESIGN.md section 5 C13"),
 "C14": ("write-set rule, credit/debit accounting on SSA values, canonical effect summaries compared across v1 and v2",
         "Conservation of the dividend on every path for Rate and Fair, extras to a prefix, untouched other entries, v1==v2 summaries. Rate's monotonicity/closeness depend on float rounding and are not decided.",
         "DESIGN.md section 5 C14"),
 "C15": ("enumeration of dynamic divider calls with argument provenance, sortedness typestate, constructor guard rules, reuse of B7/B10/E4/E6",
         "The divider only ever sees sorted duplicate-free lists, a bounded dividend and a non-nil map; a faulty division is reported, never spent, and termination still waits for in-flight items; zero shares are rejected over the registered priorities (defect found and fixed).",
         "DESIGN.md section 5 C15"),
 "C16": ("blocking-operation inventory per goroutine, SCC decomposition of every CFG cycle with stop-exit requirement, defer run-order rules",
         "Every wait reachable from a v1 goroutine watches every stop signal of that goroutine or is an enumerated bounded idiom; every loop has a bounded trip count or leaves on stop; defers complete the breakers last. Found the waitCalcTactic hang (fixed) and the Simple graceful-then-stop hang (fixed). No real-time bound is derived.",
         "DESIGN.md section 5 C16"),
 "C17": ("channel-capacity provenance, clause-body rules, same-block lookup rule, reuse of B11/X1/D2/P2",
         "Structure that makes Add/RemoveInput effective on return and keeps the other invariants independent of the priority set.",
         "DESIGN.md section 5 C17"),
 "C18": ("loop-shape and guard rules on the helper functions, for-all shape recognition, parameter use analysis",
         "Predicates are total for-alls over the sorted combinations with member-wise zero tests, PickUp loops have the right bounds and results, suitable => non-fatal, monotone in the limit; subset enumeration completeness and float tolerance are not decided.",
         "DESIGN.md section 5 C18"),
 "C19": ("go-statement inventory, signal placement and defer run-order rules, child-goroutine wake-up and join rules, cycle-exit check",
         "Every goroutine entry signals only in its last deferred calls, children are joined or bound to a channel closed at termination, no cycle lacks an exit. Relies on the user contract for releases and reads.",
         "DESIGN.md section 5 C19"),
 "C20": ("confinement analysis: per-field access contexts (ctor/goroutine/API) from SSA + call graph; who-may-write rules",
         "Every field of the 8 discipline structs is proven immutable-after-spawn or confined to one scheduler goroutine; globals and user maps are never written. A static proof of race freedom for library state, not a dynamic race detector; user callbacks and third-party breaker are outside it.",
         "DESIGN.md section 5 C20"),
}

PENDING_REASON = "check not built yet in this round of the framework (design in DESIGN.md section 5); not claimed until its rules run"

def main():
    props = [json.loads(l) for l in open("properties.jsonl")]
    checks, na = [], []
    for p in props:
        pid = p["id"]
        if pid in CLAIMED:
            tech, text, ref = CLAIMED[pid]
            checks.append({
                "property_id": pid,
                "quick_cmd": f"./run.sh {pid} quick",
                "thorough_cmd": f"./run.sh {pid} thorough",
                "evidence_file": f"/verif/evidence/{pid}.json",
                "replay_cmd_template": "cat {path}",
                "engine": "cqoscheck",
                "level_claimed": {"category": "other", "text": text, "design_ref": ref},
                "level_note": "Trusted: Go semantics, x/tools v0.29.0 type checker + SSA builder, breaker v0.1.0 as read, the documented user contract, and the paper arguments of DESIGN.md section 5 that lead from discharged structural obligations to the behavioural statement.",
                "technique": "static analysis: " + tech,
            })
        else:
            na.append({"property_id": pid, "reason": NA.get(pid, PENDING_REASON)})
    m = {
        "version": 1,
        "setup_cmd": "cd /verif/checker && GOFLAGS=-mod=mod GOPROXY=off GOSUMDB=off GOTOOLCHAIN=local GOWORK=off go build -o /verif/bin/cqoscheck .",
        "hooks": {
            "guard": "verif",
            "enable": "none needed: static analysis reads the source; thorough tier additionally type-checks with -tags verif",
            "baseline_off_cmd": "for m in . ./v2; do (cd /repo/$m && GOFLAGS=-mod=mod go test -json -vet=off -count=1 -timeout 25m ./...); done",
            "source_commits": [],
            "add_only": True,
        },
        "engines": [{
            "name": "cqoscheck", "path": "/verif/checker",
            "serves_properties": sorted(CLAIMED),
            "kind_free_text": "repository-specific static analyser on go/packages + go/ssa (x/tools v0.29.0): symbolic use-def expressions, select decoding, typestate dataflow with inlining and defer replay, confinement/alias analysis",
        }],
        "checks": checks,
        "not_applicable": na,
        "notes": "All checks decide rules on /repo's current working tree without executing it. See DESIGN.md.",
    }
    json.dump(m, open("MANIFEST.json", "w"), indent=1)
    print(f"claimed {len(checks)}, not_applicable {len(na)}")

NA = {}
if __name__ == "__main__":
    main()
