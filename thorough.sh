#!/bin/bash
# thorough tier: same rules under three build configurations, then self-validation
# (seeded mutants must fire, benign variants must stay silent) on scratch copies of the current tree.
set -u
VERIF=$(cd "$(dirname "$0")" && pwd)
ID=$1; REPO=${2:-/repo}
BIN=$VERIF/bin/cqoscheck
export GOFLAGS=-mod=mod GOPROXY=off GOSUMDB=off GOTOOLCHAIN=local GOWORK=off
exec python3 "$VERIF/thorough.py" "$ID" "$REPO"
