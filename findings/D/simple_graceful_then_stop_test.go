package priority

// Demonstration for finding D (C16): after Simple.GracefulStop() was requested while an input
// is still open, Simple.Stop() (and cancelling Opts.Ctx) no longer take effect, because
// Simple.main is blocked inside priority.GracefulStop().
// Copy into /repo/priority and run:
//   go test -vet=off -count=1 -run TestVerifSimpleStopAfterGraceful ./priority/
// Failed on the pinned tree; repaired by /repo commit 68d7709 ("fix: v1 Simple ignores Stop ...").

import (
	"context"
	"testing"
	"time"
)

func TestVerifSimpleStopAfterGraceful(t *testing.T) {
	in := make(chan int) // stays open
	smpl, err := NewSimple(SimpleOpts[int]{
		Divider:          FairDivider,
		Handle:           func(context.Context, int) {},
		HandlersQuantity: 2,
		Inputs:           map[uint]<-chan int{1: in},
	})
	if err != nil {
		t.Fatal(err)
	}
	go smpl.GracefulStop()
	time.Sleep(100 * time.Millisecond)
	done := make(chan struct{})
	go func() { smpl.Stop(); close(done) }()
	select {
	case <-done:
	case <-time.After(3 * time.Second):
		t.Fatal("Simple.Stop() did not return within 3s while a graceful stop is pending")
	}
}
