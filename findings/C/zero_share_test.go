package priority

// Demonstration for defect C (C15 / C18 / C06): a zero share hidden by an absent map key.
// divider.Rate([24 23 22 21 8], 7) = {24:2 23:2 22:2 21:1}: priority 8 gets no handler and no
// map entry, so the map-ranging IsDistributionFilled answers "filled".
// Copy into /repo/v2/priority and run:
//   go test -vet=off -count=1 -run TestVerifZeroShare ./priority/
// Fails before the fix commit, passes after it.

import (
	"testing"

	"github.com/akramarenkov/cqos/v2/priority/divider"
	"github.com/akramarenkov/cqos/v2/priority/utils"
)

func TestVerifZeroShare(t *testing.T) {
	priorities := []uint{24, 23, 22, 21, 8}

	distribution := map[uint]uint{}
	divider.Rate(priorities, 7, distribution)
	if distribution[8] != 0 {
		t.Skipf("divider gives priority 8 a share: %v", distribution)
	}

	if utils.IsNonFatalConfig(priorities, divider.Rate, 7) {
		t.Errorf("IsNonFatalConfig(%v, Rate, 7) = true although priority 8 gets no handler: %v", priorities, distribution)
	}

	inputs := map[uint]<-chan int{}
	for _, p := range priorities {
		ch := make(chan int)
		close(ch)
		inputs[p] = ch
	}

	dsc, err := New(Opts[int]{Divider: divider.Rate, HandlersQuantity: 7, Inputs: inputs})
	if err == nil {
		t.Errorf("New accepted a configuration in which priority 8 has a zero share")
		for range dsc.Output() {
		}
	}
}
