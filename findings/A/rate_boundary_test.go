package limit

// Demonstration for defect A (C13): floor(Interval/Quantity) == minimum with a remainder falls
// into the big-integer branch and yields Quantity 0 with a nil error.
// Copy into /repo/v2/limit and run:
//   go test -vet=off -count=1 -run TestVerifRateBoundary ./limit/
// Fails before the fix commit, passes after it.

import (
	"testing"
	"time"
)

func TestVerifRateBoundary(t *testing.T) {
	for _, rate := range []Rate{
		{Interval: 20*time.Millisecond + time.Nanosecond, Quantity: 2},
		{Interval: 7, Quantity: 2},
	} {
		minimum := OptimizationInterval
		if rate.Interval < time.Microsecond {
			minimum = 3
		}
		got, err := rate.Recalculate(minimum)
		if err != nil {
			continue
		}
		if verr := got.IsValid(); verr != nil {
			t.Errorf("%v.Recalculate(%v) = %v with nil error, but the result is invalid: %v", rate, minimum, got, verr)
		}
	}
}
