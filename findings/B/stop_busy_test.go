package priority

// Demonstration for defect B (C16): Stop() must return even when every handler is busy
// and nobody feeds back. Copy into /repo/priority and run:
//   go test -vet=off -count=1 -run TestVerifStopWhileAllHandlersBusy ./priority/
// Fails (Stop hangs) before the fix commit, passes after it.

import (
	"testing"
	"time"
)

func TestVerifStopWhileAllHandlersBusy(t *testing.T) {
	in := make(chan int, 10)
	for i := 0; i < 10; i++ {
		in <- i
	}
	out := make(chan Prioritized[int], 10)
	fb := make(chan uint)
	dsc, err := New(Opts[int]{
		Divider:          FairDivider,
		Feedback:         fb,
		HandlersQuantity: 2,
		Inputs:           map[uint]<-chan int{1: in},
		Output:           out,
	})
	if err != nil {
		t.Fatal(err)
	}
	// take two items and never feed back: all handlers busy
	<-out
	<-out
	time.Sleep(50 * time.Millisecond)
	done := make(chan struct{})
	go func() { dsc.Stop(); close(done) }()
	select {
	case <-done:
	case <-time.After(3 * time.Second):
		t.Fatal("Stop() did not return within 3s while all handlers are busy")
	}
}
