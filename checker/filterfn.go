package main

import (
	"go/token"
	"go/types"

	"golang.org/x/tools/go/ssa"
)

// Delegated filters: `x = dsc.pick(x, func(p uint) bool { return <cond on p> })` where pick is a
// product function of the shape
//
//	list = list[:0]; for _, p := range <registered list> { if pred(p) { list = append(list, p) } }; return list
//
// says the same as the inline loop `x = x[:0]; for _, p := range list { if <cond> { x = append(x, p) } }`.
// delegatedFilter recognises the call and hands back what the inline rules look at: the source
// list, whether the target is emptied first, and the condition as a comparison over the
// predicate's parameter.

type delegatedFilterInfo struct {
	helper    *ssa.Function
	source    *Sym          // the list that is ranged over (in the helper's terms)
	truncated bool          // the helper starts from list[:0]
	sameField bool          // the list handed in is the field that is stored to
	pred      *ssa.Function // the predicate
	key       string        // Sym string of the predicate's parameter
	conds     []*Cmp        // the predicate's answer as comparisons (one per return; nil = not a comparison)
}

func (p *Prog) delegatedFilter(st *ssa.Store, field string) *delegatedFilterInfo {
	call, ok := st.Val.(*ssa.Call)
	if !ok {
		return nil
	}
	h := p.Callee(call)
	if h == nil || !p.IsProduct(h) {
		return nil
	}
	listIdx, predIdx := -1, -1
	for i, par := range h.Params {
		switch t := par.Type().Underlying().(type) {
		case *types.Slice:
			// the accumulated list: the slice parameter that is used only as the start of the
			// accumulation (directly, or through list[:0]); another slice parameter of the same
			// type may be the list that is filtered
			if types.Identical(t, st.Val.Type().Underlying()) {
				accum := true
				for _, ref := range *par.Referrers() {
					switch r := ref.(type) {
					case *ssa.DebugRef, *ssa.Phi:
					case *ssa.Slice:
						if r.X != ssa.Value(par) {
							accum = false
						}
					default:
						accum = false
					}
				}
				if accum && listIdx < 0 {
					listIdx = i
				}
			}
		case *types.Signature:
			if t.Params().Len() == 1 && t.Results().Len() == 1 {
				predIdx = i
			}
		}
	}
	if listIdx < 0 || len(call.Call.Args) != len(h.Params) {
		return nil
	}
	comps := sccs(h.Blocks, blockSet(h.Blocks))
	if len(comps) != 1 {
		return nil
	}
	loop := blockSet(comps[0])
	info := &delegatedFilterInfo{helper: h}
	listPar := h.Params[listIdx]
	var predPar *ssa.Parameter
	if predIdx >= 0 {
		predPar = h.Params[predIdx]
	}
	// list[:0] before the loop, the only use of the list parameter
	var trunc *ssa.Slice
	for _, ref := range *listPar.Referrers() {
		switch r := ref.(type) {
		case *ssa.DebugRef:
		case *ssa.Phi:
			// the list handed in is the start of the accumulation (emptied by the caller)
		case *ssa.Slice:
			if k, isK := constDuration(r.High); isK && k == 0 && r.Low == nil && r.X == ssa.Value(listPar) && !loop[r.Block()] && trunc == nil {
				trunc = r
				continue
			}
			return nil
		default:
			return nil
		}
	}
	info.truncated = trunc != nil
	// ... or the caller hands in field[:0]
	listArg := call.Call.Args[listIdx]
	if sl, isSl := listArg.(*ssa.Slice); isSl && trunc == nil && sl.Low == nil {
		if k, isK := constDuration(sl.High); isK && k == 0 {
			info.truncated = true
			listArg = sl.X
		}
	}
	// one append in the loop, of the visited element, under pred(element)
	var app *ssa.Call
	for _, b := range h.Blocks {
		for _, in := range b.Instrs {
			c2, isCall := in.(*ssa.Call)
			if !isCall {
				continue
			}
			if bi, isB := c2.Call.Value.(*ssa.Builtin); isB && bi.Name() == "append" {
				if app != nil || !loop[b] {
					return nil
				}
				app = c2
				continue
			}
			if predPar != nil && c2.Call.Value == ssa.Value(predPar) {
				continue
			}
			if bi, isB := c2.Call.Value.(*ssa.Builtin); isB && (bi.Name() == "len" || bi.Name() == "cap") {
				continue
			}
			return nil // anything else the helper does is not part of the filter shape
		}
	}
	if app == nil {
		return nil
	}
	el, okv := varargsElem(app.Call.Args[1])
	if !okv {
		return nil
	}
	src, okr := rangeElem(p.Sym(el))
	if !okr {
		return nil
	}
	info.source = src
	// the accumulated list: phi(list[:0], append(phi, el))
	if ph, isPhi := app.Call.Args[0].(*ssa.Phi); isPhi {
		for _, e := range ph.Edges {
			if e == ssa.Value(listPar) && trunc == nil {
				continue
			}
			if e != ssa.Value(app) && (trunc == nil || e != ssa.Value(trunc)) && e != ssa.Value(ph) {
				if ph2, isPhi2 := e.(*ssa.Phi); !isPhi2 || !phiOnly(ph2, app, trunc, ph) {
					return nil
				}
			}
		}
	} else {
		return nil
	}
	guards := 0
	var direct []*Cmp
	for _, e := range InstrDomEdges(app) {
		if !loop[e.From] {
			continue
		}
		iff := e.From.Instrs[len(e.From.Instrs)-1].(*ssa.If)
		base, neg := condOf(iff.Cond)
		if c2, isCall := base.(*ssa.Call); isCall && predPar != nil && c2.Call.Value == ssa.Value(predPar) {
			if neg != (e.Succ != 0) || len(c2.Call.Args) != 1 || c2.Call.Args[0] != el {
				return nil
			}
			guards++
			continue
		}
		cm := p.NormCmp(iff.Cond, e.Succ == 0)
		if cm != nil && containsLen(cm) {
			continue // the range loop's own test
		}
		// a condition spelled in the helper itself, over its parameters (appendBelow(list, distribution))
		if cm != nil {
			cm.L, cm.R = p.substParams(call, h, cm.L), p.substParams(call, h, cm.R)
		}
		direct = append(direct, cm)
	}
	if guards+len(direct) == 0 || (guards > 0 && len(direct) > 0) || guards > 1 {
		return nil
	}
	// every result is the accumulated list
	for _, b := range h.Blocks {
		ret, isRet := b.Instrs[len(b.Instrs)-1].(*ssa.Return)
		if !isRet || b == h.Recover {
			continue
		}
		if len(ret.Results) != 1 {
			return nil
		}
		switch r := ret.Results[0].(type) {
		case *ssa.Phi:
			if !phiOnly(r, app, trunc, nil) && !(trunc == nil && phiOnlyWith(r, app, listPar)) {
				return nil
			}
		default:
			if r != ssa.Value(app) && (trunc == nil || r != ssa.Value(trunc)) {
				return nil
			}
		}
	}
	// the call site
	info.sameField = p.isFieldLoad(listArg, field)
	if len(direct) > 0 {
		info.key = p.substParams(call, h, p.Sym(el)).String()
		info.conds = direct
		info.source = p.substParams(call, h, src)
		return info
	}
	// (the list that is filtered may itself be a parameter: FilterPriorities(dst[:0], list, keep))
	info.source = p.substParams(call, h, src)
	switch f := call.Call.Args[predIdx].(type) {
	case *ssa.MakeClosure:
		info.pred, _ = f.Fn.(*ssa.Function)
	case *ssa.Function:
		info.pred = f
	}
	if info.pred == nil || len(info.pred.Params) != 1 {
		return nil
	}
	info.key = p.Sym(info.pred.Params[0]).String()
	for _, b := range info.pred.Blocks {
		ret, isRet := b.Instrs[len(b.Instrs)-1].(*ssa.Return)
		if !isRet || b == info.pred.Recover {
			continue
		}
		if len(info.pred.Blocks) != 1 {
			info.conds = append(info.conds, nil)
			continue
		}
		info.conds = append(info.conds, p.NormCmp(ret.Results[0], true))
	}
	return info
}

// phiOnlyWith: every edge of ph is the append, ph itself or the start value.
func phiOnlyWith(ph *ssa.Phi, app *ssa.Call, start ssa.Value) bool {
	for _, e := range ph.Edges {
		if e == ssa.Value(app) || e == ssa.Value(ph) || e == start {
			continue
		}
		if ph2, ok := e.(*ssa.Phi); ok && ph2 != ph {
			okAll := true
			for _, e2 := range ph2.Edges {
				if !(e2 == ssa.Value(app) || e2 == ssa.Value(ph) || e2 == ssa.Value(ph2) || e2 == start) {
					okAll = false
				}
			}
			if okAll {
				continue
			}
		}
		return false
	}
	return true
}

func containsLen(cm *Cmp) bool {
	has := func(s *Sym) bool {
		return s != nil && s.Contains(func(x *Sym) bool { return x.Op == "call" && x.Name == "len" })
	}
	return has(cm.L) || has(cm.R)
}

// phiOnly: every edge of ph is the append, the truncation, ph itself or `other`.
func phiOnly(ph *ssa.Phi, app *ssa.Call, trunc *ssa.Slice, other *ssa.Phi) bool {
	for _, e := range ph.Edges {
		switch {
		case e == ssa.Value(app), e == ssa.Value(ph):
		case trunc != nil && e == ssa.Value(trunc):
		case other != nil && e == ssa.Value(other):
		default:
			if ph2, ok := e.(*ssa.Phi); ok && ph2 != ph {
				okAll := true
				for _, e2 := range ph2.Edges {
					if !(e2 == ssa.Value(app) || e2 == ssa.Value(ph) || e2 == ssa.Value(ph2) || (trunc != nil && e2 == ssa.Value(trunc))) {
						okAll = false
					}
				}
				if okAll {
					continue
				}
			}
			return false
		}
	}
	return true
}

var _ = token.ADD

// isRangeHeaderCmp: the comparison is a loop's own bound test - an ordering against len(<slice,
// array or map>), as the SSA builder emits for `range list` - and not a test of how many elements
// a channel holds at the moment (len(ch) == 0), which is a condition in its own right.
func isRangeHeaderCmp(cm *Cmp) bool {
	if cm == nil || cm.Op == token.EQL || cm.Op == token.NEQ {
		return false
	}
	lenOf := func(kind func(types.Type) bool) func(*Sym) bool {
		return func(x *Sym) bool {
			if x.Op != "call" || (x.Name != "len" && x.Name != "cap") || len(x.Args) != 1 {
				return false
			}
			v := x.Args[0].V
			return v != nil && kind(v.Type())
		}
	}
	isChan := func(t types.Type) bool { _, ok := t.Underlying().(*types.Chan); return ok }
	notChan := func(t types.Type) bool { return !isChan(t) }
	if cm.L.Contains(lenOf(isChan)) || cm.R.Contains(lenOf(isChan)) {
		return false
	}
	return cm.L.Contains(lenOf(notChan)) || cm.R.Contains(lenOf(notChan))
}
