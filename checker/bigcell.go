package main

import (
	"go/types"
	"strings"

	"golang.org/x/tools/go/ssa"
)

// math/big values are mutable cells: `z.Mul(x, y)` overwrites z and hands z back. The functional
// reading `Mul(_, x, y)` of the call's result is right only while every receiver is fresh
// (`new(big.Int).Mul(x, y)`); with an accumulator (`acc.Mul(acc, m); acc.Quo(acc, i)`) the value
// lives in the cell. bigResultSyms evaluates the cells of a helper in which all big.Int writes sit
// in one basic block that dominates every read, and renders what is returned in the functional
// form the recognisers know. Any other layout is not evaluated (ok=false).

func isBigIntPtr(t types.Type) bool {
	pt, ok := t.Underlying().(*types.Pointer)
	if !ok {
		return false
	}
	nt, ok := pt.Elem().(*types.Named)
	return ok && nt.Obj().Pkg() != nil && nt.Obj().Pkg().Path() == "math/big" && nt.Obj().Name() == "Int"
}

func (p *Prog) bigResultSyms(fn *ssa.Function, idx int) (out []*Sym, ok bool) {
	type bigCall struct {
		call    *ssa.Call
		mutator bool
	}
	var wblock *ssa.BasicBlock
	var readers []*ssa.Call
	isBigMethod := func(call *ssa.Call) (bool, bool) {
		cal := p.Callee(call)
		if cal == nil || cal.Signature.Recv() == nil || !isBigIntPtr(cal.Signature.Recv().Type()) {
			return false, false
		}
		res := cal.Signature.Results()
		return true, res.Len() >= 1 && isBigIntPtr(res.At(0).Type())
	}
	for _, b := range fn.Blocks {
		for _, in := range b.Instrs {
			call, isCall := in.(*ssa.Call)
			if !isCall {
				continue
			}
			isBig, mut := isBigMethod(call)
			if !isBig {
				continue
			}
			if mut {
				if wblock != nil && wblock != b {
					return nil, false
				}
				wblock = b
			} else {
				readers = append(readers, call)
			}
		}
	}
	if wblock == nil {
		return p.resultSyms(fn, idx), true
	}
	// evaluate the write block
	cell := map[ssa.Value]ssa.Value{} // value -> the cell it points to
	state := map[ssa.Value]*Sym{}
	cellOf := func(v ssa.Value) ssa.Value {
		if c, ok := cell[v]; ok {
			return c
		}
		return v
	}
	val := func(v ssa.Value) *Sym {
		if !isBigIntPtr(v.Type()) {
			return p.Sym(v)
		}
		if s, ok := state[cellOf(v)]; ok {
			return s
		}
		return p.Sym(v)
	}
	render := func(call *ssa.Call) *Sym {
		s := &Sym{Op: "call", Name: p.calleeName(&call.Call), V: call}
		for i, a := range call.Call.Args {
			if i == 0 {
				s.Args = append(s.Args, val(a))
				continue
			}
			s.Args = append(s.Args, val(a))
		}
		return s
	}
	readVal := map[*ssa.Call]*Sym{}
	for _, in := range wblock.Instrs {
		call, isCall := in.(*ssa.Call)
		if !isCall {
			continue
		}
		isBig, mut := isBigMethod(call)
		if !isBig {
			continue
		}
		if mut {
			recv := cellOf(call.Call.Args[0])
			s := render(call)
			state[recv] = s
			cell[call] = recv
		} else {
			readVal[call] = render(call)
		}
	}
	for _, rd := range readers {
		if rd.Block() == wblock {
			continue
		}
		if !wblock.Dominates(rd.Block()) {
			return nil, false
		}
		readVal[rd] = render(rd)
	}
	for _, b := range fn.Blocks {
		if b.Comment == "recover" {
			continue
		}
		ret, isRet := b.Instrs[len(b.Instrs)-1].(*ssa.Return)
		if !isRet {
			continue
		}
		vals := returnedValues(ret)
		if idx >= len(vals) {
			continue
		}
		v := vals[idx]
		base := v
		for {
			if cv, isConv := base.(*ssa.Convert); isConv {
				base = cv.X
				continue
			}
			break
		}
		if call, isCall := base.(*ssa.Call); isCall {
			if s, okr := readVal[call]; okr {
				out = append(out, s)
				continue
			}
		}
		out = append(out, p.Sym(v))
	}
	return out, true
}

var _ = strings.HasPrefix
