package main

import (
	"strings"

	"golang.org/x/tools/go/ssa"
)

func joinKey(jr *joinRoles, fn *ssa.Function, suffix string) string {
	k := jr.p.FnKey(fn)
	if suffix != "" {
		k += "#" + suffix
	}
	return k
}

// J3+J4: buffer typestate over the whole goroutine.
func checkJ34(c *Ctx, jr *joinRoles) {
	p := jr.p
	var p3, p4 []string
	emits := 0
	onEmit := func(fr *Frame, st string, v ssa.Value, where string) []string {
		if st == "stopped" {
			return nil
		}
		emits++
		pl := p.payloadOrigin(fr, v)
		if pl.sliced {
			p3 = append(p3, "payload sent at "+where+" is a slice expression ("+pl.detail+"), not the whole buffer / input slice")
		}
		switch pl.origin {
		case "B":
			if st == "emitted" {
				p4 = append(p4, "buffer is sent again at "+where+" without having been reset: elements are duplicated")
			}
			return []string{"emitted"}
		case "item":
			if st == "emitted" {
				p4 = append(p4, "input slice is forwarded at "+where+" while the sent buffer has not been reset")
			}
			return nil
		default:
			p3 = append(p3, "value sent at "+where+" is neither the accumulation buffer nor an input slice: "+pl.detail)
		}
		return nil
	}
	fl := &Flow{P: p}
	fl.Instr = func(fr *Frame, st string, in ssa.Instruction) []string {
		if v, ok := p.emitInstr(in); ok {
			return onEmit(fr, st, v, p.InstrPos(in))
		}
		if st == "stopped" {
			return nil
		}
		if p.isResetFr(fr, in) {
			if st == "clean" {
				p4 = append(p4, "buffer is reset at "+p.InstrPos(in)+" on a path where it was not sent: accumulated elements are discarded ["+fr.Chain(p)+"]")
			}
			return []string{"clean"}
		}
		if _, ok := p.ingestOfFr(fr, in); ok {
			if st == "emitted" {
				p4 = append(p4, "element ingested at "+p.InstrPos(in)+" after the buffer was sent and before it was reset: it is dropped by the reset (and modifies the delivered slice) ["+fr.Chain(p)+"]")
			}
			return nil
		}
		if st2, ok := p.fieldStoreFr(fr, in, "join"); ok {
			_ = st2
			p4 = append(p4, "UNDECIDED: write to the buffer at "+p.InstrPos(in)+" is neither an ingest nor a reset")
		}
		return nil
	}
	fl.Edge = func(fr *Frame, st string, from *ssa.BasicBlock, succ int) []string {
		if v, ok := p.emitEdge(from, succ); ok {
			return onEmit(fr, st, v, p.InstrPos(from.Instrs[len(from.Instrs)-1]))
		}
		if p.stopEdge(from, succ) {
			return []string{"stopped"}
		}
		if val, ok := p.unreleasedEdge(from, succ); ok && val {
			return []string{"stopped"} // v1: frozen after a stop clause set the flag (K2/K3)
		}
		return nil
	}
	fl.Exit = func(fr *Frame, st string, ret *ssa.Return) []string {
		if fr.Parent == nil && st == "emitted" {
			p4 = append(p4, "goroutine ends with the sent buffer not reset")
		}
		return nil
	}
	fl.Run(jr.entry, []string{"clean"})
	if emits == 0 {
		p3 = append(p3, "no output send reached from the goroutine entry")
	}
	c.R.Check(len(p3) == 0, "J3", jr.key, p.Pos(jr.emitFn.Pos()), "every payload is the whole buffer or a whole input slice", strings.Join(dedup(p3), "; "))
	c.R.Check(len(p4) == 0, "J4", jr.key, p.Pos(jr.entry.Pos()), "send(B) -> reset before any ingest or second send; no reset without send", strings.Join(dedup(p4), "; "))
}

func edgesOf(in ssa.Instruction) []CondEdge { return InstrDomEdges(in) }

func init() {
	register(&Property{
		ID:          "C03",
		Run:         func(c *Ctx) { runJoinProperty(c, "C03") },
		Explanation: "Join/unite integrity as an invariant preserved by every operation, decided as typestate automata over the events of the goroutine (input receive, append to the buffer, output send, truncation, release wait, stop clause) with every product callee inlined - which function a statement sits in is irrelevant: J1 every value received with ok=true is appended to the buffer or forwarded exactly once before the next receive, and nothing is taken after close; J2 an ingest appends the whole received value, a forward sends the whole slice; J3 every payload is the whole buffer or a whole input slice; J4 buffer typestate over the goroutine: send(B) is followed by reset before any ingest or second send and no reset happens without a send (v1: except after a stop clause); J5 the buffer is sent only under a valid len(B) != 0 fact, a slice is forwarded alone only under len >= JoinSize, the constructor rejects JoinSize 0; J6 after an ingest, before the next receive, the buffer is sent or a fresh len(B) < JoinSize holds; J7 unite fit facts: ingest only under len(item)+len(B) <= JoinSize or into the emptied buffer with len(item) < JoinSize, forward only big slices right after the buffer was emptied; J8 no path leaves a loop function with elements in the buffer (the final flush, deferred or explicit), and the entry's defer closes the output afterwards. Size facts are taken from comparison edges (conditions hidden in expression functions are expanded) and an edge contradicting the known facts is infeasible.",
		NotDecided:  []string{"timing is irrelevant to this property by construction"},
	})
	register(&Property{
		ID:          "C11",
		Run:         func(c *Ctx) { runJoinProperty(c, "C11") },
		Explanation: "Unite never splits an input slice: J1 (every received slice is ingested whole or forwarded whole, exactly once; end of input only by the closed flag), J2 (ingests and forwards are whole), J3 (payloads are whole), J4 (nothing is ingested between send and reset), J5 (no empty output; forward only for len >= JoinSize), J7 (the buffer is emptied before an ingest that would not fit; oversize slices are forwarded alone right after the buffer was emptied). Empty input slices: append(B, empty...) is a no-op and J5 prevents an empty send. All rules are typestate automata over events with callees inlined (see C03).",
		NotDecided:  []string{},
	})
}

func runJoinProperty(c *Ctx, id string) {
	r := c.R
	r.Doc("J0", "anchor resolution: the goroutine, its input receives and output sends (the rules are stated over events, not over functions)", 3)
	jrs := joinDiscs(c)
	switch id {
	case "C03":
		r.Doc("J1", "each value received with ok=true is ingested or forwarded exactly once before the next receive (all callees inlined); closed input observed; nothing is taken after close", 6)
		r.Doc("J2", "every ingest appends the whole received value, every forward sends the whole slice", 5)
		r.Doc("J3", "payloads are whole (no slice expressions), origin = buffer or input slice", 3)
		r.Doc("J4", "buffer typestate: send -> reset -> ingest; no reset without send", 3)
		r.Doc("J5", "the buffer is sent only under a valid len(B) != 0 fact; a slice is forwarded alone only under len >= JoinSize; ctor rejects JoinSize 0", 6)
		r.Doc("J6", "after an ingest, before the next receive: the buffer is sent or a fresh len(B) < JoinSize holds", 3)
		r.Doc("J7", "unite: fit facts at ingest and forward", 1)
		r.Doc("J8", "no path leaves a loop function with elements in the buffer (except after a stop clause); entry defers close(output)", 8)
		r.Doc("J9", "(= C08 K1, K2, K4) what was delivered is not written again: copy-mode payloads are clones, a no-copy buffer is reused only after the release", 6)
		for _, jr := range jrs {
			checkJ1(c, jr)
			checkJ2(c, jr)
			checkJ34(c, jr)
			checkJ5(c, jr)
			checkJ6(c, jr)
			checkJ7(c, jr)
			checkJ8(c, jr)
			joinHandOver(c, jr, "J9")
		}
		r.Doc("J13", "constructors refuse a configuration only on a missing / out-of-range test", 9)
		for _, jr := range jrs {
			checkCtorRefusals(c, jr.p, jr.d, "J13")
		}
		r.Doc("J12", "error tests of the constructors are not inverted (valid options give a running discipline, a failed validation is reported)", 6)
		checkErrorTests(c, c.V1, "J12", c.V1.errorFuncs("join"))
		checkErrorTests(c, c.V2, "J12", c.V2.errorFuncs("join", "join/unite"))
	case "C11":
		r.MinCount["J0"] = 1
		r.Doc("J2", "every ingest appends the whole received slice, every forward sends the whole slice", 2)
		r.Doc("J3", "payloads are whole", 1)
		r.Doc("J4", "buffer typestate", 1)
		r.Doc("J5", "non-empty sends; forward only len >= JoinSize", 2)
		r.Doc("J7", "unite: fit facts at ingest and forward", 1)
		r.Doc("J1", "each received slice is ingested or forwarded exactly once; end of input is recognised by the closed flag only (an empty or nil slice is data)", 2)
		r.Doc("J9", "(= C08 K1, K2, K4) what was delivered is not written again: copy-mode payloads are clones, a no-copy buffer is reused only after the release", 2)
		for _, jr := range jrs {
			if !jr.unite {
				continue
			}
			checkJ1(c, jr)
			checkJ2(c, jr)
			checkJ34(c, jr)
			checkJ5(c, jr)
			checkJ7(c, jr)
			joinHandOver(c, jr, "J9")
		}
	}
}

// joinHandOver (C03/J9, C11/J9 = C08 K1, K2, K4): a delivered slice that still shares memory with
// the buffer is overwritten by the elements accepted next - for its holder an input element
// vanishes from one output slice and shows up in another.
func joinHandOver(c *Ctx, jr *joinRoles, rule string) {
	sub := &Ctx{V1: c.V1, V2: c.V2, Tier: c.Tier, R: NewReport("tmp", c.Tier)}
	checkK1(sub, jr)
	checkK2(sub, jr)
	checkK4(sub, jr)
	for _, o := range sub.R.Obls {
		c.R.Check(o.OK, rule, o.Key, o.Site, o.Detail, o.Detail)
	}
}
