package main

import (
	"fmt"
	"go/token"
	"strings"

	"golang.org/x/tools/go/ssa"
)

func joinKey(jr *joinRoles, fn *ssa.Function, suffix string) string {
	k := jr.p.FnKey(fn)
	if suffix != "" {
		k += "#" + suffix
	}
	return k
}

// J1: each received value reaches exactly one call of the accept function.
func checkJ1(c *Ctx, jr *joinRoles) {
	p := jr.p
	for _, fn := range jr.loops {
		cfg := &ItemFlowConfig{
			P:        p,
			IsSource: func(rs *RecvSite) bool { return p.chanRole(rs.Chan) == "field:opts.Input" },
			SinkCall: func(fr *Frame, call ssa.CallInstruction) (bool, ssa.Value) {
				if p.Callee(call) == jr.accept && len(call.Common().Args) >= 2 {
					return true, call.Common().Args[1]
				}
				return false, nil
			},
			StopEdge: func(fr *Frame, from *ssa.BasicBlock, succ int) bool { return p.stopEdge(from, succ) },
		}
		res := RunItemFlow(cfg, fn)
		c.R.Check(len(res.Problems) == 0 && res.Sources > 0, "J1", joinKey(jr, fn, ""), p.Pos(fn.Pos()),
			fmt.Sprintf("%d receive site(s), each value handed to %s exactly once; closed => no hand-over", res.Sources, jr.accept.Name()), strings.Join(res.Problems, "; "))
		// the closed edge must leave the loop (also C19/G4): reuse loopCheck with closed-edge exits
		for _, rs := range p.RecvSites(fn) {
			if p.chanRole(rs.Chan) != "field:opts.Input" {
				continue
			}
			if rs.Ok == nil {
				c.R.Fail("J1", joinKey(jr, fn, "closed"), rs.Pos(p), "input receive does not observe the closed state")
			}
		}
	}
}

// J2: accept function ingests the whole parameter exactly once (unite: or forwards it whole), never both.
func checkJ2(c *Ctx, jr *joinRoles) {
	p := jr.p
	fn := jr.accept
	var problems []string
	itemParam := fn.Params[len(fn.Params)-1]
	isItem := func(fr *Frame, v ssa.Value) bool {
		v = stripChangeType(v)
		r, _ := fr.Resolve(v)
		return stripChangeType(r) == ssa.Value(itemParam)
	}
	bump := func(st string) []string {
		switch st {
		case "0":
			return []string{"1"}
		case "1", "2":
			return []string{"2"}
		}
		return nil
	}
	fl := &Flow{P: p}
	fl.Instr = func(fr *Frame, st string, in ssa.Instruction) []string {
		if st == "X" {
			return nil
		}
		if src, ok := p.ingestOf(in); ok {
			if jr.unite {
				if !isItem(fr, src) {
					problems = append(problems, fmt.Sprintf("ingest at %s appends %s, not the whole input slice", p.InstrPos(in), p.SymFrame(fr, src)))
					return nil
				}
			} else {
				el, okv := varargsElem(src)
				if !okv || !isItem(fr, el) {
					problems = append(problems, fmt.Sprintf("ingest at %s appends %s, not exactly the received element", p.InstrPos(in), p.SymFrame(fr, src)))
					return nil
				}
			}
			return bump(st)
		}
		if v, ok := p.emitInstr(in); ok {
			pl := p.payloadOrigin(fr, v)
			if pl.origin == "item" && pl.root == ssa.Value(itemParam) {
				if pl.sliced {
					problems = append(problems, "forward at "+p.InstrPos(in)+" sends a sub-slice of the input slice")
				}
				return bump(st)
			}
		}
		return nil
	}
	fl.Edge = func(fr *Frame, st string, from *ssa.BasicBlock, succ int) []string {
		if st == "X" {
			return nil
		}
		if v, ok := p.emitEdge(from, succ); ok {
			pl := p.payloadOrigin(fr, v)
			if pl.origin == "item" && pl.root == ssa.Value(itemParam) {
				return bump(st)
			}
		}
		if p.stopEdge(from, succ) {
			return []string{"X"}
		}
		if val, ok := p.unreleasedEdge(from, succ); ok && val {
			return []string{"X"}
		}
		return nil
	}
	fl.Exit = func(fr *Frame, st string, ret *ssa.Return) []string {
		if fr.Parent != nil {
			return nil
		}
		switch st {
		case "0":
			problems = append(problems, "a path returning at "+p.InstrPos(ret)+" neither ingests nor forwards the received value: it is lost")
		case "2":
			problems = append(problems, "a path returning at "+p.InstrPos(ret)+" ingests/forwards the received value more than once: it is duplicated")
		}
		return nil
	}
	fl.Run(fn, []string{"0"})
	c.R.Check(len(problems) == 0, "J2", joinKey(jr, fn, ""), p.Pos(fn.Pos()), "exactly one whole ingest (or whole forward) per received value", strings.Join(dedup(problems), "; "))
}

// J3+J4: buffer typestate over the whole goroutine.
func checkJ34(c *Ctx, jr *joinRoles) {
	p := jr.p
	var p3, p4 []string
	emits := 0
	onEmit := func(fr *Frame, st string, v ssa.Value, where string) []string {
		if st == "stopped" {
			return nil
		}
		emits++
		pl := p.payloadOrigin(fr, v)
		if pl.sliced {
			p3 = append(p3, "payload sent at "+where+" is a slice expression ("+pl.detail+"), not the whole buffer / input slice")
		}
		switch pl.origin {
		case "B":
			if st == "emitted" {
				p4 = append(p4, "buffer is sent again at "+where+" without having been reset: elements are duplicated")
			}
			return []string{"emitted"}
		case "item":
			if st == "emitted" {
				p4 = append(p4, "input slice is forwarded at "+where+" while the sent buffer has not been reset")
			}
			return nil
		default:
			p3 = append(p3, "value sent at "+where+" is neither the accumulation buffer nor an input slice: "+pl.detail)
		}
		return nil
	}
	fl := &Flow{P: p}
	fl.Instr = func(fr *Frame, st string, in ssa.Instruction) []string {
		if v, ok := p.emitInstr(in); ok {
			return onEmit(fr, st, v, p.InstrPos(in))
		}
		if st == "stopped" {
			return nil
		}
		if p.isReset(in) {
			if st == "clean" {
				p4 = append(p4, "buffer is reset at "+p.InstrPos(in)+" on a path where it was not sent: accumulated elements are discarded ["+fr.Chain(p)+"]")
			}
			return []string{"clean"}
		}
		if _, ok := p.ingestOf(in); ok {
			if st == "emitted" {
				p4 = append(p4, "element ingested at "+p.InstrPos(in)+" after the buffer was sent and before it was reset: it is dropped by the reset (and modifies the delivered slice) ["+fr.Chain(p)+"]")
			}
			return nil
		}
		if st2, ok := fieldStore(in, "join"); ok {
			_ = st2
			p4 = append(p4, "UNDECIDED: write to the buffer at "+p.InstrPos(in)+" is neither an ingest nor a reset")
		}
		return nil
	}
	fl.Edge = func(fr *Frame, st string, from *ssa.BasicBlock, succ int) []string {
		if v, ok := p.emitEdge(from, succ); ok {
			return onEmit(fr, st, v, p.InstrPos(from.Instrs[len(from.Instrs)-1]))
		}
		if p.stopEdge(from, succ) {
			return []string{"stopped"}
		}
		if val, ok := p.unreleasedEdge(from, succ); ok && val {
			return []string{"stopped"} // v1: frozen after a stop clause set the flag (K2/K3)
		}
		return nil
	}
	fl.Exit = func(fr *Frame, st string, ret *ssa.Return) []string {
		if fr.Parent == nil && st == "emitted" {
			p4 = append(p4, "goroutine ends with the sent buffer not reset")
		}
		return nil
	}
	fl.Run(jr.entry, []string{"clean"})
	if emits == 0 {
		p3 = append(p3, "no output send reached from the goroutine entry")
	}
	c.R.Check(len(p3) == 0, "J3", jr.key, p.Pos(jr.emitFn.Pos()), "every payload is the whole buffer or a whole input slice", strings.Join(dedup(p3), "; "))
	c.R.Check(len(p4) == 0, "J4", jr.key, p.Pos(jr.flush.Pos()), "send(B) -> reset before any ingest or second send; no reset without send", strings.Join(dedup(p4), "; "))
}

func edgesOf(in ssa.Instruction) []CondEdge { return InstrDomEdges(in) }

// J5: emit(B) under len(B) != 0; forward under len(item) >= JoinSize; ctor rejects JoinSize 0.
func checkJ5(c *Ctx, jr *joinRoles) {
	p := jr.p
	n := 0
	for _, fn := range jr.rt.Funcs {
		for _, b := range fn.Blocks {
			for _, in := range b.Instrs {
				call, ok := in.(*ssa.Call)
				if !ok || p.Callee(call) != jr.emitFn {
					continue
				}
				n++
				arg := call.Call.Args[1]
				if p.isFieldLoad(arg, "join") {
					ok := false
					for _, e := range edgesOf(call) {
						t := p.termCmpOnEdge(e)
						if t == nil {
							continue
						}
						if t.impliesLess("0", "lenB", true) || (t.Op == token.NEQ && t.K == 0 && ((t.L == "lenB" && t.R == "0") || (t.L == "0" && t.R == "lenB"))) {
							ok = true
						}
					}
					c.R.Check(ok, "J5", joinKey(jr, fn, fmt.Sprintf("emit.%d", n)), p.InstrPos(call), "buffer sent only when non-empty", "the buffer can be sent while empty: an empty output slice is produced")
				} else {
					// forward of a parameter: the caller's guard
					for _, cs := range p.CallSites(fn) {
						ok := false
						for _, e := range edgesOf(cs) {
							if t := p.termCmpOnEdge(e); t.impliesLess("JS", "lenItem", false) {
								ok = true
							}
						}
						c.R.Check(ok, "J5", joinKey(jr, cs.Parent(), "forward"), p.InstrPos(cs), "input slice forwarded alone only when len >= JoinSize", "an input slice shorter than JoinSize can be forwarded on its own (possibly empty)")
					}
				}
			}
		}
	}
	// constructor
	found := false
	for _, ctor := range jr.d.Ctors {
		for fn := range p.Reach(ctor) {
			for _, b := range fn.Blocks {
				iff, ok := b.Instrs[len(b.Instrs)-1].(*ssa.If)
				if !ok {
					continue
				}
				cm := p.NormCmp(iff.Cond, true)
				if cm == nil {
					continue
				}
				l, r := deepStrip(cm.L), deepStrip(cm.R)
				isJS := func(s *Sym) bool {
					_, path, ok := s.FieldPath()
					return ok && path[len(path)-1] == "JoinSize"
				}
				zero := func(s *Sym, k int64) bool { return s.String() == "0" && k == 0 }
				if cm.Op == token.EQL && ((isJS(l) && zero(r, cm.RC)) || (isJS(r) && zero(l, cm.LC))) {
					if ret, ok := b.Succs[0].Instrs[len(b.Succs[0].Instrs)-1].(*ssa.Return); ok && !isNilConst(ret.Results[len(ret.Results)-1]) {
						found = true
					}
				}
			}
		}
	}
	c.R.Check(found, "J5", jr.key+"#ctor", p.Pos(jr.d.Ctors[0].Pos()), "constructor rejects JoinSize == 0", "constructor does not reject JoinSize == 0 (then every slice, even an empty one, counts as full)")
}

// J6: after an ingest the accept function either flushes or leaves under len(B) < JoinSize.
func checkJ6(c *Ctx, jr *joinRoles) {
	p := jr.p
	fn := jr.accept
	var ingests []ssa.Instruction
	for _, b := range fn.Blocks {
		for _, in := range b.Instrs {
			if _, ok := p.ingestOf(in); ok {
				ingests = append(ingests, in)
			}
		}
	}
	if len(ingests) == 0 {
		c.R.Fail("J6", joinKey(jr, fn, ""), p.Pos(fn.Pos()), "UNRESOLVED-ANCHOR: accept function has no ingest of the buffer")
		return
	}
	for i, ing := range ingests {
		var problems []string
		fl := &Flow{P: p, ContextInsensitive: true}
		fl.Instr = func(fr *Frame, st string, in ssa.Instruction) []string {
			if in == ing {
				return []string{"pending"}
			}
			return nil
		}
		fl.Call = func(fr *Frame, st string, call ssa.CallInstruction, deferred bool) (bool, []string) {
			if p.Callee(call) == jr.flush {
				if st == "pending" {
					return true, []string{"ok"}
				}
				return true, []string{st}
			}
			return false, nil
		}
		fl.Edge = func(fr *Frame, st string, from *ssa.BasicBlock, succ int) []string {
			if st != "pending" || from.Parent() != fn {
				return nil
			}
			e := CondEdge{from, succ}
			if t := p.termCmpOnEdge(e); t.impliesLess("lenB", "JS", true) {
				// the length must have been read after the ingest
				iff := from.Instrs[len(from.Instrs)-1].(*ssa.If)
				fresh := true
				var visit func(v ssa.Value)
				seen := map[ssa.Value]bool{}
				visit = func(v ssa.Value) {
					if v == nil || seen[v] {
						return
					}
					seen[v] = true
					if ld, ok := v.(*ssa.UnOp); ok && ld.Op == token.MUL && p.isFieldLoad(ld, "join") {
						if !instrDominates(ing, ld) {
							fresh = false
						}
						return
					}
					if in, ok := v.(ssa.Instruction); ok {
						for _, op := range in.Operands(nil) {
							visit(*op)
						}
					}
				}
				visit(iff.Cond)
				if fresh {
					return []string{"ok"}
				}
			}
			if p.stopEdge(from, succ) {
				return []string{"ok"}
			}
			return nil
		}
		fl.Exit = func(fr *Frame, st string, ret *ssa.Return) []string {
			if fr.Parent == nil && st == "pending" {
				problems = append(problems, "after the ingest a path returns at "+p.InstrPos(ret)+" without flushing and without having established len(buffer) < JoinSize: the buffer can grow beyond JoinSize")
			}
			return nil
		}
		fl.Run(fn, []string{"idle"})
		c.R.Check(len(problems) == 0, "J6", joinKey(jr, fn, fmt.Sprintf("ingest.%d", i+1)), p.InstrPos(ing), "flush, or leave under len(B) < JoinSize", strings.Join(dedup(problems), "; "))
	}
}

// J7 (unite): fit facts at the ingest and the forward.
func checkJ7(c *Ctx, jr *joinRoles) {
	if !jr.unite {
		return
	}
	p := jr.p
	fn := jr.accept
	var problems []string
	has := func(st, f string) bool { return strings.Contains(","+st+",", ","+f+",") }
	add := func(st string, fs ...string) string {
		m := map[string]bool{}
		for _, x := range strings.Split(st, ",") {
			if x != "" {
				m[x] = true
			}
		}
		for _, f := range fs {
			m[f] = true
		}
		return strings.Join(sortedKeys(m), ",")
	}
	del := func(st string, fs ...string) string {
		m := map[string]bool{}
		for _, x := range strings.Split(st, ",") {
			if x != "" {
				m[x] = true
			}
		}
		for _, f := range fs {
			delete(m, f)
		}
		return strings.Join(sortedKeys(m), ",")
	}
	ingests, forwards := 0, 0
	fl := &Flow{P: p, ContextInsensitive: true}
	fl.Instr = func(fr *Frame, st string, in ssa.Instruction) []string {
		if fr.Parent != nil {
			return nil
		}
		if _, ok := p.ingestOf(in); ok {
			ingests++
			if !(has(st, "fits") || (has(st, "empty") && (has(st, "small") || has(st, "le")))) {
				problems = append(problems, fmt.Sprintf("ingest at %s is reached without len(item)+len(buffer) <= JoinSize being established (known: %q): the output slice can exceed JoinSize or an input slice is split", p.InstrPos(in), st))
			}
			return []string{del(st, "fits", "empty")}
		}
		return nil
	}
	fl.Call = func(fr *Frame, st string, call ssa.CallInstruction, deferred bool) (bool, []string) {
		if fr.Parent != nil {
			return false, nil
		}
		switch p.Callee(call) {
		case jr.flush:
			return true, []string{add(st, "empty")}
		case jr.forward:
			forwards++
			if !has(st, "big") {
				problems = append(problems, "forward at "+p.InstrPos(call)+" is not restricted to slices of at least JoinSize elements")
			}
			if !has(st, "empty") {
				problems = append(problems, "forward at "+p.InstrPos(call)+" is not preceded by a flush of the buffer: the oversize slice overtakes earlier elements")
			}
			return true, []string{st}
		}
		return false, nil
	}
	fl.Edge = func(fr *Frame, st string, from *ssa.BasicBlock, succ int) []string {
		if fr.Parent != nil {
			return nil
		}
		t := p.termCmpOnEdge(CondEdge{from, succ})
		if t == nil {
			return nil
		}
		out := st
		if t.impliesLess("lenItem", "JS", true) {
			out = add(out, "small")
		}
		if t.impliesLess("lenItem", "JS", false) {
			out = add(out, "le")
		}
		if t.impliesLess("JS", "lenItem", false) {
			out = add(out, "big")
		}
		if t.impliesLess("lenB+lenItem", "JS", false) && !has(st, "dirty") {
			out = add(out, "fits")
		}
		return []string{out}
	}
	fl.Run(fn, []string{""})
	if ingests == 0 || forwards == 0 {
		problems = append(problems, fmt.Sprintf("UNRESOLVED-ANCHOR: %d ingests and %d forwards found in the accept function", ingests, forwards))
	}
	c.R.Check(len(problems) == 0, "J7", joinKey(jr, fn, ""), p.Pos(fn.Pos()), "ingest only when the whole slice fits (or after a flush with a small slice); forward only big slices after a flush", strings.Join(dedup(problems), "; "))
}

// J8: loop functions defer the flush before reading anything.
func checkJ8(c *Ctx, jr *joinRoles) {
	p := jr.p
	for _, fn := range jr.loops {
		ok := false
		for _, in := range fn.Blocks[0].Instrs {
			if df, isD := in.(*ssa.Defer); isD && p.Callee(df) == jr.flush {
				ok = true
				break
			}
			if _, isSel := in.(*ssa.Select); isSel {
				break
			}
			if u, isU := in.(*ssa.UnOp); isU && u.Op == token.ARROW {
				break
			}
		}
		c.R.Check(ok, "J8", joinKey(jr, fn, ""), p.Pos(fn.Pos()), "flush deferred before the first receive", "the accumulated tail is not flushed on every exit of the loop function (no unconditional deferred flush): elements are lost at end of input")
	}
	order, okd := DeferRunOrder(jr.entry)
	closes := false
	for _, df := range order {
		if k, a := p.deferKind(df); k == "close" && a == "field:output" {
			closes = true
		}
	}
	c.R.Check(okd && closes, "J8", joinKey(jr, jr.entry, "close"), p.Pos(jr.entry.Pos()), "output closed by the entry's defer, after the loop function (and its deferred flush) returned", "output is not closed by an unconditional defer of the goroutine entry")
}

func init() {
	register(&Property{
		ID:  "C03",
		Run: func(c *Ctx) { runJoinProperty(c, "C03") },
		Explanation: "Join/unite integrity as an invariant preserved by every operation: J1 every value received with ok=true is handed to the accept function exactly once and nothing is handed over after close; J2 the accept function ingests the whole value exactly once (unite: or forwards the whole slice), never both, never a part; J3 every payload is the whole buffer or a whole input slice; J4 buffer typestate over the goroutine: send(B) is followed by reset before any ingest or second send and no reset happens without a send (v1: except after a stop clause); J5 the buffer is sent only when non-empty, a slice is forwarded alone only when len >= JoinSize, the constructor rejects JoinSize 0; J6 after an ingest the function flushes or leaves under len(B) < JoinSize (length read after the ingest); J7 unite fit facts: ingest only under len(item)+len(B) <= JoinSize or after a flush with len(item) < JoinSize, forward only big slices right after a flush; J8 the loop functions defer the flush first and the entry's defer closes the output afterwards.",
		NotDecided: []string{"timing is irrelevant to this property by construction"},
	})
	register(&Property{
		ID:  "C11",
		Run: func(c *Ctx) { runJoinProperty(c, "C11") },
		Explanation: "Unite never splits an input slice: J2 (whole-slice ingest or whole forward, exactly one of them), J3 (payloads are whole), J4 (nothing is ingested between send and reset), J5 (no empty output; forward only for len >= JoinSize), J7 (flush before an ingest that would not fit; oversize slices are forwarded alone right after a flush). Empty input slices: append(B, empty...) is a no-op and J5 prevents an empty send.",
		NotDecided: []string{},
	})
}

func runJoinProperty(c *Ctx, id string) {
	r := c.R
	r.Doc("J0", "role resolution by effect: loop functions, accept, flush, emit, forward, timeout predicate", 3)
	jrs := joinDiscs(c)
	switch id {
	case "C03":
		r.Doc("J1", "each received value handed to the accept function exactly once; closed input observed", 6)
		r.Doc("J2", "accept: exactly one whole ingest or whole forward", 3)
		r.Doc("J3", "payloads are whole (no slice expressions), origin = buffer or input slice", 3)
		r.Doc("J4", "buffer typestate: send -> reset -> ingest; no reset without send", 3)
		r.Doc("J5", "non-empty sends; forward only len >= JoinSize; ctor rejects JoinSize 0", 7)
		r.Doc("J6", "after ingest: flush or leave under len(B) < JoinSize", 3)
		r.Doc("J7", "unite: fit facts at ingest and forward", 1)
		r.Doc("J8", "deferred flush first in loop functions; entry defers close(output)", 9)
		for _, jr := range jrs {
			checkJ1(c, jr)
			checkJ2(c, jr)
			checkJ34(c, jr)
			checkJ5(c, jr)
			checkJ6(c, jr)
			checkJ7(c, jr)
			checkJ8(c, jr)
		}
	case "C11":
		r.MinCount["J0"] = 1
		r.Doc("J2", "accept: exactly one whole ingest or whole forward", 1)
		r.Doc("J3", "payloads are whole", 1)
		r.Doc("J4", "buffer typestate", 1)
		r.Doc("J5", "non-empty sends; forward only len >= JoinSize", 2)
		r.Doc("J7", "unite: fit facts at ingest and forward", 1)
		r.Doc("J1", "each received slice handed to the accept function exactly once; end of input is recognised by the closed flag only (an empty or nil slice is data)", 2)
		for _, jr := range jrs {
			if !jr.unite {
				continue
			}
			checkJ1(c, jr)
			checkJ2(c, jr)
			checkJ34(c, jr)
			checkJ5(c, jr)
			checkJ7(c, jr)
		}
	}
}
