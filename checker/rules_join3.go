package main

import (
	"fmt"
	"go/token"
	"go/types"
	"strings"

	"golang.org/x/tools/go/ssa"
)

func init() {
	register(&Property{
		ID:          "C08",
		Run:         runC08,
		Explanation: "Ownership of delivered slices: K1 in copy mode every payload is a fresh slices.Clone of the whole buffer / input slice with no other use (mode taken from the dominating test of NoCopy / Released != nil, also when the flag reaches a helper as an argument; a payload built without a mode test must be a clone); K2 under the no-copy assumption (edges contradicting it are pruned) after an output send the release is received (v1: or the buffer is frozen by unreleased = true in a stop clause) before the buffer is touched, anything else is sent, or the next receive - a typestate over events with callees inlined; K3 (v1) every ingest / reset / send of the buffer happens under a `!unreleased` test with no setter since; K4 the accumulation buffer has no second reference: each load of it flows only to append-into-itself, len/cap, reslice-into-itself, clone, or the output; K5 unite never writes through a received input slice (followed through the parameters it is passed to).",
		NotDecided:  []string{"what the consumer does with the slice (contract)"},
	})
	register(&Property{
		ID:          "C09",
		Run:         runC09,
		Explanation: "A slice is cut short only by timeout or end of input (structure; typestate over events with callees inlined): M1 every send of the buffer happens under (a) a fact implying len(B) >= JoinSize, (b) the ticker clause with the timeout test answered true, (c) end of input (closed input observed, or the loop function running its defers), and for unite (d) an oversize input slice or (e) one that would not fit; M2 interruptInterval == 0 selects the loop without ticker (either branch polarity); T2 after a send passAt is re-set before the next receive; T4 every timeout test is time.Since(passAt) >= Timeout; T1 passAt is set by the constructor and otherwise only after a send, in the ticker clause or at the end; J6/J7 greedy batching as in C03.",
		NotDecided:  []string{"the real-time clause beyond 'the comparison is against the full Timeout measured from the reset after the previous emission'"},
	})
	register(&Property{
		ID:          "C10",
		Run:         runC10,
		Explanation: "Bounded waiting (necessary structure only; typestate over events with callees inlined): T1 passAt is set by the constructor (the first timeout counts from creation) and otherwise only after a send, in the ticker clause or at the end - never on a path that only accepted an element (a per-element reset postpones the flush forever under a steady trickle); T3 in the ticker clause the timeout is tested and after a true answer the buffer is sent (or is empty) before the next select; T4 every timeout test is exactly time.Since(passAt) >= Timeout; T5 the ticker period is interruptInterval = Timeout/(100/TimeoutInaccuracy) computed from the normalised options (helpers that compute a part of it are expanded), with zero inaccuracy / zero divider / zero period rejected, and a Reset re-arms with the same value; T6 the ticker clause and the input clause are in one blocking select, and every other receive from the input reachable from the timed loop also watches the ticker.",
		NotDecided:  []string{"the bound Timeout*(1+1/floor(100/inaccuracy)) in real time"},
	})
}

// ---------------------------------------------------------------- C08

func runC08(c *Ctx) {
	r := c.R
	r.Doc("J0", "role resolution", 3)
	r.Doc("K1", "copy mode: payload is a fresh whole clone with no other use", 3)
	r.Doc("K2", "no-copy: after a send the release is received (v1: or `unreleased` set on stop) before the buffer is touched, anything else is sent, or the next receive", 5)
	r.Doc("K3", "v1: ingest/reset/send of the buffer only under a `!unreleased` test with no setter since", 3)
	r.Doc("K4", "the buffer has no second reference: it flows only to append/len/reslice/output", 3)
	r.Doc("K5", "unite never writes through a received input slice", 1)
	// K6 (= H10 on the join disciplines): the methods that freeze / empty / fill the buffer work on
	// the discipline itself, not on a copy (a value-receiver `freeze()` sets `unreleased` on a copy:
	// after a stop the buffer the consumer still holds is appended to and sent again)
	r.Doc("K6", "(= C20 H10) every method of a join discipline has a pointer receiver: state changes (unreleased, the buffer) are made to the discipline, not to a copy", 30)
	for _, p := range []*Prog{c.V1, c.V2} {
		checkPointerReceivers(c, p, "K6", func(d *Disc) bool { return strings.HasPrefix(d.Rel, "join") })
	}
	for _, jr := range joinDiscs(c) {
		checkK1(c, jr)
		checkK2(c, jr)
		if jr.v1 {
			checkK3(c, jr)
		}
		checkK4(c, jr)
		if jr.unite {
			checkK5(c, jr)
		}
	}
}

// payloadForm is one way the value sent on the output can have been produced.
type payloadForm struct {
	origin string // "B", "item", "other"
	cloned bool
	mode   string // "nocopy", "copy" or "" (no mode test on the way)
	detail string
	clone  *ssa.Call
}

// payloadForms walks the sent value back through helper returns, phis and - when it reaches a
// parameter - through every call site of the enclosing function, collecting for each path whether
// a clone was made and which copy/no-copy mode test dominated the steps on the way.
func (p *Prog) payloadForms(fn *ssa.Function, v ssa.Value, mode string, cloned bool, clone *ssa.Call, depth int, out *[]payloadForm) {
	if depth > 12 {
		*out = append(*out, payloadForm{origin: "other", detail: "too deep"})
		return
	}
	pick := func(m string, b *ssa.BasicBlock) string {
		if m != "" {
			return m
		}
		return p.modeOf(b)
	}
	v = stripChangeType(v)
	switch x := v.(type) {
	case *ssa.Parameter:
		sites := p.CallSites(fn)
		if len(sites) == 0 {
			*out = append(*out, payloadForm{origin: "item", cloned: cloned, mode: mode, clone: clone})
			return
		}
		idx := paramIndex(fn, x)
		for _, cs := range sites {
			p.payloadForms(cs.Parent(), cs.Common().Args[idx], pick(mode, cs.Block()), cloned, clone, depth+1, out)
		}
	case *ssa.Extract:
		*out = append(*out, payloadForm{origin: "item", cloned: cloned, mode: mode, clone: clone})
	case *ssa.Slice:
		*out = append(*out, payloadForm{origin: "other", detail: "slice expression " + p.Sym(x).String()})
	case *ssa.Phi:
		for i, e := range x.Edges {
			pred := x.Block().Preds[i]
			m := mode
			if m == "" {
				m = p.modeOf(pred)
				for k, s := range pred.Succs {
					if s == x.Block() {
						if nc, ok := p.modeEdge(CondEdge{pred, k}); ok {
							m = map[bool]string{true: "nocopy", false: "copy"}[nc]
						}
					}
				}
			}
			p.payloadForms(fn, e, m, cloned, clone, depth+1, out)
		}
	case *ssa.UnOp:
		if x.Op == token.MUL && p.isFieldLoad(x, "join") {
			*out = append(*out, payloadForm{origin: "B", cloned: cloned, mode: mode, clone: clone})
			return
		}
		if x.Op == token.MUL {
			if al, ok := x.X.(*ssa.Alloc); ok {
				for _, r := range *al.Referrers() {
					if st, ok := r.(*ssa.Store); ok && st.Addr == al {
						p.payloadForms(fn, st.Val, pick(mode, st.Block()), cloned, clone, depth+1, out)
					}
				}
				return
			}
		}
		*out = append(*out, payloadForm{origin: "other", detail: p.Sym(x).String()})
	case *ssa.Call:
		callee := p.Callee(x)
		if callee != nil && callee.String() == "slices.Clone" {
			p.payloadForms(fn, x.Call.Args[0], mode, true, x, depth+1, out)
			return
		}
		if bi, ok := x.Call.Value.(*ssa.Builtin); ok && bi.Name() == "append" && len(x.Call.Args) == 2 {
			fresh := isNilConst(x.Call.Args[0])
			if ms, ok := x.Call.Args[0].(*ssa.MakeSlice); ok {
				if k, isK := constDuration(ms.Len); isK && k == 0 {
					fresh = true
				}
			}
			if fresh {
				p.payloadForms(fn, x.Call.Args[1], mode, true, x, depth+1, out)
				return
			}
		}
		if callee != nil && p.IsProduct(callee) {
			for _, b := range callee.Blocks {
				ret, ok := b.Instrs[len(b.Instrs)-1].(*ssa.Return)
				if !ok || b.Comment == "recover" || len(ret.Results) != 1 {
					continue
				}
				rv := stripChangeType(ret.Results[0])
				m := pick(mode, b)
				if par, isPar := rv.(*ssa.Parameter); isPar {
					// the helper hands its argument back: continue with the argument in this frame
					p.payloadForms(fn, x.Call.Args[paramIndex(callee, par)], m, cloned, clone, depth+1, out)
					continue
				}
				// values computed inside the helper (e.g. Clone(param)): resolve its parameters here
				var inner []payloadForm
				p.payloadFormsIn(callee, x, fn, rv, m, cloned, clone, depth+1, &inner)
				*out = append(*out, inner...)
			}
			return
		}
		*out = append(*out, payloadForm{origin: "other", detail: p.Sym(x).String()})
	default:
		*out = append(*out, payloadForm{origin: "other", detail: p.Sym(v).String()})
	}
}

// payloadFormsIn evaluates v inside callee (called at `site` in caller); parameters of the callee
// are continued with the arguments of that call.
func (p *Prog) payloadFormsIn(callee *ssa.Function, site *ssa.Call, caller *ssa.Function, v ssa.Value, mode string, cloned bool, clone *ssa.Call, depth int, out *[]payloadForm) {
	v = stripChangeType(v)
	if par, ok := v.(*ssa.Parameter); ok && par.Parent() == callee {
		p.payloadForms(caller, site.Call.Args[paramIndex(callee, par)], mode, cloned, clone, depth+1, out)
		return
	}
	if call, ok := v.(*ssa.Call); ok {
		cal := p.Callee(call)
		if cal != nil && cal.String() == "slices.Clone" {
			p.payloadFormsIn(callee, site, caller, call.Call.Args[0], mode, true, call, depth+1, out)
			return
		}
		if bi, isB := call.Call.Value.(*ssa.Builtin); isB && bi.Name() == "append" && len(call.Call.Args) == 2 {
			fresh := isNilConst(call.Call.Args[0])
			if ms, isMS := call.Call.Args[0].(*ssa.MakeSlice); isMS {
				if k, isK := constDuration(ms.Len); isK && k == 0 {
					fresh = true
				}
			}
			if fresh {
				p.payloadFormsIn(callee, site, caller, call.Call.Args[1], mode, true, call, depth+1, out)
				return
			}
		}
	}
	if ph, ok := v.(*ssa.Phi); ok {
		for _, e := range ph.Edges {
			p.payloadFormsIn(callee, site, caller, e, mode, cloned, clone, depth+1, out)
		}
		return
	}
	if ld, ok := v.(*ssa.UnOp); ok && ld.Op == token.MUL && p.isFieldLoad(ld, "join") {
		// the helper reads the accumulation buffer itself instead of being handed it
		*out = append(*out, payloadForm{origin: "B", cloned: cloned, mode: mode, clone: clone})
		return
	}
	*out = append(*out, payloadForm{origin: "other", detail: p.Sym(v).String()})
}

func checkK1(c *Ctx, jr *joinRoles) {
	p := jr.p
	n := 0
	for _, ss := range jr.emitSites {
		n++
		var problems []string
		var forms []payloadForm
		p.payloadForms(ss.Fn, ss.Val, p.modeOf(ss.In.Block()), false, nil, 0, &forms)
		for _, f := range forms {
			if f.origin == "other" {
				problems = append(problems, "UNDECIDED: payload origin "+f.detail)
				continue
			}
			if f.mode == "nocopy" {
				continue
			}
			what := map[string]string{"B": "the accumulation buffer", "item": "an input slice"}[f.origin]
			if !f.cloned {
				problems = append(problems, fmt.Sprintf("in copy mode (%s) %s itself is sent, not a clone: the consumer's slice shares memory with the discipline / the producer", modeName(f.mode), what))
			}
			if f.clone != nil {
				for _, ref := range *f.clone.Referrers() {
					switch ref.(type) {
					case *ssa.Return, *ssa.Send, *ssa.Select, *ssa.Phi, *ssa.ChangeType, *ssa.DebugRef, *ssa.Call, *ssa.Store:
					default:
						problems = append(problems, fmt.Sprintf("the clone is also used at %s", p.InstrPos(ref)))
					}
				}
			}
		}
		if len(forms) == 0 {
			problems = append(problems, "UNDECIDED: no payload form found")
		}
		c.R.Check(len(problems) == 0, "K1", joinKey(jr, ss.Fn, fmt.Sprintf("send.%d", n)), p.InstrPos(ss.In), fmt.Sprintf("%d payload forms; copy-mode forms are fresh clones", len(forms)), strings.Join(dedup(problems), "; "))
	}
}

func modeName(m string) string {
	if m == "" {
		return "no mode test dominates"
	}
	return m
}

// mayWriteField: fn (transitively) contains a store to the named field.
func (p *Prog) mayWriteField(fn *ssa.Function, field string) bool {
	for g := range p.Reach(fn) {
		for _, b := range g.Blocks {
			for _, in := range b.Instrs {
				if _, ok := fieldStore(in, field); ok {
					return true
				}
			}
		}
	}
	return false
}

func checkK4(c *Ctx, jr *joinRoles) {
	p := jr.p
	var problems []string
	loads := 0
	for _, fn := range jr.rt.Funcs {
		for _, b := range fn.Blocks {
			for _, in := range b.Instrs {
				ld, ok := in.(*ssa.UnOp)
				if !ok || ld.Op != token.MUL || !p.isFieldLoad(ld, "join") {
					continue
				}
				if _, isFA := ld.X.(*ssa.FieldAddr); !isFA {
					continue
				}
				loads++
				esc := p.valueEscapes(ld, func(user ssa.Instruction, v ssa.Value) bool {
					switch u := user.(type) {
					case *ssa.Call:
						if bi, ok := u.Call.Value.(*ssa.Builtin); ok {
							switch bi.Name() {
							case "len", "cap":
								return true
							case "append":
								if u.Call.Args[0] == v {
									return storedToField(p, u, "join", 0)
								}
								// copied out: append(nil / empty fresh slice, B...)
								if len(u.Call.Args) == 2 && u.Call.Args[1] == v {
									if isNilConst(u.Call.Args[0]) {
										return true
									}
									if ms, ok := u.Call.Args[0].(*ssa.MakeSlice); ok {
										k, isK := constDuration(ms.Len)
										return isK && k == 0
									}
								}
								return false
							}
						}
						if cal := p.Callee(u); cal != nil && cal.String() == "slices.Clone" {
							return true
						}
					case *ssa.Slice:
						return storedToField(p, u, "join", 0)
					case *ssa.Send:
						return p.chanRole(u.Chan) == "field:output"
					case *ssa.Select:
						for _, st := range u.States {
							if st.Send == v && p.chanRole(st.Chan) == "field:output" {
								return true
							}
						}
					case *ssa.Return:
						return true // followed through payloadOrigin in K1
					}
					return false
				})
				for _, e := range esc {
					problems = append(problems, fmt.Sprintf("buffer loaded at %s is %s", p.InstrPos(ld), e))
				}
			}
		}
	}
	// every assignment of the buffer field extends it, empties it, or gives it a fresh slice: a slice
	// that came from outside (a received input slice adopted as the buffer, say) is memory its
	// producer may still write and a consumer may still hold
	for _, fn := range jr.rt.Funcs {
		for _, b := range fn.Blocks {
			for _, in := range b.Instrs {
				st, ok := fieldStore(in, "join")
				if !ok {
					continue
				}
				if _, isIngest := p.ingestOf(in); isIngest || p.isReset(in) {
					continue
				}
				if xs := p.SymX(st.Val); xs.Op == "make" && strings.HasPrefix(xs.Name, "slice#") {
					continue
				}
				problems = append(problems, "the buffer field is assigned "+p.Sym(st.Val).String()+" at "+p.InstrPos(in)+" (neither append to it, nor emptied, nor freshly made): it then shares memory with a slice owned by someone else")
			}
		}
	}
	// the buffer is this instance's alone: its address is used only to load and store the field,
	// and what the constructor puts there is freshly made (nothing recycled from a pool, nothing
	// another instance or a consumer may still hold)
	fns := append([]*ssa.Function{}, jr.rt.Funcs...)
	fns = append(fns, jr.d.Ctors...)
	for _, fn := range fns {
		for _, b := range fn.Blocks {
			for _, in := range b.Instrs {
				fa, ok := in.(*ssa.FieldAddr)
				if !ok || fieldName(fa.X.Type(), fa.Field) != "join" || rootStructOf(fa) != jr.d.Named || fa.Referrers() == nil {
					continue
				}
				for _, ref := range *fa.Referrers() {
					switch u := ref.(type) {
					case *ssa.DebugRef:
					case *ssa.UnOp:
						if u.Op != token.MUL {
							problems = append(problems, "address of the buffer field is used by "+u.Op.String()+" at "+p.InstrPos(u))
						}
					case *ssa.Store:
						if u.Addr != ssa.Value(fa) {
							problems = append(problems, "address of the buffer field is stored at "+p.InstrPos(u)+": the buffer has a second reference")
							continue
						}
						isCtor := false
						for _, ct := range jr.d.Ctors {
							if ct == fn {
								isCtor = true
							}
						}
						if isCtor {
							xs := p.SymX(u.Val)
							fresh := (xs.Op == "make" && strings.HasPrefix(xs.Name, "slice#")) || (xs.Op == "const" && xs.Name == "nil")
							if !fresh {
								problems = append(problems, "the constructor's initial buffer is "+xs.String()+", not a freshly made slice: it may be shared with another instance or still be held by a consumer")
							}
						}
					case ssa.CallInstruction:
						// a method of a private named slice type with a pointer receiver
						cal := p.Callee(u)
						if cal == nil || !p.IsProduct(cal) || cal.Signature.Recv() == nil || len(u.Common().Args) == 0 || u.Common().Args[0] != ssa.Value(fa) {
							problems = append(problems, "address of the buffer field is passed to "+p.calleeName(u.Common())+" at "+p.InstrPos(u)+": the buffer gets a second reference (it can be reused while a consumer still owns the delivered slice)")
						}
					default:
						problems = append(problems, fmt.Sprintf("address of the buffer field is used by %T at %s", ref, p.InstrPos(ref)))
					}
				}
			}
		}
	}
	c.R.Check(len(problems) == 0 && loads > 0, "K4", jr.key, p.Pos(jr.entry.Pos()), fmt.Sprintf("%d loads of the buffer, each flowing only to append/len/reslice/output; its address is not handed out; the initial buffer is fresh", loads), strings.Join(dedup(problems), "; "))
}

func isStoredToField(v ssa.Value, field string) bool {
	return storedToField(nil, v, field, 0)
}

// storedToField: every use of v is a store into the named field - directly, or (p != nil) by
// being the result of a private helper whose every call result is stored there
// (dsc.join = dsc.join.emptied()).
func storedToField(p *Prog, v ssa.Value, field string, depth int) bool {
	refs := v.Referrers()
	if refs == nil || depth > 3 {
		return false
	}
	n, stores, lens := 0, 0, 0
	for _, r := range *refs {
		if _, ok := r.(*ssa.DebugRef); ok {
			continue
		}
		n++
		if _, ok := fieldStore(r, field); ok {
			stores++
			continue
		}
		// the length / capacity of the value that is also stored (join := append(dsc.join, x);
		// dsc.join = join; if len(join) < size) makes no second reference
		if call, ok := r.(*ssa.Call); ok {
			if bi, isB := call.Call.Value.(*ssa.Builtin); isB && (bi.Name() == "len" || bi.Name() == "cap") {
				lens++
				continue
			}
		}
		if ct, ok := r.(*ssa.ChangeType); ok && storedToField(p, ct, field, depth+1) {
			continue
		}
		if ret, ok := r.(*ssa.Return); ok && p != nil && len(ret.Results) == 1 {
			fn := ret.Parent()
			obj, _ := fn.Object().(*types.Func)
			sites := p.CallSites(p.Norm(fn))
			okAll := obj != nil && !obj.Exported() && len(sites) > 0
			for _, cs := range sites {
				cv, isVal := cs.(*ssa.Call)
				if !isVal || !storedToField(p, cv, field, depth+1) {
					okAll = false
				}
			}
			if okAll {
				continue
			}
		}
		return false
	}
	return n > 0 && (lens == 0 || stores > 0)
}

// ---------------------------------------------------------------- C09 / C10 shared

func (jr *joinRoles) hasTimedLoop() bool {
	for _, fn := range jr.loops {
		for _, s := range Selects(fn) {
			for _, cs := range jr.p.SelectInfo(s).Cases {
				if strings.HasPrefix(jr.p.chanRole(cs.State.Chan), "ticker:") {
					return true
				}
			}
		}
	}
	return false
}

// M2: interruptInterval == 0 selects the loop function without ticker.
func checkM2(c *Ctx, jr *joinRoles) {
	p := jr.p
	fn := jr.entry
	ok := false
	detail := "entry does not branch on interruptInterval == 0"
	for _, b := range fn.Blocks {
		iff, isIf := b.Instrs[len(b.Instrs)-1].(*ssa.If)
		if !isIf {
			continue
		}
		cm := p.NormCmp(iff.Cond, true)
		if cm == nil {
			continue
		}
		// which successor is taken when interruptInterval is zero: x == 0 / x <= 0 (true side),
		// x != 0 / 0 < x (false side); the interval is never negative (T5)
		zeroSucc := -1
		isII := func(s *Sym) bool {
			_, path, okp := deepStrip(s).FieldPath()
			return okp && path[len(path)-1] == "interruptInterval"
		}
		switch {
		case isII(cm.L) && cm.R.String() == "0" && cm.LC == 0 && cm.RC == 0 && (cm.Op == token.EQL || cm.Op == token.LEQ):
			zeroSucc = 0
		case isII(cm.L) && cm.R.String() == "0" && cm.LC == 0 && cm.RC == 1 && cm.Op == token.LSS:
			zeroSucc = 0
		case isII(cm.L) && cm.R.String() == "0" && cm.LC == 0 && cm.RC == 0 && cm.Op == token.NEQ:
			zeroSucc = 1
		case isII(cm.R) && cm.L.String() == "0" && cm.LC == 0 && cm.RC == 0 && cm.Op == token.LSS:
			zeroSucc = 1
		case isII(cm.R) && cm.L.String() == "0" && cm.LC == 0 && cm.RC == 0 && (cm.Op == token.EQL):
			zeroSucc = 0
		case isII(cm.R) && cm.L.String() == "0" && cm.LC == 0 && cm.RC == 0 && (cm.Op == token.NEQ):
			zeroSucc = 1
		}
		if zeroSucc < 0 {
			continue
		}
		// the zero successor must call a loop function without ticker clause, and not the timed one
		untimedCalled, timedCalled := false, false
		// (the loop function may be picked as a method value first: run := dsc.loop; if interval == 0
		// { run = dsc.loopUntimeouted }; run() - the edge taken into the phi's block selects it)
		phiEdge := map[*ssa.Phi]int{}
		var walkFrom func(from, x *ssa.BasicBlock, seen map[*ssa.BasicBlock]bool)
		var walk func(x *ssa.BasicBlock, seen map[*ssa.BasicBlock]bool)
		walkFrom = func(from, x *ssa.BasicBlock, seen map[*ssa.BasicBlock]bool) {
			if !seen[x] {
				for _, in := range x.Instrs {
					ph, isPhi := in.(*ssa.Phi)
					if !isPhi {
						break
					}
					for k, pb := range x.Preds {
						if pb == from {
							phiEdge[ph] = k
						}
					}
				}
			}
			walk(x, seen)
		}
		walk = func(x *ssa.BasicBlock, seen map[*ssa.BasicBlock]bool) {
			if seen[x] {
				return
			}
			seen[x] = true
			for _, in := range x.Instrs {
				if call, isCall := in.(*ssa.Call); isCall {
					var cals []*ssa.Function
					if cal := p.Callee(call); cal != nil {
						cals = append(cals, cal)
					} else {
						for _, t := range p.funcValueTargetsChoice(nil, call, func(ph *ssa.Phi) (int, bool) { k, okk := phiEdge[ph]; return k, okk }) {
							cals = append(cals, t.Fn)
						}
					}
					for _, cal := range cals {
						for _, l := range jr.loops {
							if l == cal {
								timed := false
								for _, s := range Selects(l) {
									for _, cs := range p.SelectInfo(s).Cases {
										if strings.HasPrefix(p.chanRole(cs.State.Chan), "ticker:") {
											timed = true
										}
									}
								}
								if timed {
									timedCalled = true
								} else {
									untimedCalled = true
								}
							}
						}
					}
				}
			}
			for _, s := range x.Succs {
				walkFrom(x, s, seen)
			}
		}
		walkFrom(b, b.Succs[zeroSucc], map[*ssa.BasicBlock]bool{b: true})
		if untimedCalled && !timedCalled {
			ok = true
		} else {
			detail = "with interruptInterval == 0 the timed loop is entered (a zero ticker period panics / every tick counts as timeout)"
		}
	}
	c.R.Check(ok, "M2", joinKey(jr, fn, ""), p.Pos(fn.Pos()), "interruptInterval == 0 -> untimed loop", detail)
}

func runC09(c *Ctx) {
	r := c.R
	r.Doc("J0", "role resolution", 3)
	r.Doc("M1", "every send of the buffer happens under: full / timeout test true in the ticker clause / end of input (unite: oversize slice, slice would not fit)", 3)
	r.Doc("M2", "interruptInterval == 0 -> the loop function without ticker", 3)
	r.Doc("T2", "emit -> passAt reset before the next receive", 5)
	r.Doc("T4", "every timeout test is time.Since(passAt) >= Timeout", 3)
	r.Doc("T1", "passAt is set by the constructor (the first timeout counts from creation) and otherwise only after a send, in the ticker clause or at the end - never on a path that only accepted an element", 3)
	r.Doc("J6", "(greedy batching) after an ingest: flush or leave under len(B) < JoinSize", 3)
	r.Doc("J7", "(greedy batching, unite) fit facts", 1)
	r.Doc("J1", "(end of input) the loops end, and flush, only when the input was observed closed (comma-ok / range): a nil or empty slice is data, not the end", 6)
	r.Doc("T7", "the Timeout option is never assigned by product code (the timeout in force is the configured one)", 2)
	checkTimeoutUnmodified(c, "T7")
	for _, jr := range joinDiscs(c) {
		checkJ1(c, jr)
		checkM1(c, jr)
		checkM2(c, jr)
		checkT2(c, jr)
		checkT4(c, jr)
		checkT1(c, jr)
		checkJ6(c, jr)
		checkJ7(c, jr)
	}
}

// ---------------------------------------------------------------- C10

func runC10(c *Ctx) {
	r := c.R
	r.Doc("J0", "role resolution", 3)
	r.Doc("T1", "passAt is set by the constructor and otherwise only after a send, in the ticker clause or at the end - never on a path that only accepted an element", 3)
	r.Doc("T3", "ticker clause: the timeout is tested, and after a true answer the buffer is sent (or is empty) before the next select", 3)
	r.Doc("T4", "every timeout test is time.Since(passAt) >= Timeout", 3)
	r.Doc("T5", "ticker period = interruptInterval = timeout / (100 / inaccuracy) with error exits; default inaccuracy substituted", 6)
	r.Doc("T6", "ticker clause and input clause in the same select", 3)
	r.Doc("T7", "the Timeout option is never assigned by product code (the timeout in force is the configured one)", 2)
	checkTimeoutUnmodified(c, "T7")
	for _, jr := range joinDiscs(c) {
		checkT1(c, jr)
		checkT3T6(c, jr)
		checkT4(c, jr)
		checkT5(c, jr)
	}
}

func checkT5(c *Ctx, jr *joinRoles) {
	p := jr.p
	// (a) ticker created with dsc.interruptInterval
	okTicker := false
	for _, fn := range jr.loops {
		for _, b := range fn.Blocks {
			for _, in := range b.Instrs {
				if call, ok := in.(*ssa.Call); ok {
					if cal := p.Callee(call); cal != nil && p.funcDisplay(cal) == "time.NewTicker" {
						_, path, okp := p.upParam(p.Sym(call.Call.Args[0]), 0).FieldPath() // (the period may be handed down as an argument)
						okTicker = okp && path[len(path)-1] == "interruptInterval"
						c.R.Check(okTicker, "T5", joinKey(jr, fn, "ticker"), p.InstrPos(call), "ticker period = interruptInterval", "ticker period is "+p.Sym(call.Call.Args[0]).String()+", not the computed interruptInterval: the timeout is examined too rarely")
						c.R.Check(!blockInLoop(call.Block()), "T5", joinKey(jr, fn, "ticker-once"), p.InstrPos(call), "one ticker for the whole loop", "a new ticker is created on every iteration: each arriving element restarts the tick phase, so under a trickle faster than the interval no tick ever fires and the buffer is never flushed")
					}
				}
			}
		}
	}
	// (a') the ticker period is never changed afterwards
	for _, fn := range jr.rt.Funcs {
		for _, b := range fn.Blocks {
			for _, in := range b.Instrs {
				if call, ok := in.(*ssa.Call); ok {
					if cal := p.Callee(call); cal != nil && p.funcDisplay(cal) == "(*time.Ticker).Stop" {
						// (a Stop inside a closure or helper that itself only ever runs as a deferred call is a deferred Stop)
						deferredHelper := false
						if sites := p.CallSites(fn); len(sites) > 0 && !blockInLoop(call.Block()) {
							deferredHelper = true
							for _, cs := range sites {
								if _, isD := cs.(*ssa.Defer); !isD || blockInLoop(cs.Block()) {
									deferredHelper = false
								}
							}
						}
						// (an explicit Stop is "after the receive loop" only if no cycle can be entered after it)
						reachesLoop := false
						if _, isDefer := in.(*ssa.Defer); !isDefer {
							seenB := map[*ssa.BasicBlock]bool{}
							work := []*ssa.BasicBlock{call.Block()}
							for len(work) > 0 && !reachesLoop {
								x := work[len(work)-1]
								work = work[:len(work)-1]
								for _, sx := range x.Succs {
									if seenB[sx] {
										continue
									}
									seenB[sx] = true
									if blockInLoop(sx) {
										reachesLoop = true
									}
									work = append(work, sx)
								}
							}
						}
						if _, isDefer := in.(*ssa.Defer); !isDefer && !deferredHelper && (blockInLoop(call.Block()) || !isLoopFn(jr, fn) || reachesLoop) {
							c.R.Fail("T5", joinKey(jr, fn, "ticker-stop"), p.InstrPos(call), "the ticker is stopped while the discipline runs (not by a defer / after the receive loop): until something re-arms it the timeout is not examined and accumulated elements wait without bound")
						}
					}
					if cal := p.Callee(call); cal != nil && p.funcDisplay(cal) == "(*time.Ticker).Reset" {
						_, path, okp := p.Sym(call.Call.Args[1]).FieldPath()
						c.R.Check(okp && path[len(path)-1] == "interruptInterval", "T5", joinKey(jr, fn, "ticker-reset"), p.InstrPos(call), "ticker re-armed with interruptInterval", "the ticker is re-armed with "+p.Sym(call.Call.Args[1]).String()+" instead of interruptInterval: afterwards the timeout is examined too rarely and elements wait longer than Timeout*(1+1/divider)")
					}
				}
			}
		}
	}
	// (b) the constructor (or a helper it calls) stores interruptInterval = result#0 of the calc
	// function applied to (Timeout, TimeoutInaccuracy of the normalised options)
	ctor := jr.d.Ctors[0]
	var calcCall *ssa.Call
	inCtor := p.Reach(ctor)
	var resolveUp func(v ssa.Value, depth int) ssa.Value
	resolveUp = func(v ssa.Value, depth int) ssa.Value {
		v = stripChangeType(v)
		par, ok := v.(*ssa.Parameter)
		if !ok || depth > 4 || par.Parent() == ctor {
			return v
		}
		var found ssa.Value
		for _, cs := range p.CallSites(par.Parent()) {
			if !inCtor[cs.Parent()] {
				continue
			}
			idx := paramIndex(par.Parent(), par)
			if idx < 0 || idx >= len(cs.Common().Args) {
				return v
			}
			a := resolveUp(cs.Common().Args[idx], depth+1)
			if found != nil && found != a {
				return v
			}
			found = a
		}
		if found == nil {
			return v
		}
		return found
	}
	// calcOf: the call that computes the interval behind v: result #0 of a product call, possibly
	// handed on by a helper that prepares several things at once (opts, interval, err := opts.settle())
	var calcOf func(v ssa.Value, depth int) *ssa.Call
	calcOf = func(v ssa.Value, depth int) *ssa.Call {
		ex, ok := resolveUp(v, 0).(*ssa.Extract)
		if !ok || depth > 2 {
			return nil
		}
		call, ok := ex.Tuple.(*ssa.Call)
		if !ok || !p.IsProduct(p.Callee(call)) {
			return nil
		}
		if ex.Index == 0 {
			return call
		}
		var found *ssa.Call
		h := p.Callee(call)
		for _, b := range h.Blocks {
			ret, isRet := b.Instrs[len(b.Instrs)-1].(*ssa.Return)
			if !isRet || b == h.Recover || ex.Index >= len(ret.Results) {
				continue
			}
			rv := returnedValues(ret)[ex.Index]
			if _, isC := rv.(*ssa.Const); isC {
				continue
			}
			inner := calcOf(rv, depth+1)
			if inner == nil || (found != nil && found != inner) {
				return nil
			}
			found = inner
		}
		return found
	}
	for fn := range inCtor {
		for _, b := range fn.Blocks {
			for _, in := range b.Instrs {
				st, ok := fieldStore(in, "interruptInterval")
				if !ok {
					continue
				}
				if call := calcOf(st.Val, 0); call != nil {
					calcCall = call
				}
			}
		}
	}
	// the interval handed to the goroutine with the go statement instead of through a field
	for fn := range inCtor {
		for _, v := range p.virtualFieldStores(fn, "interruptInterval") {
			if call := calcOf(v, 0); call != nil {
				calcCall = call
			}
		}
	}
	if calcCall == nil {
		c.R.Fail("T5", jr.key+"#ctor", p.Pos(ctor.Pos()), "UNRESOLVED-ANCHOR: constructor does not store the result of an interval computation in interruptInterval")
		return
	}
	// (the computation may be reached through a thin method of the options that only hands its own
	// fields on: opts.calcInterruptInterval() = calcInterruptInterval(opts.Timeout, opts.TimeoutInaccuracy))
	argSym := func(k int) *Sym { return p.Sym(calcCall.Call.Args[k]) }
	wrapped := false
	if len(calcCall.Call.Args) != 2 {
		outer := calcCall
		w := p.Callee(outer)
		var inner *ssa.Call
		if w != nil && len(w.Blocks) == 1 {
			if ret, isRet := w.Blocks[0].Instrs[len(w.Blocks[0].Instrs)-1].(*ssa.Return); isRet && len(ret.Results) == 2 {
				if ex, isEx := ret.Results[0].(*ssa.Extract); isEx {
					inner, _ = ex.Tuple.(*ssa.Call)
				}
			}
		}
		if inner == nil || len(inner.Call.Args) != 2 || !p.IsProduct(p.Callee(inner)) {
			c.R.Fail("T5", jr.key+"#ctor", p.InstrPos(calcCall), "UNDECIDED: the interval computation "+p.calleeName(calcCall.Common())+" does not take (timeout, inaccuracy) and is not a thin wrapper of one that does")
			return
		}
		wrapped = true
		calcCall = inner
		argSym = func(k int) *Sym { return p.substParams(outer, w, p.Sym(inner.Call.Args[k])) }
	}
	a0, a1 := argSym(0).String(), argSym(1).String()
	// the inaccuracy must be read from the result of the options' normalising method (a product
	// method on the options type applied to the constructor's options), not from the raw options
	normalised := false
	if s1 := argSym(1); s1.Op == "field" && len(s1.Args) == 1 {
		if base := s1.Args[0].StripConv(); base.Op == "call" {
			if nc, ok := base.V.(*ssa.Call); ok {
				if nf := p.Callee(nc); nf != nil && p.IsProduct(nf) && nf.Signature.Recv() != nil && namedOrigin(nf.Signature.Recv().Type()) != nil && strings.HasSuffix(namedOrigin(nf.Signature.Recv().Type()).Obj().Name(), "Opts") {
					// ... and that method does substitute a usable default for zero
					if _, okd := p.defaultsInaccuracy(nf); okd {
						normalised = true
					}
				}
			}
		}
	}
	// ... or the constructor substitutes the default in its own copy of the options before the call
	inlineDefault := false
	if ld, isLd := calcCall.Call.Args[1].(*ssa.UnOp); isLd && ld.Op == token.MUL && !normalised && !wrapped {
		if fa, isFA := ld.X.(*ssa.FieldAddr); isFA && fieldName(fa.X.Type(), fa.Field) == "TimeoutInaccuracy" {
			if stores, okd := p.defaultsInaccuracy(calcCall.Parent()); okd {
				inlineDefault = true
				for _, st := range stores {
					if st.Addr.(*ssa.FieldAddr).X != fa.X || !reachesInstr(st, calcCall) {
						inlineDefault = false
					}
				}
			}
		}
	}
	// ... or a normalising method with a pointer receiver was applied to that copy before the call
	if ld, isLd := calcCall.Call.Args[1].(*ssa.UnOp); isLd && ld.Op == token.MUL && !normalised && !inlineDefault && !wrapped {
		if fa, isFA := ld.X.(*ssa.FieldAddr); isFA && fieldName(fa.X.Type(), fa.Field) == "TimeoutInaccuracy" {
			for _, b := range calcCall.Parent().Blocks {
				for _, in := range b.Instrs {
					nc, isCall := in.(*ssa.Call)
					if !isCall || len(nc.Call.Args) != 1 || nc.Call.Args[0] != fa.X || !instrDominates(nc, calcCall) {
						continue
					}
					if nf := p.Callee(nc); nf != nil && p.IsProduct(nf) && nf.Signature.Recv() != nil {
						if stores, okd := p.defaultsInaccuracy(nf); okd {
							onRecv := true
							for _, st := range stores {
								if st.Addr.(*ssa.FieldAddr).X != ssa.Value(nf.Params[0]) {
									onRecv = false
								}
							}
							if onRecv {
								inlineDefault = true
							}
						}
					}
				}
			}
		}
	}
	okArgs := strings.HasSuffix(a0, ".Timeout") && ((strings.HasSuffix(a1, ".TimeoutInaccuracy") && normalised) || inlineDefault)
	c.R.Check(okArgs, "T5", jr.key+"#ctor-args", p.InstrPos(calcCall), "computed from (Timeout, TimeoutInaccuracy) of the normalised options", "interval computed from ("+a0+", "+a1+"): expected Opts.Timeout and the normalised Opts.TimeoutInaccuracy (default substituted for 0)")
	// (c) formula: the non-zero results of the calc function, looking through wrappers that pass
	// their parameters on and through helpers that compute a part of it (their single non-constant
	// result is substituted)
	calc := p.Callee(calcCall)
	var formulaFns []*ssa.Function
	var forms []*Sym
	var expand func(s *Sym, depth int) *Sym
	expand = func(s *Sym, depth int) *Sym {
		if s == nil || depth > 4 {
			return s
		}
		if s.Op == "extract" && len(s.Args) == 1 && s.Args[0].Op == "call" {
			if call, ok := s.Args[0].V.(*ssa.Call); ok {
				if cal := p.Callee(call); cal != nil && p.IsProduct(cal) {
					var idx int
					fmt.Sscanf(s.Name, "%d", &idx)
					var nz []*Sym
					for _, r := range p.resultSyms(cal, idx) {
						if _, isK := symConstInt(r); isK {
							continue
						}
						nz = append(nz, r)
					}
					if len(nz) == 1 {
						formulaFns = append(formulaFns, cal)
						return p.substParams(call, cal, expand(nz[0], depth+1))
					}
				}
			}
		}
		if len(s.Args) == 0 {
			return s
		}
		n := *s
		n.Args = make([]*Sym, len(s.Args))
		for i, a := range s.Args {
			n.Args[i] = expand(a, depth)
		}
		return &n
	}
	var collect func(fn *ssa.Function, depth int)
	collect = func(fn *ssa.Function, depth int) {
		for _, s := range p.resultSyms(fn, 0) {
			if k, ok := symConstInt(s); ok && k == 0 {
				continue
			}
			if s.Op == "extract" && s.Args[0].Op == "call" && depth < 3 {
				if call, ok := s.Args[0].V.(*ssa.Call); ok && p.IsProduct(p.Callee(call)) {
					// a wrapper: parameters must be passed through in order
					// (arguments beyond the wrapper's own parameters - e.g. the error values a shared
					// helper is told to return - do not take part in the computation of the interval)
					for i, a := range call.Call.Args {
						if i >= len(fn.Params) {
							break
						}
						if par, ok := a.(*ssa.Parameter); !ok || paramIndex(fn, par) != i {
							forms = append(forms, &Sym{Op: "other", Name: "wrapper does not pass its parameters through"})
						}
					}
					collect(p.Callee(call), depth+1)
					continue
				}
			}
			formulaFns = append(formulaFns, fn)
			forms = append(forms, expand(s, 0))
		}
	}
	collect(calc, 0)
	var problems []string
	if len(forms) == 0 {
		problems = append(problems, "no non-zero interval is ever returned")
	}
	for _, f := range forms {
		d := deepStrip(f)
		ok := d.Op == "bin" && d.Name == "/" && d.Args[0].Op == "param" &&
			d.Args[1].Op == "bin" && d.Args[1].Name == "/" && d.Args[1].Args[1].Op == "param"
		if ok {
			k, isK := symConstInt(d.Args[1].Args[0])
			pt, _ := d.Args[0].V.(*ssa.Parameter)
			pi, _ := d.Args[1].Args[1].V.(*ssa.Parameter)
			ok = isK && k == 100 && pt != nil && pi != nil && paramIndex(pt.Parent(), pt) == 0 && paramIndex(pi.Parent(), pi) == 1
		}
		if !ok {
			problems = append(problems, "interval is computed as "+d.String()+", expected timeout / (100 / inaccuracy)")
		}
	}
	c.R.Check(len(problems) == 0, "T5", jr.key+"#formula", p.Pos(calc.Pos()), "interval = timeout / (100 / inaccuracy)", strings.Join(dedup(problems), "; "))
	// (d) guards on the success returns of the function(s) that compute the interval: the union over
	// the formula function and the helpers whose results it uses
	if len(formulaFns) > 0 {
		haveInacc, haveDiv, haveInt := false, false, false
		seenFn := map[*ssa.Function]bool{}
		for _, ffn := range formulaFns {
			if seenFn[ffn] {
				continue
			}
			seenFn[ffn] = true
			for _, b := range ffn.Blocks {
				ret, ok := b.Instrs[len(b.Instrs)-1].(*ssa.Return)
				if !ok || b.Comment == "recover" {
					continue
				}
				if k, isK := symConstInt(p.Sym(ret.Results[0])); isK && k == 0 {
					continue
				}
				if len(ret.Results) == 2 && !isNilConst(ret.Results[1]) {
					continue
				}
				for _, e := range DomEdges(b) {
					iff := e.From.Instrs[len(e.From.Instrs)-1].(*ssa.If)
					cm := p.NormCmp(iff.Cond, e.Succ == 0)
					if cm == nil {
						continue
					}
					l, rr := deepStrip(expand(cm.L, 0)), deepStrip(expand(cm.R, 0))
					// the edge says x != 0: `x != 0`, or `k < x` / `k <= x` with a constant bound on the
					// left that excludes zero (an upper bound `x <= 100` says nothing about zero)
					nonzero := func(x, y *Sym, xOnRight bool) bool {
						k, isK := symConstInt(y)
						if !isK {
							return false
						}
						switch cm.Op {
						case token.NEQ:
							return k+cm.RC-cm.LC == 0 || k+cm.LC-cm.RC == 0
						case token.LSS: // L + LC < R + RC
							return xOnRight && k+cm.LC-cm.RC >= 0
						case token.LEQ:
							return xOnRight && k+cm.LC-cm.RC >= 1
						}
						return false
					}
					// divider <= timeout says the same as timeout/divider != 0 (divider = 100/inaccuracy > 0)
					{
						isDividerTerm := func(x *Sym) bool {
							return x.Op == "bin" && x.Name == "/" && x.Args[1].Op == "param" && x.Args[0].Op == "const"
						}
						isTimeoutPar := func(x *Sym) bool {
							if x.Op != "param" {
								return false
							}
							par, ok := x.V.(*ssa.Parameter)
							if !ok {
								return false
							}
							bt, isB := par.Type().Underlying().(*types.Basic)
							return isB && bt.Info()&types.IsUnsigned == 0
						}
						if cm.LC == 0 && cm.RC == 0 && isDividerTerm(l) && isTimeoutPar(rr) && cm.Op == token.LEQ {
							haveInt = true
						}
					}
					// inaccuracy <= 100 says the same as 100/inaccuracy != 0
					if l.Op == "param" && rr.Op == "const" {
						if k, isK := symConstInt(rr); isK {
							tot := k + cm.RC - cm.LC
							if (cm.Op == token.LEQ && tot == 100) || (cm.Op == token.LSS && tot == 101) {
								haveDiv = true
							}
						}
					}
					for pi, pair := range [][2]*Sym{{l, rr}, {rr, l}} {
						x, y := pair[0], pair[1]
						if !nonzero(x, y, pi == 1) {
							continue
						}
						switch {
						case x.Op == "param":
							// the inaccuracy (an unsigned percentage), not the timeout
							if par, isPar := x.V.(*ssa.Parameter); isPar {
								if bt, isB := par.Type().Underlying().(*types.Basic); isB && bt.Info()&types.IsUnsigned == 0 {
									continue
								}
							}
							haveInacc = true
						case x.Op == "bin" && x.Name == "/" && x.Args[1].Op == "param" && x.Args[0].Op == "const":
							haveDiv = true
						case x.Op == "bin" && x.Name == "/" && x.Args[0].Op == "param":
							haveInt = true
						}
					}
				}
			}
		}
		var missing []string
		if !haveInacc {
			missing = append(missing, "inaccuracy == 0 is not rejected (division by zero)")
		}
		if !haveDiv {
			missing = append(missing, "100/inaccuracy == 0 (inaccuracy > 100) is not rejected (division by zero)")
		}
		if !haveInt {
			missing = append(missing, "a zero ticker period is not rejected (time.NewTicker panics)")
		}
		c.R.Check(len(missing) == 0, "T5", jr.key+"#errors", p.Pos(formulaFns[0].Pos()), "inaccuracy 0, divider 0 and zero period are rejected", strings.Join(dedup(missing), "; "))
	}
}

func isLoopFn(jr *joinRoles, fn *ssa.Function) bool {
	for _, l := range jr.loops {
		if l == fn {
			return true
		}
	}
	return false
}

// varargsElems: the values stored into the slots of a `f(a, b, ...)` variadic argument slice.
func varargsElems(v ssa.Value) ([]ssa.Value, bool) {
	sl, ok := v.(*ssa.Slice)
	if !ok || sl.Low != nil || sl.High != nil {
		return nil, false
	}
	al, ok := sl.X.(*ssa.Alloc)
	if !ok || al.Comment != "varargs" {
		return nil, false
	}
	at, ok := al.Type().(*types.Pointer).Elem().(*types.Array)
	if !ok {
		return nil, false
	}
	out := make([]ssa.Value, at.Len())
	for _, r := range *al.Referrers() {
		ia, ok := r.(*ssa.IndexAddr)
		if !ok {
			continue
		}
		k, isK := constDuration(ia.Index)
		if !isK || k < 0 || k >= at.Len() {
			return nil, false
		}
		for _, rr := range *ia.Referrers() {
			if st, ok := rr.(*ssa.Store); ok && st.Addr == ia {
				out[k] = st.Val
			}
		}
	}
	for _, e := range out {
		if e == nil {
			return nil, false
		}
	}
	return out, true
}

// defaultsInaccuracy: fn replaces a zero TimeoutInaccuracy of its local copy of the options by a
// default between 1 and 100 - `if x == 0 { x = k }` or `x = cmp.Or(x, k)` - and writes the field in
// no other way. Returns the stores.
func (p *Prog) defaultsInaccuracy(fn *ssa.Function) ([]*ssa.Store, bool) {
	var stores []*ssa.Store
	okAll := true
	goodDefault := func(v ssa.Value) bool {
		k, isK := constDuration(v)
		return isK && k >= 1 && k <= 100
	}
	for _, b := range fn.Blocks {
		for _, in := range b.Instrs {
			st, ok := fieldStore(in, "TimeoutInaccuracy")
			if !ok {
				continue
			}
			fa := st.Addr.(*ssa.FieldAddr)
			switch fa.X.(type) {
			case *ssa.Alloc, *ssa.Parameter: // the local copy, or the options behind a pointer receiver
			default:
				okAll = false
				continue
			}
			isField := func(v ssa.Value) bool {
				ld, isLd := v.(*ssa.UnOp)
				if !isLd || ld.Op != token.MUL {
					return false
				}
				fa2, isFA := ld.X.(*ssa.FieldAddr)
				return isFA && fa2.X == fa.X && fa2.Field == fa.Field
			}
			good := false
			switch {
			case goodDefault(st.Val):
				// under `field == 0`
				for _, e := range InstrDomEdges(st) {
					iff := e.From.Instrs[len(e.From.Instrs)-1].(*ssa.If)
					base, neg := condOf(iff.Cond)
					if bo, isB := base.(*ssa.BinOp); isB && (bo.Op == token.EQL || bo.Op == token.NEQ) {
						// the edge asserts field == 0 (the true side of ==, the false side of !=)
						truth := (e.Succ == 0) != neg
						if (bo.Op == token.EQL) == truth {
							if (isField(bo.X) && isZeroConst(bo.Y)) || (isField(bo.Y) && isZeroConst(bo.X)) {
								good = true
							}
						}
					}
				}
			default:
				if call, isCall := st.Val.(*ssa.Call); isCall {
					if cal := p.Callee(call); cal != nil {
						name := p.funcDisplay(cal)
						if i := strings.Index(name, "["); i >= 0 {
							name = name[:i]
						}
						if name == "cmp.Or" && len(call.Call.Args) == 1 {
							if els, okv := varargsElems(call.Call.Args[0]); okv && len(els) == 2 && isField(els[0]) && goodDefault(els[1]) {
								good = len(InstrDomEdges(st)) == 0 || true
							}
						}
					}
				}
			}
			if !good {
				okAll = false
			}
			stores = append(stores, st)
		}
	}
	return stores, okAll && len(stores) > 0
}

func isZeroConst(v ssa.Value) bool {
	k, isK := constDuration(v)
	return isK && k == 0
}

// reachesInstr: the store (or the test that guards it) is executed before `at` on every path.
func reachesInstr(st ssa.Instruction, at ssa.Instruction) bool {
	if instrDominates(st, at) {
		return true
	}
	for _, e := range InstrDomEdges(st) {
		if e.From != at.Block() && e.From.Dominates(at.Block()) {
			return true
		}
	}
	return false
}

// checkTimeoutUnmodified (C10/T7 = C09/T7): the timeout in force is the configured one: product
// code of the join packages never assigns the Timeout option (rounding it up to a whole number of
// interrupt intervals makes an element wait up to Timeout * (1 + 2/divider)).
func checkTimeoutUnmodified(c *Ctx, rule string) {
	for _, p := range []*Prog{c.V1, c.V2} {
		n := 0
		for _, fn := range p.Funcs() {
			rel, ok := p.Rel(fn)
			if !ok || !strings.HasPrefix(rel, "join") {
				continue
			}
			for _, b := range fn.Blocks {
				for _, in := range b.Instrs {
					st, isSt := fieldStore(in, "Timeout")
					if !isSt {
						continue
					}
					n++
					v := deepStrip(p.Sym(st.Val))
					_, path, okp := v.FieldPath()
					c.R.Check(okp && path[len(path)-1] == "Timeout", rule, fmt.Sprintf("%s#timeout-store.%d", p.FnKey(fn), n), p.InstrPos(in), "Timeout copied as configured",
						"Timeout is set to "+v.String()+" instead of the configured value: elements wait longer (or shorter) than the Timeout the caller asked for")
				}
			}
		}
		if n == 0 {
			c.R.Pass(rule, p.Name+":join#timeout-store", "-", "the Timeout option is never assigned by product code")
		}
	}
}
