package main

import (
	"go/types"
	"sort"
	"strings"

	"golang.org/x/tools/go/ssa"
)

// GoEntry is one `go` statement of product code and the goroutine it starts.
type GoEntry struct {
	Stmt  *ssa.Go
	Entry *ssa.Function
	Multi bool // the go statement sits in a loop (several instances run concurrently)
	Recv  *types.Named
	// Parent is the goroutine entry whose code (own body or helpers it calls) contains this go
	// statement (nil when the goroutine is started by a constructor).
	Parent *GoEntry
}

// Helper: a single child goroutine started by another goroutine of the same discipline.
func (e *GoEntry) Helper() bool { return e.Parent != nil && !e.Multi }

// Disc is one discipline struct with its constructor(s), goroutines and public methods.
type Disc struct {
	P     *Prog
	Named *types.Named // generic origin
	Rel   string
	Name  string // "<rel>.<TypeName>"
	Ctors []*ssa.Function
	Gos   []*GoEntry
	API   []*ssa.Function // exported methods
}

func namedOrigin(t types.Type) *types.Named {
	if pt, ok := t.Underlying().(*types.Pointer); ok {
		t = pt.Elem()
	}
	if pt, ok := t.(*types.Pointer); ok {
		t = pt.Elem()
	}
	nt, ok := t.(*types.Named)
	if !ok {
		return nil
	}
	return nt.Origin()
}

func blockInLoop(b *ssa.BasicBlock) bool {
	// b is in a cycle iff b reaches itself
	seen := map[*ssa.BasicBlock]bool{}
	var dfs func(x *ssa.BasicBlock) bool
	dfs = func(x *ssa.BasicBlock) bool {
		for _, s := range x.Succs {
			if s == b {
				return true
			}
			if !seen[s] {
				seen[s] = true
				if dfs(s) {
					return true
				}
			}
		}
		return false
	}
	return dfs(b)
}

func (p *Prog) GoEntries() []*GoEntry {
	var out []*GoEntry
	for _, g := range p.GoStmts() {
		e := &GoEntry{Stmt: g, Entry: p.Callee(g), Multi: blockInLoop(g.Block())}
		if e.Entry != nil && e.Entry.Signature.Recv() != nil {
			e.Recv = namedOrigin(e.Entry.Signature.Recv().Type())
		} else if e.Entry != nil && p.IsProduct(e.Entry) && len(e.Entry.Params) > 0 && e.Entry.Parent() == nil {
			// a plain function taking the discipline as its first parameter (a method turned into a function)
			if pt, isPtr := e.Entry.Params[0].Type().Underlying().(*types.Pointer); isPtr {
				if nt := namedOrigin(pt); nt != nil {
					if _, isStruct := nt.Underlying().(*types.Struct); isStruct && nt.Obj().Pkg() == e.Entry.Pkg.Pkg {
						e.Recv = nt
					}
				}
			}
		}
		if e.Recv == nil && e.Entry != nil && p.IsProduct(e.Entry) {
			// (also a closure literal started by a method: go func() { defer smpl.wg.Done(); ... }())
			// a plain function that is not handed the discipline itself (handler(inner, handle)): it
			// belongs to the discipline whose method or constructor starts it
			encl := g.Parent()
			for encl != nil && encl.Parent() != nil {
				encl = encl.Parent()
			}
			if encl != nil {
				if recv := encl.Signature.Recv(); recv != nil {
					if nt := namedOrigin(recv.Type()); nt != nil {
						if _, isStruct := nt.Underlying().(*types.Struct); isStruct && nt.Obj().Pkg() == e.Entry.Pkg.Pkg {
							e.Recv = nt
						}
					}
				} else {
					res := encl.Signature.Results()
					for i := 0; i < res.Len() && e.Recv == nil; i++ {
						if nt := namedOrigin(res.At(i).Type()); nt != nil {
							if _, isStruct := nt.Underlying().(*types.Struct); isStruct && nt.Obj().Pkg() == e.Entry.Pkg.Pkg {
								e.Recv = nt
							}
						}
					}
				}
			}
		}
		out = append(out, e)
	}
	for _, e := range out {
		for _, e2 := range out {
			// the go statement sits in the code another goroutine entry runs (its own body or a helper it calls)
			if e2 != e && e2.Entry != nil && e2.Entry != e.Entry && p.Reach(e2.Entry)[p.Norm(e.Stmt.Parent())] {
				e.Parent = e2
			}
		}
	}
	return out
}

// Discs resolves the discipline structs: named struct types that own a goroutine.
func (p *Prog) Discs() []*Disc {
	if p.discCache != nil {
		return p.discCache
	}
	by := map[*types.Named]*Disc{}
	for _, e := range p.GoEntries() {
		if e.Recv == nil || e.Entry == nil || !p.IsProduct(e.Entry) {
			continue
		}
		d := by[e.Recv]
		if d == nil {
			rel := strings.TrimPrefix(strings.TrimPrefix(e.Recv.Obj().Pkg().Path(), p.ModPath), "/")
			d = &Disc{P: p, Named: e.Recv, Rel: rel, Name: rel + "." + e.Recv.Obj().Name()}
			by[e.Recv] = d
		}
		d.Gos = append(d.Gos, e)
	}
	for _, fn := range p.Funcs() {
		if fn.Parent() != nil {
			continue
		}
		obj, _ := fn.Object().(*types.Func)
		if obj == nil || !obj.Exported() {
			continue
		}
		if recv := fn.Signature.Recv(); recv != nil {
			if d := by[namedOrigin(recv.Type())]; d != nil {
				d.API = append(d.API, fn)
			}
			continue
		}
		res := fn.Signature.Results()
		for i := 0; i < res.Len(); i++ {
			if nt := namedOrigin(res.At(i).Type()); nt != nil {
				if d := by[nt]; d != nil {
					d.Ctors = append(d.Ctors, fn)
				}
			}
		}
	}
	// private builders: unexported functions that return the discipline and are called by one of its
	// constructors (New validates and calls create(opts) / build(opts, interval), which makes the
	// channels and the struct) count as part of the constructor, after the exported ones
	for _, fn := range p.Funcs() {
		if fn.Parent() != nil {
			continue
		}
		obj, _ := fn.Object().(*types.Func)
		if obj == nil || obj.Exported() {
			continue
		}
		res := fn.Signature.Results()
		for i := 0; i < res.Len(); i++ {
			nt := namedOrigin(res.At(i).Type())
			d := by[nt]
			if nt == nil || d == nil {
				continue
			}
			if _, isPtr := res.At(i).Type().(*types.Pointer); !isPtr {
				continue
			}
			called := false
			for _, ct := range d.Ctors {
				if ct != fn && p.Reach(ct)[fn] {
					called = true
				}
			}
			already := false
			for _, ct := range d.Ctors {
				if ct == fn {
					already = true
				}
			}
			if called && !already {
				d.Ctors = append(d.Ctors, fn)
			}
			break
		}
	}
	var out []*Disc
	for _, d := range by {
		out = append(out, d)
	}
	sort.Slice(out, func(i, j int) bool { return out[i].Name < out[j].Name })
	// private struct types that group fields of exactly one discipline by value (timing{interval,
	// passAt}, accumulation{items, locked}): a field of such a component, addressed through the
	// receiver of one of its methods, is a field of that discipline
	owners := map[*types.Named][]*types.Named{}
	for _, d := range out {
		seen := map[*types.Named]bool{}
		var walk func(t types.Type)
		walk = func(t types.Type) {
			st, ok := t.Underlying().(*types.Struct)
			if !ok {
				return
			}
			for i := 0; i < st.NumFields(); i++ {
				ft := st.Field(i).Type()
				nt, isNamed := ft.(*types.Named)
				if !isNamed {
					continue
				}
				nt = nt.Origin()
				if nt.Obj().Pkg() != d.Named.Obj().Pkg() || nt.Obj().Exported() || seen[nt] {
					continue
				}
				if _, isStruct := nt.Underlying().(*types.Struct); !isStruct {
					continue
				}
				seen[nt] = true
				owners[nt] = append(owners[nt], d.Named)
				walk(nt)
			}
		}
		walk(d.Named)
	}
	for nt, ds := range owners {
		if len(ds) == 1 && by[nt] == nil {
			componentOwner[nt] = ds[0]
		}
	}
	p.discCache = out
	return out
}

// componentOwner: private struct type -> the one discipline struct that holds it by value.
var componentOwner = map[*types.Named]*types.Named{}

func (p *Prog) Disc(name string) *Disc {
	for _, d := range p.Discs() {
		if d.Name == name {
			return d
		}
	}
	return nil
}

// DField is a struct field under the name the rules know it by (see canon.go).
type DField struct {
	*types.Var
	Canon string
}

func (f DField) Name() string { return f.Canon }

// Fields lists the struct's fields in declaration order.
func (d *Disc) Fields() []DField {
	st := d.Named.Underlying().(*types.Struct)
	var out []DField
	for i := 0; i < st.NumFields(); i++ {
		out = append(out, DField{st.Field(i), fieldName(d.Named, i)})
	}
	return out
}

// SpawnClosure: entries (keys) started directly or transitively by running fn.
func (p *Prog) SpawnClosure(fn *ssa.Function) []string {
	seen := map[string]bool{}
	var visit func(f *ssa.Function)
	visit = func(f *ssa.Function) {
		for g := range p.Reach(f) {
			for _, b := range g.Blocks {
				for _, in := range b.Instrs {
					if gs, ok := in.(*ssa.Go); ok {
						if e := p.Callee(gs); e != nil {
							k := p.FnKey(e)
							if !seen[k] {
								seen[k] = true
								visit(e)
							}
						}
					}
				}
			}
		}
	}
	visit(fn)
	return sortedKeys(seen)
}

// isSyncHandleType: values whose operations are synchronised by their implementation.
func isSyncHandleType(t types.Type) bool {
	switch u := t.Underlying().(type) {
	case *types.Chan, *types.Signature, *types.Basic:
		return true
	case *types.Interface:
		return true // context.Context and error values are immutable / thread-safe
	case *types.Pointer:
		if nt, ok := u.Elem().(*types.Named); ok {
			switch nt.Obj().Pkg().Path() + "." + nt.Obj().Name() {
			case "time.Ticker", "sync.WaitGroup", "github.com/akramarenkov/breaker.Breaker":
				return true
			}
		}
	case *types.Struct:
		if nt, ok := t.(*types.Named); ok && nt.Obj().Pkg() != nil && nt.Obj().Pkg().Path() == "time" {
			return true // time.Time, time.Duration values
		}
	}
	return false
}

// Live: functions reachable from goroutine entries, constructors, exported functions and
// methods, and package initialisers. Dead private helpers are ignored by the global scans.
func (p *Prog) Live() map[*ssa.Function]bool {
	if p.liveCache != nil {
		return p.liveCache
	}
	var roots []*ssa.Function
	for _, fn := range p.Funcs() {
		if fn.Parent() != nil {
			continue
		}
		obj, _ := fn.Object().(*types.Func)
		if fn.Synthetic != "" || fn.Name() == "init" || (obj != nil && obj.Exported()) {
			roots = append(roots, fn)
		}
	}
	for _, e := range p.GoEntries() {
		if e.Entry != nil {
			roots = append(roots, e.Entry)
		}
	}
	live := map[*ssa.Function]bool{}
	changed := true
	for _, r := range roots {
		for f := range p.Reach(r) {
			live[f] = true
		}
	}
	for changed {
		changed = false
		for f := range live {
			for _, b := range f.Blocks {
				for _, in := range b.Instrs {
					if g, ok := in.(*ssa.Go); ok {
						if e := p.Callee(g); e != nil && !live[e] {
							for x := range p.Reach(e) {
								live[x] = true
							}
							changed = true
						}
					}
				}
			}
		}
	}
	p.liveCache = live
	return live
}
