package main

import (
	"fmt"
	"go/token"
	"go/types"
	"sort"
	"strings"

	"golang.org/x/tools/go/ssa"
)

// Root is an origin of a reference value (map, slice, pointer, channel) found by following
// use-def chains through slicing, phis, conversions, append and product calls.
type Root struct {
	Kind string // param fresh fieldload global ext const recv
	V    ssa.Value
	Idx  int    // param index
	Path string // for fieldload: "T.f.g"
}

func (r Root) String() string {
	switch r.Kind {
	case "param":
		return fmt.Sprintf("param#%d(%s)", r.Idx, r.V.Name())
	case "fieldload":
		return "field:" + r.Path
	}
	return r.Kind
}

type aliasInfo struct {
	p        *Prog
	retRoots map[*ssa.Function][]Root
	cw       map[*ssa.Function]map[int]bool
	inprog   map[*ssa.Function]bool
}

func (p *Prog) alias() *aliasInfo {
	if p.aliasCache == nil {
		p.aliasCache = &aliasInfo{p: p, retRoots: map[*ssa.Function][]Root{}, cw: map[*ssa.Function]map[int]bool{}, inprog: map[*ssa.Function]bool{}}
	}
	return p.aliasCache
}

func paramIndex(fn *ssa.Function, par *ssa.Parameter) int {
	for i, q := range fn.Params {
		if q == par {
			return i
		}
	}
	return -1
}

// fieldPathOf returns "Type.f.g" if addr is a chain of FieldAddr rooted at a pointer to a named struct.
func fieldPathOf(v ssa.Value) (root ssa.Value, named *types.Named, path []string, ok bool) {
	for {
		switch a := v.(type) {
		case *ssa.FieldAddr:
			path = append([]string{fieldName(a.X.Type(), a.Field)}, path...)
			v = a.X
			continue
		case *ssa.Field:
			path = append([]string{fieldName(a.X.Type(), a.Field)}, path...)
			v = a.X
			continue
		}
		break
	}
	if len(path) == 0 {
		return nil, nil, nil, false
	}
	t := v.Type()
	if pt, isp := t.Underlying().(*types.Pointer); isp {
		t = pt.Elem()
	}
	nt, isn := t.(*types.Named)
	if !isn {
		return v, nil, path, true
	}
	return v, nt, path, true
}

func isRefType(t types.Type) bool {
	switch t.Underlying().(type) {
	case *types.Map, *types.Slice, *types.Pointer, *types.Chan, *types.Signature, *types.Interface:
		return true
	}
	return false
}

// Roots computes the origins of v inside its function.
func (ai *aliasInfo) Roots(v ssa.Value) []Root {
	seen := map[ssa.Value]bool{}
	var out []Root
	var walk func(v ssa.Value)
	walk = func(v ssa.Value) {
		if v == nil || seen[v] {
			return
		}
		seen[v] = true
		switch x := v.(type) {
		case *ssa.Parameter:
			out = append(out, Root{Kind: "param", V: x, Idx: paramIndex(x.Parent(), x)})
		case *ssa.FreeVar:
			out = append(out, Root{Kind: "ext", V: x})
		case *ssa.Const:
			out = append(out, Root{Kind: "const", V: x})
		case *ssa.Global:
			out = append(out, Root{Kind: "global", V: x})
		case *ssa.MakeMap, *ssa.MakeSlice, *ssa.MakeChan, *ssa.MakeClosure:
			out = append(out, Root{Kind: "fresh", V: x})
		case *ssa.Alloc:
			out = append(out, Root{Kind: "fresh", V: x})
		case *ssa.Slice:
			walk(x.X)
		case *ssa.Phi:
			for _, e := range x.Edges {
				walk(e)
			}
		case *ssa.ChangeType:
			walk(x.X)
		case *ssa.Convert:
			walk(x.X)
		case *ssa.MakeInterface:
			walk(x.X)
		case *ssa.ChangeInterface:
			walk(x.X)
		case *ssa.FieldAddr, *ssa.IndexAddr:
			// address inside an object: root is the object's root
			if fa, ok := x.(*ssa.FieldAddr); ok {
				walk(fa.X)
			} else {
				walk(x.(*ssa.IndexAddr).X)
			}
		case *ssa.UnOp:
			if x.Op == token.MUL {
				if _, nt, path, ok := fieldPathOf(x.X); ok {
					if al, isAlloc := baseOf(x.X).(*ssa.Alloc); isAlloc && !al.Heap {
						// field of a local struct: follow stored values
						if s := ai.p.Sym(x); s != nil && s.V != nil && s.V != ssa.Value(x) {
							walk(s.V)
							return
						}
					}
					name := "?"
					if nt != nil {
						name = nt.Obj().Name()
					}
					out = append(out, Root{Kind: "fieldload", V: x, Path: name + "." + strings.Join(path, ".")})
					return
				}
				if al, ok := x.X.(*ssa.Alloc); ok {
					// local variable: union of stored values
					for _, r := range *al.Referrers() {
						if st, ok := r.(*ssa.Store); ok && st.Addr == al {
							walk(st.Val)
						}
					}
					return
				}
				if g, ok := x.X.(*ssa.Global); ok {
					out = append(out, Root{Kind: "global", V: g})
					return
				}
				out = append(out, Root{Kind: "ext", V: x})
			} else if x.Op == token.ARROW {
				out = append(out, Root{Kind: "recv", V: x})
			} else {
				out = append(out, Root{Kind: "const", V: x})
			}
		case *ssa.Extract:
			switch t := x.Tuple.(type) {
			case *ssa.Call:
				ai.callRoots(t, x.Index, walk, &out)
			case *ssa.Select, *ssa.Next:
				out = append(out, Root{Kind: "recv", V: x})
			default:
				out = append(out, Root{Kind: "ext", V: x})
			}
		case *ssa.Call:
			ai.callRoots(x, -1, walk, &out)
		case *ssa.Lookup, *ssa.Index:
			out = append(out, Root{Kind: "ext", V: x})
		default:
			out = append(out, Root{Kind: "ext", V: x})
		}
	}
	walk(v)
	return out
}

func baseOf(v ssa.Value) ssa.Value {
	for {
		switch a := v.(type) {
		case *ssa.FieldAddr:
			v = a.X
			continue
		case *ssa.IndexAddr:
			v = a.X
			continue
		}
		return v
	}
}

func (ai *aliasInfo) callRoots(c *ssa.Call, resIdx int, walk func(ssa.Value), out *[]Root) {
	cc := c.Common()
	if b, ok := cc.Value.(*ssa.Builtin); ok {
		switch b.Name() {
		case "append":
			walk(cc.Args[0])
			*out = append(*out, Root{Kind: "fresh", V: c})
			return
		}
		*out = append(*out, Root{Kind: "const", V: c})
		return
	}
	callee := ai.p.Callee(c)
	if callee != nil && ai.p.IsProduct(callee) {
		for _, r := range ai.ReturnRoots(callee, resIdx) {
			if r.Kind == "param" {
				if r.Idx >= 0 && r.Idx < len(cc.Args) {
					walk(cc.Args[r.Idx])
				}
			} else {
				*out = append(*out, r)
			}
		}
		return
	}
	// product functions called through a method value / function-typed parameter
	if ts := ai.p.funcValueTargets(nil, c); len(ts) > 0 {
		for _, t := range ts {
			for _, r := range ai.ReturnRoots(t.Fn, resIdx) {
				if r.Kind == "param" {
					if r.Idx >= 0 && r.Idx < len(t.Args) {
						walk(t.Args[r.Idx])
					}
				} else {
					*out = append(*out, r)
				}
			}
		}
		return
	}
	if callee != nil {
		switch callee.String() {
		case "slices.Clone", "maps.Clone":
			*out = append(*out, Root{Kind: "fresh", V: c})
			return
		}
	}
	// dynamic call through a Divider-typed value (v1 returns the distribution)
	if callee == nil && !cc.IsInvoke() && isDividerType(cc.Value.Type()) {
		if len(cc.Args) == 3 {
			walk(cc.Args[2])
		}
		*out = append(*out, Root{Kind: "fresh", V: c})
		return
	}
	*out = append(*out, Root{Kind: "ext", V: c})
}

func isDividerType(t types.Type) bool {
	nt, ok := t.(*types.Named)
	return ok && nt.Obj().Name() == "Divider"
}

// ReturnRoots: roots of result #idx (or the single result when idx<0) of a product function.
func (ai *aliasInfo) ReturnRoots(fn *ssa.Function, idx int) []Root {
	if idx < 0 {
		idx = 0
	}
	var out []Root
	if ai.inprog[fn] {
		return []Root{{Kind: "ext"}}
	}
	ai.inprog[fn] = true
	defer delete(ai.inprog, fn)
	for _, b := range fn.Blocks {
		for _, in := range b.Instrs {
			if ret, ok := in.(*ssa.Return); ok && idx < len(ret.Results) {
				out = append(out, ai.Roots(ret.Results[idx])...)
			}
		}
	}
	return out
}

// ContentWrite is one instruction that mutates the referent of a reference value.
type ContentWrite struct {
	In     ssa.Instruction
	Target ssa.Value // the reference whose referent is written
	How    string
}

// contentWritesIn lists the content-mutating instructions of fn (direct, builtin, enumerated
// externals, and calls to product functions that mutate a parameter's referent).
func (ai *aliasInfo) contentWritesIn(fn *ssa.Function) []ContentWrite {
	var out []ContentWrite
	for _, b := range fn.Blocks {
		for _, in := range b.Instrs {
			switch x := in.(type) {
			case *ssa.MapUpdate:
				out = append(out, ContentWrite{x, x.Map, "map update"})
			case *ssa.Store:
				switch a := x.Addr.(type) {
				case *ssa.IndexAddr:
					out = append(out, ContentWrite{x, a.X, "element store"})
				case *ssa.FieldAddr:
					// store into a field through a pointer that is not a local alloc = content write of the pointer
					if al, ok := baseOf(a).(*ssa.Alloc); ok && !al.Heap {
						continue
					}
					_ = a
				}
			case ssa.CallInstruction:
				cc := x.Common()
				if bi, ok := cc.Value.(*ssa.Builtin); ok {
					switch bi.Name() {
					case "append":
						out = append(out, ContentWrite{x, cc.Args[0], "append (may write the backing array)"})
					case "copy":
						out = append(out, ContentWrite{x, cc.Args[0], "copy"})
					case "delete":
						out = append(out, ContentWrite{x, cc.Args[0], "delete"})
					case "clear":
						out = append(out, ContentWrite{x, cc.Args[0], "clear"})
					}
					continue
				}
				if _, isGo := in.(*ssa.Go); isGo {
					continue
				}
				callee := ai.p.Callee(x)
				if callee != nil && ai.p.IsProduct(callee) {
					for i := range ai.ContentWriteParams(callee) {
						if i < len(cc.Args) {
							out = append(out, ContentWrite{x, cc.Args[i], "call " + ai.p.funcDisplay(callee) + " mutates its parameter #" + fmt.Sprint(i)})
						}
					}
					continue
				}
				if callee != nil {
					name := callee.String()
					if i := strings.Index(name, "["); i >= 0 {
						name = name[:i]
					}
					switch name {
					case "sort.SliceStable", "sort.Slice", "sort.Sort", "sort.Stable", "slices.Sort", "slices.SortFunc", "slices.SortStableFunc", "slices.Reverse":
						out = append(out, ContentWrite{x, cc.Args[0], "call " + callee.String() + " sorts in place"})
					case "maps.Copy", "maps.DeleteFunc", "maps.Insert":
						out = append(out, ContentWrite{x, cc.Args[0], "call " + name + " writes its first argument"})
					}
					continue
				}
				if !cc.IsInvoke() && isDividerType(cc.Value.Type()) && len(cc.Args) == 3 {
					out = append(out, ContentWrite{x, cc.Args[2], "divider call writes its distribution argument (contract)"})
				}
			}
		}
	}
	return out
}

// ContentWriteParams: indices of parameters whose referent fn (transitively) may mutate.
func (ai *aliasInfo) ContentWriteParams(fn *ssa.Function) map[int]bool {
	if m, ok := ai.cw[fn]; ok {
		return m
	}
	m := map[int]bool{}
	ai.cw[fn] = m
	for _, w := range ai.contentWritesIn(fn) {
		for _, r := range ai.Roots(w.Target) {
			if r.Kind == "param" {
				m[r.Idx] = true
			}
		}
	}
	return m
}

func sortedKeys(m map[string]bool) []string {
	var out []string
	for k := range m {
		out = append(out, k)
	}
	sort.Strings(out)
	return out
}

func sortStrings(xs []string) { sort.Strings(xs) }
