package main

import (
	"fmt"
	"go/token"
	"go/types"
	"sort"
	"strings"

	"golang.org/x/tools/go/ssa"
)

// joinRoles resolves, by effect, the functions of one join-family discipline.
type joinRoles struct {
	p         *Prog
	d         *Disc
	rt        *Routine
	v1        bool
	unite     bool
	entry     *ssa.Function
	srcs      []*RecvSite
	emitSites []*SendSite
	loops     []*ssa.Function
	accept    *ssa.Function
	emitFn    *ssa.Function
	flush     *ssa.Function
	forward   *ssa.Function
	timeout   *ssa.Function
	key       string
	jf        *joinFlow
}

func (jr *joinRoles) String() string {
	p := jr.p
	f := func(fn *ssa.Function) string {
		if fn == nil {
			return "-"
		}
		return fn.Name()
	}
	var ls []string
	for _, l := range jr.loops {
		ls = append(ls, l.Name())
	}
	_ = p
	return fmt.Sprintf("loops=%v accept=%s flush=%s emit=%s forward=%s timeouted=%s", ls, f(jr.accept), f(jr.flush), f(jr.emitFn), f(jr.forward), f(jr.timeout))
}

func joinDiscs(c *Ctx) []*joinRoles {
	var out []*joinRoles
	for _, spec := range []struct {
		p     *Prog
		name  string
		unite bool
	}{{c.V1, "join.Discipline", false}, {c.V2, "join.Discipline", false}, {c.V2, "join/unite.Discipline", true}} {
		jr, err := resolveJoin(spec.p, spec.name, spec.unite)
		if err != nil {
			c.R.Fail("J0", spec.p.Name+":"+spec.name, "-", err.Error())
			continue
		}
		c.R.Pass("J0", jr.key, jr.p.Pos(jr.entry.Pos()), jr.String())
		for _, fn := range jr.rt.Funcs {
			c.R.Funcs[jr.p.FnKey(fn)] = true
		}
		out = append(out, jr)
	}
	return out
}

func resolveJoin(p *Prog, name string, unite bool) (*joinRoles, error) {
	d := p.Disc(name)
	if d == nil || len(d.Gos) != 1 {
		return nil, fmt.Errorf("UNRESOLVED-ANCHOR: %s:%s or its goroutine not found", p.Name, name)
	}
	jr := &joinRoles{p: p, d: d, rt: p.Routine(d, d.Gos[0]), v1: p.Name == "v1", unite: unite, entry: d.Gos[0].Entry, key: p.Name + ":" + name}
	for _, fn := range jr.rt.Funcs {
		has := false
		for _, rs := range p.RecvSites(fn) {
			if p.chanRole(rs.Chan) == "field:opts.Input" {
				jr.srcs = append(jr.srcs, rs)
				has = true
				if rs.Val != nil {
					for _, ref := range *rs.Val.Referrers() {
						if call, ok := ref.(*ssa.Call); ok {
							if cal := p.Callee(call); cal != nil && p.IsProduct(cal) && jr.accept == nil {
								jr.accept = cal
							}
						}
					}
				}
			}
		}
		if has {
			jr.loops = append(jr.loops, fn)
		}
		for _, ss := range p.SendSites(fn) {
			if p.chanRole(ss.Chan) == "field:output" {
				jr.emitSites = append(jr.emitSites, ss)
				if jr.emitFn == nil {
					jr.emitFn = fn
				}
			}
		}
	}
	if len(jr.srcs) == 0 || len(jr.emitSites) == 0 {
		return nil, fmt.Errorf("UNRESOLVED-ANCHOR: %s: input receive / output send not found in the goroutine", jr.key)
	}
	// the functions below are named for diagnostics only; no rule depends on them
	ai := p.alias()
	for _, fn := range jr.rt.Funcs {
		for _, b := range fn.Blocks {
			for _, in := range b.Instrs {
				call, ok := in.(*ssa.Call)
				if !ok || p.Callee(call) != jr.emitFn || len(call.Call.Args) < 2 {
					continue
				}
				for _, root := range ai.Roots(call.Call.Args[1]) {
					switch {
					case root.Kind == "fieldload" && strings.HasSuffix(root.Path, ".join"):
						jr.flush = fn
					case root.Kind == "param":
						jr.forward = fn
					}
				}
			}
		}
	}
	// timeout predicate: the call tested inside the ticker clause
	for _, fn := range jr.loops {
		for _, s := range Selects(fn) {
			for _, cs := range p.SelectInfo(s).Cases {
				if !strings.HasPrefix(p.chanRole(cs.State.Chan), "ticker:") || cs.Body == nil {
					continue
				}
				if iff, ok := cs.Body.Instrs[len(cs.Body.Instrs)-1].(*ssa.If); ok {
					base, _ := condOf(iff.Cond)
					if call, ok := base.(*ssa.Call); ok {
						if cal := p.Callee(call); cal != nil && p.IsProduct(cal) {
							jr.timeout = cal
						}
					}
				}
			}
		}
	}
	return jr, nil
}

// ---- term classification for the size comparisons ----

func deepStrip(s *Sym) *Sym {
	if s == nil {
		return nil
	}
	s = s.StripConv()
	if len(s.Args) == 0 {
		return s
	}
	n := *s
	n.Args = make([]*Sym, len(s.Args))
	for i, a := range s.Args {
		n.Args[i] = deepStrip(a)
	}
	return &n
}

// joinTerm names the quantities the join rules reason about.
func joinTerm(s *Sym) string {
	s = deepStrip(s)
	switch s.Op {
	case "const":
		if k, ok := symConstInt(s); ok {
			return fmt.Sprint(k)
		}
	case "call":
		if s.Name == "len" && len(s.Args) == 1 {
			a := s.Args[0]
			if _, path, ok := a.FieldPath(); ok && path[len(path)-1] == "join" {
				return "lenB"
			}
			// the value just written into the buffer field, kept in a local
			// (join := append(dsc.join, item); dsc.join = join; if len(join) < JoinSize)
			if a.V != nil {
				if refs := a.V.Referrers(); refs != nil {
					if _, isSlice := a.V.Type().Underlying().(*types.Slice); isSlice {
						for _, r := range *refs {
							if st, ok := fieldStore(r, "join"); ok && st.Val == a.V {
								return "lenB"
							}
						}
					}
				}
			}
			if a.Op == "param" {
				return "lenItem"
			}
		}
	case "field":
		if _, path, ok := s.FieldPath(); ok && strings.Join(path, ".") == "opts.JoinSize" {
			return "JS"
		}
	case "bin":
		if s.Name == "+" {
			a, b := joinTerm(s.Args[0]), joinTerm(s.Args[1])
			if a != "" && b != "" {
				x := []string{a, b}
				sort.Strings(x)
				return x[0] + "+" + x[1]
			}
		}
	}
	return ""
}

// cmpTerms renders a normalised comparison over join terms: "lenB < JS", "" if not expressible.
type termCmp struct {
	L, R string
	Op   token.Token // LSS, LEQ, EQL, NEQ
	K    int64       // L op R + K
}

func (p *Prog) termCmpOnEdge(e CondEdge) *termCmp {
	iff, ok := e.From.Instrs[len(e.From.Instrs)-1].(*ssa.If)
	if !ok {
		return nil
	}
	c := p.NormCmp(iff.Cond, e.Succ == 0)
	if c == nil {
		return nil
	}
	l, r := joinTerm(c.L), joinTerm(c.R)
	if l == "" || r == "" {
		return nil
	}
	return &termCmp{L: l, R: r, Op: c.Op, K: c.RC - c.LC}
}

// implies L < R (strict) or L <= R
func (t *termCmp) impliesLess(l, r string, strict bool) bool {
	if t == nil || t.L != l || t.R != r {
		return false
	}
	switch t.Op {
	case token.LSS: // L < R + K
		if strict {
			return t.K <= 0
		}
		return t.K <= 1
	case token.LEQ, token.EQL:
		if strict {
			return t.K < 0
		}
		return t.K <= 0
	}
	return false
}

func (t *termCmp) String() string {
	if t == nil {
		return "?"
	}
	if t.K == 0 {
		return t.L + " " + t.Op.String() + " " + t.R
	}
	return fmt.Sprintf("%s %s %s%+d", t.L, t.Op, t.R, t.K)
}

// ---- event recognisers ----

func fieldStore(in ssa.Instruction, field string) (*ssa.Store, bool) {
	st, ok := in.(*ssa.Store)
	if !ok {
		return nil, false
	}
	fa, ok := st.Addr.(*ssa.FieldAddr)
	if !ok || fieldName(fa.X.Type(), fa.Field) != field {
		return nil, false
	}
	return st, true
}

// rootStructOf: the named struct a field address is rooted in, looking through nested private
// structs that group fields (dsc.timing.passAt is a field of the discipline).
func rootStructOf(fa *ssa.FieldAddr) *types.Named {
	for {
		inner, ok := fa.X.(*ssa.FieldAddr)
		if !ok {
			nt := namedOrigin(fa.X.Type())
			// (the receiver of a method of a by-value component of a discipline)
			if _, isPar := fa.X.(*ssa.Parameter); isPar && nt != nil {
				if owner := componentOwner[nt]; owner != nil {
					return owner
				}
			}
			return nt
		}
		fa = inner
	}
}

// addrField: the struct field an address denotes, looking through a pointer parameter that the
// caller bound to &x.f (a method with pointer receiver on a wrapper type of the field).
func (p *Prog) addrField(fr *Frame, addr ssa.Value) (string, bool) {
	if fr != nil {
		if rv, _ := fr.Resolve(addr); rv != nil {
			addr = rv
		}
	}
	fa, ok := stripChangeType(addr).(*ssa.FieldAddr)
	if !ok {
		return "", false
	}
	return fieldName(fa.X.Type(), fa.Field), true
}

// isFieldLoadFr: v is a load of the named field, directly or through such a pointer parameter.
func (p *Prog) isFieldLoadFr(fr *Frame, v ssa.Value, field string) bool {
	v = stripChangeType(v)
	if ld, ok := v.(*ssa.UnOp); ok && ld.Op == token.MUL {
		if f, ok := p.addrField(fr, ld.X); ok && f == field {
			return true
		}
	}
	if fr != nil {
		if rv, _ := fr.Resolve(v); rv != nil && rv != v {
			return p.isFieldLoad(rv, field)
		}
	}
	return p.isFieldLoad(v, field)
}

func (p *Prog) fieldStoreFr(fr *Frame, in ssa.Instruction, field string) (*ssa.Store, bool) {
	st, ok := in.(*ssa.Store)
	if !ok {
		return nil, false
	}
	if f, ok := p.addrField(fr, st.Addr); ok && f == field {
		return st, true
	}
	return nil, false
}

// ingestOf: `B = append(B, x...)`; returns the appended source value.
func (p *Prog) ingestOf(in ssa.Instruction) (src ssa.Value, ok bool) { return p.ingestOfFr(nil, in) }

func (p *Prog) ingestOfFr(fr *Frame, in ssa.Instruction) (src ssa.Value, ok bool) {
	st, ok := p.fieldStoreFr(fr, in, "join")
	if !ok {
		return nil, false
	}
	call, ok := stripChangeType(st.Val).(*ssa.Call)
	if !ok {
		return nil, false
	}
	if b, ok := call.Call.Value.(*ssa.Builtin); !ok || b.Name() != "append" {
		// a pure helper that returns the extended buffer (dsc.join = dsc.join.add(item))
		if fn, inner := p.appendHelper(call); inner != nil {
			{
				{
					bi, si := -1, -1
					src := inner.Call.Args[1]
					if e, ok := varargsElem(src); ok {
						src = e
					}
					for i, par := range fn.Params {
						if stripChangeType(inner.Call.Args[0]) == ssa.Value(par) {
							bi = i
						}
						if stripChangeType(src) == ssa.Value(par) {
							si = i
						}
					}
					args := call.Call.Args
					if bi >= 0 && si >= 0 && bi < len(args) && si < len(args) && p.isFieldLoadFr(fr, args[bi], "join") {
						return args[si], true
					}
				}
			}
		}
		return nil, false
	}
	if !p.isFieldLoadFr(fr, call.Call.Args[0], "join") {
		return nil, false
	}
	return call.Call.Args[1], true
}

// appendHelper: call invokes a private function whose whole body is `return append(a, b)` /
// `return append(a, b...)` over its parameters; returns the function and the append call.
func (p *Prog) appendHelper(call *ssa.Call) (*ssa.Function, *ssa.Call) {
	fn := p.Callee(call)
	if fn == nil || !p.IsProduct(fn) {
		return nil, nil
	}
	var body *ssa.BasicBlock
	for _, b := range fn.Blocks {
		if b == fn.Recover {
			continue
		}
		if body != nil {
			return nil, nil
		}
		body = b
	}
	if body == nil || len(body.Instrs) == 0 {
		return nil, nil
	}
	ret, ok := body.Instrs[len(body.Instrs)-1].(*ssa.Return)
	if !ok || len(ret.Results) != 1 {
		return nil, nil
	}
	inner, ok := stripChangeType(ret.Results[0]).(*ssa.Call)
	if !ok {
		return nil, nil
	}
	if b, ok := inner.Call.Value.(*ssa.Builtin); !ok || b.Name() != "append" {
		return nil, nil
	}
	for _, in := range body.Instrs[:len(body.Instrs)-1] {
		switch x := in.(type) {
		case *ssa.DebugRef, *ssa.ChangeType, *ssa.IndexAddr, *ssa.Slice:
		case *ssa.Alloc:
			if x.Comment != "varargs" {
				return nil, nil
			}
		case *ssa.Store:
			ia, isIA := x.Addr.(*ssa.IndexAddr)
			if !isIA {
				return nil, nil
			}
			if al, isAl := ia.X.(*ssa.Alloc); !isAl || al.Comment != "varargs" {
				return nil, nil
			}
		case *ssa.Call:
			if x != inner {
				return nil, nil
			}
		default:
			return nil, nil
		}
	}
	return fn, inner
}

// isReset: `B = B[:0]`, `B = nil`, or `B = make([]T, 0, n)` (an empty buffer by any spelling)
func (p *Prog) isReset(in ssa.Instruction) bool { return p.isResetFr(nil, in) }

func (p *Prog) isResetFr(fr *Frame, in ssa.Instruction) bool {
	st, ok := p.fieldStoreFr(fr, in, "join")
	if !ok {
		return false
	}
	switch v := stripChangeType(st.Val).(type) {
	case *ssa.Slice:
		if !p.isFieldLoadFr(fr, v.X, "join") || v.Low != nil {
			return false
		}
		k, ok := constDuration(v.High)
		return ok && k == 0
	case *ssa.Const:
		return v.Value == nil
	case *ssa.MakeSlice:
		k, ok := constDuration(v.Len)
		return ok && k == 0
	case *ssa.Call:
		// a pure helper that returns the emptied buffer (dsc.join = dsc.join.emptied())
		xs := p.SymX(v)
		if xs.Op == "slice" && xs.Args[1] == nil && xs.Args[2] != nil && xs.Args[2].Op == "const" && xs.Args[2].Name == "0" {
			if _, path, ok := xs.Args[0].FieldPath(); ok && path[len(path)-1] == "join" {
				return true
			}
		}
	}
	return false
}

// varargsElem: for the `append(B, item)` single-element form returns item.
func varargsElem(v ssa.Value) (ssa.Value, bool) {
	sl, ok := v.(*ssa.Slice)
	if !ok || sl.Low != nil || sl.High != nil {
		return nil, false
	}
	al, ok := sl.X.(*ssa.Alloc)
	if !ok || al.Comment != "varargs" {
		return nil, false
	}
	at, ok := al.Type().(*types.Pointer).Elem().(*types.Array)
	if !ok || at.Len() != 1 {
		return nil, false
	}
	for _, r := range *al.Referrers() {
		if ia, ok := r.(*ssa.IndexAddr); ok {
			for _, rr := range *ia.Referrers() {
				if st, ok := rr.(*ssa.Store); ok && st.Addr == ia {
					return st.Val, true
				}
			}
		}
	}
	return nil, false
}

// payloadOrigin follows the value sent on the output back through parameters and
// prepare-style helpers. It reports the origin ("B" for the accumulation buffer, "item" for a
// parameter of the frame root, other), whether a Clone was applied and whether a slice
// expression was taken on the way.
type payload struct {
	origin string
	cloned []bool // one entry per possible path: true if cloned
	sliced bool
	detail string
	root   ssa.Value
}

func (p *Prog) payloadOrigin(fr *Frame, v ssa.Value) payload {
	pl := payload{}
	var walk func(fr *Frame, v ssa.Value, cloned bool, depth int)
	walk = func(fr *Frame, v ssa.Value, cloned bool, depth int) {
		if depth > 12 {
			pl.origin = "other"
			return
		}
		v = stripChangeType(v)
		switch x := v.(type) {
		case *ssa.Parameter:
			if fr.Site != nil && fr.Parent != nil {
				if a, afr, okA := fr.Arg(paramIndex(fr.Fn, x)); okA {
					walk(afr, a, cloned, depth+1)
					return
				}
				pl.origin = "other"
				return
			}
			pl.origin, pl.root = "item", x
			pl.cloned = append(pl.cloned, cloned)
		case *ssa.Extract:
			switch t := x.Tuple.(type) {
			case *ssa.Select:
				pl.origin, pl.root = "item", x
				pl.cloned = append(pl.cloned, cloned)
				return
			case *ssa.UnOp:
				if t.Op == token.ARROW {
					pl.origin, pl.root = "item", x
					pl.cloned = append(pl.cloned, cloned)
					return
				}
			}
			pl.origin = "other"
			pl.detail = p.Sym(x).String()
		case *ssa.Slice:
			pl.sliced = true
			pl.detail = "slice expression " + p.Sym(x).String()
			walk(fr, x.X, cloned, depth+1)
		case *ssa.Phi:
			for _, e := range x.Edges {
				walk(fr, e, cloned, depth+1)
			}
		case *ssa.UnOp:
			if x.Op == token.MUL && p.isFieldLoadFr(fr, x, "join") {
				pl.origin, pl.root = "B", x
				pl.cloned = append(pl.cloned, cloned)
				return
			}
			if x.Op == token.MUL {
				if al, ok := x.X.(*ssa.Alloc); ok {
					for _, r := range *al.Referrers() {
						if st, ok := r.(*ssa.Store); ok && st.Addr == al {
							walk(fr, st.Val, cloned, depth+1)
						}
					}
					return
				}
			}
			pl.origin = "other"
			pl.detail = p.Sym(x).String()
		case *ssa.Call:
			callee := p.Callee(x)
			if callee != nil && callee.String() == "slices.Clone" {
				walk(fr, x.Call.Args[0], true, depth+1)
				return
			}
			if bi, ok := x.Call.Value.(*ssa.Builtin); ok && bi.Name() == "append" && len(x.Call.Args) == 2 {
				// append(nil / fresh empty slice, src...) is a copy of src
				fresh := isNilConst(x.Call.Args[0])
				if ms, ok := x.Call.Args[0].(*ssa.MakeSlice); ok {
					if k, isK := constDuration(ms.Len); isK && k == 0 {
						fresh = true
					}
				}
				if fresh {
					walk(fr, x.Call.Args[1], true, depth+1)
					return
				}
			}
			if callee != nil && p.IsProduct(callee) {
				child := &Frame{Fn: callee, Site: x, Parent: fr}
				for _, b := range callee.Blocks {
					if ret, ok := b.Instrs[len(b.Instrs)-1].(*ssa.Return); ok && b.Comment != "recover" && len(ret.Results) == 1 {
						walk(child, ret.Results[0], cloned, depth+1)
					}
				}
				return
			}
			pl.origin = "other"
			pl.detail = p.Sym(x).String()
		default:
			pl.origin = "other"
			pl.detail = p.Sym(v).String()
		}
	}
	walk(fr, v, false, 0)
	return pl
}

// modeEdge: does edge e assert the no-copy mode (true) / copy mode (false)? ok=false if e does
// not test the mode option.
func (p *Prog) modeEdge(e CondEdge) (nocopy bool, ok bool) {
	iff, isIf := e.From.Instrs[len(e.From.Instrs)-1].(*ssa.If)
	if !isIf {
		return false, false
	}
	base, neg := condOf(iff.Cond)
	// a mode test extracted into an expression function (`dsc.waitsRelease()`) denotes its body
	truth := (e.Succ == 0) != neg
	return p.modeOfSym(p.SymX(base), truth, 0)
}

// modeOfSym: does `s == truth` assert the no-copy mode (true) / the copy mode (false)? The flag may
// be the option itself, `Released != nil`, their negation, or a parameter that every call site feeds
// with one of these (prepareItem(item, dsc.opts.Released != nil)).
func (p *Prog) modeOfSym(s *Sym, truth bool, depth int) (nocopy bool, ok bool) {
	if s == nil || depth > 4 {
		return false, false
	}
	for s.Op == "un" && s.Name == "!" {
		s, truth = s.Args[0], !truth
	}
	x := s.StripConv()
	if x.Op == "param" {
		up := p.upParam(x, 0)
		if up != x && up.String() != x.String() {
			return p.modeOfSym(p.expandSym(up, 0), truth, depth+1)
		}
		return false, false
	}
	if _, path, okp := x.FieldPath(); okp && strings.Join(path, ".") == "opts.NoCopy" {
		return truth, true
	}
	if x.Op == "bin" && (x.Name == "!=" || x.Name == "==") {
		l, r := x.Args[0], x.Args[1]
		if l.Op == "const" && l.Name == "nil" {
			l, r = r, l
		}
		if r.Op == "const" && r.Name == "nil" {
			ls := l.StripConv()
			if ls.Op == "param" {
				ls = p.upParam(ls, 0).StripConv() // the Released channel handed to a helper as an argument
			}
			if _, path, okp := ls.FieldPath(); okp && strings.Join(path, ".") == "opts.Released" {
				if x.Name == "!=" {
					return truth, true
				}
				return !truth, true
			}
		}
	}
	return false, false
}

// modeOf: the mode asserted on every path to block b ("nocopy", "copy", "").
func (p *Prog) modeOf(b *ssa.BasicBlock) string {
	for _, e := range DomEdges(b) {
		if nc, ok := p.modeEdge(e); ok {
			if nc {
				return "nocopy"
			}
			return "copy"
		}
	}
	return ""
}

// emitEvent: is `in` (or the select clause on this edge) an output send? returns the value sent.
func (p *Prog) emitInstr(in ssa.Instruction) (ssa.Value, bool) {
	if s, ok := in.(*ssa.Send); ok && p.chanRole(s.Chan) == "field:output" {
		return s.X, true
	}
	return nil, false
}

func (p *Prog) emitEdge(from *ssa.BasicBlock, succ int) (ssa.Value, bool) {
	if _, cs, _ := p.CaseOnEdge(from, succ); cs != nil && cs.State.Dir == types.SendOnly && p.chanRole(cs.State.Chan) == "field:output" {
		return cs.State.Send, true
	}
	return nil, false
}

func (p *Prog) stopEdge(from *ssa.BasicBlock, succ int) bool {
	if _, cs, _ := p.CaseOnEdge(from, succ); cs != nil {
		return strings.HasPrefix(p.stopRoleOf(cs.State.Chan), "stop:")
	}
	return false
}

// unreleasedEdge (v1): edge asserts dsc.unreleased == true
func (p *Prog) unreleasedEdge(from *ssa.BasicBlock, succ int) (val bool, ok bool) {
	iff, isIf := from.Instrs[len(from.Instrs)-1].(*ssa.If)
	if !isIf {
		return false, false
	}
	base, neg := condOf(iff.Cond)
	if !p.isFieldLoad(base, "unreleased") {
		return false, false
	}
	return (succ == 0) != neg, true
}
