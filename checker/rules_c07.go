package main

import (
	"fmt"
	"go/token"
	"go/types"
	"strings"

	"golang.org/x/tools/go/ssa"
)

func init() {
	register(&Property{
		ID:          "C07",
		Run:         runC07,
		Explanation: "Termination safety of the priority disciplines: E1 every normal return of the scheduling loop is dominated by 'all inputs observed drained' (v1: together with the graceful signal, or it is a stop/cancel return); E2 an input is marked drained only on the closed-channel edge of a receive from the channel of the same key; E3 the two for-all helpers (all inputs drained, all in-flight counters zero) answer true only after a complete pass over the map; E4 a wait-until-nothing-is-in-flight loop is deferred unconditionally at the top of the scheduling loop function and leaves only when all counters are zero (v1: or on stop/cancel); E5 termination signals (close of channels, Complete of breakers) are raised only by unconditional defers of a goroutine entry; E6 the error channel is written only under err != nil with a value that originates in the divider check; E7 v1 Simple joins its handlers before signalling; E11 (= X1) the table the all-drained test ranges over holds every configured input, registered unconditionally under its own key.",
		NotDecided:  []string{"'promptly': no time bound is derived", "that termination eventually happens (liveness)"},
	})
}

// schedRoles resolves, by effect, the helper functions of a priority scheduler.
type schedRoles struct {
	p          *Prog
	d          *Disc
	rt         *Routine
	allDrained *ssa.Function
	allZero    *ssa.Function
	waitZero   *ssa.Function
	loopFn     *ssa.Function
	markDrain  *ssa.Function
}

func rangesOver(fn *ssa.Function, pred func(v ssa.Value) bool) *ssa.Range {
	for _, b := range fn.Blocks {
		for _, in := range b.Instrs {
			if rg, ok := in.(*ssa.Range); ok && pred(rg.X) {
				return rg
			}
		}
	}
	return nil
}

func returnsBoolOnly(fn *ssa.Function) bool {
	res := fn.Signature.Results()
	if res.Len() != 1 {
		return false
	}
	b, ok := res.At(0).Type().Underlying().(*types.Basic)
	return ok && b.Kind() == types.Bool
}

func (p *Prog) isFieldLoad(v ssa.Value, field string) bool {
	s := p.Sym(v)
	_, path, ok := s.FieldPath()
	return ok && path[len(path)-1] == field
}

func resolveSchedRoles(p *Prog) (*schedRoles, error) {
	d := p.Disc("priority.Discipline")
	if d == nil || len(d.Gos) != 1 {
		return nil, fmt.Errorf("UNRESOLVED-ANCHOR: priority discipline scheduler not found in %s", p.Name)
	}
	sr := &schedRoles{p: p, d: d, rt: p.Routine(d, d.Gos[0])}
	for _, fn := range sr.rt.Funcs {
		if returnsBoolOnly(fn) && len(fn.Params) == 1 {
			if rangesOver(fn, func(v ssa.Value) bool { return isInputTableType(v.Type()) }) != nil {
				sr.allDrained = fn
			}
		}
		// marks drained: stores true into a Drained field
		for _, b := range fn.Blocks {
			for _, in := range b.Instrs {
				if st, ok := in.(*ssa.Store); ok {
					if fa, ok := st.Addr.(*ssa.FieldAddr); ok && fieldName(fa.X.Type(), fa.Field) == "Drained" {
						sr.markDrain = fn
					}
				}
			}
		}
	}
	// the wait-for-zero function: a deferred product call whose loop consumes releases and is
	// controlled by a boolean helper (the all-zero predicate), deferred by the function that
	// contains the scheduling loop
	for _, fn := range sr.rt.Funcs {
		for _, b := range fn.Blocks {
			for _, in := range b.Instrs {
				df, ok := in.(*ssa.Defer)
				if !ok {
					continue
				}
				callee := p.Callee(df)
				if callee == nil || !p.IsProduct(callee) || len(sccs(callee.Blocks, blockSet(callee.Blocks))) == 0 {
					continue
				}
				// (the receive may sit in a helper the loop calls: getOneFeedback)
				consumes := false
				for _, sub := range p.productClosure(callee) {
					for _, rs := range p.RecvSites(sub) {
						role := p.chanRole(rs.Chan)
						if role == "field:feedback" || role == "field:opts.Feedback" {
							consumes = true
						}
					}
				}
				if !consumes {
					continue
				}
				for _, cal := range calledIn(p, callee) {
					if returnsBoolOnly(cal) && len(cal.Params) == 1 && p.IsProduct(cal) {
						sr.allZero, sr.waitZero, sr.loopFn = cal, callee, fn
					}
				}
			}
		}
	}
	if sr.allDrained == nil || sr.markDrain == nil {
		return nil, fmt.Errorf("UNRESOLVED-ANCHOR: all-inputs-drained helper or the drained marker not found in %s", p.Name)
	}
	if sr.waitZero == nil {
		return nil, fmt.Errorf("UNRESOLVED-ANCHOR: no deferred wait-for-zero-in-flight function in %s (the wait must be a defer of the scheduling loop function)", p.Name)
	}
	return sr, nil
}

// productClosure: fn and the product functions it calls statically (transitively), fn first.
func (p *Prog) productClosure(fn *ssa.Function) []*ssa.Function {
	seen := map[*ssa.Function]bool{fn: true}
	out := []*ssa.Function{fn}
	for i := 0; i < len(out); i++ {
		for _, cal := range calledIn(p, out[i]) {
			if !seen[cal] && p.IsProduct(cal) {
				seen[cal] = true
				out = append(out, cal)
			}
		}
	}
	return out
}

func calledIn(p *Prog, fn *ssa.Function) []*ssa.Function {
	var out []*ssa.Function
	for _, b := range fn.Blocks {
		for _, in := range b.Instrs {
			if c, ok := in.(ssa.CallInstruction); ok {
				if cal := p.Callee(c); cal != nil {
					out = append(out, cal)
				}
			}
		}
	}
	return out
}

func runC07(c *Ctx) {
	r := c.R
	r.Doc("E0", "role resolution (by effect): all-drained helper, all-zero helper, deferred wait-for-zero, scheduling loop function, drained marker", 2)
	r.Doc("E1", "every normal return of the scheduling loop is dominated by all-inputs-drained == true (v1: with the graceful signal, or is a stop/cancel return); error returns carry a non-nil error; a normal return for the drained state exists", 7)
	r.Doc("E2", "Drained=true only on the closed edge of a receive from the channel of the same key", 4)
	r.Doc("E3", "for-all helpers return true only after the complete range loop, false only under the failed per-element test", 4)
	r.Doc("E4", "wait-for-zero loop is an unconditional defer of the scheduling loop function; its only exits are all-zero (v1: or stop/cancel); it only consumes releases", 2)
	r.Doc("E5", "close()/Complete() occur only as unconditional defers of goroutine entries", 20)
	r.Doc("E6", "err channel: written only under err != nil, value originates in the divider check (or is forwarded from the inner discipline)", 3)
	r.Doc("E7", "v1 Simple: handlers joined (wg.Wait) after cancel and before any signal; wg.Add before go; wg.Done deferred first", 3)
	r.Doc("E8", "(= B9, B11) actual changes only by +1 per send, -1 per received release, delete at zero", 8)
	r.Doc("E10", "the scheduler's idle pause is a small constant (closed inputs are observed, and termination signalled, promptly)", 2)
	r.Doc("E13", "outside selects the scheduler waits only for releases, the inner discipline, a tick of a ticker that only the entry's deferred clean-up stops, or a short constant time.After", 3)
	r.Doc("E14", "every channel the discipline makes and hands out through an exported method is closed by a defer of its goroutine entry (v2)", 2)
	r.Doc("E16", "(= N3) a round is allotment -> spend -> re-divide the remainder -> spend again: no exit between the phases except on error / stop", 2)
	r.Doc("E15", "(= N2) the scheduler blocks for a release only when the round-start calculation could not proceed, or in the final wait-for-zero", 3)
	r.Doc("E11", "(= X1) every configured / added input is registered in the table under its own key, unconditionally", 4)
	r.Doc("E12", "(= X9) v1 Simple: the supervising goroutine waits only for stop, cancel, the graceful request and the inner discipline's end", 7)
	r.Doc("E9", "the error channel never delays termination: made with capacity >= 1 and written at most once per goroutine (reading Err() is optional)", 3)
	// E19 (= D8, N4): an input whose priority has no share is never read, so never observed closed:
	// the v2 constructor refuses such configurations (otherwise Output()/Err() never close although
	// every input is closed and empty and everything is released)
	r.Doc("E20", "(= C17 R2) v1: a received AddInput command registers its channel inside its clause, unconditionally (an input the caller added is among those whose draining termination waits for)", 2)
	if pr, err := resolvePrio(c.V1); err == nil {
		checkCommandsApplied(c, pr, "E20")
	} else {
		r.Fail("E20", "v1:priority", "-", err.Error())
	}
	r.Doc("E19", "(= C15 D8) the v2 constructor rejects a zero share for any registered priority (every registered input is read, hence observed closed)", 1)
	{
		sub := &Ctx{V1: c.V1, V2: c.V2, Tier: c.Tier, R: NewReport("tmp", c.Tier)}
		checkD7D8(sub)
		for _, o := range sub.R.Obls {
			if o.Rule == "D8" {
				r.Check(o.OK, "E19", strings.TrimPrefix(o.Key, "D8@"), o.Site, o.Detail, o.Detail)
			}
		}
	}
	// E18 (= X7): "for the simplified disciplines termination additionally implies that every Handle
	// call has returned": the release follows the return of Handle (a release sent first lets the
	// scheduler see nothing in flight and close its channels while Handle still runs)
	r.Doc("E18", "(= C02 X7) simplified disciplines: Handle is called between the receive of an item and its release", 2)
	for _, p := range []*Prog{c.V1, c.V2} {
		sub := &Ctx{V1: c.V1, V2: c.V2, Tier: c.Tier, R: NewReport("tmp", c.Tier)}
		c02handlers(sub, p)
		for _, o := range sub.R.Obls {
			r.Check(o.OK, "E18", strings.TrimPrefix(o.Key, "X7@"), o.Site, o.Detail, o.Detail)
		}
	}
	// E17 (= R1, X10): v1 - an input handed to AddInput is registered when the call returns, so a
	// GracefulStop requested after it cannot find "every input drained" without it (a queued
	// command is dropped when the goroutine ends: GracefulStop returns with that input still open)
	r.Doc("E17", "(= C17 R1) v1 command channels are unbuffered: an added input is registered, and seen by the drained test, when AddInput returns", 2)
	if d := c.V1.Disc("priority.Discipline"); d != nil && len(d.Ctors) > 0 {
		for _, f := range []string{"inputAdds", "inputRmvs"} {
			capc := c.V1.chanCapacityConst(d, f)
			r.Check(capc == 0, "E17", "v1:priority.Discipline#"+f, c.V1.Pos(d.Ctors[0].Pos()), "make(chan, 0)", fmt.Sprintf("command channel %s is made with capacity %d: AddInput returns before the scheduler has registered the input, a graceful stop requested next can find every registered input drained and return while the added input is still open", f, capc))
		}
	} else {
		r.Fail("E17", "v1:priority.Discipline", "-", "UNRESOLVED-ANCHOR: v1 priority discipline not found")
	}
	for _, p := range []*Prog{c.V1, c.V2} {
		sr, err := resolveSchedRoles(p)
		if err != nil {
			r.Fail("E0", p.Name+":priority", "-", err.Error())
			continue
		}
		r.Pass("E0", p.Name+":priority", p.Pos(sr.loopFn.Pos()), fmt.Sprintf("allDrained=%s allZero=%s waitZero=%s loop=%s mark=%s", shortFn(p, sr.allDrained), shortFn(p, sr.allZero), shortFn(p, sr.waitZero), shortFn(p, sr.loopFn), shortFn(p, sr.markDrain)))
		for _, fn := range sr.rt.Funcs {
			r.Funcs[p.FnKey(fn)] = true
		}
		c07loopReturns(c, sr)
		c07drainedMarks(c, sr)
		c07forall(c, sr, sr.allDrained, "Drained")
		c07forall(c, sr, sr.allZero, "zero")
		c07waitZero(c, sr)
		c07errChannel(c, p)
		checkConstantIdleSleep(c, sr, "E10")
		checkSchedulerWaits(c, sr, "E13")
		// E16 (= N3): every round runs both phases. An input whose priority has no share of its own
		// (v1 accepts such configurations) is read - and observed closed - only in the second phase: a
		// round that ends after the first phase never marks it drained, and the discipline never ends
		if pr, err := resolvePrio(p); err == nil {
			sub := &Ctx{V1: c.V1, V2: c.V2, Tier: c.Tier, R: NewReport("tmp", c.Tier)}
			checkN3(sub, pr)
			for _, o := range sub.R.Obls {
				if o.Rule == "N3" && !strings.Contains(o.Key, "#remainder") {
					c.R.Check(o.OK, "E16", o.Key, o.Site, o.Detail, o.Detail)
				}
			}
		}
		// E15 (= N2): a blocking wait for a release is reached only when the round-start calculation
		// could not proceed (something is in flight) or in the final wait-for-zero: anywhere else the
		// scheduler may park with nothing in flight, and then observes neither closed inputs nor the
		// graceful request
		if pr, err := resolvePrio(p); err == nil {
			sub := &Ctx{V1: c.V1, V2: c.V2, Tier: c.Tier, R: NewReport("tmp", c.Tier)}
			checkN2(sub, pr)
			for _, o := range sub.R.Obls {
				if o.Rule == "N2" && strings.Contains(o.Key, "#release-wait") {
					c.R.Check(o.OK, "E15", o.Key, o.Site, o.Detail, o.Detail)
				}
			}
		}
		// E8: `actual` is only changed by +1 on a successful send, -1 per received release and (v1)
		// deletion at zero - otherwise termination is signalled with items unreleased
		if pr, err := resolvePrio(p); err == nil {
			sub := &Ctx{V1: c.V1, V2: c.V2, Tier: c.Tier, R: NewReport("tmp", c.Tier)}
			checkB9(sub, pr)
			if pr.v1 {
				checkB11(sub, pr)
			}
			// (nothing else writes the counts: handed to a writer, or - v2 - cleared)
			subc := &Ctx{V1: c.V1, V2: c.V2, Tier: c.Tier, R: NewReport("tmp", c.Tier)}
			checkB1(subc, pr)
			for _, o := range subc.R.Obls {
				if strings.Contains(o.Key, "#actual-content") {
					sub.R.Check(o.OK, o.Rule, o.Key, o.Site, o.Detail, o.Detail)
				}
			}
			for _, o := range sub.R.Obls {
				c.R.Check(o.OK, "E8", o.Key, o.Site, o.Detail, o.Detail)
			}
		} else {
			r.Fail("E8", p.Name+":priority", "-", err.Error())
		}
		errChannelNonBlocking(c, p, "E9")
		// E11 (= X1): the table the all-drained test ranges over holds every configured input under
		// its own key - an input that is not registered is never required to be closed and emptied
		{
			sub := &Ctx{V1: c.V1, V2: c.V2, Tier: c.Tier, R: NewReport("tmp", c.Tier)}
			c02registration(sub, p)
			for _, o := range sub.R.Obls {
				c.R.Check(o.OK, "E11", o.Key, o.Site, o.Detail, o.Detail)
			}
		}
	}
	signalRules(c, c.V1, "E5")
	signalRules(c, c.V2, "E5")
	isPrio := func(d *Disc) bool { return strings.HasPrefix(d.Rel, "priority") }
	checkExposedClosed(c, c.V2, "E14", isPrio) // (the property asks this of v2 only: v1 signals termination by GracefulStop/Stop returning)
	checkSupervisorWaits(c, c.V1, "E12")
	// E7
	if d := c.V1.Disc("priority.Simple"); d != nil {
		for _, e := range d.Gos {
			if !e.Multi && e.Parent == nil {
				childJoinRules(c, c.V1.Routine(d, e), "E7")
			}
		}
	} else {
		r.Fail("E7", "v1:priority.Simple", "-", "UNRESOLVED-ANCHOR: v1 Simple not found")
	}
}

// namedResultValue: for `*t0 = v; rundefers; t = *t0; return t` returns v.
func returnedValues(ret *ssa.Return) []ssa.Value {
	out := make([]ssa.Value, len(ret.Results))
	for i, rv := range ret.Results {
		out[i] = rv
		if ld, ok := rv.(*ssa.UnOp); ok && ld.Op == token.MUL {
			if al, ok := ld.X.(*ssa.Alloc); ok {
				// latest store to al in the same block before ret
				var last ssa.Value
				for _, in := range ret.Block().Instrs {
					if st, ok := in.(*ssa.Store); ok && st.Addr == al {
						last = st.Val
					}
				}
				if last != nil {
					out[i] = last
				}
			}
		}
	}
	return out
}

func isNilConst(v ssa.Value) bool {
	c, ok := v.(*ssa.Const)
	return ok && c.Value == nil
}

func c07loopReturns(c *Ctx, sr *schedRoles) {
	r, p := c.R, sr.p
	fn := sr.loopFn
	n, normalExits := 0, 0
	for _, b := range fn.Blocks {
		if b.Comment == "recover" {
			continue
		}
		ret, ok := b.Instrs[len(b.Instrs)-1].(*ssa.Return)
		if !ok {
			continue
		}
		n++
		vals := returnedValues(ret)
		errV := vals[len(vals)-1]
		edges := DomEdges(b)
		key := fmt.Sprintf("%s#return.%d", p.FnKey(fn), n)
		desc := describeEdges(p, edges)
		if !isNilConst(errV) {
			// error exit: dominated by errV != nil
			ok := false
			for _, e := range edges {
				iff := e.From.Instrs[len(e.From.Instrs)-1].(*ssa.If)
				if bo, isB := iff.Cond.(*ssa.BinOp); isB && bo.Op == token.NEQ && bo.X == errV && isNilConst(bo.Y) && e.Succ == 0 {
					ok = true
				}
			}
			r.Check(ok, "E1", key, p.InstrPos(ret), "error return under err != nil", "scheduling loop returns a possibly-nil error value as its error result without testing it: "+desc)
			continue
		}
		drained, graceful, stop := false, false, false
		for _, e := range edges {
			fs := c07edgeFacts(p, sr, e, 0)
			drained = drained || fs["drained"]
			graceful = graceful || fs["graceful"]
			stop = stop || fs["stop"]
		}
		hasGraceful := false
		for _, f := range sr.d.Fields() {
			if f.Name() == "graceful" {
				hasGraceful = true
			}
		}
		// the drained test must not be restricted to rounds that moved something: an idle discipline
		// (processed == 0) is exactly the state in which it has to terminate
		for _, e := range edges {
			iff := e.From.Instrs[len(e.From.Instrs)-1].(*ssa.If)
			if cm := p.NormCmp(iff.Cond, e.Succ == 0); cm != nil && strings.Contains(cm.String(), "base(") && strings.Contains(cm.String(), "#0") {
				zeroSide := (cm.L.String() == "0" && cm.LC == 0) || (cm.R.String() == "0" && cm.RC == 0)
				if zeroSide && (cm.Op == token.NEQ || cm.Op == token.LSS) && !stop {
					r.Fail("E1", key+"#idle", p.InstrPos(ret), "the normal return is reachable only after a round that processed something ("+cm.String()+"): once the inputs are closed and empty every round processes nothing, so the discipline never terminates")
				} else if !stop {
					// any other test of the processed count must admit 0: processed == 0, processed < c, processed <= c
					admitsZero := (cm.Op == token.EQL && zeroSide && cm.LC == 0 && cm.RC == 0) ||
						((cm.Op == token.LSS || cm.Op == token.LEQ) && strings.Contains(cm.L.String(), "base(") && !strings.Contains(cm.R.String(), "base("))
					if !admitsZero {
						r.Fail("E1", key+"#idle", p.InstrPos(ret), "the normal return is tied to "+cm.String()+", which a round that processed nothing does not satisfy: once the inputs are closed and empty every round processes nothing, so the discipline never terminates")
					}
				}
			}
		}
		switch {
		case stop:
			r.Pass("E1", key, p.InstrPos(ret), "stop/cancel return (C16): "+desc)
		case drained && (graceful || !hasGraceful):
			normalExits++
			r.Pass("E1", key, p.InstrPos(ret), "normal return under: "+desc)
		default:
			r.Fail("E1", key, p.InstrPos(ret), "the scheduling loop can return normally (and the discipline then signals termination) without having observed every input closed and empty; conditions on this return: "+desc)
		}
	}
	// ... and such a return exists: the drained state (with the graceful request, where the discipline
	// has one) is answered by a return that is not the stop/cancel one
	r.Check(normalExits > 0, "E1", p.FnKey(fn)+"#drained-exit", p.Pos(fn.Pos()), "the scheduling loop has a normal return for the drained state", "no return of the scheduling loop answers the drained state (all inputs closed and empty"+map[bool]string{true: ", graceful stop requested", false: ""}[hasGracefulField(sr)]+"): the discipline never terminates on its own")
}

func hasGracefulField(sr *schedRoles) bool {
	for _, f := range sr.d.Fields() {
		if f.Name() == "graceful" {
			return true
		}
	}
	return false
}

// c07edgeFacts: what is known when edge e is taken: "drained" (the all-inputs-drained test answered
// true), "graceful" / "stop" (the clause of that signal was taken). A test of a boolean helper
// (isGracefullyCompleted()) contributes what holds on every path on which the helper can return true.
func c07edgeFacts(p *Prog, sr *schedRoles, e CondEdge, depth int) map[string]bool {
	out := map[string]bool{}
	if p.edgeIsCallResult(e, func(f *ssa.Function) bool { return f == sr.allDrained }, true) {
		out["drained"] = true
		return out
	}
	if _, cs, _ := p.CaseOnEdge(e.From, e.Succ); cs != nil {
		role := p.stopRoleOf(cs.State.Chan)
		if strings.HasPrefix(role, "stop:") {
			out["stop"] = true
		}
		if role == "graceful" {
			out["graceful"] = true
		}
		return out
	}
	iff, ok := e.From.Instrs[len(e.From.Instrs)-1].(*ssa.If)
	if !ok || depth > 3 {
		return out
	}
	base, neg := condOf(iff.Cond)
	call, isCall := base.(*ssa.Call)
	if !isCall || ((e.Succ == 0) == neg) {
		return out // not "helper answered true"
	}
	h := p.Callee(call)
	if h == nil || !p.IsProduct(h) || h == sr.allDrained || !returnsBoolOnly(h) {
		return out
	}
	first := true
	for _, b := range h.Blocks {
		ret, isRet := b.Instrs[len(b.Instrs)-1].(*ssa.Return)
		if !isRet || b == h.Recover {
			continue
		}
		if cv, isC := ret.Results[0].(*ssa.Const); isC && constString(cv) == "false" {
			continue
		}
		fs := map[string]bool{}
		if rc, isRC := ret.Results[0].(*ssa.Call); isRC && p.Callee(rc) == sr.allDrained {
			fs["drained"] = true
		}
		for _, e2 := range DomEdges(b) {
			for k, v := range c07edgeFacts(p, sr, e2, depth+1) {
				if v {
					fs[k] = true
				}
			}
		}
		if first {
			out, first = fs, false
			continue
		}
		for k := range out {
			if !fs[k] {
				delete(out, k)
			}
		}
	}
	return out
}

func c07drainedMarks(c *Ctx, sr *schedRoles) {
	r, p := c.R, sr.p
	// E2b: (re-)registering a channel must not inherit the drained flag of the previous one
	for _, fn := range p.Funcs() {
		if rel, _ := p.Rel(fn); rel != "priority" {
			continue
		}
		n := 0
		for _, b := range fn.Blocks {
			for _, in := range b.Instrs {
				mu, ok := in.(*ssa.MapUpdate)
				if !ok || !isInputTableType(mu.Map.Type()) {
					continue
				}
				val := p.Sym(mu.Value)
				// (the record may be built by a pure constructor: common.NewInput(channel))
				if val.Op == "call" {
					if x := p.SymX(mu.Value); x != nil && x.Op == "struct" {
						val = x
					}
				}
				if val.Op != "struct" {
					continue
				}
				hasBase, setsChan, setsDrained := false, false, false
				for _, k := range val.Keys {
					switch k {
					case "<base>":
						hasBase = true
					case "Channel":
						setsChan = true
					case "Drained":
						setsDrained = true
					}
				}
				if !setsChan {
					continue
				}
				n++
				r.Check(!hasBase || setsDrained, "E2", fmt.Sprintf("%s#register.%d", p.FnKey(fn), n), p.InstrPos(mu), "a newly registered channel starts not drained",
					"a channel is registered by overwriting only the Channel of the existing entry: the Drained flag observed on the previous (closed) channel is inherited, the new channel is never read and the discipline terminates with its items undelivered")
			}
		}
	}
	// E2c/E2-mark: the closed edge of every input receive marks THAT input drained before anything
	// else is received, and an input is marked drained only there. Decided as a typestate over the
	// scheduler with every callee inlined: idle -closed edge of table[k]-> closed(k) -mark(k)-> idle.
	type recvRes struct {
		rs  *RecvSite
		bad []string
		n   int
	}
	recvs := map[ssa.Value]*recvRes{} // by comma-ok value
	var recvOrder []*recvRes
	perFn := map[string]int{}
	for _, fn := range sr.rt.Funcs {
		for _, rs := range p.RecvSites(fn) {
			if !isInputChanType(rs.Chan.Type()) || rs.Ok == nil {
				continue
			}
			perFn[p.FnKey(fn)]++
			rr := &recvRes{rs: rs, n: perFn[p.FnKey(fn)]}
			recvs[rs.Ok] = rr
			recvOrder = append(recvOrder, rr)
		}
	}
	type markRes struct {
		in      ssa.Instruction
		bad     []string
		covered bool
		what    string
	}
	marks := map[ssa.Instruction]*markRes{}
	var markOrder []*markRes
	isMark := func(in ssa.Instruction) (*ssa.MapUpdate, bool) {
		mu, ok := in.(*ssa.MapUpdate)
		if !ok || !isInputTableType(mu.Map.Type()) {
			return nil, false
		}
		val := p.Sym(mu.Value)
		if val.Op != "struct" {
			return nil, false
		}
		for i, k := range val.Keys {
			if k == "Drained" && val.Args[i] != nil && val.Args[i].String() == "true" {
				return mu, true
			}
		}
		return nil, false
	}
	for _, fn := range sr.rt.Funcs {
		for _, b := range fn.Blocks {
			for _, in := range b.Instrs {
				if _, ok := isMark(in); ok {
					mr := &markRes{in: in}
					marks[in] = mr
					markOrder = append(markOrder, mr)
				}
			}
		}
	}
	fl := &Flow{P: p, TrackBoolReturns: true}
	closedOf := map[string]*recvRes{}
	fl.Edge = func(fr *Frame, st string, from *ssa.BasicBlock, succ int) []string {
		iff, ok := from.Instrs[len(from.Instrs)-1].(*ssa.If)
		if !ok {
			return nil
		}
		base, neg := condOf(iff.Cond)
		rfr := fr
		if r2, f2 := fr.Resolve(base); r2 != nil {
			base, rfr = r2, f2 // (the comma-ok may have been handed to a helper: forward(item, opened, priority))
		}
		rr := recvs[base]
		if rr == nil || (succ == 0) != neg {
			return nil
		}
		// closed edge of rr
		k := tableKeyOf(p.SymFrame(rfr, rr.rs.Chan))
		ks := "?"
		if k != nil {
			ks = k.String()
		}
		if strings.HasPrefix(st, "closed|") {
			closedOf[st].bad = append(closedOf[st].bad, "another input is observed closed before this one was marked drained")
		}
		ns := "closed|" + ks + "|" + rr.rs.Pos(p)
		closedOf[ns] = rr
		return []string{ns}
	}
	fl.Instr = func(fr *Frame, st string, in ssa.Instruction) []string {
		if mu, ok := isMark(in); ok {
			mr := marks[in]
			key := p.SymFrame(fr, mu.Key).StripInst().String()
			mr.what = key
			if !strings.HasPrefix(st, "closed|") {
				mr.bad = append(mr.bad, "not on the closed edge of any input receive ["+fr.Chain(p)+"]")
				return nil
			}
			parts := strings.SplitN(st, "|", 3)
			if parts[1] != key {
				mr.bad = append(mr.bad, fmt.Sprintf("closed channel was registered under %s but %s is marked drained", parts[1], key))
				return []string{"idle"}
			}
			mr.covered = true
			return []string{"idle"}
		}
		// a further receive from an input while one is closed and unmarked
		if strings.HasPrefix(st, "closed|") {
			if sel, isSel := in.(*ssa.Select); isSel {
				for _, cs := range p.SelectInfo(sel).Cases {
					if isInputChanType(cs.State.Chan.Type()) {
						closedOf[st].bad = append(closedOf[st].bad, "the next input receive is reached without marking this input drained")
						return []string{"idle"}
					}
				}
			}
		}
		return nil
	}
	fl.Exit = func(fr *Frame, st string, ret *ssa.Return) []string {
		if fr.Parent == nil && strings.HasPrefix(st, "closed|") {
			closedOf[st].bad = append(closedOf[st].bad, "the scheduler returns without marking this input drained")
		}
		return nil
	}
	fl.Run(sr.loopFn, []string{"idle"})
	if fl.Err != nil {
		r.Fail("E2", p.FnKey(sr.loopFn)+"#flow", p.Pos(sr.loopFn.Pos()), fl.Err.Error())
	}
	for _, rr := range recvOrder {
		r.Check(len(rr.bad) == 0, "E2", fmt.Sprintf("%s#closed.%d", p.FnKey(rr.rs.Fn), rr.n), rr.rs.Pos(p), "closed edge marks the input drained", "the closed-channel edge of this input receive does not mark the input drained ("+strings.Join(dedup(rr.bad), "; ")+"): the all-inputs-drained condition is never reached and the discipline never terminates normally")
	}
	if len(markOrder) == 0 {
		r.Fail("E2", p.Name+":priority#mark", "-", "UNRESOLVED-ANCHOR: no input is ever marked drained")
	}
	ord := map[string]int{}
	for _, mr := range markOrder {
		fk := p.FnKey(mr.in.Parent())
		ord[fk]++
		if !mr.covered && len(mr.bad) == 0 {
			mr.bad = append(mr.bad, "not on the closed edge of any input receive (never reached from one)")
		}
		r.Check(len(mr.bad) == 0, "E2", fmt.Sprintf("%s#mark.%d", fk, ord[fk]), p.InstrPos(mr.in), "on the closed edge of the receive from table["+mr.what+"]", "input marked drained "+strings.Join(dedup(mr.bad), "; ")+": the discipline may terminate while that input still holds data")
	}
}

// forwardsTo: fn only hands on the answer of another product function (`return isZero(dsc.actual)`);
// returns that function, following chains.
func (p *Prog) forwardsTo(fn *ssa.Function) *ssa.Function {
	for depth := 0; depth < 3 && fn != nil; depth++ {
		var body *ssa.BasicBlock
		for _, b := range fn.Blocks {
			if b == fn.Recover {
				continue
			}
			if body != nil {
				return fn
			}
			body = b
		}
		if body == nil {
			return fn
		}
		ret, ok := body.Instrs[len(body.Instrs)-1].(*ssa.Return)
		if !ok || len(ret.Results) != 1 {
			return fn
		}
		call, ok := ret.Results[0].(*ssa.Call)
		if !ok {
			return fn
		}
		g := p.Callee(call)
		if g == nil || !p.IsProduct(g) || g == fn {
			return fn
		}
		// nothing but loads and the call
		for _, in := range body.Instrs[:len(body.Instrs)-1] {
			switch in.(type) {
			case *ssa.FieldAddr, *ssa.UnOp, *ssa.Field, *ssa.DebugRef, *ssa.Alloc, *ssa.Store, *ssa.ChangeType:
			case *ssa.Call:
				if in != ssa.Instruction(call) {
					return fn
				}
			default:
				return fn
			}
		}
		fn = g
	}
	return fn
}

func c07forall(c *Ctx, sr *schedRoles, fn *ssa.Function, what string) {
	r, p := c.R, sr.p
	key := p.FnKey(fn)
	fn = p.forwardsTo(fn) // the predicate may be a pure function the method only forwards to
	var problems []string
	overActual := func(v ssa.Value) bool {
		if p.isFieldLoad(v, "actual") {
			return true
		}
		// a plain function over a map parameter: every call site hands it the `actual` map
		par, isPar := v.(*ssa.Parameter)
		if !isPar {
			return false
		}
		sites := p.CallSites(par.Parent())
		if len(sites) == 0 {
			return false
		}
		for _, cs := range sites {
			idx := paramIndex(par.Parent(), par)
			if idx < 0 || idx >= len(cs.Common().Args) || !p.isFieldLoad(cs.Common().Args[idx], "actual") {
				return false
			}
		}
		return true
	}
	if what == "zero" && rangesOver(fn, overActual) == nil {
		r.Fail("E3", key, p.Pos(fn.Pos()), "the nothing-in-flight predicate does not range over the whole `actual` map: counters of priorities outside the set it visits (e.g. a removed input with items still in flight) are ignored and termination is signalled while items are unreleased")
		return
	}
	// the loop: SCCs
	comps := sccs(fn.Blocks, blockSet(fn.Blocks))
	if len(comps) != 1 {
		r.Fail("E3", key, p.Pos(fn.Pos()), fmt.Sprintf("UNDECIDED: expected exactly one loop, found %d", len(comps)))
		return
	}
	loop := blockSet(comps[0])
	var header *ssa.BasicBlock
	for _, b := range comps[0] {
		if boundedHeader(b, loop) {
			header = b
		}
	}
	if header == nil {
		r.Fail("E3", key, p.Pos(fn.Pos()), "UNDECIDED: loop is not a range loop")
		return
	}
	doneSucc := 0
	if loop[header.Succs[0]] {
		doneSucc = 1
	}
	trues, falses := 0, 0
	for _, b := range fn.Blocks {
		ret, ok := b.Instrs[len(b.Instrs)-1].(*ssa.Return)
		if !ok || b.Comment == "recover" {
			continue
		}
		cv, isC := ret.Results[0].(*ssa.Const)
		if !isC {
			problems = append(problems, "UNDECIDED: non-constant result at "+p.InstrPos(ret))
			continue
		}
		edges := DomEdges(b)
		if constString(cv) == "true" {
			trues++
			afterLoop := false
			for _, e := range edges {
				if e.From == header && e.Succ == doneSucc {
					afterLoop = true
				}
			}
			if (!afterLoop || loop[b]) && !(!loop[b] && p.emptyGuarded(b)) {
				problems = append(problems, fmt.Sprintf("returns true at %s before every element was examined", p.InstrPos(ret)))
			}
		} else {
			falses++
			// must be under the failed per-element test
			okTest := false
			for _, e := range edges {
				if !loop[e.From] {
					continue
				}
				iff := e.From.Instrs[len(e.From.Instrs)-1].(*ssa.If)
				switch what {
				case "Drained":
					base, neg := condOf(iff.Cond)
					if p.isFieldLoad(base, "Drained") || strings.HasSuffix(p.Sym(base).String(), ".Drained") {
						if (e.Succ == 0) == neg { // Drained is false on this edge
							okTest = true
						}
					}
				case "zero":
					if cmp := p.NormCmp(iff.Cond, e.Succ == 0); cmp != nil {
						// element != 0  (normalised: 0 < elem)
						if cmp.Op == token.LSS && cmp.L.String() == "0" && cmp.LC == 0 && cmp.RC == 0 && strings.Contains(cmp.R.String(), "next:") {
							okTest = true
						}
					}
				}
			}
			if !okTest {
				problems = append(problems, fmt.Sprintf("returns false at %s not under the per-element test (%s)", p.InstrPos(ret), what))
			}
		}
	}
	if trues == 0 || falses == 0 {
		problems = append(problems, fmt.Sprintf("helper has %d true and %d false returns", trues, falses))
	}
	r.Check(len(problems) == 0, "E3", key, p.Pos(fn.Pos()), "true only after the whole range; false only under the failed test", strings.Join(problems, "; "))
}

// reportsOnlyStop: a boolean product function that answers true only from its stop/cancel select
// clauses (getOneFeedback() bool: "interrupted").
func (p *Prog) reportsOnlyStop(fn *ssa.Function) bool {
	if fn == nil || !p.IsProduct(fn) || !returnsBoolOnly(fn) {
		return false
	}
	trues := 0
	for _, b := range fn.Blocks {
		ret, ok := b.Instrs[len(b.Instrs)-1].(*ssa.Return)
		if !ok || b == fn.Recover {
			continue
		}
		cv, isC := ret.Results[0].(*ssa.Const)
		if !isC {
			return false
		}
		if constString(cv) != "true" {
			continue
		}
		trues++
		onStop := false
		for _, e := range DomEdges(b) {
			if _, cs, _ := p.CaseOnEdge(e.From, e.Succ); cs != nil && strings.HasPrefix(p.stopRoleOf(cs.State.Chan), "stop:") {
				onStop = true
			}
		}
		if !onStop && !p.blockIsStopCase(b) {
			return false
		}
	}
	return trues > 0
}

// blockIsStopCase: b is the body of a stop/cancel clause of a select (entered only through it).
func (p *Prog) blockIsStopCase(b *ssa.BasicBlock) bool {
	if len(b.Preds) == 0 {
		return false
	}
	for _, pr := range b.Preds {
		ok := false
		for i, s := range pr.Succs {
			if s != b {
				continue
			}
			if _, cs, _ := p.CaseOnEdge(pr, i); cs != nil && strings.HasPrefix(p.stopRoleOf(cs.State.Chan), "stop:") {
				ok = true
			}
		}
		if !ok {
			return false
		}
	}
	return true
}

func c07waitZero(c *Ctx, sr *schedRoles) {
	r, p := c.R, sr.p
	fn, wz := sr.loopFn, sr.waitZero
	key := p.FnKey(fn) + "#defer:" + shortFn(p, wz)
	var problems []string
	// unconditional defer at the top: in block 0, before any call/select/loop
	found := false
	for _, in := range fn.Blocks[0].Instrs {
		if df, ok := in.(*ssa.Defer); ok && p.Callee(df) == wz {
			found = true
			break
		}
		if _, ok := in.(*ssa.Call); ok {
			break
		}
		if _, ok := in.(*ssa.Select); ok {
			break
		}
	}
	if !found {
		problems = append(problems, "the wait is not deferred unconditionally before the first call of the scheduling loop function (an exit could skip it)")
	}
	// the scheduling loop function must be called from the entry (not deferred, not in a goroutine)
	// exits of the wait loop
	comps := sccs(wz.Blocks, blockSet(wz.Blocks))
	if len(comps) != 1 {
		problems = append(problems, fmt.Sprintf("UNDECIDED: wait function has %d loops", len(comps)))
	} else {
		loop := blockSet(comps[0])
		for _, b := range comps[0] {
			for i, s := range b.Succs {
				if loop[s] {
					continue
				}
				if _, isPanic := s.Instrs[len(s.Instrs)-1].(*ssa.Panic); isPanic && len(s.Instrs) <= 2 {
					continue
				}
				e := CondEdge{b, i}
				okExit := p.edgeIsCallResult(e, func(f *ssa.Function) bool { return f == sr.allZero }, true)
				if _, cs, _ := p.CaseOnEdge(b, i); cs != nil && strings.HasPrefix(p.stopRoleOf(cs.State.Chan), "stop:") {
					okExit = true
				}
				// ... or a helper that consumes one release reported that it was interrupted by stop/cancel
				if p.edgeIsCallResult(e, p.reportsOnlyStop, true) {
					okExit = true
				}
				if !okExit {
					problems = append(problems, fmt.Sprintf("wait loop can be left at %s under %s, i.e. with items still in flight", p.InstrPos(b.Instrs[len(b.Instrs)-1]), p.condSymOnEdge(e)))
				}
			}
		}
	}
	// ... and so does every return of the wait function: every path to it takes an edge on which
	// the all-zero predicate answered true (or a stop clause / a stop-reporting helper): a fast path
	// around the loop lets termination be signalled - channels closed - with releases still unread
	okEdge := func(e CondEdge) bool {
		if p.edgeIsCallResult(e, func(f *ssa.Function) bool { return f == sr.allZero }, true) {
			return true
		}
		if p.edgeIsCallResult(e, p.reportsOnlyStop, true) {
			return true
		}
		if _, cs, _ := p.CaseOnEdge(e.From, e.Succ); cs != nil && strings.HasPrefix(p.stopRoleOf(cs.State.Chan), "stop:") {
			return true
		}
		return false
	}
	for _, b := range wz.Blocks {
		ret, isRet := b.Instrs[len(b.Instrs)-1].(*ssa.Return)
		if !isRet || b == wz.Recover {
			continue
		}
		if !allPathsPassAny(b, okEdge) {
			problems = append(problems, fmt.Sprintf("the wait function can return at %s without the all-zero predicate having answered true: termination is signalled with releases unread", p.InstrPos(ret)))
		}
	}
	r.Check(len(problems) == 0, "E4", key, p.Pos(wz.Pos()), "deferred first; leaves only when all counters are zero (or on stop)", strings.Join(problems, "; "))
}

// allPathsPassAny: every path from the entry of b's function to b takes some edge (conditional or
// select clause) accepted by pred.
func allPathsPassAny(b *ssa.BasicBlock, pred func(e CondEdge) bool) bool {
	fn := b.Parent()
	// blocks reachable from the entry without taking an accepted edge
	seen := map[*ssa.BasicBlock]bool{fn.Blocks[0]: true}
	work := []*ssa.BasicBlock{fn.Blocks[0]}
	for len(work) > 0 {
		x := work[len(work)-1]
		work = work[:len(work)-1]
		if x == b {
			return false
		}
		for i, s := range x.Succs {
			if pred(CondEdge{x, i}) {
				continue
			}
			if !seen[s] {
				seen[s] = true
				work = append(work, s)
			}
		}
	}
	return true
}

func c07errChannel(c *Ctx, p *Prog) {
	r := c.R
	ai := p.alias()
	// the overrun fault is raised only when more is in flight than there are handlers: raised on
	// HandlersQuantity <= busy (all handlers busy - the normal loaded state) it ends a healthy
	// discipline with a non-nil error
	for _, fn := range p.errorFuncs("priority") {
		k := 0
		for _, b := range fn.Blocks {
			ret, ok := b.Instrs[len(b.Instrs)-1].(*ssa.Return)
			if !ok || b == fn.Recover || len(ret.Results) == 0 {
				continue
			}
			ld, isLd := ret.Results[len(ret.Results)-1].(*ssa.UnOp)
			if !isLd || ld.Op != token.MUL {
				continue
			}
			g, isG := ld.X.(*ssa.Global)
			if !isG || g.Name() != "ErrQuantityExceeded" {
				continue
			}
			k++
			okGuard := AllPathsPass(b, func(e CondEdge) bool {
				iff := e.From.Instrs[len(e.From.Instrs)-1].(*ssa.If)
				cm := p.NormCmp(iff.Cond, e.Succ == 0)
				if cm == nil || cm.Op != token.LSS || cm.LC != 0 || cm.RC != 0 {
					return false
				}
				_, path, okp := p.upParam(deepStrip(cm.L), 0).FieldPath() // (may be handed to a pure helper: calcVacantsQuantity(dsc.opts.HandlersQuantity, dsc.actual))
				return okp && path[len(path)-1] == "HandlersQuantity" && deepStrip(cm.R).Op != "const"
			})
			r.Check(okGuard, "E6", fmt.Sprintf("%s#overrun-guard.%d", p.FnKey(fn), k), p.InstrPos(ret), "ErrQuantityExceeded only under HandlersQuantity < in-flight total",
				"ErrQuantityExceeded is returned under "+describeEdges(p, DomEdges(b))+", not exactly when more is in flight than HandlersQuantity: a healthy discipline (all handlers busy, or fewer) ends with a non-nil error on Err()")
		}
	}
	for _, d := range p.Discs() {
		for _, e := range d.Gos {
			rt := p.Routine(d, e)
			for _, fn := range rt.Funcs {
				n := 0
				for _, ss := range p.SendSites(fn) {
					if p.chanRole(ss.Chan) != "field:err" {
						continue
					}
					n++
					key := fmt.Sprintf("%s#errsend.%d", p.FnKey(fn), n)
					var problems []string
					// forwarded from inner discipline's Err()
					vs := p.Sym(ss.Val)
					forwarded := false
					if ex, ok := ss.Val.(*ssa.Extract); ok {
						if sel, ok := ex.Tuple.(*ssa.Select); ok {
							for _, cs := range p.SelectInfo(sel).Cases {
								if cs.RecvVal == ex && p.chanRole(cs.State.Chan) == "call:Err" {
									forwarded = true
								}
							}
						}
					}
					if !forwarded {
						guarded := false
						for _, ed := range InstrDomEdges(ss.In) {
							iff := ed.From.Instrs[len(ed.From.Instrs)-1].(*ssa.If)
							if bo, isB := iff.Cond.(*ssa.BinOp); isB && bo.Op == token.NEQ && bo.X == ss.Val && isNilConst(bo.Y) && ed.Succ == 0 {
								guarded = true
							}
						}
						if !guarded {
							problems = append(problems, "value "+vs.String()+" is written to err without an err != nil test")
						}
						for _, root := range ai.Roots(ss.Val) {
							switch root.Kind {
							case "const":
							case "global":
								g := root.V.(*ssa.Global)
								if g.Name() != "ErrDividerBad" && g.Name() != "ErrQuantityExceeded" {
									problems = append(problems, "error value "+g.Name()+" does not come from the divider check")
								}
							case "ext":
								s := p.Sym(root.V).String()
								if !strings.Contains(s, "safe.SumInt") && !strings.Contains(s, "safe.") {
									problems = append(problems, "error value of unknown origin: "+s)
								}
							default:
								problems = append(problems, "error value of unexpected origin: "+root.String())
							}
						}
					}
					r.Check(len(problems) == 0, "E6", key, p.InstrPos(ss.In), "guarded, origin = divider check / inner discipline", strings.Join(dedup(problems), "; "))
				}
			}
		}
	}
}

// signalRules (E5 / G2): close() and Complete() only as unconditional defers of goroutine entries,
// and after the first user-visible signal only non-blocking deferred calls run.
func signalRules(c *Ctx, p *Prog, rule string) {
	r := c.R
	entries := map[*ssa.Function]*GoEntry{}
	for _, e := range p.GoEntries() {
		if e.Entry != nil {
			entries[e.Entry] = e
		}
	}
	for _, fn := range p.Funcs() {
		n := 0
		for _, b := range fn.Blocks {
			for _, in := range b.Instrs {
				call, ok := in.(ssa.CallInstruction)
				if !ok {
					continue
				}
				kind := ""
				if bi, ok := call.Common().Value.(*ssa.Builtin); ok && bi.Name() == "close" {
					kind = "close(" + symChanRole(p.Sym(call.Common().Args[0])) + ")"
				} else if cal := p.Callee(call); cal != nil && strings.HasSuffix(p.funcDisplay(cal), "breaker.Breaker).Complete") {
					kind = "Complete()"
				}
				if kind == "" {
					continue
				}
				n++
				key := fmt.Sprintf("%s#signal.%d", p.FnKey(fn), n)
				_, isDefer := in.(*ssa.Defer)
				ok2 := isDefer && entries[fn] != nil && b.Index == 0
				owner := entries[fn]
				// ... or a call in a straight-line clean-up helper that only ever runs as such a defer
				// (defer dsc.terminate(); terminate = close(release); close(output))
				if !ok2 && entries[fn] == nil && b == straightLine(fn) {
					if e := p.cleanupOnly(fn, entries, 0); e != nil {
						ok2, owner = true, e
					}
				}
				why := kind + " is not an unconditional defer of a goroutine entry: the signal can be raised early, twice or skipped"
				if ok2 && owner.Parent != nil {
					// a child / helper goroutine ends before its parent: a signal raised by its defers is early
					ok2 = false
					why = kind + " is raised by a goroutine that another goroutine of the discipline starts and joins: the signal is given while the parent (and the handlers it still has to join) are running"
				}
				r.Check(ok2, rule, key, p.InstrPos(in), kind+" as an unconditional defer of a goroutine entry", why)
			}
		}
	}
}

// childJoinRules (E7 / S5-S6 / G3 for v1 Simple): run-order constraints of a spawning entry.
func childJoinRules(c *Ctx, rt *Routine, rule string) {
	r, p := c.R, rt.P
	fn := rt.E.Entry
	ekey := p.FnKey(fn)
	order, ok := p.CleanupOrder(fn)
	if !ok {
		r.Fail(rule, ekey+"#order", p.Pos(fn.Pos()), "UNDECIDED: conditional defer in a goroutine entry")
		return
	}
	desc := p.describeDefers(order)
	pos := map[string]int{}
	firstSignal := -1
	for i, d := range order {
		k, a := p.deferKind(d)
		if (k == "close" || k == "complete") && firstSignal < 0 {
			firstSignal = i
		}
		if k == "call" && strings.HasSuffix(a, ".Stop") {
			k = "substop"
		}
		if _, seen := pos[k]; !seen {
			pos[k] = i
		}
	}
	var bad []string
	wi, okw := pos["wgwait"]
	ci, okc := pos["cancel"]
	si, oks := pos["substop"]
	if !okw {
		bad = append(bad, "handlers are never joined (no deferred wg.Wait)")
	} else if firstSignal >= 0 && wi > firstSignal {
		bad = append(bad, "a termination signal is raised before the handlers are joined")
	}
	if !okc {
		bad = append(bad, "handlers' context is never cancelled")
	} else if okw && ci > wi {
		bad = append(bad, "wg.Wait() runs before cancel()")
	}
	if !oks {
		bad = append(bad, "the inner discipline is never stopped")
	} else if firstSignal >= 0 && si > firstSignal {
		bad = append(bad, "a termination signal is raised before the inner discipline is stopped")
	}
	r.Check(len(bad) == 0, rule, ekey+"#order", p.Pos(fn.Pos()), "run order: "+desc, strings.Join(bad, "; ")+" (run order: "+desc+")")
	for _, b := range rt.routineBlocks() {
		for i, in := range b.Instrs {
			g, ok := in.(*ssa.Go)
			if !ok {
				continue
			}
			added := false
			for j := i - 1; j >= 0; j-- {
				if call, ok := b.Instrs[j].(*ssa.Call); ok {
					if cal := p.Callee(call); cal != nil && p.funcDisplay(cal) == "(*sync.WaitGroup).Add" {
						if d, ok := constDuration(call.Call.Args[1]); ok && d == 1 {
							added = true
						}
					}
				}
			}
			r.Check(added, rule, ekey+"#add", p.InstrPos(g), "wg.Add(1) precedes go", "go statement without a preceding wg.Add(1) in the same block: wg.Wait() may return while the handler runs")
			child := p.Callee(g)
			doneFirst := false
			if child != nil && len(child.Blocks) > 0 {
				for _, ci := range child.Blocks[0].Instrs {
					if d, ok := ci.(*ssa.Defer); ok {
						if k, _ := p.deferKind(d); k == "wgdone" {
							doneFirst = true
						}
						break
					}
					if _, ok := ci.(ssa.CallInstruction); ok {
						break
					}
					if _, ok := ci.(*ssa.Select); ok {
						break
					}
				}
			}
			r.Check(doneFirst, rule, ekey+"#done", p.InstrPos(g), "child defers wg.Done() first", "spawned goroutine does not defer wg.Done() before anything else")
			// a child without a context parameter is a helper: it must be the joined-helper idiom
			takesCtx := false
			if child != nil {
				for _, par := range child.Params {
					if typeShort(par.Type()) == "context.Context" {
						takesCtx = true
					}
				}
			}
			if !takesCtx {
				okh, why := false, "UNDECIDED: spawned goroutine is not a resolved entry"
				for _, ce := range rt.D.Gos {
					if ce.Stmt == g {
						okh, why = p.helperBounded(rt.D, ce)
					}
				}
				r.Check(okh, rule, ekey+"#helper:"+shortFn(p, child), p.InstrPos(g), why, "spawned goroutine takes no context and is not a bounded helper: "+why)
				continue
			}
			// the context handed to the child is the one the deferred cancel() cancels
			ctxOK := false
			for _, a := range g.Common().Args {
				s := p.Sym(p.originOf(a, 0)) // the context may reach the go statement through a helper's parameter
				if s.Op == "extract" && s.Name == "0" && s.Args[0].Op == "call" && s.Args[0].Name == "context.WithCancel" {
					ctxOK = true
				}
			}
			r.Check(ctxOK, rule, ekey+"#ctx", p.InstrPos(g), "child receives the cancellable context", "spawned handler is not given the context that the deferred cancel() cancels")
		}
	}
}

// errChannelNonBlocking: every send on an `err` field channel is the accepted non-blocking idiom.
func errChannelNonBlocking(c *Ctx, p *Prog, rule string) {
	for _, d := range p.Discs() {
		for _, e := range d.Gos {
			rt := p.Routine(d, e)
			for _, fn := range rt.Funcs {
				n := 0
				for _, ss := range p.SendSites(fn) {
					if p.chanRole(ss.Chan) != "field:err" {
						continue
					}
					n++
					var bad []string
					if capc := p.chanCapacityConst(d, "err"); capc < 1 {
						bad = append(bad, fmt.Sprintf("the error channel is made with capacity %d", capc))
					}
					if ss.Case == nil && !p.atMostOnce(e.Entry, ss.In) {
						bad = append(bad, "more than one send per goroutine life")
					}
					if ss.Case != nil && !ss.Sel.HasDefault {
						bad = append(bad, "the send is a clause of a blocking select: without a reader of Err() (reading it is optional) the goroutine does not end until it is stopped")
					}
					c.R.Check(len(bad) == 0, rule, fmt.Sprintf("%s#errsend.%d", p.FnKey(fn), n), p.InstrPos(ss.In), "capacity >= 1, at most one send: cannot block", strings.Join(bad, "; ")+": termination (closing of the channels, return of GracefulStop) waits for somebody to read Err()")
				}
			}
		}
	}
}
