package main

import (
	"go/token"
	"go/types"
	"sort"
	"strings"

	"golang.org/x/tools/go/ssa"
)

// Event layer of the join-family rules. The rules are stated over what the goroutine DOES -
// receive from the input, append to the accumulation buffer, write to the output, truncate the
// buffer, set the pass time, wait for the release, take a ticker / stop clause, test a size or
// timeout condition - and are decided by a typestate flow that inlines every product callee.
// Which function a statement sits in is irrelevant: extracting a helper, inlining one, or
// splitting a function in two does not change the sequence of events on any path.

type jev struct {
	kind string // src ingest emit reset passat release select tick stop open closed unrel+ unrel- setunrel+ setunrel- tmo+ tmo- rundefers
	in   ssa.Instruction
	v    ssa.Value // emit: value sent; ingest: appended source
	rs   *RecvSite
}

type joinFlow struct {
	jr         *joinRoles
	p          *Prog
	srcByInstr map[ssa.Instruction]*RecvSite
	srcByEdge  map[string]*RecvSite
	okOf       map[ssa.Value]*RecvSite
	srcSelects map[ssa.Instruction]bool
	pruneEdge  func(e CondEdge) bool
}

func jfEdgeKey(b *ssa.BasicBlock, succ int) string {
	return b.Parent().String() + "/" + itoa3(b.Index) + "/" + itoa3(succ)
}

func itoa3(i int) string {
	if i == 0 {
		return "0"
	}
	s := ""
	for i > 0 {
		s = string(rune('0'+i%10)) + s
		i /= 10
	}
	return s
}

func (jr *joinRoles) flow() *joinFlow {
	if jr.jf != nil {
		return jr.jf
	}
	p := jr.p
	jf := &joinFlow{jr: jr, p: p, srcByInstr: map[ssa.Instruction]*RecvSite{}, srcByEdge: map[string]*RecvSite{}, okOf: map[ssa.Value]*RecvSite{}, srcSelects: map[ssa.Instruction]bool{}}
	for _, fn := range jr.rt.Funcs {
		for _, rs := range p.RecvSites(fn) {
			if p.chanRole(rs.Chan) != "field:opts.Input" {
				continue
			}
			if rs.Case != nil {
				if rs.Case.From != nil {
					jf.srcByEdge[jfEdgeKey(rs.Case.From, rs.Case.Succ)] = rs
				}
				jf.srcSelects[rs.In] = true
			} else {
				jf.srcByInstr[rs.In] = rs
			}
			if rs.Ok != nil {
				jf.okOf[rs.Ok] = rs
			}
		}
	}
	jr.jf = jf
	return jf
}

func (jf *joinFlow) releaseRole() string {
	if jf.jr.v1 {
		return "field:opts.Released"
	}
	return "field:release"
}

// timeoutCmp: the comparison on edge e relates the time elapsed since passAt to Opts.Timeout.
// expired: the edge asserts "timed out"; canonical: it is exactly Timeout <= elapsed (or its negation).
func (p *Prog) timeoutCmp(cond ssa.Value, truth bool) (isTimeout, expired, canonical bool, c *Cmp) {
	cm := p.NormCmp(cond, truth)
	if cm == nil {
		return false, false, false, nil
	}
	isTO := func(x *Sym) bool {
		_, path, ok := deepStrip(x).FieldPath()
		return ok && strings.Join(path, ".") == "opts.Timeout"
	}
	isElapsed := func(x *Sym) bool {
		x = deepStrip(x)
		if x.Op == "call" && x.Name == "time.Since" && len(x.Args) == 1 {
			_, path, ok := x.Args[0].FieldPath()
			return ok && path[len(path)-1] == "passAt"
		}
		if x.Op == "call" && x.Name == "(time.Time).Sub" && len(x.Args) == 2 && x.Args[0].Op == "call" && x.Args[0].Name == "time.Now" {
			_, path, ok := x.Args[1].FieldPath()
			return ok && path[len(path)-1] == "passAt"
		}
		return false
	}
	mentions := func(x *Sym) bool {
		return x.Contains(func(s *Sym) bool {
			if s.Op == "field" {
				if _, path, ok := s.FieldPath(); ok && (path[len(path)-1] == "passAt" || strings.Join(path, ".") == "opts.Timeout") {
					return true
				}
			}
			return false
		})
	}
	if !mentions(cm.L) && !mentions(cm.R) {
		return false, false, false, nil
	}
	switch {
	case isTO(cm.L) && isElapsed(cm.R) && cm.LC == 0 && cm.RC == 0 && cm.Op == token.LEQ:
		return true, true, true, cm // Timeout <= elapsed
	case isElapsed(cm.L) && isTO(cm.R) && cm.LC == 0 && cm.RC == 0 && cm.Op == token.LSS:
		return true, false, true, cm // elapsed < Timeout
	case isTO(cm.L) && isElapsed(cm.R) && cm.LC == 0 && cm.RC == 0 && cm.Op == token.LSS:
		return true, true, false, cm // Timeout < elapsed: expires one tick late
	case isElapsed(cm.L) && isTO(cm.R) && cm.LC == 0 && cm.RC == 0 && cm.Op == token.LEQ:
		return true, false, false, cm
	}
	return true, false, false, cm
}

// instrEvents: the events of one (non-call-descended) instruction.
func (jf *joinFlow) instrEvents(fr *Frame, in ssa.Instruction) []jev {
	p := jf.p
	if rs := jf.srcByInstr[in]; rs != nil {
		return []jev{{kind: "src", in: in, rs: rs}}
	}
	if v, ok := p.emitInstr(in); ok {
		return []jev{{kind: "emit", in: in, v: v}}
	}
	if src, ok := p.ingestOfFr(fr, in); ok {
		return []jev{{kind: "ingest", in: in, v: src}}
	}
	if p.isResetFr(fr, in) {
		return []jev{{kind: "reset", in: in}}
	}
	if _, ok := p.fieldStoreFr(fr, in, "join"); ok {
		return []jev{{kind: "bufwrite", in: in}}
	}
	if _, ok := p.fieldStoreFr(fr, in, "passAt"); ok {
		return []jev{{kind: "passat", in: in}}
	}
	if st, ok := p.fieldStoreFr(fr, in, "unreleased"); ok {
		if c, isC := st.Val.(*ssa.Const); isC && constString(c) == "true" {
			return []jev{{kind: "setunrel+", in: in}}
		}
		return []jev{{kind: "setunrel-", in: in}}
	}
	if u, ok := in.(*ssa.UnOp); ok && u.Op == token.ARROW && p.chanRole(u.X) == jf.releaseRole() {
		return []jev{{kind: "release", in: in}}
	}
	if s, ok := in.(*ssa.Select); ok && jf.srcSelects[s] {
		// the select that waits for the next input value: an iteration boundary
		return []jev{{kind: "select", in: in}}
	}
	return nil
}

// edgeEvents: the events of taking edge from->Succs[succ].
func (jf *joinFlow) edgeEvents(fr *Frame, from *ssa.BasicBlock, succ int) []jev {
	p := jf.p
	var last ssa.Instruction
	if len(from.Instrs) > 0 {
		last = from.Instrs[len(from.Instrs)-1]
	}
	if rs := jf.srcByEdge[jfEdgeKey(from, succ)]; rs != nil {
		return []jev{{kind: "src", in: rs.In, rs: rs}}
	}
	if si, cs, _ := p.CaseOnEdge(from, succ); si != nil {
		if cs == nil {
			return nil
		}
		role := p.chanRole(cs.State.Chan)
		switch {
		case cs.State.Dir == types.SendOnly && role == "field:output":
			return []jev{{kind: "emit", in: si.Sel, v: cs.State.Send}}
		case strings.HasPrefix(role, "ticker:"):
			return []jev{{kind: "tick", in: si.Sel}}
		case strings.HasPrefix(p.stopRoleOf(cs.State.Chan), "stop:"):
			return []jev{{kind: "stop", in: si.Sel}}
		case role == jf.releaseRole():
			return []jev{{kind: "release", in: si.Sel}}
		}
		return nil
	}
	iff, ok := last.(*ssa.If)
	if !ok {
		return nil
	}
	base, neg := condOf(iff.Cond)
	truth := (succ == 0) != neg
	okv := base
	if fr != nil {
		// the comma-ok result may have been handed to a helper as an argument
		okv, _ = fr.Resolve(base)
	}
	if rs := jf.okOf[okv]; rs != nil {
		if truth {
			return []jev{{kind: "open", in: iff, rs: rs}}
		}
		return []jev{{kind: "closed", in: iff, rs: rs}}
	}
	if p.isFieldLoad(base, "unreleased") {
		if truth {
			return []jev{{kind: "unrel+", in: iff}}
		}
		return []jev{{kind: "unrel-", in: iff}}
	}
	if isTO, expired, _, _ := p.timeoutCmp(iff.Cond, succ == 0); isTO {
		if expired {
			return []jev{{kind: "tmo+", in: iff}}
		}
		return []jev{{kind: "tmo-", in: iff}}
	}
	return nil
}

// jhandler: transfer of one rule. Rule states are "<mode>|<facts>": the mode belongs to the rule,
// the facts are maintained by run() for every rule alike:
//
//	nonempty empty full notfull      about the buffer (from comparison edges, ingest, reset)
//	small le big fits nofit          about the value received last (until the next receive)
//	tick tmo                         inside the ticker clause / the timeout test answered true
//	ending                           the input was observed closed or the loop function runs its defers
//	emitted                          something was sent since the last receive
//	free                             a `!unreleased` test holds and the flag was not set since (v1)
//
// An edge whose comparison contradicts the known facts is infeasible.
// on: called with the state BEFORE the event's own effect on the facts; nil = mode unchanged.
type jhandler struct {
	on   func(fr *Frame, st string, ev jev) []string
	edge func(fr *Frame, st string, facts []string, e CondEdge) string // "" = unchanged
	exit func(fr *Frame, st string, ret *ssa.Return) []string
}

const jInfeasible = "\x02"

func (jf *joinFlow) genericFacts(fr *Frame, st string, ev jev) string {
	switch ev.kind {
	case "select", "src":
		return fsWith(st, nil, append([]string{"tick", "tmo", "emitted"}, itemFacts...))
	case "ingest":
		if jf.jr.unite {
			return fsWith(st, nil, []string{"empty", "fits", "notfull", "nofit"})
		}
		return fsWith(st, []string{"nonempty"}, []string{"empty", "fits", "notfull", "nofit"})
	case "reset":
		return fsWith(st, []string{"empty"}, []string{"nonempty", "full"})
	case "bufwrite":
		return fsWith(st, nil, []string{"empty", "nonempty", "full", "notfull", "fits", "nofit"})
	case "tick":
		return fsWith(st, []string{"tick"}, nil)
	case "tmo+":
		return fsWith(st, []string{"tmo"}, nil)
	case "tmo-":
		return fsWith(st, nil, []string{"tmo"})
	case "passat":
		return fsWith(st, nil, []string{"tmo"})
	case "closed", "stop":
		// the input is closed / a stop clause was taken: the goroutine is on its way out
		return fsWith(st, []string{"ending"}, nil)
	case "rundefers":
		if fr.Parent == nil {
			return fsWith(st, []string{"ending"}, nil)
		}
	case "emit":
		return fsWith(st, []string{"emitted"}, nil)
	case "unrel-":
		return fsWith(st, []string{"free"}, nil)
	case "unrel+", "setunrel+":
		return fsWith(st, nil, []string{"free"})
	}
	return st
}

// edgeFacts applies the size facts of a comparison edge; jInfeasible when they contradict st.
func edgeFacts(st string, fs []string) string {
	if len(fs) == 0 {
		return st
	}
	var del []string
	for _, f := range fs {
		switch f {
		case "empty":
			if fsHas(st, "nonempty") || fsHas(st, "full") {
				return jInfeasible
			}
		case "nonempty":
			if fsHas(st, "empty") {
				return jInfeasible
			}
		case "full":
			if fsHas(st, "notfull") || fsHas(st, "empty") {
				return jInfeasible
			}
			fs = append(fs, "nonempty") // JoinSize >= 1 (J5: the constructor rejects 0)
		case "notfull":
			if fsHas(st, "full") {
				return jInfeasible
			}
		case "fits":
			if fsHas(st, "nofit") {
				return jInfeasible
			}
		case "nofit":
			if fsHas(st, "fits") {
				return jInfeasible
			}
			if fsHas(st, "small") || fsHas(st, "le") {
				fs = append(fs, "nonempty") // len(B)+len(item) > JS >= len(item)
			}
		case "big":
			if fsHas(st, "small") {
				return jInfeasible
			}
		case "small":
			if fsHas(st, "big") {
				return jInfeasible
			}
			if fsHas(st, "nofit") {
				fs = append(fs, "nonempty")
			}
		}
	}
	return fsWith(st, fs, del)
}

func (jf *joinFlow) run(start *ssa.Function, initMode string, h jhandler) *Flow {
	p := jf.p
	// constant boolean results of helpers (deliver() bool, receive() bool) decide the branches that test them
	fl := &Flow{P: p, TrackBoolReturns: true}
	applyEvents := func(fr *Frame, st string, evs []jev) []string {
		if len(evs) == 0 {
			return nil
		}
		cur := []string{st}
		for _, ev := range evs {
			var next []string
			for _, s := range cur {
				outs := []string{s}
				if h.on != nil {
					if r := h.on(fr, s, ev); r != nil {
						outs = r
					}
				}
				for _, o := range outs {
					next = append(next, jf.genericFacts(fr, o, ev))
				}
			}
			cur = uniq(next)
		}
		return cur
	}
	fl.Instr = func(fr *Frame, st string, in ssa.Instruction) []string {
		return applyEvents(fr, st, jf.instrEvents(fr, in))
	}
	fl.Call = func(fr *Frame, st string, c ssa.CallInstruction, deferred bool) (bool, []string) {
		// close(output), also when it runs as a deferred call
		if bi, isB := c.Common().Value.(*ssa.Builtin); isB && bi.Name() == "close" && len(c.Common().Args) == 1 && p.chanRole(c.Common().Args[0]) == "field:output" {
			return true, applyEvents(fr, st, []jev{{kind: "outclose", in: c}})
		}
		return false, nil
	}
	fl.RunDefersHook = func(fr *Frame, st string, in *ssa.RunDefers) []string {
		return applyEvents(fr, st, []jev{{kind: "rundefers", in: in}})
	}
	fl.Edge = func(fr *Frame, st string, from *ssa.BasicBlock, succ int) []string {
		e := CondEdge{from, succ}
		if jf.pruneEdge != nil && jf.pruneEdge(e) {
			return []string{}
		}
		out := applyEvents(fr, st, jf.edgeEvents(fr, from, succ))
		t := p.termCmpOnEdge(e)
		if t == nil {
			return out
		}
		fs := sizeFacts(t)
		if len(fs) == 0 {
			return out
		}
		if out == nil {
			out = []string{st}
		}
		var next []string
		for _, s := range out {
			if h.edge != nil {
				if n := h.edge(fr, s, fs, e); n != "" {
					s = n
				}
			}
			n := edgeFacts(s, fs)
			if n == jInfeasible {
				continue
			}
			next = append(next, n)
		}
		if next == nil {
			return []string{}
		}
		return uniq(next)
	}
	fl.Exit = func(fr *Frame, st string, ret *ssa.Return) []string {
		if h.exit != nil {
			return h.exit(fr, st, ret)
		}
		return nil
	}
	fl.Run(start, []string{initMode + "|"})
	return fl
}

func jMode(st string) string {
	m, _ := fsSplit(st)
	return m
}

// ---- fact sets encoded in rule states: "<mode>|f1,f2,..." ----

func fsSplit(st string) (mode string, facts map[string]bool) {
	facts = map[string]bool{}
	i := strings.Index(st, "|")
	if i < 0 {
		return st, facts
	}
	mode = st[:i]
	for _, f := range strings.Split(st[i+1:], ",") {
		if f != "" {
			facts[f] = true
		}
	}
	return mode, facts
}

func fsJoin(mode string, facts map[string]bool) string {
	var fs []string
	for f, ok := range facts {
		if ok {
			fs = append(fs, f)
		}
	}
	sort.Strings(fs)
	return mode + "|" + strings.Join(fs, ",")
}

func fsHas(st, f string) bool {
	_, facts := fsSplit(st)
	return facts[f]
}

func fsWith(st string, add []string, del []string) string {
	mode, facts := fsSplit(st)
	for _, f := range del {
		delete(facts, f)
	}
	for _, f := range add {
		facts[f] = true
	}
	return fsJoin(mode, facts)
}

func fsMode(st, mode string) string {
	_, facts := fsSplit(st)
	return fsJoin(mode, facts)
}

// sizeFacts: the size facts a comparison edge establishes.
func sizeFacts(t *termCmp) []string {
	var out []string
	if t == nil {
		return nil
	}
	if t.impliesLess("0", "lenB", true) || (t.Op == token.NEQ && t.K == 0 && ((t.L == "lenB" && t.R == "0") || (t.L == "0" && t.R == "lenB"))) {
		out = append(out, "nonempty")
	}
	if t.impliesLess("lenB", "0", false) || (t.Op == token.EQL && t.K == 0 && ((t.L == "lenB" && t.R == "0") || (t.L == "0" && t.R == "lenB"))) {
		out = append(out, "empty")
	}
	if t.impliesLess("JS", "lenB", false) {
		out = append(out, "full")
	}
	if t.impliesLess("lenB", "JS", true) {
		out = append(out, "notfull")
	}
	if t.impliesLess("lenItem", "JS", true) {
		out = append(out, "small")
	}
	if t.impliesLess("lenItem", "JS", false) {
		out = append(out, "le")
	}
	if t.impliesLess("JS", "lenItem", false) {
		out = append(out, "big")
	}
	if t.impliesLess("lenB+lenItem", "JS", false) {
		out = append(out, "fits")
	}
	if t.impliesLess("JS", "lenB+lenItem", true) {
		out = append(out, "nofit")
	}
	return out
}
