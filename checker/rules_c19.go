package main

import (
	"fmt"
	"sort"
	"strings"

	"golang.org/x/tools/go/ssa"
)

func init() {
	register(&Property{
		ID:          "C19",
		Run:         runC19,
		Explanation: "Goroutine termination: G0 every `go` statement of product code starts a method of a discipline struct and is classified (10 on the pinned tree; a new kind is UNDECIDED); G2 termination signals (close of a channel, Complete of a breaker) are raised only by unconditional defers of a goroutine entry, and once the first user-visible signal has run only non-blocking deferred calls follow (so the signalling goroutine ends right after signalling); G3 child goroutines are either joined before the first signal (v1 Simple: wg.Add before go, wg.Done deferred first, cancel then wg.Wait before any close) or their only unbounded loop is a receive loop on the inner discipline's output that leaves on the closed-channel edge, that channel being closed by the inner discipline's entry defers (v2 simple); G1 every blocking operation of a child goroutine has a wake-up at termination (closed output, cancelled context, or a release the contract obliges the user to perform); G4 every CFG cycle of every goroutine has an exit edge (no loop that can never be left), v1 cycles additionally exit on stop (C16/S2).",
		NotDecided:  []string{"goroutines started by user callbacks or by third-party code", "that the user honours the contract (reads the output, releases every item)"},
	})
}

func runC19(c *Ctx) {
	r := c.R
	r.Doc("G0", "every go statement starts a method of a discipline struct; inventory of goroutine entries", 10)
	r.Doc("G1", "every blocking operation of a child (handler) goroutine has a wake-up at termination", 5)
	r.Doc("G2", "signals only from unconditional entry defers", 20)
	r.Doc("G2b", "after the first user-visible signal only non-blocking deferred calls run; the entry does nothing after its defers", 7)
	r.Doc("G3", "children joined before the first signal (v1) or bound to a channel the parent closes (v2)", 5)
	r.Doc("G4", "every CFG cycle of every goroutine has an exit edge; child loops leave on the parent's termination", 10)
	r.Doc("G5", "sending the error never keeps the goroutine alive: err channel capacity >= 1, at most one send", 3)
	r.Doc("G6", "(= C16 S1/S2, v1) every channel wait of a v1 goroutine watches its stop signals and every loop leaves on stop: rough stop / cancellation at any point ends the goroutine", 20)
	sub := &Ctx{V1: c.V1, V2: c.V2, Tier: c.Tier, R: NewReport("tmp", c.Tier)}
	for _, d := range c.V1.Discs() {
		for _, e := range d.Gos {
			c16routine(sub, c.V1.Routine(d, e))
		}
	}
	for _, o := range sub.R.Obls {
		if o.Rule != "S1" && o.Rule != "S2" {
			continue
		}
		if strings.Contains(o.Key, "#call:") {
			continue // calls into a sub-discipline: bounded-time question of C16 (the repaired finding D), not a leak; the helper goroutine is covered by G1#helper
		}
		r.Check(o.OK, "G6", strings.TrimPrefix(strings.TrimPrefix(o.Key, "S1@"), "S2@"), o.Site, o.Detail, o.Detail)
	}
	for _, p := range []*Prog{c.V1, c.V2} {
		c19prog(c, p)
		errChannelNonBlocking(c, p, "G5")
	}
	// G9 (= E8, E4): in v2 a handler that holds an item when the channels are closed blocks in
	// Release() for ever (nobody reads the release channel any more): termination therefore waits
	// until every count is back at zero, and the counts change only by +1 per send and -1 per
	// release received - they are never cleared or handed to a writer
	r.Doc("G9", "(= C07 E8, E4) v2: the in-flight counts change only by +1 / -1 and the deferred wait leaves only at zero: no handler is left blocked in Release after termination", 8)
	if pr, err := resolvePrio(c.V2); err == nil {
		sub := &Ctx{V1: c.V1, V2: c.V2, Tier: c.Tier, R: NewReport("tmp", c.Tier)}
		checkB9(sub, pr)
		c07waitZero(sub, pr.sr)
		subc := &Ctx{V1: c.V1, V2: c.V2, Tier: c.Tier, R: NewReport("tmp", c.Tier)}
		checkB1(subc, pr)
		for _, o := range subc.R.Obls {
			if strings.Contains(o.Key, "#actual-content") {
				sub.R.Check(o.OK, o.Rule, o.Key, o.Site, o.Detail, o.Detail)
			}
		}
		for _, o := range sub.R.Obls {
			r.Check(o.OK, "G9", o.Key, o.Site, o.Detail, o.Detail)
		}
	} else {
		r.Fail("G9", "v2:priority", "-", err.Error())
	}
	// G8: "Stop/GracefulStop has returned" is a termination the property names: the method returns
	// only after Break() of its breaker did (which waits for the goroutine's Complete())
	r.Doc("G8", "(= C16 S8, v1) Stop()/GracefulStop() call Break() of the matching breaker synchronously and unconditionally: they return only after the discipline's goroutine completed", 5)
	checkStopSync(c, c.V1, "G8")
	// G7: goroutines the runtime starts on the discipline's behalf. A callback handed to
	// time.AfterFunc / context.AfterFunc runs on its own goroutine, which Stop() cannot recall
	// once it has started: it must not wait for anything (a callback blocked in a send or receive
	// when the discipline terminates stays for ever)
	r.Doc("G7", "callbacks handed to time.AfterFunc / context.AfterFunc (goroutines started by the runtime) contain no blocking operation", 0)
	n7 := 0
	for _, p := range []*Prog{c.V1, c.V2} {
		for _, fn := range p.Funcs() {
			for _, b := range fn.Blocks {
				for _, in := range b.Instrs {
					call, ok := in.(ssa.CallInstruction)
					if !ok {
						continue
					}
					cal := p.Callee(call)
					if cal == nil {
						continue
					}
					name := p.funcDisplay(cal)
					if name != "time.AfterFunc" && name != "context.AfterFunc" {
						continue
					}
					n7++
					key := fmt.Sprintf("%s#afterfunc.%d", p.FnKey(fn), n7)
					cbv := stripChangeType(call.Common().Args[len(call.Common().Args)-1])
					var cb *ssa.Function
					switch x := cbv.(type) {
					case *ssa.Function:
						cb = x
					case *ssa.MakeClosure:
						cb, _ = x.Fn.(*ssa.Function)
						if t := p.wrapperTarget(cb); t != nil {
							cb = t
						}
					}
					if cb == nil || !p.IsProduct(p.Norm(cb)) {
						r.Fail("G7", key, p.InstrPos(in), "UNDECIDED: the callback of "+name+" is not a function of the product: its termination is not covered by any rule")
						continue
					}
					var bad []string
					for g := range p.Reach(p.Norm(cb)) {
						for _, op := range p.BlockingOps(g) {
							if op.Kind == "select" && op.Sel != nil && op.Sel.HasDefault {
								continue
							}
							bad = append(bad, op.Kind+" at "+p.InstrPos(op.In))
						}
					}
					sort.Strings(bad)
					r.Check(len(bad) == 0, "G7", key, p.InstrPos(in), "callback never waits", "the callback of "+name+" runs on a goroutine of its own and can block ("+strings.Join(bad, "; ")+"): if it is blocked there when the discipline terminates nothing ever wakes it - the goroutine remains after termination (timer.Stop does not recall a callback that has started)")
				}
			}
		}
	}
	if n7 == 0 {
		r.Pass("G7", "all#afterfunc", "-", "no time.AfterFunc / context.AfterFunc in the product packages")
	}
}

func c19prog(c *Ctx, p *Prog) {
	r := c.R
	signalRules(c, p, "G2")
	discOK := map[*ssa.Function]bool{}
	for _, d := range p.Discs() {
		for _, e := range d.Gos {
			discOK[e.Entry] = true
		}
	}
	for _, e := range p.GoEntries() {
		key := "go@" + p.FnKey(e.Stmt.Parent()) + "->" + shortFn(p, e.Entry)
		if e.Entry == nil || !discOK[e.Entry] {
			r.Fail("G0", key, p.InstrPos(e.Stmt), "UNDECIDED: go statement whose target is not a method of a discipline struct: its termination is not covered by any rule")
			continue
		}
		r.Pass("G0", key, p.InstrPos(e.Stmt), fmt.Sprintf("multi=%v", e.Multi))
	}
	for _, d := range p.Discs() {
		for _, e := range d.Gos {
			rt := p.Routine(d, e)
			for _, fn := range rt.Funcs {
				r.Funcs[p.FnKey(fn)] = true
			}
			ek := p.FnKey(e.Entry)
			// ---- G4: every cycle has an exit
			for _, fn := range rt.Funcs {
				comps := sccs(fn.Blocks, blockSet(fn.Blocks))
				if len(comps) == 0 {
					continue
				}
				var bad []string
				for _, comp := range comps {
					set := blockSet(comp)
					exit := false
					for _, b := range comp {
						for _, s := range b.Succs {
							if set[s] {
								continue
							}
							if _, isPanic := s.Instrs[len(s.Instrs)-1].(*ssa.Panic); isPanic {
								continue
							}
							exit = true
						}
					}
					if !exit {
						bad = append(bad, fmt.Sprintf("loop at %s can never be left: the goroutine outlives the discipline", p.InstrPos(comp[0].Instrs[0])))
					}
				}
				r.Check(len(bad) == 0, "G4", p.FnKey(fn)+"["+shortFn(p, e.Entry)+"]", p.Pos(fn.Pos()), fmt.Sprintf("%d cycles, each with an exit edge", len(comps)), strings.Join(bad, "; "))
			}
			if e.Multi {
				c19child(c, rt)
				continue
			}
			if e.Helper() {
				// G1 for a helper goroutine: it ends because its parent stops what it waits for
				okh, why := p.helperBounded(d, e)
				r.Check(okh, "G1", ek+"#helper", p.Pos(e.Entry.Pos()), why, "helper goroutine has no wake-up at termination: "+why)
				continue
			}
			// ---- G2b
			fn := e.Entry
			order, ok := p.CleanupOrder(fn)
			if !ok {
				r.Fail("G2b", ek, p.Pos(fn.Pos()), "UNDECIDED: conditional defer in a goroutine entry")
				continue
			}
			exposed := exposedChannels(p, d)
			first := -1
			var bad []string
			for i, df := range order {
				k, a := p.deferKind(df)
				isSignal := k == "complete" || (k == "close" && exposed[a])
				if isSignal && first < 0 {
					first = i
				}
				if first >= 0 && i > first {
					switch k {
					case "close", "complete", "tickerstop":
					default:
						bad = append(bad, fmt.Sprintf("%s runs after the first termination signal", k))
					}
				}
			}
			if first < 0 {
				bad = append(bad, "entry raises no termination signal in its defers")
			}
			// after rundefers the entry must return immediately
			for _, b := range fn.Blocks {
				for i, in := range b.Instrs {
					if _, isRD := in.(*ssa.RunDefers); isRD {
						if i+1 >= len(b.Instrs) {
							bad = append(bad, "rundefers not followed by return")
							continue
						}
						if _, isRet := b.Instrs[i+1].(*ssa.Return); !isRet {
							bad = append(bad, "code runs after the deferred calls")
						}
					}
				}
			}
			r.Check(len(bad) == 0, "G2b", ek, p.Pos(fn.Pos()), "run order: "+p.describeDefers(order), strings.Join(bad, "; ")+" (run order: "+p.describeDefers(order)+")")
			// ---- G3 for spawning entries (v1 Simple)
			spawns := false
			for _, b := range rt.routineBlocks() {
				for _, in := range b.Instrs {
					if _, ok := in.(*ssa.Go); ok {
						spawns = true
					}
				}
			}
			if spawns {
				childJoinRules(c, rt, "G3")
			}
		}
	}
}

// exposedChannels: roles ("field:x") of channel fields returned by exported methods of d.
func exposedChannels(p *Prog, d *Disc) map[string]bool {
	out := map[string]bool{}
	for _, m := range d.API {
		for _, b := range m.Blocks {
			for _, in := range b.Instrs {
				if ret, ok := in.(*ssa.Return); ok {
					for _, rv := range ret.Results {
						role := symChanRole(p.SymX(rv)) // (through a pure accessor: return dsc.output.reader())
						if strings.HasPrefix(role, "field:") {
							out[role] = true
						}
					}
				}
			}
		}
	}
	return out
}

// c19child: G1/G3/G4 for handler goroutines.
func c19child(c *Ctx, rt *Routine) {
	r, p := c.R, rt.P
	fn := rt.E.Entry
	ek := p.FnKey(fn)
	req := rt.RequiredStops()
	hasCtx := !(len(req) == 2)
	// where does the child get its work from: the inner discipline's output
	var srcRole string
	var src *RecvSite
	// (the receive loop may sit in a helper the entry calls: serve(dsc.priority.Output()))
	for _, g := range rt.Funcs {
		for _, rs := range p.RecvSites(g) {
			role := p.chanRole(rs.Chan)
			if role == "call:Output" || role == "field:output" {
				src, srcRole = rs, role
			}
		}
	}
	if src == nil {
		r.Fail("G3", ek, p.Pos(fn.Pos()), "UNRESOLVED-ANCHOR: handler does not receive from the inner discipline's output")
		return
	}
	// G4-child: loops leave on parent termination
	exitPred := func(b *ssa.BasicBlock, scc map[*ssa.BasicBlock]bool) bool {
		if hasCtx {
			if p.stopExitBlock(req)(b, scc) {
				return true
			}
		}
		// closed-output edge leaves the loop
		if iff, ok := b.Instrs[len(b.Instrs)-1].(*ssa.If); ok && src.Ok != nil {
			base, neg := condOf(iff.Cond)
			if base == src.Ok {
				closedSucc := 1
				if neg {
					closedSucc = 0
				}
				return !scc[b.Succs[closedSucc]]
			}
		}
		return false
	}
	loops, problems := p.loopCheck(fn, exitPred)
	for _, g := range rt.Funcs {
		if g != fn {
			l2, p2 := p.loopCheck(g, exitPred)
			loops += l2
			problems = append(problems, p2...)
		}
	}
	r.Check(len(problems) == 0, "G4", ek+"#child", p.Pos(fn.Pos()), fmt.Sprintf("%d loops leave when the parent terminates", loops), strings.Join(problems, "; "))
	// G3: the wake-up really happens
	if hasCtx {
		r.Pass("G3", ek, p.Pos(fn.Pos()), "joined by the parent (see G3 order rules of the spawning entry); wakes on its cancelled context")
	} else {
		// v2: the inner discipline must close the channel Output() returns in its entry defers
		ok := false
		why := "inner discipline not found"
		if inner := p.Disc("priority.Discipline"); inner != nil && len(inner.Gos) == 1 {
			order, okd := p.CleanupOrder(inner.Gos[0].Entry)
			exp := exposedChannels(p, inner)
			why = "the inner discipline's entry does not close the channel returned by Output() in an unconditional defer"
			if okd {
				for _, df := range order {
					if k, a := p.deferKind(df); k == "close" && a == "field:output" && exp[a] {
						ok = true
					}
				}
			}
		}
		r.Check(ok, "G3", ek, p.Pos(fn.Pos()), "receive loop on "+srcRole+" which the inner discipline closes in its entry defers", why)
	}
	// G1: blocking operations
	ord := map[string]int{}
	var ops []*BlockOp
	inRoutine := map[*ssa.Function]bool{}
	for _, g := range rt.Funcs {
		inRoutine[g] = true
		ops = append(ops, p.BlockingOps(g)...)
	}
	for _, op := range ops {
		fk := ek
		if op.Fn != fn {
			fk = p.FnKey(op.Fn)
		}
		// a static call of a helper of the same routine: its own operations are listed
		if ci, isCall := op.In.(ssa.CallInstruction); isCall && op.Kind != "dyncall" {
			if cal := p.Callee(ci); cal != nil && inRoutine[cal] && cal != op.Fn {
				continue
			}
		}
		ord[fk+"/"+op.Kind]++
		key := fmt.Sprintf("%s#%s.%d", fk, op.Kind, ord[fk+"/"+op.Kind])
		site := p.InstrPos(op.In)
		switch op.Kind {
		case "recv":
			r.Check(op.Role == srcRole && op.CommaOk, "G1", key, site, "comma-ok receive on "+op.Role+": wakes when the channel is closed", "receive on "+op.Role+" has no wake-up at termination (not the closed-at-termination output, or closed state not observed)")
		case "select":
			missing := hasAll(p.selectStops(op.Sel), req)
			r.Check(op.Sel.HasDefault || (hasCtx && len(missing) == 0), "G1", key, site, "select watches the handler's context", "blocking select in a handler goroutine does not watch "+strings.Join(missing, ", "))
		case "dyncall":
			if why := handleCtxProblem(p, rt, op.In); why != "" && strings.HasSuffix(op.Callee, ".opts.Handle") {
				r.Fail("G1", key, site, why)
			} else {
				if strings.HasSuffix(op.Callee, ".Release$bound") {
					// the inner discipline's Release handed down as a method value
					r.Pass("G1", key, site, "Release of the item just handled (method value): the inner discipline consumes releases until nothing is in flight (C07/E4) before it closes anything")
					continue
				}
				r.Check(strings.HasSuffix(op.Callee, ".opts.Handle"), "G1", key, site, "user Handle (contract: returns; v1: honours the context it is given, which the parent cancels)", "UNDECIDED: dynamic call "+op.Callee)
			}
		default:
			if rt.isSubCall(op.In) {
				continue
			}
			r.Fail("G1", key, site, "UNDECIDED: blocking operation of kind "+op.Kind+" "+op.Callee+" "+op.Role+" in a handler goroutine")
		}
	}
	for _, sc := range rt.SubCalls {
		callee := p.Callee(sc)
		key := fmt.Sprintf("%s#call:%s", ek, shortFn(p, callee))
		switch callee.Name() {
		case "Release":
			r.Pass("G1", key, p.InstrPos(sc), "Release of the item just handled: the inner discipline consumes releases until nothing is in flight (C07/E4) before it closes anything")
		case "Output", "Err":
			r.Pass("G1", key, p.InstrPos(sc), "returns a channel")
		default:
			r.Fail("G1", key, p.InstrPos(sc), "UNDECIDED: call of "+callee.Name()+" on the inner discipline from a handler")
		}
	}
}
