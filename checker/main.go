// cqoscheck: static verification of akramarenkov/cqos properties C01..C20.
// Loads /repo's current working tree (both modules), builds SSA and decides rules on it.
package main

import (
	"flag"
	"fmt"
	"os"
	"path/filepath"
	"runtime/debug"
	"sort"
	"strings"
	"time"

	"golang.org/x/tools/go/ssa"
)

type Ctx struct {
	V1, V2 *Prog
	R      *Report
	Tier   string
}

type Property struct {
	ID          string
	Run         func(c *Ctx)
	Explanation string
	NotDecided  []string
	Assumptions []string
}

var registry = map[string]*Property{}

func register(p *Property) { registry[p.ID] = p }

var commonAssumptions = []string{
	"Go semantics: channel FIFO, happens-before of channel operations and go statements, select picks among ready cases, time.Sleep(d) sleeps at least d",
	"golang.org/x/tools v0.29.0 type checker and SSA builder are correct",
	"github.com/akramarenkov/breaker v0.1.0 as read: Break closes the interrupter channel then blocks until Complete; thread-safe",
	"documented user contract: each received item released exactly once with its own priority, no Release after termination, v1 Handle returns when its context is cancelled, a divider neither retains nor concurrently mutates its arguments",
	"the step from discharged structural obligations to the behavioural statement is the paper argument in DESIGN.md section 5 (not machine-checked)",
}

func main() {
	prop := flag.String("property", "", "property id (C01..C20) or 'all'")
	tier := flag.String("tier", "quick", "quick|thorough")
	repo := flag.String("repo", "/repo", "repository root")
	evdir := flag.String("evidence", "/verif/evidence", "evidence directory")
	knownPath := flag.String("known", "/verif/known_findings.json", "known findings file")
	goarch := flag.String("goarch", "", "GOARCH for loading")
	tags := flag.String("tags", "", "build tags")
	dump := flag.String("dump", "", "debug: dump symbolic form of functions matching substring")
	noEvidence := flag.Bool("no-evidence", false, "do not write evidence (used for self-validation runs)")
	flag.Parse()
	repoRoot = *repo
	started := time.Now()
	debug.SetMemoryLimit(12 << 30)
	// watchdog: an analysis that cannot finish is "undecided" and undecided = fail
	time.AfterFunc(4*time.Minute, func() {
		ids := *prop
		fmt.Printf("%s/FATAL UNDECIDED: analysis did not finish within its time budget (4 min)\n", ids)
		if !*noEvidence && *prop != "all" {
			os.MkdirAll(filepath.Join(*evdir, "replay"), 0o755)
			rp := filepath.Join(*evdir, "replay", ids+".txt")
			os.WriteFile(rp, []byte("analysis budget exceeded\n"), 0o644)
			ev := fmt.Sprintf(`{"property_id":%q,"tier":%q,"seed":0,"level":"other","coverage":{"explanation":"analysis did not finish within its time budget; treated as a failure (undecided = fail)","obligations":0,"discharged":0},"wall_s":240,"violations":1}`, ids, *tier)
			os.WriteFile(filepath.Join(*evdir, ids+".json"), []byte(ev), 0o644)
			fmt.Printf("VIOLATION property=%s replay=%s\n", ids, rp)
		} else {
			fmt.Printf("VIOLATION property=%s replay=-\n", ids)
		}
		os.Exit(1)
	})

	lc := LoadConfig{Repo: *repo, GOARCH: *goarch, Tags: *tags}
	var v1, v2 *Prog
	var e1, e2 error
	done := make(chan struct{}, 2)
	go func() { v1, e1 = loadProg("v1", *repo, lc); done <- struct{}{} }()
	go func() { v2, e2 = loadProg("v2", filepath.Join(*repo, "v2"), lc); done <- struct{}{} }()
	<-done
	<-done
	// (the table of discipline components is filled by Discs(): once, before any rule runs)
	if e1 == nil && v1 != nil {
		v1.Discs()
	}
	if e2 == nil && v2 != nil {
		v2.Discs()
	}

	if *dump != "" {
		if e1 != nil || e2 != nil {
			fmt.Println("load error:", e1, e2)
			os.Exit(2)
		}
		for _, n := range canonNotes {
			fmt.Println("canon:", n)
		}
		for _, n := range append(v1.derivedNotes(), v2.derivedNotes()...) {
			fmt.Println("derived:", n)
		}
		fmt.Println("added product packages:", v1.AddedProduct, v2.AddedProduct)
		dumpFuncs(v1, *dump)
		dumpFuncs(v2, *dump)
		return
	}

	ids := []string{*prop}
	if *prop == "all" {
		ids = nil
		for id := range registry {
			ids = append(ids, id)
		}
		sort.Strings(ids)
	}
	known, kerr := loadKnown(*knownPath)
	exit := 0
	for _, id := range ids {
		p := registry[id]
		if p == nil {
			fmt.Printf("unknown property %q\n", id)
			os.Exit(2)
		}
		t0 := time.Now()
		if len(ids) == 1 {
			t0 = started
		}
		r := NewReport(id, *tier)
		r.Configs = []string{lc.Label()}
		for _, n := range canonNotes {
			r.Notes = append(r.Notes, "renamed field resolved: "+n)
		}
		if e1 == nil && e2 == nil {
			for _, n := range append(v1.derivedNotes(), v2.derivedNotes()...) {
				r.Notes = append(r.Notes, "derived field expanded: "+n)
			}
		}
		if kerr != nil {
			r.Fatalf("known findings file unreadable: %v", kerr)
			known = &KnownFile{}
		}
		if e1 != nil {
			r.Fatalf("v1 module does not load/type-check: %v", e1)
		}
		if e2 != nil {
			r.Fatalf("v2 module does not load/type-check: %v", e2)
		}
		if e1 == nil && e2 == nil {
			c := &Ctx{V1: v1, V2: v2, R: r, Tier: *tier}
			func() {
				defer func() {
					if x := recover(); x != nil {
						r.Fatalf("checker panic (treated as failure): %v\n%s", x, debug.Stack())
					}
				}()
				p.Run(c)
			}()
		}
		ev := filepath.Join(*evdir, id+".json")
		if *noEvidence {
			ev = ""
		}
		code := r.Finish(known, ev, filepath.Join(*evdir, "replay"), t0, p.Explanation, append(append([]string{}, commonAssumptions...), p.Assumptions...), p.NotDecided)
		if code > exit {
			exit = code
		}
	}
	os.Exit(exit)
}

func dumpFuncs(p *Prog, sub string) {
	for _, fn := range p.Funcs() {
		if !strings.Contains(p.FnKey(fn), sub) {
			continue
		}
		fmt.Printf("== %s\n", p.FnKey(fn))
		for _, b := range fn.Blocks {
			fmt.Printf(" b%d (%s)\n", b.Index, b.Comment)
			for _, in := range b.Instrs {
				if v, ok := in.(ssa.Value); ok {
					fmt.Printf("   %-5s = %-40s  ~ %s\n", v.Name(), in.String(), p.Sym(v))
				} else {
					fmt.Printf("           %s\n", in.String())
				}
			}
		}
		for _, s := range Selects(fn) {
			si := p.SelectInfo(s)
			fmt.Printf("  select %s blocking=%v default=%v\n", s.Name(), s.Blocking, si.HasDefault)
			for _, c := range si.Cases {
				body := -1
				if c.Body != nil {
					body = c.Body.Index
				}
				fmt.Printf("    case %d dir=%v chan=%s body=b%d\n", c.Idx, c.State.Dir, p.Sym(c.State.Chan), body)
			}
		}
	}
}
