package main

import (
	"fmt"
	"go/token"
	"go/types"
	"sort"
	"strings"

	"golang.org/x/tools/go/ssa"
)

// checkCapacityUnmodified (C01/B13): the HandlersQuantity the caller configured is the capacity in
// force. Every store to a HandlersQuantity field of an options value copies another
// HandlersQuantity (building the inner discipline's options); nothing computes a new one.
func checkCapacityUnmodified(c *Ctx, p *Prog, rule string) {
	n := 0
	for _, fn := range p.Funcs() {
		if !p.Live()[fn] {
			continue
		}
		for _, b := range fn.Blocks {
			for _, in := range b.Instrs {
				st, ok := fieldStore(in, "HandlersQuantity")
				if !ok {
					continue
				}
				n++
				v := deepStrip(p.Sym(st.Val))
				_, path, okp := v.FieldPath()
				okCopy := okp && path[len(path)-1] == "HandlersQuantity"
				c.R.Check(okCopy, rule, fmt.Sprintf("%s#capacity.%d", p.FnKey(fn), n), p.InstrPos(in), "HandlersQuantity copied as given",
					"HandlersQuantity is set to "+v.String()+" instead of the value the caller configured: the discipline then keeps a different number of items in processing than the configured capacity")
			}
		}
	}
	if n == 0 {
		c.R.Pass(rule, p.Name+":capacity", "-", "HandlersQuantity is never written by product code")
	}
}

// checkInputsForwarded (C02/X16): the simplified disciplines hand the configured inputs to the
// inner discipline as given: every store to an `Inputs` options field is a copy of the caller's
// `Inputs` (a filtered copy - "skip nil channels and priority 0" - leaves a configured input
// unread: Handle is never called for what is written to it).
func checkInputsForwarded(c *Ctx, p *Prog, rule string) {
	n := 0
	for _, fn := range p.Funcs() {
		if !p.Live()[fn] {
			continue
		}
		for _, b := range fn.Blocks {
			for _, in := range b.Instrs {
				st, ok := fieldStore(in, "Inputs")
				if !ok {
					continue
				}
				n++
				v := deepStrip(p.Sym(st.Val))
				_, path, okp := v.FieldPath()
				okCopy := okp && path[len(path)-1] == "Inputs"
				c.R.Check(okCopy, rule, fmt.Sprintf("%s#inputs.%d", p.FnKey(fn), n), p.InstrPos(in), "Inputs handed on as given",
					"the inner discipline is given "+v.String()+" instead of the inputs the caller configured: an input that is left out is never read, and Handle is never invoked for what is written to it")
			}
		}
	}
	if n == 0 {
		c.R.Pass(rule, p.Name+":inputs", "-", "Inputs is never written by product code")
	}
}

// checkSpendLoopExits (C05/P4, C06/N9): the pass over one input (the loop around the input receive)
// ends only when the allotment of that priority is spent, the input has nothing buffered (default
// clause) / did not deliver for two ticks (ticker clause), is closed, or a stop clause fired. Any
// other exit leaves allotted handlers unused although data may be waiting; the second phase then
// hands them to other priorities.
func checkSpendLoopExits(c *Ctx, pr *prioRoles, rule string) {
	p := pr.p
	n := 0
	for _, fn := range pr.rt.Funcs {
		var recvSel ssa.Instruction
		var okVal ssa.Value
		for _, rs := range p.RecvSites(fn) {
			if isInputChanType(rs.Chan.Type()) {
				recvSel, okVal = rs.In, rs.Ok
			}
		}
		if recvSel == nil {
			continue
		}
		for _, comp := range sccs(fn.Blocks, blockSet(fn.Blocks)) {
			set := blockSet(comp)
			if !set[recvSel.Block()] {
				continue
			}
			n++
			var bad []string
			for _, b := range comp {
				for i, s := range b.Succs {
					if set[s] {
						continue
					}
					if _, isPanic := s.Instrs[len(s.Instrs)-1].(*ssa.Panic); isPanic {
						continue // "blocking select matched no case"
					}
					e := CondEdge{b, i}
					ok := false
					classify := func(e2 CondEdge) {
						if si, cs, isDef := p.CaseOnEdge(e2.From, e2.Succ); si != nil {
							switch {
							case isDef:
								ok = true // nothing buffered
							case cs != nil && strings.HasPrefix(p.chanRole(cs.State.Chan), "ticker:"):
								ok = true
							case cs != nil && strings.HasPrefix(p.stopRoleOf(cs.State.Chan), "stop:"):
								ok = true
							case cs == nil && e2.Succ == 1:
								// "none of the clauses tested so far": every clause that is still to
								// come (and the default) must be an accepted way out
								if iff2, isIf2 := e2.From.Instrs[len(e2.From.Instrs)-1].(*ssa.If); isIf2 {
									if bo, isB := iff2.Cond.(*ssa.BinOp); isB {
										if k, isK := constDuration(bo.Y); isK {
											rest, all := 0, true
											for _, c2 := range si.Cases {
												if int64(c2.Idx) <= k {
													continue
												}
												rest++
												if !(strings.HasPrefix(p.chanRole(c2.State.Chan), "ticker:") || strings.HasPrefix(p.stopRoleOf(c2.State.Chan), "stop:")) {
													all = false
												}
											}
											if all && (rest > 0 || si.HasDefault) {
												ok = true
											}
										}
									}
								}
							}
							return
						}
						iff, isIf := e2.From.Instrs[len(e2.From.Instrs)-1].(*ssa.If)
						if !isIf {
							return
						}
						base, neg := condOf(iff.Cond)
						if okVal != nil && base == okVal && (e2.Succ == 0) == neg {
							ok = true // input closed
							return
						}
						// the comma-ok was handed to a helper that answers false only when it is false
						// (more, ok := dsc.forward(item, opened, priority); if !ok { return })
						if okVal != nil && (e2.Succ == 0) == neg {
							resIdx := 0
							cv := base
							if ex, isEx := cv.(*ssa.Extract); isEx {
								cv, resIdx = ex.Tuple, ex.Index
							}
							if hc, isCall := cv.(*ssa.Call); isCall {
								if h := p.Callee(hc); h != nil && p.IsProduct(h) {
									for i, a := range hc.Call.Args {
										if a == ssa.Value(okVal) && i < len(h.Params) && p.falseOnlyWhenParamFalse(h, resIdx, h.Params[i]) {
											ok = true // input closed
											return
										}
									}
								}
							}
						}
						if cm := p.NormCmp(iff.Cond, e2.Succ == 0); cm != nil && cm.LC == 0 && cm.RC == 0 {
							l, r := deepStrip(cm.L), deepStrip(cm.R)
							isTactic := func(x *Sym) bool {
								if x.Op != "index" {
									return false
								}
								_, path, okp := x.Args[0].FieldPath()
								return okp && path[len(path)-1] == "tactic"
							}
							if (cm.Op == token.EQL || cm.Op == token.LEQ) && ((isTactic(l) && r.String() == "0") || (isTactic(r) && l.String() == "0" && cm.Op == token.EQL)) {
								ok = true // allotment spent
							}
						}
					}
					if len(b.Succs) == 2 {
						classify(e)
					}
					for _, e2 := range DomEdges(b) {
						// conditions established inside the loop body on the way to the exit
						if set[e2.From] {
							classify(e2)
						}
					}
					if !ok {
						bad = append(bad, "the pass over the input can end at "+p.InstrPos(b.Instrs[len(b.Instrs)-1])+" under "+describeEdges(p, append(DomEdges(b), e))+": not one of {allotment spent, nothing buffered, ticker, input closed, stop}: allotted handlers stay unused although data may be waiting, and the second phase hands them to other priorities")
					}
				}
			}
			// ... and the pass cannot be skipped: no return is reachable without entering the loop
			for _, ret := range returnsBypassing(fn, set) {
				bad = append(bad, "the pass over the input is skipped altogether on the path to "+p.InstrPos(ret)+": the allotment of this priority stays unused although data may be waiting")
			}
			c.R.Check(len(bad) == 0, rule, fmt.Sprintf("%s#spend-loop.%d", p.FnKey(fn), n), p.InstrPos(recvSel), "the pass ends only when the allotment is spent, nothing is buffered / two ticks passed, the input is closed or a stop fired", strings.Join(dedup(bad), "; "))
		}
	}
	if n == 0 {
		c.R.Fail(rule, pr.key+"#spend-loop", "-", "UNRESOLVED-ANCHOR: no loop around an input receive found in the scheduler")
	}
}

// checkConstantIdleSleep (C07/E10): every Sleep of the scheduler is a constant of at most 1ms: a
// growing or configurable pause delays the observation of closed inputs and so the termination
// signal by that much.
func checkConstantIdleSleep(c *Ctx, sr *schedRoles, rule string) {
	p := sr.p
	n := 0
	for _, fn := range sr.rt.Funcs {
		for _, op := range p.BlockingOps(fn) {
			if op.Kind != "sleep" {
				continue
			}
			n++
			call := op.In.(ssa.CallInstruction)
			d, ok := constDuration(call.Common().Args[0])
			c.R.Check(ok && d <= 1_000_000, rule, fmt.Sprintf("%s#sleep.%d", p.FnKey(fn), n), p.InstrPos(op.In), fmt.Sprintf("Sleep(%dns): constant <= 1ms", d),
				"the scheduler sleeps for "+p.Sym(call.Common().Args[0]).String()+", not a small constant: while it sleeps closed inputs are not observed, so Output()/Err() are closed that much later than the last release (not promptly)")
		}
	}
	if n == 0 {
		c.R.Pass(rule, p.Name+":priority#sleep", "-", "the scheduler never sleeps")
	}
}

// checkErrForwarding (C15/D9): a simplified discipline that owns an inner discipline hands every
// error it receives from the inner Err() on to its own error channel (a fault detected by the
// inner discipline must not look like a normal termination).
func checkErrForwarding(c *Ctx, p *Prog, rule string) {
	d := p.Disc("priority.Simple")
	if d == nil {
		return
	}
	n := 0
	for _, e := range d.Gos {
		if e.Multi || e.Parent != nil {
			continue
		}
		rt := p.Routine(d, e)
		has := false
		for _, fn := range rt.Funcs {
			for _, rs := range p.RecvSites(fn) {
				if p.chanRole(rs.Chan) == "call:Err" {
					has = true
				}
			}
		}
		if !has {
			continue
		}
		n++
		cfg := &ItemFlowConfig{
			P:        p,
			IsSource: func(rs *RecvSite) bool { return p.chanRole(rs.Chan) == "call:Err" },
			SinkInstr: func(fr *Frame, in ssa.Instruction) (bool, ssa.Value) {
				if s, ok := in.(*ssa.Send); ok && p.chanRole(s.Chan) == "field:err" {
					return true, s.X
				}
				return false, nil
			},
		}
		res := RunItemFlow(cfg, e.Entry)
		var problems []string
		for _, pr := range res.Problems {
			problems = append(problems, pr)
		}
		for _, fn := range rt.Funcs {
			for _, rs := range p.RecvSites(fn) {
				if p.chanRole(rs.Chan) == "call:Err" && rs.Val == nil {
					problems = append(problems, "the value received from the inner discipline's Err() at "+rs.Pos(p)+" is discarded")
				}
			}
		}
		c.R.Check(len(problems) == 0, rule, p.FnKey(e.Entry)+"#err-forward", p.Pos(e.Entry.Pos()), fmt.Sprintf("%d receive(s) from the inner Err(), each forwarded to the own error channel", res.Sources), "an error reported by the inner discipline is not forwarded to Err(): "+strings.Join(dedup(problems), "; ")+": a divider fault then looks like a normal termination")
	}
	if n == 0 {
		c.R.Fail(rule, p.Name+":priority.Simple#err-forward", "-", "UNRESOLVED-ANCHOR: the simplified discipline never receives from the inner discipline's Err()")
	}
}

// checkCtorRejections (C18/U8): the v2 constructor refuses a configuration only for the documented
// reasons - no divider, HandlersQuantity == 0, no inputs, a divider fault, a zero share for some
// registered priority. Any other error exit can refuse a configuration that the utils helpers
// judge non-fatal.
func checkCtorRejections(c *Ctx, p *Prog, rule string) {
	d := p.Disc("priority.Discipline")
	if d == nil || len(d.Ctors) == 0 {
		c.R.Fail(rule, p.Name+":priority#ctor", "-", "UNRESOLVED-ANCHOR: constructor of the priority discipline not found")
		return
	}
	ctor := d.Ctors[0]
	// functions whose error result the constructor hands on (directly or through such a function)
	scope := map[*ssa.Function]bool{ctor: true}
	changed := true
	for changed {
		changed = false
		for fn := range scope {
			for _, b := range fn.Blocks {
				ret, ok := b.Instrs[len(b.Instrs)-1].(*ssa.Return)
				if !ok || len(ret.Results) == 0 {
					continue
				}
				ev := stripChangeType(returnedValues(ret)[len(ret.Results)-1])
				if ex, isEx := ev.(*ssa.Extract); isEx {
					ev = ex.Tuple
				}
				if call, isCall := ev.(*ssa.Call); isCall {
					if cal := p.Callee(call); cal != nil && p.IsProduct(cal) && !isCheckedDivision(cal) && !scope[cal] {
						scope[cal] = true
						changed = true
					}
				}
			}
		}
	}
	n := 0
	for fn := range scope {
		c.R.Funcs[p.FnKey(fn)] = true
		for _, b := range fn.Blocks {
			ret, ok := b.Instrs[len(b.Instrs)-1].(*ssa.Return)
			if !ok || len(ret.Results) == 0 || b == fn.Recover {
				continue
			}
			vals := returnedValues(ret)
			ev := vals[len(vals)-1]
			if typeShort(ev.Type()) != "error" || isNilConst(ev) {
				continue
			}
			// a forwarded error: the value of a call (tested non-nil on the way)
			fv := stripChangeType(ev)
			if ex, isEx := fv.(*ssa.Extract); isEx {
				fv = ex.Tuple
			}
			if _, isCall := fv.(*ssa.Call); isCall {
				continue
			}
			n++
			reason := ""
			okReason := AllPathsPass(b, func(e CondEdge) bool {
				iff := e.From.Instrs[len(e.From.Instrs)-1].(*ssa.If)
				// failed zero-share test
				base, neg := condOf(iff.Cond)
				if call, isCall := base.(*ssa.Call); isCall {
					if over, _, _, isFA := p.forAllCall(call); isFA && over == "slice" && (e.Succ == 0) == neg {
						reason = "zero share"
						return true
					}
				}
				cm := p.NormCmp(iff.Cond, e.Succ == 0)
				if cm == nil || cm.LC != 0 || cm.RC != 0 {
					return false
				}
				l, r := deepStrip(cm.L), deepStrip(cm.R)
				zeroCmp := func(x, y *Sym) bool {
					return y.String() == "0" && (cm.Op == token.EQL || (cm.Op == token.LEQ && x == l))
				}
				for _, pair := range [][2]*Sym{{l, r}, {r, l}} {
					x, y := pair[0], pair[1]
					if _, path, okp := x.FieldPath(); okp && zeroCmp(x, y) && path[len(path)-1] == "HandlersQuantity" {
						reason = "HandlersQuantity == 0"
						return true
					}
					if x.Op == "call" && x.Name == "len" && len(x.Args) == 1 && zeroCmp(x, y) {
						if _, path, okp := x.Args[0].FieldPath(); okp && path[len(path)-1] == "Inputs" {
							reason = "no inputs"
							return true
						}
					}
					if _, path, okp := x.FieldPath(); okp && path[len(path)-1] == "Divider" && cm.Op == token.EQL && (y.String() == "nil" || y.Op == "const") {
						reason = "no divider"
						return true
					}
				}
				return false
			})
			c.R.Check(okReason, rule, fmt.Sprintf("%s#reject.%d", p.FnKey(fn), n), p.InstrPos(ret), "rejected for: "+reason,
				"the constructor returns "+p.Sym(ev).String()+" under "+describeEdges(p, DomEdges(b))+", which is none of {no divider, HandlersQuantity == 0, no inputs, divider fault, zero share of a registered priority}: a configuration the helpers judge non-fatal can be refused")
		}
	}
	if n == 0 {
		c.R.Fail(rule, p.FnKey(ctor)+"#reject", p.Pos(ctor.Pos()), "UNRESOLVED-ANCHOR: the constructor has no error exits")
	}
}

// checkSupervisorWaits (C02/X9, C07/E12): the supervising goroutine of v1 Simple (the entry that
// starts the handlers and, through its defers, stops the inner discipline and cancels the handlers
// when it returns) waits only for its own stop signal, the context, the graceful-stop request and
// the inner discipline's termination (Err). A wait that can also end on anything else - a timer,
// another channel - turns a graceful termination into a rough stop: items written before the
// inputs were closed are never handled, while Err() reports a normal end.
func checkSupervisorWaits(c *Ctx, p *Prog, rule string) {
	d := p.Disc("priority.Simple")
	if d == nil {
		c.R.Fail(rule, p.Name+":priority.Simple", "-", "UNRESOLVED-ANCHOR: v1 Simple not found")
		return
	}
	n := 0
	for _, e := range d.Gos {
		if e.Multi || e.Parent != nil {
			continue
		}
		rt := p.Routine(d, e)
		for _, fn := range rt.Funcs {
			k := 0
			for _, rs := range p.RecvSites(fn) {
				n++
				k++
				role := p.stopRoleOf(rs.Chan)
				ok := strings.HasPrefix(role, "stop:") || role == "graceful" || role == "call:Err"
				c.R.Check(ok, rule, fmt.Sprintf("%s#wait.%d", p.FnKey(fn), k), rs.Pos(p), "waits for "+role,
					"the supervising goroutine also stops waiting on "+role+": its return stops the inner discipline and cancels the handlers, so a graceful termination is cut short and items written before the inputs were closed are never handled")
			}
		}
	}
	if n == 0 {
		c.R.Fail(rule, p.Name+":priority.Simple#waits", "-", "UNRESOLVED-ANCHOR: the supervising goroutine of v1 Simple has no wait")
	}
	// the graceful request is handed on: on the clause of the graceful signal the supervising
	// goroutine calls GracefulStop() of the inner discipline (itself or in a helper goroutine it
	// starts there) - otherwise GracefulStop() of the simplified discipline never ends
	if rule != "E12" {
		return // (termination is C07's business: items are still delivered exactly once without it)
	}
	callsInnerGraceful := func(rt *Routine) bool {
		for _, sc := range rt.SubCalls {
			if cal := p.Callee(sc); cal != nil && cal.Name() == "GracefulStop" {
				return true
			}
		}
		return false
	}
	for _, e := range d.Gos {
		if e.Multi || e.Parent != nil {
			continue
		}
		rt := p.Routine(d, e)
		forwarded, haveClause := false, false
		for _, fn := range rt.Funcs {
			for _, sel := range Selects(fn) {
				for _, cs := range p.SelectInfo(sel).Cases {
					if p.stopRoleOf(cs.State.Chan) != "graceful" || cs.Body == nil {
						continue
					}
					haveClause = true
					for _, b := range fn.Blocks {
						if !(cs.Body == b || cs.Body.Dominates(b)) {
							continue
						}
						for _, in := range b.Instrs {
							switch x := in.(type) {
							case *ssa.Go:
								for _, e2 := range d.Gos {
									if e2.Stmt == x && callsInnerGraceful(p.Routine(d, e2)) {
										forwarded = true
									}
								}
							case *ssa.Call:
								if cal := p.Callee(x); cal != nil {
									if cal.Name() == "GracefulStop" && cal.Signature.Recv() != nil {
										forwarded = true
									} else if p.IsProduct(cal) {
										for g := range p.Reach(cal) {
											for _, bb := range g.Blocks {
												for _, i2 := range bb.Instrs {
													if c2, isC := i2.(*ssa.Call); isC {
														if k := p.Callee(c2); k != nil && k.Name() == "GracefulStop" && k.Signature.Recv() != nil {
															forwarded = true
														}
													}
													if g2, isG := i2.(*ssa.Go); isG {
														for _, e2 := range d.Gos {
															if e2.Stmt == g2 && callsInnerGraceful(p.Routine(d, e2)) {
																forwarded = true
															}
														}
													}
												}
											}
										}
									}
								}
							}
						}
					}
				}
			}
		}
		key := p.FnKey(e.Entry) + "#graceful-forwarded"
		if !haveClause {
			c.R.Fail(rule, key, p.Pos(e.Entry.Pos()), "UNRESOLVED-ANCHOR: the supervising goroutine has no clause for the graceful request")
			continue
		}
		c.R.Check(forwarded, rule, key, p.Pos(e.Entry.Pos()), "on the graceful request the inner discipline's GracefulStop() is called",
			"on the graceful request nothing calls GracefulStop() of the inner discipline: it keeps waiting for more input, and GracefulStop() of the simplified discipline never returns although every input is closed and every item released")
	}
}

// returnsBypassing: the returns of fn that can be reached from its entry without entering any
// block of the loop (an early return in front of the loop the rule is about).
func returnsBypassing(fn *ssa.Function, loop map[*ssa.BasicBlock]bool) []*ssa.Return {
	return returnsBypassingExcept(fn, loop, nil)
}

// returnsBypassingExcept: as returnsBypassing, not following the edges accepted by skip (the
// pre-test of a rotated loop belongs to the loop).
func returnsBypassingExcept(fn *ssa.Function, loop map[*ssa.BasicBlock]bool, skip func(e CondEdge) bool) []*ssa.Return {
	var out []*ssa.Return
	if len(fn.Blocks) == 0 || loop[fn.Blocks[0]] {
		return nil
	}
	seen := map[*ssa.BasicBlock]bool{fn.Blocks[0]: true}
	work := []*ssa.BasicBlock{fn.Blocks[0]}
	for len(work) > 0 {
		x := work[len(work)-1]
		work = work[:len(work)-1]
		if ret, ok := x.Instrs[len(x.Instrs)-1].(*ssa.Return); ok && x != fn.Recover {
			out = append(out, ret)
		}
		for i, s := range x.Succs {
			if skip != nil && len(x.Succs) == 2 && skip(CondEdge{x, i}) {
				continue
			}
			if !seen[s] && !loop[s] {
				seen[s] = true
				work = append(work, s)
			}
		}
	}
	return out
}

// checkOwnResources (C06/N11, C20/H8): what a discipline keeps in its fields - channels, maps,
// slices, tickers, breakers, wait groups - is created for it by its constructor or comes from its
// own options. A field bound to a package-level object is shared by every instance in the process:
// one instance stopping its ticker (closing its channel, ...) takes it away from all the others.
func checkOwnResources(c *Ctx, p *Prog, rule string, only func(d *Disc, field string) bool) {
	ai := p.alias()
	n := 0
	for _, d := range p.Discs() {
		for _, ctor := range d.Ctors {
			for _, b := range ctor.Blocks {
				for _, in := range b.Instrs {
					st, ok := in.(*ssa.Store)
					if !ok {
						continue
					}
					fa, isFA := st.Addr.(*ssa.FieldAddr)
					if !isFA || rootStructOf(fa) != d.Named {
						continue
					}
					field := fieldName(fa.X.Type(), fa.Field)
					if only != nil && !only(d, field) {
						continue
					}
					switch st.Val.Type().Underlying().(type) {
					case *types.Chan, *types.Map, *types.Slice, *types.Pointer:
					default:
						continue
					}
					n++
					var shared []string
					for _, root := range ai.Roots(st.Val) {
						if root.Kind == "global" {
							shared = append(shared, p.Sym(root.V).String())
						}
					}
					c.R.Check(len(shared) == 0, rule, fmt.Sprintf("%s#own:%s", p.FnKey(ctor), field), p.InstrPos(in), "created by the constructor or taken from the options",
						"field "+field+" of every instance is bound to the package-level "+strings.Join(dedup(shared), ", ")+": the instances share it, and what one of them does to it (stopping the ticker, closing the channel, writing the map) happens to all")
				}
			}
		}
	}
	if n == 0 {
		c.R.Fail(rule, p.Name+":own-resources", "-", "UNRESOLVED-ANCHOR: no resource field is initialised by a constructor")
	}
}

// checkSchedulerWaits (C07/E13): outside selects, the scheduling goroutine waits only for things
// that are bound to happen while items are in flight or soon: a release, a hand-over of an item,
// a short constant pause (E10), a tick of a ticker that is alive for the whole run (stopped only
// by the entry's deferred clean-up) or a short constant time.After. A plain wait for anything
// else (or for a ticker the scheduler itself may have stopped) can keep the goroutine from ever
// observing that the inputs are closed and empty: Output()/Err() are then not closed promptly.
func checkSchedulerWaits(c *Ctx, sr *schedRoles, rule string) {
	p := sr.p
	n := 0
	for _, fn := range sr.rt.Funcs {
		for _, op := range p.BlockingOps(fn) {
			if op.Kind != "recv" && op.Kind != "rangechan" {
				continue
			}
			var ch ssa.Value
			switch x := op.In.(type) {
			case *ssa.UnOp:
				ch = x.X
			case *ssa.Next:
				ch = x.Iter.(*ssa.Range).X
			}
			if _, inSel := ch.(*ssa.Extract); inSel {
				continue
			}
			cs := p.upChan(p.Sym(ch), 0)
			role := symChanRole(cs)
			n++
			key := fmt.Sprintf("%s#wait.%d", p.FnKey(fn), n)
			switch {
			case role == "field:feedback" || role == "field:err" || strings.HasPrefix(role, "call:") && isProductCall(p, cs.V):
				// releases (N2/E4 decide when), the inner discipline's channels (E12 decides which)
				c.R.Pass(rule, key, p.InstrPos(op.In), "waits for "+role)
				continue
			}
			// <-ticker.C
			if _, path, ok := cs.FieldPath(); ok && len(path) >= 2 && path[len(path)-1] == "C" {
				tick := path[len(path)-2]
				bad := tickerInterference(p, sr.rt, tick)
				c.R.Check(len(bad) == 0, rule, key, p.InstrPos(op.In), "waits for a tick of "+tick+", which is stopped only by the entry's deferred clean-up",
					"the scheduler waits (outside a select) for a tick of "+tick+", but that ticker is stopped or re-armed while the scheduler runs ("+strings.Join(bad, "; ")+"): once it is stopped the goroutine never looks at the inputs again and Output()/Err() are never closed")
				continue
			}
			// <-time.After(small constant)
			if call, ok := ch.(*ssa.Call); ok {
				if cal := p.Callee(call); cal != nil && p.funcDisplay(cal) == "time.After" {
					d, okd := constDuration(call.Call.Args[0])
					c.R.Check(okd && d <= 1_000_000, rule, key, p.InstrPos(op.In), fmt.Sprintf("time.After(%dns): constant <= 1ms", d),
						"the scheduler pauses for "+p.Sym(call.Call.Args[0]).String()+", not a small constant: Output()/Err() are closed that much later than the last release (not promptly)")
					continue
				}
			}
			c.R.Fail(rule, key, p.InstrPos(op.In), "the scheduler waits (outside a select) on "+cs.String()+" ["+role+"], which nothing guarantees to be signalled once the inputs are closed and empty: Output()/Err() may never be closed")
		}
	}
	if n == 0 {
		c.R.Pass(rule, p.Name+":priority#wait", "-", "the scheduler has no plain channel wait")
	}
	// blocking selects: each can be woken by what the scheduler is there for - a release, the
	// hand-over of an item to a handler, or an input together with a live ticker. A select that only
	// listens for stop / cancel / commands parks the scheduler: closed inputs and (v1) the graceful
	// request go unnoticed
	m := 0
	for _, fn := range sr.rt.Funcs {
		for _, op := range p.BlockingOps(fn) {
			if op.Kind != "select" || op.Sel == nil || op.Sel.HasDefault {
				continue
			}
			m++
			kinds := map[string]bool{}
			var roles []string
			for _, cs := range op.Sel.Cases {
				role := p.chanRole(cs.State.Chan)
				roles = append(roles, role)
				switch {
				case cs.State.Dir == types.SendOnly && (role == "field:output" || role == "field:opts.Output"):
					kinds["deliver"] = true
				case role == "field:feedback" || role == "field:opts.Feedback":
					kinds["release"] = true
				case strings.HasPrefix(role, "table:"):
					kinds["input"] = true
				case strings.HasPrefix(role, "ticker:"):
					kinds["tick"] = true
				}
			}
			okSel := kinds["deliver"] || kinds["release"] || (kinds["input"] && kinds["tick"])
			c.R.Check(okSel, rule, fmt.Sprintf("%s#select.%d", p.FnKey(fn), m), p.InstrPos(op.In), "woken by a release, a hand-over, or an input with a live ticker",
				"the scheduler parks in a select that listens only for "+strings.Join(roles, ", ")+": neither a release nor an item wakes it, so it notices neither that the inputs are closed and empty nor (v1) the graceful request - termination is never signalled")
		}
	}
}

// tickerInterference lists the sites of the routine that stop or re-arm the ticker field other
// than the entry's (deferred) clean-up.
func tickerInterference(p *Prog, rt *Routine, field string) []string {
	var bad []string
	for _, fn := range rt.Funcs {
		for _, b := range fn.Blocks {
			for _, in := range b.Instrs {
				call, ok := in.(ssa.CallInstruction)
				if !ok {
					continue
				}
				cal := p.Callee(call)
				if cal == nil {
					continue
				}
				name := p.funcDisplay(cal)
				if name != "(*time.Ticker).Stop" && name != "(*time.Ticker).Reset" {
					continue
				}
				if _, path, okp := p.Sym(call.Common().Args[0]).FieldPath(); !okp || path[len(path)-1] != field {
					continue
				}
				_, isDefer := in.(*ssa.Defer)
				if isDefer && fn == rt.E.Entry && name == "(*time.Ticker).Stop" {
					continue
				}
				if !isDefer && fn != rt.E.Entry && b == straightLine(fn) && name == "(*time.Ticker).Stop" {
					entries := map[*ssa.Function]*GoEntry{rt.E.Entry: rt.E}
					if e := p.cleanupOnly(fn, entries, 0); e == rt.E {
						continue
					}
				}
				bad = append(bad, strings.TrimPrefix(name, "(*time.Ticker).")+" at "+p.InstrPos(in))
			}
		}
	}
	return bad
}

func isProductCall(p *Prog, v ssa.Value) bool {
	call, ok := v.(*ssa.Call)
	if !ok {
		return false
	}
	cal := p.Callee(call)
	return cal != nil && p.IsProduct(cal)
}

// checkExposedClosed (C07/E14, C03/J11): every channel a discipline makes itself and hands out
// through an exported method (Output(), Err()) is closed by an unconditional defer of the
// goroutine entry - that close is how termination is observed. (The only-in-defers direction is
// E5; this is the must direction.)
func checkExposedClosed(c *Ctx, p *Prog, rule string, only func(d *Disc) bool) {
	n := 0
	for _, d := range p.Discs() {
		if only != nil && !only(d) {
			continue
		}
		exposed := exposedChannels(p, d)
		if len(exposed) == 0 {
			continue
		}
		// channels the constructor makes (a user-supplied channel is the user's to close)
		made := map[string]bool{}
		for _, ctor := range d.Ctors {
			for _, b := range ctor.Blocks {
				for _, in := range b.Instrs {
					st, ok := in.(*ssa.Store)
					if !ok {
						continue
					}
					fa, isFA := st.Addr.(*ssa.FieldAddr)
					if !isFA || rootStructOf(fa) != d.Named {
						continue
					}
					if xs := p.SymX(st.Val); xs.Op == "make" && strings.HasPrefix(xs.Name, "chan#") {
						made["field:"+fieldName(fa.X.Type(), fa.Field)] = true
					}
				}
			}
		}
		closed := map[string]bool{}
		undecided := false
		for _, e := range d.Gos {
			if e.Parent != nil || e.Multi || e.Entry == nil {
				continue
			}
			order, ok := p.CleanupOrder(e.Entry)
			if !ok {
				undecided = true
				continue
			}
			for _, df := range order {
				if k, a := p.deferKind(df); k == "close" {
					closed[a] = true
				}
			}
		}
		var roles []string
		for role := range exposed {
			roles = append(roles, role)
		}
		sort.Strings(roles)
		for _, role := range roles {
			if !made[role] {
				continue
			}
			n++
			key := fmt.Sprintf("%s:%s#closed:%s", p.Name, d.Name, strings.TrimPrefix(role, "field:"))
			switch {
			case closed[role]:
				c.R.Pass(rule, key, "-", "closed by a defer of the goroutine entry")
			case undecided:
				c.R.Fail(rule, key, "-", "UNDECIDED: conditional defer in the goroutine entry")
			default:
				c.R.Fail(rule, key, "-", "the channel "+strings.TrimPrefix(role, "field:")+" is handed out by an exported method but never closed by the discipline's goroutine: a consumer waiting for it to be closed (the termination signal) waits for ever")
			}
		}
	}
	if n == 0 {
		c.R.Fail(rule, p.Name+"#closed", "-", "UNRESOLVED-ANCHOR: no exposed channel made by a constructor found")
	}
}

// checkErrorTests (C15/D10, C13/V8, constructors): the contradiction form of error discipline.
// (a) a function never returns, as its error, a value it has just tested to be nil
// (`if err == nil { return err }`: an inverted test - the failure path continues and the success
// path leaves early with "no error"); (b) a function never reports success (a nil error constant)
// on the edge where an error obtained from a product call was tested non-nil (the fault is
// swallowed). Returns the number of error tests examined.
func checkErrorTests(c *Ctx, p *Prog, rule string, fns []*ssa.Function) int {
	isErrType := func(t types.Type) bool { return typeShort(t) == "error" }
	n := 0
	for _, fn := range fns {
		k := 0
		for _, b := range fn.Blocks {
			ret, ok := b.Instrs[len(b.Instrs)-1].(*ssa.Return)
			if !ok || b == fn.Recover {
				continue
			}
			for _, rv := range ret.Results {
				if !isErrType(rv.Type()) {
					continue
				}
				for _, e := range DomEdges(b) {
					iff, isIf := e.From.Instrs[len(e.From.Instrs)-1].(*ssa.If)
					if !isIf {
						continue
					}
					base, neg := condOf(iff.Cond)
					bo, isB := base.(*ssa.BinOp)
					if !isB || !isNilConst(bo.Y) || !isErrType(bo.X.Type()) || (bo.Op != token.NEQ && bo.Op != token.EQL) {
						continue
					}
					nonNil := (bo.Op == token.NEQ) == ((e.Succ == 0) != neg)
					n++
					if _, isC := rv.(*ssa.Const); !isC && bo.X == rv && !nonNil {
						k++
						c.R.Fail(rule, fmt.Sprintf("%s#known-nil-error.%d", p.FnKey(fn), k), p.InstrPos(ret), "the function returns "+p.Sym(rv).String()+" as its error on the edge where that value was tested to be nil (inverted test): it leaves early reporting success and carries on when the call failed")
					}
					if isNilConst(rv) && nonNil {
						if _, fromCall := p.errorOfProductCall(bo.X); fromCall {
							k++
							c.R.Fail(rule, fmt.Sprintf("%s#error-dropped.%d", p.FnKey(fn), k), p.InstrPos(ret), "the function reports success (nil) on the edge where "+p.Sym(bo.X).String()+" was found non-nil: the fault is swallowed")
						}
					}
				}
			}
		}
		// ... and no success is reported before the error of a product call was looked at: from the
		// call no return is reachable that neither hands that error on nor lies behind its nil test
		// (switch { case nothingToDo: return nil; case err != nil: return err } swallows the fault
		// of the round in which there was nothing to do)
		for _, b := range fn.Blocks {
			for _, in := range b.Instrs {
				call, isCall := in.(*ssa.Call)
				if !isCall {
					continue
				}
				cal := p.Callee(call)
				if cal == nil || !p.IsProduct(cal) {
					continue
				}
				var ev ssa.Value
				res := cal.Signature.Results()
				switch {
				case res.Len() == 1 && isErrType(res.At(0).Type()):
					ev = call
				case res.Len() > 1 && isErrType(res.At(res.Len()-1).Type()):
					for _, ref := range *call.Referrers() {
						if ex, isEx := ref.(*ssa.Extract); isEx && ex.Index == res.Len()-1 {
							ev = ex
						}
					}
				}
				if ev == nil {
					continue
				}
				tested := map[*ssa.BasicBlock]bool{}
				anyTest := false
				for _, ref := range *ev.Referrers() {
					if bo, isB := ref.(*ssa.BinOp); isB && (bo.Op == token.NEQ || bo.Op == token.EQL) && (isNilConst(bo.Y) || isNilConst(bo.X)) {
						for _, r2 := range *bo.Referrers() {
							if iff, isIf := r2.(*ssa.If); isIf {
								tested[iff.Block()] = true
								anyTest = true
							}
							if un, isUn := r2.(*ssa.UnOp); isUn {
								for _, r3 := range *un.Referrers() {
									if iff, isIf := r3.(*ssa.If); isIf {
										tested[iff.Block()] = true
										anyTest = true
									}
								}
							}
						}
					}
				}
				if !anyTest {
					continue // handed on or ignored as a whole: other rules (D5, D10 error-dropped)
				}
				seen := map[*ssa.BasicBlock]bool{}
				var stack []*ssa.BasicBlock
				if tested[b] {
					continue
				}
				stack = append(stack, b.Succs...)
				// (a return in the call's own block comes after the call)
				if ret, isRet := b.Instrs[len(b.Instrs)-1].(*ssa.Return); isRet {
					_ = ret
				}
				for len(stack) > 0 {
					x := stack[len(stack)-1]
					stack = stack[:len(stack)-1]
					if seen[x] || x == fn.Recover {
						continue
					}
					seen[x] = true
					if x == b {
						continue // back at the call: the next activation of the call has its own error
					}
					if ret, isRet := x.Instrs[len(x.Instrs)-1].(*ssa.Return); isRet {
						handsOn := false
						for _, rv := range returnedValues(ret) {
							if rv == ev {
								handsOn = true
							}
						}
						if !handsOn {
							k++
							c.R.Fail(rule, fmt.Sprintf("%s#error-unseen.%d", p.FnKey(fn), k), p.InstrPos(ret), "the function returns at "+p.InstrPos(ret)+" without having looked at the error of "+p.calleeName(call.Common())+" (called at "+p.InstrPos(call)+", tested only later): a fault of that call is swallowed on this path")
						}
						continue
					}
					if tested[x] {
						continue
					}
					stack = append(stack, x.Succs...)
				}
			}
		}
		if k == 0 {
			c.R.Pass(rule, p.FnKey(fn)+"#error-tests", p.Pos(fn.Pos()), "no error value is returned where it is known nil, none dropped where known non-nil")
		}
	}
	return n
}

// errorOfProductCall: v is the error result of a call of a product function.
func (p *Prog) errorOfProductCall(v ssa.Value) (*ssa.Call, bool) {
	switch x := v.(type) {
	case *ssa.Call:
		if cal := p.Callee(x); cal != nil && p.IsProduct(cal) {
			return x, true
		}
	case *ssa.Extract:
		if call, ok := x.Tuple.(*ssa.Call); ok {
			if cal := p.Callee(call); cal != nil && p.IsProduct(cal) {
				return call, true
			}
		}
	}
	return nil, false
}

// funcsOfRels: the product functions (incl. closures) of the given packages that return an error.
func (p *Prog) errorFuncs(rels ...string) []*ssa.Function {
	want := map[string]bool{}
	for _, r := range rels {
		want[r] = true
	}
	var out []*ssa.Function
	for _, fn := range p.Funcs() {
		rel, ok := p.Rel(fn)
		if !ok || !want[rel] {
			continue
		}
		res := fn.Signature.Results()
		for i := 0; i < res.Len(); i++ {
			if typeShort(res.At(i).Type()) == "error" {
				out = append(out, fn)
				break
			}
		}
	}
	return out
}

// checkCtorRefusals (C02/X12, C03/J13, C12/Q9): a constructor (and the validation helpers whose
// error it hands on) refuses a configuration only on a test that says an option is missing or
// out of range - `x == nil`, `x == 0`, `x < c`, `x <= c`, a failed validity predicate - never on
// its negation (`x != nil`, `x == 1`): otherwise valid configurations are refused and nothing is
// ever delivered. (Which bound c is the right one is decided by the timing rules, not here.)
func checkCtorRefusals(c *Ctx, p *Prog, d *Disc, rule string) {
	if d == nil || len(d.Ctors) == 0 {
		c.R.Fail(rule, p.Name+"#ctor", "-", "UNRESOLVED-ANCHOR: constructor not found")
		return
	}
	for _, ctor := range d.Ctors {
		if obj, _ := ctor.Object().(*types.Func); obj == nil || !obj.Exported() {
			continue // a private builder: part of the exported constructor's scope
		}
		scope := map[*ssa.Function]bool{ctor: true}
		changed := true
		for changed {
			changed = false
			for fn := range scope {
				for _, b := range fn.Blocks {
					ret, ok := b.Instrs[len(b.Instrs)-1].(*ssa.Return)
					if !ok || len(ret.Results) == 0 {
						continue
					}
					vals := returnedValues(ret)
					ev := stripChangeType(vals[len(vals)-1])
					if ex, isEx := ev.(*ssa.Extract); isEx {
						ev = ex.Tuple
					}
					if call, isCall := ev.(*ssa.Call); isCall {
						if cal := p.Callee(call); cal != nil && p.IsProduct(cal) && !scope[cal] {
							if od := p.discOfCtor(cal); od != nil && od != d {
								continue // the constructor of an inner discipline: decided for that discipline
							}
							scope[cal] = true
							changed = true
						}
					}
				}
			}
		}
		n := 0
		var fns []*ssa.Function
		for fn := range scope {
			fns = append(fns, fn)
		}
		sort.Slice(fns, func(i, j int) bool { return p.FnKey(fns[i]) < p.FnKey(fns[j]) })
		for _, fn := range fns {
			k := 0
			for _, b := range fn.Blocks {
				ret, ok := b.Instrs[len(b.Instrs)-1].(*ssa.Return)
				if !ok || len(ret.Results) == 0 || b == fn.Recover {
					continue
				}
				vals := returnedValues(ret)
				ev := vals[len(vals)-1]
				if typeShort(ev.Type()) != "error" || isNilConst(ev) {
					continue
				}
				fv := stripChangeType(ev)
				if ex, isEx := fv.(*ssa.Extract); isEx {
					fv = ex.Tuple
				}
				if _, isCall := fv.(*ssa.Call); isCall {
					continue // forwarded (D10/J12/Q8 decide the test around it)
				}
				if ld, isLd := fv.(*ssa.UnOp); !isLd || ld.Op != token.MUL {
					continue
				} else if _, isG := ld.X.(*ssa.Global); !isG {
					continue
				}
				n++
				k++
				okReason := AllPathsPass(b, func(e CondEdge) bool {
					iff := e.From.Instrs[len(e.From.Instrs)-1].(*ssa.If)
					base, neg := condOf(iff.Cond)
					if call, isCall := base.(*ssa.Call); isCall {
						if cal := p.Callee(call); cal != nil && returnsBoolOnly(cal) && (e.Succ == 0) == neg {
							return true // a validity predicate said no
						}
					}
					cm := p.NormCmp(iff.Cond, e.Succ == 0)
					if cm == nil {
						return false
					}
					l, r := deepStrip(cm.L), deepStrip(cm.R)
					switch cm.Op {
					case token.EQL:
						isZero := func(x *Sym, k int64) bool {
							return k == 0 && (x.String() == "0" || x.String() == "nil" || (x.Op == "const" && (x.Name == "nil" || x.Name == "0")))
						}
						return isZero(r, cm.RC) && cm.LC == 0 || isZero(l, cm.LC) && cm.RC == 0
					case token.LSS, token.LEQ:
						// below a bound: x < c, x <= c (0 < x is the unsigned spelling of x != 0: not a refusal test)
						// ... or above one: c < x with c != 0
						if l.Op == "const" {
							return !((l.String() == "0" || l.Name == "0") && cm.LC == 0)
						}
						return true
					}
					return false
				})
				c.R.Check(okReason, rule, fmt.Sprintf("%s#refusal.%d", p.FnKey(fn), k), p.InstrPos(ret), "refused under a missing / out-of-range test",
					"the constructor refuses with "+p.Sym(ev).String()+" under "+describeEdges(p, DomEdges(b))+", which is not a test for a missing or out-of-range option (an inverted or altered validation): valid configurations are refused and nothing is ever delivered")
			}
		}
		if n == 0 {
			c.R.Fail(rule, p.FnKey(ctor)+"#refusal", p.Pos(ctor.Pos()), "UNRESOLVED-ANCHOR: the constructor has no validation exits")
		}
	}
}

// discOfCtor: the discipline fn is a constructor of (nil if none).
func (p *Prog) discOfCtor(fn *ssa.Function) *Disc {
	for _, d := range p.Discs() {
		for _, ct := range d.Ctors {
			if ct == fn {
				return d
			}
		}
	}
	return nil
}

// checkHandlersStarted (C02/X13): the handler goroutines of a simplified discipline are started on
// every successful construction: the loop that holds their go statement lies before every
// success return of the function it is in, and that function is called before every success return
// of its callers up to the constructor (or is itself a goroutine entry the constructor starts).
func checkHandlersStarted(c *Ctx, p *Prog, rule string) {
	n := 0
	for _, d := range p.Discs() {
		for _, e := range d.Gos {
			if !e.Multi || e.Stmt == nil {
				continue
			}
			n++
			key := fmt.Sprintf("%s:%s#handlers-started", p.Name, d.Name)
			var problems []string
			isEntry := func(fn *ssa.Function) bool {
				for _, e2 := range d.Gos {
					if e2.Entry == fn && !e2.Multi {
						return true
					}
				}
				return false
			}
			isCtor := func(fn *ssa.Function) bool {
				for _, ct := range d.Ctors {
					if ct == fn {
						return true
					}
				}
				return false
			}
			successReturnsDominated := func(fn *ssa.Function, anchor *ssa.BasicBlock, what string) {
				for _, b := range fn.Blocks {
					ret, ok := b.Instrs[len(b.Instrs)-1].(*ssa.Return)
					if !ok || b == fn.Recover {
						continue
					}
					if len(ret.Results) > 0 && p.provablyError(ret.Results[len(ret.Results)-1], b) {
						continue
					}
					if !anchor.Dominates(b) {
						problems = append(problems, "the return at "+p.InstrPos(ret)+" of "+fn.Name()+" is reached without "+what)
					}
				}
			}
			// anchor in the spawning function: the outermost loop header around the go statement
			fn := p.Norm(e.Stmt.Parent())
			anchor := e.Stmt.Block()
			for _, comp := range sccs(fn.Blocks, blockSet(fn.Blocks)) {
				set := blockSet(comp)
				if !set[e.Stmt.Block()] {
					continue
				}
				// the statement `for ... { go handler() }` is reached: the block outside the loop that
				// dominates its entry (the pre-test of a rotated range loop belongs to the statement)
				for _, b := range comp {
					for _, pb := range b.Preds {
						if !set[pb] {
							for x := b.Idom(); x != nil; x = x.Idom() {
								if !set[x] {
									if anchor == e.Stmt.Block() || x.Dominates(anchor) {
										anchor = x
									}
									break
								}
							}
						}
					}
				}
			}
			successReturnsDominated(fn, anchor, "having started the handlers")
			// exactly HandlersQuantity of them: the go statement sits in one loop counted from 0 by 1
			// while < HandlersQuantity (for range HandlersQuantity). One fewer and a lone busy priority
			// never gets all the handlers it is allotted (with HandlersQuantity 1: none at all)
			{
				var loop map[*ssa.BasicBlock]bool
				for _, comp := range sccs(fn.Blocks, blockSet(fn.Blocks)) {
					if set := blockSet(comp); set[e.Stmt.Block()] {
						loop = set
					}
				}
				counted := false
				if loop != nil {
					for b := range loop {
						if !boundedHeader(b, loop) {
							continue
						}
						iff := b.Instrs[len(b.Instrs)-1].(*ssa.If)
						cmp := p.NormCmp(iff.Cond, loop[b.Succs[0]])
						if cmp == nil || cmp.Op != token.LSS || cmp.RC != 0 {
							continue
						}
						bound := p.upParam(cmp.R.StripConv(), 0)
						if bp, isPar := bound.StripConv().V.(*ssa.Parameter); isPar && bound.StripConv().Op == "param" {
							// handed to the goroutine with its go statement (go smpl.main(ctx, opts.HandlersQuantity))
							if a, okA := goEntryArg(p, bp.Parent(), bp); okA {
								bound = p.Sym(a)
							}
						}
						_, path, okp := bound.StripConv().FieldPath()
						wantLC := int64(1) // test after the body: iter+1 < N (the rotated form of `for range N`)
						if b != e.Stmt.Block() && b.Dominates(e.Stmt.Block()) {
							wantLC = 0 // test before the body: iter < N
						}
						if ph, isPhi := cmp.L.V.(*ssa.Phi); okp && path[len(path)-1] == "HandlersQuantity" && losslessConv(bound) && isPhi && phiCountsFromZeroByOne(ph, loop) && cmp.LC == wantLC {
							counted = true
						}
					}
				}
				if !counted {
					problems = append(problems, "the handlers are not started by a loop counted from 0 by 1 while < HandlersQuantity (exactly HandlersQuantity handlers)")
				}
			}
			cur := fn
			for depth := 0; depth < 4 && !isCtor(cur) && !isEntry(cur); depth++ {
				sites := p.CallSites(cur)
				if len(sites) == 0 {
					problems = append(problems, cur.Name()+", which starts the handlers, is never called")
					break
				}
				var next *ssa.Function
				for _, cs := range sites {
					if _, isGo := cs.(*ssa.Go); isGo {
						continue
					}
					caller := p.Norm(cs.Parent())
					successReturnsDominated(caller, cs.Block(), "having called "+cur.Name()+" (which starts the handlers)")
					next = caller
				}
				if next == nil {
					break
				}
				cur = next
			}
			c.R.Check(len(problems) == 0, rule, key, p.InstrPos(e.Stmt), "handlers started on every successful construction", strings.Join(dedup(problems), "; ")+": the discipline is created without (all of) its handlers and delivered items are never handled")
		}
	}
	if n == 0 {
		c.R.Fail(rule, p.Name+"#handlers-started", "-", "UNRESOLVED-ANCHOR: no handler goroutines found")
	}
}

// falseOnlyWhenParamFalse: result #resIdx of h is the constant false only on paths behind the false
// edge of a test of the boolean parameter par, and otherwise the constant true.
func (p *Prog) falseOnlyWhenParamFalse(h *ssa.Function, resIdx int, par *ssa.Parameter) bool {
	seenFalse := false
	for _, b := range h.Blocks {
		ret, ok := b.Instrs[len(b.Instrs)-1].(*ssa.Return)
		if !ok || b == h.Recover {
			continue
		}
		vals := returnedValues(ret)
		if resIdx >= len(vals) {
			return false
		}
		cv, isC := vals[resIdx].(*ssa.Const)
		if !isC {
			return false
		}
		if constString(cv) == "true" {
			continue
		}
		seenFalse = true
		behind := AllPathsPass(b, func(e CondEdge) bool {
			iff := e.From.Instrs[len(e.From.Instrs)-1].(*ssa.If)
			base, neg := condOf(iff.Cond)
			return base == ssa.Value(par) && (e.Succ == 0) == neg
		})
		if !behind {
			return false
		}
	}
	return seenFalse
}

// checkEntryStarted (C16/S11): every successful return of a constructor is reached through the go
// statement that starts the discipline's goroutine. The goroutine's deferred Complete() is what a
// later Stop() / GracefulStop() waits for: a constructor that returns a discipline without having
// started it ("the context is already cancelled: close the output and return") leaves Stop()
// blocked for ever.
func checkEntryStarted(c *Ctx, p *Prog, rule string) {
	n := 0
	for _, d := range p.Discs() {
		for _, e := range d.Gos {
			if e.Multi || e.Parent != nil || e.Stmt == nil {
				continue
			}
			n++
			key := fmt.Sprintf("%s:%s#entry-started", p.Name, d.Name)
			var problems []string
			// the function holding the go statement, and (for a private builder) its callers among
			// the constructors: in each, every non-error return is dominated by the go / the call
			type anchor struct {
				fn *ssa.Function
				b  *ssa.BasicBlock
			}
			anchors := []anchor{{p.Norm(e.Stmt.Parent()), e.Stmt.Block()}}
			seen := map[*ssa.Function]bool{anchors[0].fn: true}
			for i := 0; i < len(anchors); i++ {
				for _, cs := range p.CallSites(anchors[i].fn) {
					par := p.Norm(cs.Parent())
					isCtor := false
					for _, ct := range d.Ctors {
						if ct == par {
							isCtor = true
						}
					}
					if isCtor && !seen[par] {
						seen[par] = true
						anchors = append(anchors, anchor{par, cs.Block()})
					}
				}
			}
			for _, a := range anchors {
				for _, b := range a.fn.Blocks {
					ret, ok := b.Instrs[len(b.Instrs)-1].(*ssa.Return)
					if !ok || b == a.fn.Recover {
						continue
					}
					if len(ret.Results) > 0 && p.provablyError(ret.Results[len(ret.Results)-1], b) {
						continue
					}
					if !a.b.Dominates(b) {
						problems = append(problems, "the return at "+p.InstrPos(ret)+" of "+a.fn.Name()+" hands out a discipline whose goroutine was not started: Stop() / GracefulStop() wait for its completion for ever")
					}
				}
			}
			c.R.Check(len(problems) == 0, rule, key, p.InstrPos(e.Stmt), "every successful construction starts the goroutine", strings.Join(dedup(problems), "; "))
		}
	}
	if n == 0 {
		c.R.Fail(rule, p.Name+"#entry-started", "-", "UNRESOLVED-ANCHOR: no goroutine entry started by a constructor found")
	}
}
