package main

import (
	"go/token"
	"strings"

	"golang.org/x/tools/go/ssa"
)

// Expression functions: product functions whose body is one straight-line block of side-effect
// free instructions ending in a return (isEmpty(q) = q == 0, dsc.isFilled() = len(dsc.join) >=
// JoinSize, isTimeouted(...) = time.Since(t) >= d). A call of such a function denotes the
// returned expression with the arguments substituted; extracting a condition into a helper, or
// inlining one, does not change what the rules see.

// exprFunc returns the callee and its return instruction when call is a call of an expression function.
func (p *Prog) exprFunc(call *ssa.Call) (*ssa.Function, *ssa.Return) {
	if call == nil {
		return nil, nil
	}
	fn := p.Callee(call)
	if fn == nil || !p.IsProduct(fn) {
		return nil, nil
	}
	return fn, p.exprFuncReturn(fn, 0)
}

func (p *Prog) exprFuncReturn(fn *ssa.Function, depth int) *ssa.Return {
	if depth > 4 {
		return nil
	}
	var body *ssa.BasicBlock
	for _, b := range fn.Blocks {
		if b == fn.Recover {
			continue
		}
		if body != nil {
			return nil
		}
		body = b
	}
	if body == nil || len(body.Instrs) == 0 {
		return nil
	}
	ret, ok := body.Instrs[len(body.Instrs)-1].(*ssa.Return)
	if !ok {
		return nil
	}
	for _, in := range body.Instrs[:len(body.Instrs)-1] {
		switch x := in.(type) {
		case *ssa.FieldAddr, *ssa.Field, *ssa.BinOp, *ssa.Lookup, *ssa.Index, *ssa.IndexAddr, *ssa.Convert,
			*ssa.ChangeType, *ssa.Extract, *ssa.DebugRef, *ssa.Slice, *ssa.MakeInterface, *ssa.ChangeInterface,
			*ssa.MakeChan, *ssa.MakeMap, *ssa.MakeSlice:
		case *ssa.UnOp:
			if x.Op == token.ARROW {
				return nil
			}
		case *ssa.Alloc:
			// a value receiver / parameter spilled to a local so that its fields can be addressed
			if x.Heap {
				return nil
			}
		case *ssa.Store:
			// a parameter spilled to a local, or a local composite value being put together
			// (rate := Rate{Interval: i, Quantity: q}; return rate, nil)
			addr := x.Addr
			if fa, isFA := addr.(*ssa.FieldAddr); isFA {
				addr = fa.X
			}
			al, isAl := addr.(*ssa.Alloc)
			if !isAl || al.Heap {
				return nil
			}
		case *ssa.Call:
			if bi, isB := x.Call.Value.(*ssa.Builtin); isB {
				switch bi.Name() {
				case "len", "cap", "min", "max":
					continue
				}
				return nil
			}
			cal := p.Callee(x)
			if cal == nil {
				return nil
			}
			if p.IsProduct(cal) {
				if cal == fn || p.exprFuncReturn(cal, depth+1) == nil {
					return nil
				}
				continue
			}
			name := p.funcDisplay(cal)
			if strings.HasPrefix(name, "time.") || strings.HasPrefix(name, "(time.") || strings.HasPrefix(name, "(*time.Time)") {
				continue
			}
			return nil
		default:
			return nil
		}
	}
	return ret
}

// substParams replaces the parameters of fn in s by the symbolic arguments of call.
func (p *Prog) substParams(call *ssa.Call, fn *ssa.Function, s *Sym) *Sym {
	if s == nil {
		return nil
	}
	if s.Op == "param" {
		if par, ok := s.V.(*ssa.Parameter); ok && par.Parent() == fn {
			if idx := paramIndex(fn, par); idx >= 0 && idx < len(call.Call.Args) {
				return p.SymX(call.Call.Args[idx])
			}
		}
		return s
	}
	if len(s.Args) == 0 {
		return s
	}
	n := *s
	n.Args = make([]*Sym, len(s.Args))
	changed := false
	for i, a := range s.Args {
		n.Args[i] = p.substParams(call, fn, a)
		if n.Args[i] != a {
			changed = true
		}
	}
	if !changed {
		return s
	}
	if n.Op == "field" && n.Args[0] != nil && n.Args[0].Op == "struct" {
		return symField(n.Args[0], n.Name)
	}
	return &n
}

// SymX is Sym with calls of expression functions expanded (recursively).
func (p *Prog) SymX(v ssa.Value) *Sym {
	return p.expandSym(p.Sym(v), 0)
}

func (p *Prog) expandSym(s *Sym, depth int) *Sym {
	if s == nil || depth > 6 {
		return s
	}
	if s.Op == "call" {
		if call, ok := s.V.(*ssa.Call); ok {
			if fn, ret := p.exprFunc(call); ret != nil && len(ret.Results) == 1 {
				return p.substParams(call, fn, p.expandSym(p.Sym(ret.Results[0]), depth+1))
			}
		}
	}
	if s.Op == "extract" && len(s.Args) == 1 && s.Args[0] != nil && s.Args[0].Op == "call" {
		if call, ok := s.Args[0].V.(*ssa.Call); ok {
			if fn, ret := p.exprFunc(call); ret != nil {
				var idx int
				for i := range ret.Results {
					if s.Name == itoa(i) {
						idx = i
					}
				}
				if idx < len(ret.Results) {
					return p.substParams(call, fn, p.expandSym(p.Sym(ret.Results[idx]), depth+1))
				}
			}
		}
	}
	if len(s.Args) == 0 {
		return s
	}
	n := *s
	n.Args = make([]*Sym, len(s.Args))
	changed := false
	for i, a := range s.Args {
		n.Args[i] = p.expandSym(a, depth)
		if n.Args[i] != a {
			changed = true
		}
	}
	if !changed {
		return s
	}
	return &n
}

func itoa(i int) string {
	return string(rune('0' + i))
}
