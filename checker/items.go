package main

import (
	"fmt"
	"go/token"
	"go/types"
	"strings"

	"golang.org/x/tools/go/ssa"
)

// RecvSite is one receive operation (plain, comma-ok, range-over-channel, or select clause).
type RecvSite struct {
	Fn   *ssa.Function
	In   ssa.Instruction // *ssa.UnOp or *ssa.Select
	Case *SelCase        // non-nil for select clauses
	Sel  *SelInfo
	Chan ssa.Value
	Val  ssa.Value // received value; nil if discarded
	Ok   ssa.Value // comma-ok result; nil if not requested
}

func (p *Prog) RecvSites(fn *ssa.Function) []*RecvSite {
	var out []*RecvSite
	for _, b := range fn.Blocks {
		for _, in := range b.Instrs {
			switch x := in.(type) {
			case *ssa.UnOp:
				if x.Op != token.ARROW {
					continue
				}
				rs := &RecvSite{Fn: fn, In: x, Chan: x.X}
				if x.CommaOk {
					for _, r := range *x.Referrers() {
						if ex, ok := r.(*ssa.Extract); ok {
							if ex.Index == 0 {
								rs.Val = ex
							} else {
								rs.Ok = ex
							}
						}
					}
				} else {
					rs.Val = x
				}
				out = append(out, rs)
			case *ssa.Select:
				si := p.SelectInfo(x)
				for _, c := range si.Cases {
					if c.State.Dir != types.RecvOnly {
						continue
					}
					rs := &RecvSite{Fn: fn, In: x, Case: c, Sel: si, Chan: c.State.Chan}
					if c.RecvVal != nil {
						rs.Val = c.RecvVal
					}
					// the ok value is shared; it belongs to this clause if it is used inside its body
					if si.OkVal != nil {
						for _, r := range *si.OkVal.Referrers() {
							if ri, ok := r.(ssa.Instruction); ok && c.Body != nil && (ri.Block() == c.Body || c.Body.Dominates(ri.Block())) {
								rs.Ok = si.OkVal
							}
						}
					}
					out = append(out, rs)
				}
			}
		}
	}
	return out
}

func (rs *RecvSite) Pos(p *Prog) string { return p.InstrPos(rs.In) }

// SendSite is one send operation (plain or select clause).
type SendSite struct {
	Fn   *ssa.Function
	In   ssa.Instruction
	Case *SelCase
	Sel  *SelInfo
	Chan ssa.Value
	Val  ssa.Value
}

func (p *Prog) SendSites(fn *ssa.Function) []*SendSite {
	var out []*SendSite
	for _, b := range fn.Blocks {
		for _, in := range b.Instrs {
			switch x := in.(type) {
			case *ssa.Send:
				out = append(out, &SendSite{Fn: fn, In: x, Chan: x.Chan, Val: x.X})
			case *ssa.Select:
				si := p.SelectInfo(x)
				for _, c := range si.Cases {
					if c.State.Dir == types.SendOnly {
						out = append(out, &SendSite{Fn: fn, In: x, Case: c, Sel: si, Chan: c.State.Chan, Val: c.State.Send})
					}
				}
			}
		}
	}
	return out
}

// SymFrame renders v with parameters substituted by the caller's arguments along the frame chain.
func (p *Prog) SymFrame(fr *Frame, v ssa.Value) *Sym {
	return p.substFrame(fr, p.Sym(v))
}

func (p *Prog) substFrame(fr *Frame, s *Sym) *Sym {
	if s == nil {
		return nil
	}
	if s.Op == "param" {
		if par, ok := s.V.(*ssa.Parameter); ok && fr != nil && fr.Site != nil && fr.Parent != nil && par.Parent() == fr.Fn {
			if a, afr, okA := fr.Arg(paramIndex(fr.Fn, par)); okA {
				return p.substFrame(afr, p.Sym(a)).StripInst()
			}
		}
		return s
	}
	if len(s.Args) == 0 {
		return s
	}
	n := *s
	n.Args = make([]*Sym, len(s.Args))
	changed := false
	for i, a := range s.Args {
		n.Args[i] = p.substFrame(fr, a)
		if n.Args[i] != a {
			changed = true
		}
	}
	if !changed {
		return s
	}
	if n.Op == "field" && n.Args[0].Op == "struct" {
		return symField(n.Args[0], n.Name)
	}
	return &n
}

// StripInst removes the changetype the builder inserts when calling an instantiation.
func (s *Sym) StripInst() *Sym {
	if s != nil && s.Op == "conv" {
		if ct, ok := s.V.(*ssa.ChangeType); ok && types.Identical(ct.Type(), ct.X.Type()) {
			return s.Args[0].StripInst()
		}
	}
	return s
}

// condOf strips negations: returns the underlying value and whether the true edge means "value is false".
func condOf(v ssa.Value) (ssa.Value, bool) {
	neg := false
	for {
		u, ok := v.(*ssa.UnOp)
		if !ok || u.Op != token.NOT {
			return v, neg
		}
		v, neg = u.X, !neg
	}
}

// ItemFlowConfig parameterises the "every received item is forwarded exactly once" automaton.
type ItemFlowConfig struct {
	P *Prog
	// IsSource selects the receives that yield items.
	IsSource func(rs *RecvSite) bool
	// SinkInstr: instruction consumes the item in hand; returns the consumed value.
	SinkInstr func(fr *Frame, in ssa.Instruction) (bool, ssa.Value)
	// SinkEdge: entering this edge means a select-send consumed the value.
	SinkEdge func(fr *Frame, from *ssa.BasicBlock, succ int) (bool, ssa.Value)
	// StopEdge: entering this edge is a stop clause; the item in hand may be dropped (v1).
	StopEdge func(fr *Frame, from *ssa.BasicBlock, succ int) bool
	// SinkCall: a call that consumes the item entirely (do not descend); returns consumed arg.
	SinkCall func(fr *Frame, c ssa.CallInstruction) (bool, ssa.Value)
	// ItemOf: project the forwarded item out of the consumed value (e.g. the Item field); default identity.
	ItemOf func(fr *Frame, consumed ssa.Value) *Sym
	// OnConsume: extra checks when the item received at src is consumed (e.g. tag identity).
	OnConsume       func(fr *Frame, src *RecvSite, consumed ssa.Value, where ssa.Instruction) []string
	AllowDropAtExit bool
}

type ItemFlowResult struct {
	Problems []string
	Sinks    map[ssa.Instruction]bool // sink instructions reached while holding an item
	Sources  int
}

// RunItemFlow analyses fn (with inlining) and reports lost / duplicated / fabricated items.
func RunItemFlow(cfg *ItemFlowConfig, fn *ssa.Function) *ItemFlowResult {
	p := cfg.P
	res := &ItemFlowResult{Sinks: map[ssa.Instruction]bool{}}
	problem := func(format string, a ...any) {
		res.Problems = append(res.Problems, fmt.Sprintf(format, a...))
	}
	// index sources by select-case edge and by instruction
	type src struct {
		rs *RecvSite
		id string
	}
	byInstr := map[ssa.Instruction]*src{}
	byEdge := map[string]*src{}
	byID := map[string]*src{}
	okOf := map[ssa.Value]*src{}
	edgeKey := func(b *ssa.BasicBlock, succ int) string {
		return fmt.Sprintf("%p/%d/%d", b.Parent(), b.Index, succ)
	}
	index := func(f *ssa.Function) {
		for _, rs := range p.RecvSites(f) {
			if !cfg.IsSource(rs) {
				continue
			}
			s := &src{rs: rs, id: fmt.Sprintf("%s@%s", rs.Pos(p), shortFn(p, f))}
			byID[s.id] = s
			res.Sources++
			if rs.Case != nil {
				if rs.Case.From != nil {
					byEdge[edgeKey(rs.Case.From, rs.Case.Succ)] = s
				}
			} else {
				byInstr[rs.In] = s
			}
			if rs.Ok != nil {
				okOf[rs.Ok] = s
			}
		}
	}
	for g := range p.Reach(fn) {
		index(g)
	}
	consume := func(fr *Frame, st string, consumed ssa.Value, where ssa.Instruction) []string {
		switch {
		case strings.HasPrefix(st, "have:"):
			s := byID[st[5:]]
			var item *Sym
			if cfg.ItemOf != nil {
				item = cfg.ItemOf(fr, consumed)
			} else {
				item = p.SymFrame(fr, consumed)
			}
			item = item.StripInst()
			if s.rs.Val == nil || item == nil || item.V == nil || stripChangeType(item.V) != stripChangeType(s.rs.Val) {
				problem("the value forwarded at %s is %s, not the item received at %s", p.InstrPos(where), item, s.id)
			}
			if cfg.OnConsume != nil {
				for _, m := range cfg.OnConsume(fr, s.rs, consumed, where) {
					problem("%s", m)
				}
			}
			res.Sinks[where] = true
			return []string{"none"}
		case strings.HasPrefix(st, "got:"):
			problem("item received at %s is forwarded at %s before the closed-channel test", st[4:], p.InstrPos(where))
			return []string{"none"}
		case st == "none" || st == "closed":
			problem("forwarding at %s happens with no item in hand (state %s): a value is fabricated or sent twice [%s]", p.InstrPos(where), st, fr.Chain(p))
			return []string{st}
		}
		return nil
	}
	fl := &Flow{P: p, TrackBoolReturns: true}
	fl.Instr = func(fr *Frame, st string, in ssa.Instruction) []string {
		if s := byInstr[in]; s != nil {
			if strings.HasPrefix(st, "have:") || strings.HasPrefix(st, "got:") {
				problem("item received at %s is still in hand when %s receives again: it is lost", st[strings.Index(st, ":")+1:], s.id)
			}
			if s.rs.Ok != nil {
				return []string{"got:" + s.id}
			}
			return []string{"have:" + s.id}
		}
		if cfg.SinkInstr != nil {
			if ok, v := cfg.SinkInstr(fr, in); ok {
				return consume(fr, st, v, in)
			}
		}
		return nil
	}
	fl.Call = func(fr *Frame, st string, c ssa.CallInstruction, deferred bool) (bool, []string) {
		if cfg.SinkCall != nil {
			if ok, v := cfg.SinkCall(fr, c); ok {
				return true, consume(fr, st, v, c)
			}
		}
		return false, nil
	}
	fl.Edge = func(fr *Frame, st string, from *ssa.BasicBlock, succ int) []string {
		if s := byEdge[edgeKey(from, succ)]; s != nil {
			if strings.HasPrefix(st, "have:") || strings.HasPrefix(st, "got:") {
				problem("item received at %s is still in hand when %s receives again: it is lost", st[strings.Index(st, ":")+1:], s.id)
			}
			if s.rs.Ok != nil {
				return []string{"got:" + s.id}
			}
			return []string{"have:" + s.id}
		}
		if cfg.SinkEdge != nil {
			if ok, v := cfg.SinkEdge(fr, from, succ); ok {
				var in ssa.Instruction = from.Instrs[len(from.Instrs)-1]
				if si, _, _ := p.CaseOnEdge(from, succ); si != nil {
					in = si.Sel
				}
				return consume(fr, st, v, in)
			}
		}
		if cfg.StopEdge != nil && cfg.StopEdge(fr, from, succ) {
			if strings.HasPrefix(st, "have:") {
				return []string{"none"} // rough stop may drop the item in hand
			}
		}
		// comma-ok test
		if iff, ok := from.Instrs[len(from.Instrs)-1].(*ssa.If); ok && strings.HasPrefix(st, "got:") {
			base, neg := condOf(iff.Cond)
			if r, _ := fr.Resolve(base); r != nil {
				base = r // the comma-ok result may have been handed to a helper as an argument
			}
			if s := okOf[base]; s != nil && "got:"+s.id == st {
				if (succ == 0) != neg {
					return []string{"have:" + s.id}
				}
				return []string{"closed"}
			}
		}
		return nil
	}
	fl.Exit = func(fr *Frame, st string, ret *ssa.Return) []string {
		if fr.Parent == nil {
			if strings.HasPrefix(st, "have:") && !cfg.AllowDropAtExit {
				problem("item received at %s is never forwarded on a path that returns at %s", st[5:], p.InstrPos(ret))
			}
			if strings.HasPrefix(st, "got:") {
				// returned before testing ok: treat as potential loss
				problem("item received at %s: function returns at %s without testing whether the channel was closed or forwarding the item", st[4:], p.InstrPos(ret))
			}
			return []string{"none"}
		}
		return nil
	}
	fl.Run(fn, []string{"none"})
	if fl.Err != nil {
		problem("%v", fl.Err)
	}
	res.Problems = dedup(res.Problems)
	return res
}

func stripChangeType(v ssa.Value) ssa.Value {
	for {
		ct, ok := v.(*ssa.ChangeType)
		if !ok {
			return v
		}
		v = ct.X
	}
}

// valueUses follows a value through product calls (parameter passing), struct-literal stores and
// loads, and reports every use that is not accepted by `accept`.
func (p *Prog) valueEscapes(v ssa.Value, accept func(user ssa.Instruction, val ssa.Value) bool) []string {
	var out []string
	seen := map[ssa.Value]bool{}
	var walk func(v ssa.Value)
	walk = func(v ssa.Value) {
		if v == nil || seen[v] {
			return
		}
		seen[v] = true
		refs := v.Referrers()
		if refs == nil {
			return
		}
		for _, r := range *refs {
			switch x := r.(type) {
			case *ssa.DebugRef:
			case *ssa.ChangeType:
				walk(x)
			case *ssa.Phi:
				walk(x)
			case *ssa.Store:
				if x.Val != v {
					continue
				}
				// store into a local variable / field of a local struct: follow loads of it
				base := baseOf(x.Addr)
				if al, ok := base.(*ssa.Alloc); ok && !al.Heap {
					for _, ar := range *al.Referrers() {
						switch y := ar.(type) {
						case *ssa.UnOp:
							walk(y)
						case *ssa.FieldAddr:
							for _, fr := range *y.Referrers() {
								if ld, ok := fr.(*ssa.UnOp); ok && ld.Op == token.MUL {
									if y == x.Addr || sameField(y, x.Addr) {
										walk(ld)
									}
								}
							}
						}
					}
					continue
				}
				if !accept(x, v) {
					out = append(out, fmt.Sprintf("stored at %s", p.InstrPos(x)))
				}
			case ssa.CallInstruction:
				callee := p.Callee(x)
				if callee != nil && p.IsProduct(callee) {
					if _, isGo := r.(*ssa.Go); isGo {
						out = append(out, fmt.Sprintf("passed to a new goroutine at %s", p.InstrPos(x)))
						continue
					}
					for i, a := range x.Common().Args {
						if a == v && i < len(callee.Params) {
							walk(callee.Params[i])
						}
					}
					continue
				}
				// a product function reached through a method value / function-typed parameter
				if t, targs, _ := p.funcValueTarget(nil, x); t != nil {
					if _, isGo := r.(*ssa.Go); !isGo {
						for i, a := range targs {
							if a == v && i < len(t.Params) {
								walk(t.Params[i])
							}
						}
						continue
					}
				}
				if !accept(x, v) {
					out = append(out, fmt.Sprintf("passed to %s at %s", p.calleeName(x.Common()), p.InstrPos(x)))
				}
			case *ssa.Field:
				// projecting a field of the value: follow
				walk(x)
			case *ssa.Extract:
				walk(x)
			default:
				if in, ok := r.(ssa.Instruction); ok {
					if !accept(in, v) {
						out = append(out, fmt.Sprintf("used by %T at %s", in, p.InstrPos(in)))
					}
				}
			}
		}
	}
	walk(v)
	return dedup(out)
}

func sameField(a *ssa.FieldAddr, b ssa.Value) bool {
	fb, ok := b.(*ssa.FieldAddr)
	return ok && fb.X == a.X && fb.Field == a.Field
}
