package main

import (
	"fmt"
	"go/token"
	"go/types"
	"os"
	"sort"
	"strings"
	"sync"

	"golang.org/x/tools/go/ssa"
)

// Private struct fields are named in the rules by the names they have on the confirmed tree
// ("tactic", "passAt", ...). A behaviour-preserving rename of such a field must not raise an
// alarm, so the names are an internal vocabulary, not a requirement on the source: when a
// discipline struct lacks a vocabulary name and has a field the vocabulary does not know, the
// field is matched to the missing role by its type and, among same-typed candidates, by what the
// code does with it. fieldName() then reports the vocabulary name. When every vocabulary name is
// present the mapping is the identity, so nothing changes for trees that keep the names; when a
// role cannot be matched unambiguously nothing is mapped and the rules that need the role fail
// with UNRESOLVED-ANCHOR as before.

type canonKey struct {
	named *types.Named
	idx   int
}

var canonFields = map[canonKey]string{}

// canonHolders: fields of a discipline struct that are private nested structs grouping role fields
// (dsc.timing, dsc.changes): access paths read through them (dsc.timing.passAt is dsc.passAt).
var canonHolders = map[canonKey]bool{}
var canonMu sync.Mutex

// canonNote records the renames that were resolved (reported in the evidence).
var canonNotes []string

var fieldVocabulary = map[string][]string{
	"v1:priority.Discipline":        {"opts", "breaker", "graceful", "inputs", "priorities", "inputAdds", "inputRmvs", "actual", "strategic", "tactic", "uncrowded", "useful", "feedbackLimit", "interrupter", "err"},
	"v1:priority.Simple":            {"opts", "priority", "breaker", "graceful", "output", "feedback", "wg", "err"},
	"v1:join.Discipline":            {"opts", "breaker", "interruptInterval", "join", "output", "passAt", "unreleased"},
	"v2:priority.Discipline":        {"opts", "feedback", "inputs", "output", "priorities", "actual", "strategic", "tactic", "uncrowded", "useful", "feedbackLimit", "interrupter", "err"},
	"v2:priority/simple.Discipline": {"opts", "priority"},
	"v2:join.Discipline":            {"opts", "interruptInterval", "join", "output", "passAt", "release"},
	"v2:join/unite.Discipline":      {"opts", "interruptInterval", "join", "output", "passAt", "release"},
	"v2:limit.Discipline":           {"opts", "output"},
}

// roleTypeClass: the type class a role's field must have.
func roleTypeClass(role string) string {
	switch role {
	case "opts":
		return "opts"
	case "breaker", "graceful":
		return "*breaker.Breaker"
	case "inputs":
		return "map[uint]struct"
	case "priorities", "uncrowded", "useful":
		return "[]uint"
	case "inputAdds":
		return "chan struct"
	case "inputRmvs", "feedback":
		return "chan uint"
	case "actual", "strategic", "tactic":
		return "map[uint]uint"
	case "feedbackLimit":
		return "uint"
	case "interrupter":
		return "*time.Ticker"
	case "err":
		return "chan error"
	case "priority":
		return "*discipline"
	case "output":
		return "chan payload"
	case "wg":
		return "*sync.WaitGroup"
	case "interruptInterval":
		return "time.Duration"
	case "join":
		return "[]T"
	case "passAt":
		return "time.Time"
	case "unreleased":
		return "bool"
	case "release":
		return "chan struct{}"
	}
	return "?"
}

func isUint(t types.Type) bool {
	b, ok := t.Underlying().(*types.Basic)
	return ok && b.Kind() == types.Uint
}

func fieldTypeClass(t types.Type) string {
	if nt, ok := t.(*types.Named); ok {
		if nt.Obj().Pkg() != nil && nt.Obj().Pkg().Path() == "time" {
			return "time." + nt.Obj().Name()
		}
		if _, isStruct := nt.Underlying().(*types.Struct); isStruct && strings.HasSuffix(nt.Obj().Name(), "Opts") {
			return "opts"
		}
	}
	switch u := t.Underlying().(type) {
	case *types.Basic:
		switch u.Kind() {
		case types.Bool:
			return "bool"
		case types.Uint:
			return "uint"
		}
		return u.Name()
	case *types.Pointer:
		if nt, ok := u.Elem().(*types.Named); ok {
			path := ""
			if nt.Obj().Pkg() != nil {
				path = nt.Obj().Pkg().Path()
			}
			switch {
			case path == "time" || path == "sync":
				return "*" + path + "." + nt.Obj().Name()
			case strings.HasSuffix(path, "/breaker") && nt.Obj().Name() == "Breaker":
				return "*breaker.Breaker"
			}
			if _, isStruct := nt.Underlying().(*types.Struct); isStruct {
				return "*discipline"
			}
		}
	case *types.Map:
		if isUint(u.Key()) {
			if isUint(u.Elem()) {
				return "map[uint]uint"
			}
			if _, isStruct := u.Elem().Underlying().(*types.Struct); isStruct {
				return "map[uint]struct"
			}
		}
	case *types.Slice:
		if isUint(u.Elem()) {
			return "[]uint"
		}
		if _, isTP := u.Elem().(*types.TypeParam); isTP {
			return "[]T"
		}
	case *types.Chan:
		e := u.Elem()
		switch {
		case isUint(e):
			return "chan uint"
		case types.Identical(e, types.Universe.Lookup("error").Type()):
			return "chan error"
		}
		if st, isStruct := e.Underlying().(*types.Struct); isStruct {
			if st.NumFields() == 0 {
				return "chan struct{}"
			}
			if nt, isNamed := e.(*types.Named); isNamed && !nt.Obj().Exported() {
				return "chan struct"
			}
		}
		return "chan payload"
	}
	return "other:" + t.String()
}

// resolveCanonFields fills canonFields for the discipline structs of p.
func (p *Prog) resolveCanonFields() {
	var kinds []string
	for k := range fieldVocabulary {
		if strings.HasPrefix(k, p.Name+":") {
			kinds = append(kinds, k)
		}
	}
	sort.Strings(kinds)
	for _, kind := range kinds {
		relName := strings.TrimPrefix(kind, p.Name+":")
		i := strings.LastIndex(relName, ".")
		rel, tname := relName[:i], relName[i+1:]
		pk := p.ByRel[rel]
		if pk == nil {
			continue
		}
		tn, _ := pk.Pkg.Scope().Lookup(tname).(*types.TypeName)
		if tn == nil {
			continue
		}
		named, _ := tn.Type().(*types.Named)
		if named == nil {
			continue
		}
		st, ok := named.Underlying().(*types.Struct)
		if !ok {
			continue
		}
		vocab := map[string]bool{}
		for _, v := range fieldVocabulary[kind] {
			vocab[v] = true
		}
		// the structs whose fields play the roles: the discipline struct and the private structs it
		// nests to group its fields (dsc.timing.passAt, dsc.changes.adds)
		type holder struct {
			named   *types.Named
			st      *types.Struct
			unknown []int
		}
		holders := []*holder{{named: named, st: st}}
		present := map[string]bool{}
		for i := 0; i < st.NumFields(); i++ {
			f := st.Field(i)
			if vocab[f.Name()] {
				present[f.Name()] = true
				continue
			}
			if nn, isNamed := f.Type().(*types.Named); isNamed && !f.Exported() && nn.Obj().Pkg() == pk.Pkg && !nn.Obj().Exported() {
				if nst, isStruct := nn.Underlying().(*types.Struct); isStruct {
					h := &holder{named: nn, st: nst}
					canonMu.Lock()
					canonHolders[canonKey{named.Origin(), i}] = true
					canonMu.Unlock()
					for j := 0; j < nst.NumFields(); j++ {
						if vocab[nst.Field(j).Name()] {
							present[nst.Field(j).Name()] = true
						} else {
							h.unknown = append(h.unknown, j)
						}
					}
					holders = append(holders, h)
					continue
				}
			}
			holders[0].unknown = append(holders[0].unknown, i)
		}
		var missing []string
		for _, v := range fieldVocabulary[kind] {
			if !present[v] {
				missing = append(missing, v)
			}
		}
		if len(missing) == 0 {
			continue
		}
		rolesByClass := map[string][]string{}
		for _, r := range missing {
			c := roleTypeClass(r)
			rolesByClass[c] = append(rolesByClass[c], r)
		}
		for _, h := range holders {
			if len(h.unknown) == 0 {
				continue
			}
			// candidates by type class
			byClass := map[string][]int{}
			for _, i := range h.unknown {
				c := fieldTypeClass(h.st.Field(i).Type())
				byClass[c] = append(byClass[c], i)
			}
			for class, roles := range rolesByClass {
				cands := byClass[class]
				if len(cands) == 0 {
					continue
				}
				assign := map[string]int{}
				if len(roles) == 1 && len(cands) == 1 {
					assign[roles[0]] = cands[0]
				} else {
					assign = p.tieBreak(pk, named, h.named, h.st, class, roles, cands)
				}
				for role, idx := range assign {
					canonMu.Lock()
					canonFields[canonKey{h.named.Origin(), idx}] = role
					canonNotes = append(canonNotes, kind+": field "+h.st.Field(idx).Name()+" plays the role the rules call "+role)
					canonMu.Unlock()
				}
			}
		}
	}
	canonMu.Lock()
	sort.Strings(canonNotes)
	canonMu.Unlock()
}

// pkgFuncs: the source functions and methods of one package (including nested closures).
func pkgFuncs(pk *ssa.Package) []*ssa.Function {
	var out []*ssa.Function
	var add func(f *ssa.Function)
	add = func(f *ssa.Function) {
		if f == nil || f.Blocks == nil {
			return
		}
		out = append(out, f)
		for _, a := range f.AnonFuncs {
			add(a)
		}
	}
	for _, m := range pk.Members {
		switch x := m.(type) {
		case *ssa.Function:
			add(x)
		case *ssa.Type:
			for _, t := range []types.Type{x.Type(), types.NewPointer(x.Type())} {
				ms := pk.Prog.MethodSets.MethodSet(t)
				for i := 0; i < ms.Len(); i++ {
					if f := pk.Prog.MethodValue(ms.At(i)); f != nil && f.Synthetic == "" {
						add(f)
					}
				}
			}
		}
	}
	// generic methods are not in method sets of the uninstantiated type: take them from the objects
	seen := map[*ssa.Function]bool{}
	for _, f := range out {
		seen[f] = true
	}
	for _, m := range pk.Members {
		if x, ok := m.(*ssa.Type); ok {
			if nt, ok := x.Type().(*types.Named); ok {
				for i := 0; i < nt.NumMethods(); i++ {
					if f := pk.Prog.FuncValue(nt.Method(i)); f != nil && !seen[f] {
						seen[f] = true
						add(f)
					}
				}
			}
		}
	}
	return out
}

// fieldOfAddr: the field index when v is &x.f (or a load of it) with x of the named struct.
func fieldIdxOf(v ssa.Value, named *types.Named) (int, bool) {
	if ld, ok := v.(*ssa.UnOp); ok && ld.Op == token.MUL {
		v = ld.X
	}
	fa, ok := v.(*ssa.FieldAddr)
	if !ok {
		return 0, false
	}
	if namedOrigin(fa.X.Type()) != named.Origin() {
		return 0, false
	}
	return fa.Field, true
}

// tieBreak decides same-typed candidates by what the code does with them. It returns an
// assignment only when it is a bijection between roles and candidates.
func (p *Prog) tieBreak(pk *ssa.Package, owner *types.Named, named *types.Named, st *types.Struct, class string, roles []string, cands []int) map[string]int {
	sig := map[int]string{}
	fns := pkgFuncs(pk)
	switch class {
	case "*breaker.Breaker":
		// the breaker that Stop() breaks / the breaker that GracefulStop() breaks
		for _, fn := range fns {
			if fn.Signature.Recv() == nil || namedOrigin(fn.Signature.Recv().Type()) != owner.Origin() {
				continue
			}
			role := map[string]string{"Stop": "breaker", "GracefulStop": "graceful"}[fn.Name()]
			if role == "" {
				continue
			}
			for _, b := range fn.Blocks {
				for _, in := range b.Instrs {
					if call, ok := in.(*ssa.Call); ok && call.Call.StaticCallee() != nil && call.Call.StaticCallee().Name() == "Break" && len(call.Call.Args) >= 1 {
						if idx, ok := fieldIdxOf(call.Call.Args[0], named); ok {
							sig[idx] = role
						}
					}
				}
			}
		}
	case "chan uint":
		// the channel RemoveInput() writes; the other one carries the feedback
		for _, fn := range fns {
			if fn.Signature.Recv() == nil || namedOrigin(fn.Signature.Recv().Type()) != owner.Origin() || fn.Name() != "RemoveInput" {
				continue
			}
			for _, b := range fn.Blocks {
				for _, in := range b.Instrs {
					if fa, ok := in.(*ssa.FieldAddr); ok {
						if idx, ok := fieldIdxOf(fa, named); ok {
							sig[idx] = "inputRmvs"
						}
					}
				}
			}
		}
		for _, c := range cands {
			if sig[c] == "" {
				sig[c] = "feedback"
			}
		}
	case "map[uint]uint":
		// actual: incremented and decremented by one; tactic: only decremented; strategic: neither
		inc, dec := map[int]bool{}, map[int]bool{}
		for _, fn := range fns {
			for _, b := range fn.Blocks {
				for _, in := range b.Instrs {
					mu, ok := in.(*ssa.MapUpdate)
					if !ok {
						continue
					}
					idx, ok := fieldIdxOf(mu.Map, named)
					if !ok {
						continue
					}
					if bo, ok := mu.Value.(*ssa.BinOp); ok {
						if _, isC := bo.Y.(*ssa.Const); isC {
							switch bo.Op {
							case token.ADD:
								inc[idx] = true
							case token.SUB:
								dec[idx] = true
							}
						}
					}
				}
			}
		}
		for _, c := range cands {
			switch {
			case inc[c] && dec[c]:
				sig[c] = "actual"
			case dec[c]:
				sig[c] = "tactic"
			case !inc[c]:
				sig[c] = "strategic"
			}
		}
	case "[]uint":
		// priorities: never truncated to [:0]; uncrowded: refilled only under a comparison of two map
		// lookups (actual against strategic); useful: also refilled under a lookup compared with a constant
		reset, twoLookups, oneLookup := map[int]bool{}, map[int]bool{}, map[int]bool{}
		for _, fn := range fns {
			for _, b := range fn.Blocks {
				for _, in := range b.Instrs {
					store, ok := in.(*ssa.Store)
					if !ok {
						continue
					}
					idx, ok := fieldIdxOf(store.Addr, named)
					if !ok {
						continue
					}
					switch v := store.Val.(type) {
					case *ssa.Slice:
						if c, isC := v.High.(*ssa.Const); isC && c.Value != nil && c.Value.ExactString() == "0" {
							reset[idx] = true
						}
					case *ssa.Call:
						if bi, isB := v.Call.Value.(*ssa.Builtin); isB && bi.Name() == "append" {
							// controlling condition of the appending block
							for d := b; d != nil; d = d.Idom() {
								id := d.Idom()
								if id == nil {
									break
								}
								iff, isIf := id.Instrs[len(id.Instrs)-1].(*ssa.If)
								if !isIf {
									continue
								}
								if bo, isBo := iff.Cond.(*ssa.BinOp); isBo {
									_, lx := bo.X.(*ssa.Lookup)
									_, ly := bo.Y.(*ssa.Lookup)
									if lx && ly {
										twoLookups[idx] = true
									} else if lx || ly {
										oneLookup[idx] = true
									}
								}
								break
							}
						}
					}
				}
			}
		}
		for _, c := range cands {
			switch {
			case !reset[c]:
				sig[c] = "priorities"
			case twoLookups[c] && !oneLookup[c]:
				sig[c] = "uncrowded"
			case oneLookup[c]:
				sig[c] = "useful"
			}
		}
	default:
		return nil
	}
	if os.Getenv("CANON_DEBUG") != "" {
		fmt.Println("tieBreak", named, class, roles, cands, sig, len(fns))
	}
	out := map[string]int{}
	used := map[int]bool{}
	for _, r := range roles {
		n := 0
		for _, c := range cands {
			if sig[c] == r {
				out[r] = c
				n++
			}
		}
		if n != 1 {
			delete(out, r)
			if n > 1 {
				return nil
			}
			continue
		}
		if used[out[r]] {
			return nil
		}
		used[out[r]] = true
	}
	return out
}
