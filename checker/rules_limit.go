package main

import (
	"fmt"
	"go/token"
	"go/types"
	"strings"

	"golang.org/x/tools/go/ssa"
)

func init() {
	register(&Property{
		ID:          "C12",
		Run:         runC12,
		Explanation: "Limit pass-through: Q1 a typestate dataflow shows every element received with ok=true from the input is written to the output exactly once, unchanged, before the next receive, by the single goroutine, and flows nowhere else; Q2 from the closed-input observation every path (boolean results of the inlined calls decide the branches that test them) reaches the return of the goroutine entry, whose unconditional defer closes the output, without another receive, output write or Sleep (Q3); no Sleep is reachable from the batch function (no pause inside a batch, so fewer than Quantity elements pass with no pause); Q4 the sleep amount is Interval minus the time measured from a clock reading taken before the batch.",
		NotDecided:  []string{"'within about ceil(N/Quantity) intervals' as a real-time statement"},
	})
	register(&Property{
		ID:          "C04",
		Run:         runC04,
		Explanation: "Limit rate (necessary structure only): L1 the output is written only from the batch loop, a counted loop from 0 to Limit.Quantity with step 1 that receives at most once and writes exactly once per received element per iteration; L2 in the goroutine's outer loop two batches are always separated by the delay call (typestate dataflow with boolean-result pruning); L3 the delay sleeps Interval - d, d = time.Since(t0) (or Now().Sub(t0)), where t0 = time.Now() is read before the batch starts and d after it ends. With Sleep(x) sleeping at least x, consecutive batch starts are at least Interval apart, which gives both counting bounds for writes into the output channel.",
		NotDecided:  []string{"the numeric bounds themselves (real time)", "bursts seen by a consumer that stalls: the output channel has capacity 1+cap(Input), the statement is read as 'written to the output channel'"},
	})
}

type limitRoles struct {
	p      *Prog
	d      *Disc
	entry  *ssa.Function
	batch  *ssa.Function // contains the batch loop around the input receive
	src    *RecvSite
	anchor ssa.Instruction // in batch: the receive, or the call of the per-element helper that holds it
	outer  *ssa.Function   // contains the unbounded loop calling (transitively) batch and sleep
	sleeps []*ssa.Call
}

// optsUnmodified: the constructor stores the caller's Opts (in particular the Limit) as given.
func optsUnmodified(c *Ctx, lr *limitRoles, rule string) {
	p := lr.p
	foundAny := false
	for _, ctor := range lr.d.Ctors {
		found := false
		for _, b := range ctor.Blocks {
			for _, in := range b.Instrs {
				st, ok := fieldStore(in, "opts")
				if !ok || rootStructOf(st.Addr.(*ssa.FieldAddr)) != lr.d.Named {
					continue
				}
				found, foundAny = true, true
				s := p.upParam(p.Sym(st.Val), 0) // (stored by a private builder the constructor hands them to)
				okPlain := s.Op == "param"
				c.R.Check(okPlain, rule, p.FnKey(ctor)+"#opts", p.InstrPos(in), "options stored as given", "the constructor stores modified options ("+s.String()+"): the discipline then runs at a different rate than the one configured")
			}
		}
		if v := p.virtualOptions(lr.d.Named); !found && v != nil {
			// no options field: the struct caches the single options it needs (see derived.go); what
			// each cache holds is what the other rules see in place of the field
			c.R.Check(v.Op == "param" || spilledParamOf(v) != nil, rule, p.FnKey(ctor)+"#opts", p.Pos(ctor.Pos()), "the needed options are cached as given", "the constructor caches options read from modified options ("+v.String()+"): the discipline then runs at a different rate than the one configured")
			foundAny = true
			continue
		}
	}
	if !foundAny {
		c.R.Fail(rule, p.FnKey(lr.d.Ctors[0])+"#opts", p.Pos(lr.d.Ctors[0].Pos()), "UNDECIDED: the constructor does not store the options")
	}
	// and nobody writes them later
	for _, fn := range p.Funcs() {
		if rel, _ := p.Rel(fn); rel != "limit" {
			continue
		}
		for _, b := range fn.Blocks {
			for _, in := range b.Instrs {
				if st, ok := in.(*ssa.Store); ok {
					if _, nt, path, okp := fieldPathOf(st.Addr); okp && nt != nil && nt.Origin() == lr.d.Named && len(path) > 1 && path[0] == "opts" {
						c.R.Fail(rule, p.FnKey(fn)+"#opts-write", p.InstrPos(in), "the stored options are modified ("+strings.Join(path, ".")+")")
					}
				}
			}
		}
	}
}

func resolveLimit(c *Ctx, rule string) *limitRoles {
	p := c.V2
	d := p.Disc("limit.Discipline")
	if d == nil || len(d.Gos) != 1 {
		c.R.Fail(rule, "v2:limit", "-", "UNRESOLVED-ANCHOR: limit discipline / its goroutine not found")
		return nil
	}
	lr := &limitRoles{p: p, d: d, entry: d.Gos[0].Entry}
	rt := p.Routine(d, d.Gos[0])
	for _, fn := range rt.Funcs {
		c.R.Funcs[p.FnKey(fn)] = true
		for _, rs := range p.RecvSites(fn) {
			if p.chanRole(rs.Chan) == "field:opts.Input" {
				if lr.src != nil {
					c.R.Fail(rule, "v2:limit#recv", rs.Pos(p), "UNDECIDED: more than one receive from the input")
				}
				lr.src, lr.batch = rs, fn
			}
		}
		for _, op := range p.BlockingOps(fn) {
			if op.Kind == "sleep" {
				lr.sleeps = append(lr.sleeps, op.In.(*ssa.Call))
			}
		}
	}
	if lr.src == nil {
		c.R.Fail(rule, "v2:limit#recv", "-", "UNRESOLVED-ANCHOR: no receive from Opts.Input in the limit goroutine")
		return nil
	}
	// nothing else reads the input: an element taken from it outside the rate-keeping loop (by the
	// constructor, by an API method) leaves without being counted in any batch
	inRoutine := map[*ssa.Function]bool{}
	for _, fn := range rt.Funcs {
		inRoutine[fn] = true
	}
	for _, fn := range p.Funcs() {
		if rel, _ := p.Rel(fn); rel != "limit" || inRoutine[fn] {
			continue
		}
		for _, rs := range p.RecvSites(fn) {
			if p.chanRole(rs.Chan) == "field:opts.Input" || strings.HasSuffix(p.chanRole(rs.Chan), "opts.Input") || strings.HasSuffix(p.chanRole(rs.Chan), ".Input") {
				c.R.Fail(rule, p.FnKey(fn)+"#recv-outside", rs.Pos(p), "the input is also read outside the discipline's goroutine ("+shortFn(p, fn)+"): elements taken there are not counted in any batch and leave without the pause that keeps the rate (more than Quantity in one Interval)")
			}
		}
	}
	// the body of the batch loop may sit in a per-element helper (for range Quantity { if stop :=
	// dsc.relay(input); stop { ... } }): the batch function is the one that holds the loop
	lr.anchor = lr.src.In
	inRt := map[*ssa.Function]bool{}
	for _, fn := range rt.Funcs {
		inRt[fn] = true
	}
	for depth := 0; depth < 3 && !blockInLoop(lr.anchor.Block()); depth++ {
		var site ssa.CallInstruction
		n := 0
		for _, cs := range p.CallSites(lr.batch) {
			if _, isGo := cs.(*ssa.Go); !isGo && inRt[p.Norm(cs.Parent())] {
				site = cs
				n++
			}
		}
		if n != 1 {
			break
		}
		lr.anchor, lr.batch = site, p.Norm(site.Parent())
	}
	if !blockInLoop(lr.anchor.Block()) {
		lr.anchor, lr.batch = lr.src.In, p.Norm(lr.src.In.Parent())
	}
	// outer loop function: a function in the routine with an unbounded cycle from which batch is reachable
	for _, fn := range rt.Funcs {
		if fn == lr.batch {
			continue
		}
		if !p.Reach(fn)[lr.batch] {
			continue
		}
		for _, comp := range sccs(fn.Blocks, blockSet(fn.Blocks)) {
			set := blockSet(comp)
			bounded := false
			for _, b := range comp {
				if boundedHeader(b, set) {
					bounded = true
				}
			}
			if !bounded {
				lr.outer = fn
			}
		}
	}
	if lr.outer == nil {
		c.R.Fail(rule, "v2:limit#outer", "-", "UNRESOLVED-ANCHOR: no outer batch loop found")
		return nil
	}
	return lr
}

func isOutputSend(p *Prog, in ssa.Instruction) (bool, ssa.Value) {
	if s, ok := in.(*ssa.Send); ok && p.chanRole(s.Chan) == "field:output" {
		return true, s.X
	}
	return false, nil
}

func runC12(c *Ctx) {
	r := c.R
	r.Doc("Q1", "every received element is written to the output exactly once, unchanged, before the next receive; flows nowhere else; single goroutine", 3)
	r.Doc("Q2", "after the input is observed closed: no further receive, no output write, and the goroutine entry returns (its defer closes the output)", 2)
	r.Doc("Q3", "no Sleep after the closed-input observation and none reachable from the batch function", 2)
	r.Doc("Q4", "sleep amount is Interval - elapsed, elapsed measured from a clock reading taken before the batch", 1)
	r.Doc("Q6", "(= L1 loop) the batch loop runs Limit.Quantity iterations as configured (an empty batch reads nothing, forever)", 1)
	lr := resolveLimit(c, "Q1")
	if lr == nil {
		return
	}
	p := lr.p
	limitBatchLoop(c, lr, "Q6")
	r.Doc("Q9", "the constructor refuses a configuration only on a missing / out-of-range test", 1)
	checkCtorRefusals(c, p, lr.d, "Q9")
	r.Doc("Q8", "error tests of the constructor are not inverted (valid options give a running discipline)", 2)
	var q8 []*ssa.Function
	for _, fn := range p.errorFuncs("limit") {
		if !strings.HasSuffix(p.Pos(fn.Pos()), "rate.go") && !strings.Contains(p.Pos(fn.Pos()), "rate.go:") {
			q8 = append(q8, fn)
		}
	}
	checkErrorTests(c, p, "Q8", q8)
	// Q7: one goroutine and one output channel per discipline, both created by the constructor. A
	// goroutine or channel created later, from an API method, is created once per racing caller:
	// consumers then hold different channels, some never written and never closed
	r.Doc("Q7", "the goroutine is started, and the output channel made, by the constructor only", 2)
	for _, e := range lr.d.Gos {
		inCtor := false
		for _, ct := range lr.d.Ctors {
			if e.Stmt != nil && e.Stmt.Parent() == ct {
				inCtor = true
			}
		}
		where := "-"
		if e.Stmt != nil {
			where = p.InstrPos(e.Stmt)
		}
		r.Check(inCtor && !e.Multi, "Q7", p.FnKey(e.Entry)+"#go", where, "started once, by the constructor", "the discipline's goroutine is not started (once) by the constructor: concurrent first calls start several goroutines over several output channels; elements are reordered, and a consumer can hold a channel that is never written nor closed")
	}
	{
		n := 0
		okAll := true
		for _, fn := range p.Funcs() {
			if rel, _ := p.Rel(fn); rel != "limit" {
				continue
			}
			for _, b := range fn.Blocks {
				for _, in := range b.Instrs {
					if st, ok := fieldStore(in, "output"); ok && rootStructOf(st.Addr.(*ssa.FieldAddr)) == lr.d.Named {
						n++
						isCtor := false
						for _, ct := range lr.d.Ctors {
							if fn == ct {
								isCtor = true
							}
						}
						if !isCtor {
							okAll = false
						}
					}
				}
			}
		}
		r.Check(okAll && n > 0, "Q7", p.FnKey(lr.d.Ctors[0])+"#output", p.Pos(lr.d.Ctors[0].Pos()), "output channel made by the constructor", "the output channel is (also) made outside the constructor: different callers can be given different channels")
	}
	// Q1 item flow
	cfg := &ItemFlowConfig{
		P:        p,
		IsSource: func(rs *RecvSite) bool { return p.chanRole(rs.Chan) == "field:opts.Input" },
		SinkInstr: func(fr *Frame, in ssa.Instruction) (bool, ssa.Value) {
			return isOutputSend(p, in)
		},
	}
	res := RunItemFlow(cfg, lr.batch)
	r.Check(len(res.Problems) == 0, "Q1", p.FnKey(lr.batch)+"#flow", p.Pos(lr.batch.Pos()), fmt.Sprintf("%d receive site, %d send site", res.Sources, len(res.Sinks)), strings.Join(res.Problems, "; "))
	if lr.src.Val != nil {
		esc := p.valueEscapes(lr.src.Val, func(user ssa.Instruction, v ssa.Value) bool {
			ok, x := isOutputSend(p, user)
			return ok && x == v
		})
		r.Check(len(esc) == 0, "Q1", p.FnKey(lr.batch)+"#escape", lr.src.Pos(p), "element flows only to the output", "received element is also "+strings.Join(esc, "; "))
	}
	// every output send in the package is one of the reached sinks, in the goroutine only
	ci := p.Contexts()
	n := 0
	for _, fn := range p.Funcs() {
		if rel, _ := p.Rel(fn); rel != "limit" {
			continue
		}
		for _, ss := range p.SendSites(fn) {
			if p.chanRole(ss.Chan) != "field:output" {
				continue
			}
			n++
			ctxs := ci.Of(ss.In)
			ok := len(ctxs) == 1 && ctxs[0] == "G:"+p.FnKey(lr.entry) && res.Sinks[ss.In]
			r.Check(ok, "Q1", fmt.Sprintf("%s#send.%d", p.FnKey(fn), n), p.InstrPos(ss.In), "goroutine only, fed by the input receive", "output is written outside the single goroutine or with a value not just received from the input")
		}
	}
	if lr.src.Ok == nil {
		r.Fail("Q2", p.FnKey(lr.entry), lr.src.Pos(p), "input receive does not observe the closed state: after close it yields zero values forever")
		return
	}
	// Q2/Q3 closed-path flow from the entry
	var bad2, bad3 []string
	fl := &Flow{P: p, TrackBoolReturns: true, ContextInsensitive: true}
	fl.Instr = func(fr *Frame, st string, in ssa.Instruction) []string {
		if in == lr.src.In {
			if st == "closed" {
				bad2 = append(bad2, "input is received from again at "+p.InstrPos(in)+" after it was observed closed")
			}
			return []string{"got"}
		}
		if st == "closed" {
			if ok, _ := isOutputSend(p, in); ok {
				bad2 = append(bad2, "output is written at "+p.InstrPos(in)+" after the input was observed closed")
			}
			if call, ok := in.(*ssa.Call); ok {
				if cal := p.Callee(call); cal != nil && p.funcDisplay(cal) == "time.Sleep" {
					bad3 = append(bad3, "Sleep at "+p.InstrPos(in)+" is reachable after the input was observed closed: closing is delayed by up to an Interval")
				}
			}
		}
		return nil
	}
	fl.Edge = func(fr *Frame, st string, from *ssa.BasicBlock, succ int) []string {
		if st == "got" {
			if iff, ok := from.Instrs[len(from.Instrs)-1].(*ssa.If); ok {
				base, neg := condOf(iff.Cond)
				if base == lr.src.Ok {
					if (succ == 0) != neg {
						return []string{"open"}
					}
					return []string{"closed"}
				}
			}
		}
		return nil
	}
	exits := fl.Run(lr.entry, []string{"open"})
	closedExit := false
	for _, e := range exits {
		if e == "closed" {
			closedExit = true
		} else {
			bad2 = append(bad2, "goroutine entry can return in state "+e+" (without having observed the input closed): output closed early")
		}
	}
	if !closedExit {
		bad2 = append(bad2, "no path from the closed-input observation to the return of the goroutine entry")
	}
	r.Check(len(bad2) == 0, "Q2", p.FnKey(lr.entry), p.Pos(lr.entry.Pos()), "closed => straight to the entry's return", strings.Join(dedup(bad2), "; "))
	// close(output) deferred unconditionally in entry
	order, okd := p.CleanupOrder(lr.entry)
	closes := false
	for _, df := range order {
		if k, a := p.deferKind(df); k == "close" && a == "field:output" {
			closes = true
		}
	}
	r.Check(okd && closes, "Q2", p.FnKey(lr.entry)+"#close", p.Pos(lr.entry.Pos()), "defer close(output) in the entry", "the goroutine entry does not close the output in an unconditional defer")
	r.Check(len(bad3) == 0, "Q3", p.FnKey(lr.entry)+"#closed-path", p.Pos(lr.entry.Pos()), "no Sleep on the closing path", strings.Join(dedup(bad3), "; "))
	var inBatch []string
	for g := range p.Reach(lr.batch) {
		for _, op := range p.BlockingOps(g) {
			if op.Kind == "sleep" {
				inBatch = append(inBatch, "Sleep at "+p.InstrPos(op.In)+" inside the batch: elements are throttled below the configured rate")
			}
		}
	}
	r.Check(len(inBatch) == 0, "Q3", p.FnKey(lr.batch)+"#no-sleep-in-batch", p.Pos(lr.batch.Pos()), "no Sleep reachable from the batch function", strings.Join(inBatch, "; "))
	limitSleepShape(c, lr, "Q4", true)
	r.Doc("Q5", "the rate in force is the configured one: the constructor stores the options unmodified", 1)
	optsUnmodified(c, lr, "Q5")
}

// resultSyms: the symbolic values a product function may return as result idx.
func (p *Prog) resultSyms(fn *ssa.Function, idx int) []*Sym {
	var out []*Sym
	for _, b := range fn.Blocks {
		if b.Comment == "recover" {
			continue
		}
		if ret, ok := b.Instrs[len(b.Instrs)-1].(*ssa.Return); ok {
			vals := returnedValues(ret)
			if idx < len(vals) {
				out = append(out, p.Sym(vals[idx]))
			}
		}
	}
	return out
}

// limitSleepShape decides L3/Q4.
func limitSleepShape(c *Ctx, lr *limitRoles, rule string, strict bool) {
	r, p := c.R, lr.p
	if len(lr.sleeps) != 1 {
		r.Fail(rule, "v2:limit#sleep", "-", fmt.Sprintf("UNDECIDED: expected exactly one Sleep in the limit goroutine, found %d", len(lr.sleeps)))
		return
	}
	sl := lr.sleeps[0]
	key := p.FnKey(sl.Parent()) + "#sleep"
	arg := p.SymX(sl.Call.Args[0]).StripConv() // (the amount may be computed by an expression helper)
	var problems []string
	// resolve a parameter through its (single) call site
	resolve := func(s *Sym) []*Sym {
		s = s.StripConv()
		if par, ok := s.V.(*ssa.Parameter); ok && s.Op == "param" {
			var out []*Sym
			for _, sa := range p.CallSitesX(par.Parent()) {
				if paramIndex(par.Parent(), par) >= len(sa.Args) {
					continue
				}
				// (a variable assigned from the batch call on every path - duration, stop :=
				// transfer(); for !stop { delay(duration); duration, stop = transfer() } - stands
				// for each of the values that reach it)
				vals := []ssa.Value{sa.Args[paramIndex(par.Parent(), par)]}
				if ph, isPhi := stripChangeType(vals[0]).(*ssa.Phi); isPhi {
					vals = ph.Edges
				}
				for _, av := range vals {
					a := p.Sym(av).StripConv()
					if a.Op == "extract" && a.Args[0].Op == "call" {
						if call, ok := a.Args[0].V.(*ssa.Call); ok {
							if cal := p.Callee(call); cal != nil && p.IsProduct(cal) {
								var idx int
								fmt.Sscanf(a.Name, "%d", &idx)
								out = append(out, p.resultSyms(cal, idx)...)
								// a duration of 0 is reported only together with "stop" (that batch is
								// never slept on): `return 0, dsc.pass()` hands an unmeasured batch to
								// the pause, which then lasts a whole Interval on top of the batch
								for _, rb := range cal.Blocks {
									ret, isRet := rb.Instrs[len(rb.Instrs)-1].(*ssa.Return)
									if !isRet || rb == cal.Recover {
										continue
									}
									vals := returnedValues(ret)
									if len(vals) != 2 || idx >= len(vals) {
										continue
									}
									if k, isK := constDuration(vals[idx]); !isK || k != 0 {
										continue
									}
									other := vals[1-idx]
									if bt, isB := other.Type().Underlying().(*types.Basic); !isB || bt.Kind() != types.Bool {
										continue
									}
									if cv, isC := other.(*ssa.Const); !isC || constString(cv) != "true" {
										problems = append(problems, "a batch duration of 0 is returned at "+p.InstrPos(ret)+" without the stop flag being true: an unmeasured batch is followed by a full Interval of pause (the limiter runs slower than configured, elements wait although the quota is unused)")
									}
								}
								continue
							}
						}
					}
					out = append(out, a)
				}
			}
			return out
		}
		// the value of a product call used in place: what the callee can return
		if s.Op == "extract" && len(s.Args) == 1 && s.Args[0].Op == "call" {
			if call, ok := s.Args[0].V.(*ssa.Call); ok {
				if cal := p.Callee(call); cal != nil && p.IsProduct(cal) {
					var idx int
					fmt.Sscanf(s.Name, "%d", &idx)
					if rs := p.resultSyms(cal, idx); len(rs) > 0 {
						return rs
					}
				}
			}
		}
		return []*Sym{s}
	}
	isInterval := func(s *Sym) bool {
		// the Interval may reach the sleeping function as an argument
		rs := resolve(s)
		for _, x := range rs {
			_, path, ok := x.StripConv().FieldPath()
			if !ok || strings.Join(path, ".") != "opts.Limit.Interval" {
				return false
			}
		}
		return len(rs) > 0
	}
	// elapsed forms: time.Since(t0) | time.Now().Sub(t0)  with t0 = time.Now() value
	elapsedT0 := func(s *Sym) (ssa.Value, ssa.Value, bool) {
		s = s.StripConv()
		if s.Op == "call" && s.Name == "time.Since" && len(s.Args) == 1 && s.Args[0].Op == "call" && s.Args[0].Name == "time.Now" {
			return s.Args[0].V, s.V, true
		}
		if s.Op == "call" && s.Name == "(time.Time).Sub" && len(s.Args) == 2 && s.Args[0].Op == "call" && s.Args[0].Name == "time.Now" && s.Args[1].Op == "call" && s.Args[1].Name == "time.Now" {
			return s.Args[1].V, s.Args[0].V, true
		}
		return nil, nil, false
	}
	checkT0 := func(t0, tEnd ssa.Value) {
		// t0 must be read before the batch starts and elapsed after it ended, in the same function
		t0i, ok1 := t0.(ssa.Instruction)
		tei, ok2 := tEnd.(ssa.Instruction)
		if !ok1 || !ok2 {
			problems = append(problems, "UNDECIDED: clock readings are not instructions")
			return
		}
		fn := t0i.Parent()
		var batchCall ssa.Instruction
		for _, b := range fn.Blocks {
			for _, in := range b.Instrs {
				if call, ok := in.(*ssa.Call); ok {
					if cal := p.CalleeX(call); cal != nil && (cal == lr.batch || p.Reach(cal)[lr.batch]) {
						batchCall = in
					}
				}
			}
		}
		if fn == lr.batch {
			// readings inside the batch function: t0 must dominate the loop, tEnd must follow it
			if !t0i.Block().Dominates(lr.anchor.Block()) || blockInLoop(t0i.Block()) {
				problems = append(problems, "start time is read at "+p.InstrPos(t0i)+" which is not before the first receive of the batch")
			}
			return
		}
		if batchCall == nil {
			problems = append(problems, "clock readings at "+p.InstrPos(t0i)+" are not in a function that runs the batch")
			return
		}
		if strict && !instrDominates(t0i, batchCall) {
			problems = append(problems, "start time is read at "+p.InstrPos(t0i)+" after the batch began: the batch duration is not subtracted and every pause is longer than the rate requires")
		}
		if strict && !instrDominates(batchCall, tei) {
			problems = append(problems, "elapsed time is read at "+p.InstrPos(tei)+" before the batch ended")
		}
		if !strict {
			// the start time must be read once per batch: the reading function must not contain the outer loop
			perBatch := fn != lr.outer && !p.Reach(fn)[lr.outer]
			if fn == lr.outer && blockInLoop(t0i.Block()) {
				perBatch = true // read inside the batch loop of the outer function: once per batch
			}
			if !perBatch {
				problems = append(problems, "start time is read at "+p.InstrPos(t0i)+" outside the per-batch code: elapsed time accumulates over batches and the pause shrinks below Interval - batch duration")
			}
		}
		if tei.Parent() != fn {
			problems = append(problems, "UNDECIDED: elapsed time computed in another function")
		}
	}
	switch {
	case !strict && isInterval(arg):
		// sleeping the whole Interval keeps batch starts at least Interval apart
	case arg.Op == "bin" && arg.Name == "-" && isInterval(arg.Args[0]):
		ds := resolve(arg.Args[1])
		if len(ds) == 0 {
			problems = append(problems, "UNDECIDED: cannot resolve the subtracted duration "+arg.Args[1].String())
		}
		nElapsed := 0
		if !strict {
			// Interval - (x % Interval) sleeps at least Interval - x: look through the modulo (C04 only)
			var un []*Sym
			for _, d := range ds {
				dd := d.StripConv()
				if dd.Op == "bin" && dd.Name == "%" && isInterval(dd.Args[1]) {
					un = append(un, resolve(dd.Args[0])...)
				} else {
					un = append(un, d)
				}
			}
			ds = un
		}
		for _, d := range ds {
			if k, ok := symConstInt(d); ok && k == 0 {
				continue // the stop path returns 0 (never slept on, see Q3/L2)
			}
			t0, te, ok := elapsedT0(d)
			if !ok {
				problems = append(problems, "the subtracted duration "+d.String()+" is not time.Since(t0) / time.Now().Sub(t0)")
				continue
			}
			nElapsed++
			checkT0(t0, te)
		}
		if nElapsed == 0 && len(problems) == 0 {
			problems = append(problems, "nothing measured is subtracted from Interval")
		}
	case arg.Op == "call" && arg.Name == "time.Until" && len(arg.Args) == 1:
		a := arg.Args[0]
		if a.Op == "call" && a.Name == "(time.Time).Add" && len(a.Args) == 2 && isInterval(a.Args[1]) {
			// t0 may be a parameter
			for _, t := range resolve(a.Args[0]) {
				if t.Op == "call" && t.Name == "time.Now" {
					checkT0(t.V, sl)
				} else {
					problems = append(problems, "UNDECIDED: start time "+t.String())
				}
			}
		} else {
			problems = append(problems, "sleep amount "+arg.String()+" is not time.Until(t0.Add(Interval))")
		}
	default:
		problems = append(problems, "sleep amount "+arg.String()+" is not Interval - elapsed (accepted forms: Interval - time.Since(t0), Interval - time.Now().Sub(t0), time.Until(t0.Add(Interval)))")
	}
	r.Check(len(problems) == 0, rule, key, p.InstrPos(sl), "Sleep("+arg.String()+") with elapsed measured around the batch", strings.Join(dedup(problems), "; "))
}

func runC04(c *Ctx) {
	r := c.R
	r.Doc("L1", "batch loop: counted 0..Limit.Quantity step 1; one receive and one output write per iteration; output written nowhere else", 3)
	r.Doc("L2", "two batches are always separated by the delay (typestate over the outer loop)", 1)
	r.Doc("L3", "sleep amount = Interval - elapsed, clock read before the batch and after it", 1)
	r.Doc("L4", "the output buffer is no larger than 1+cap(Input): a stalled consumer cannot collect a burst beyond what the input buffer already allows", 1)
	r.Doc("L6", "(= C13 V0, V7) a rate re-expressed by Recalculate/Optimize/Flatten is the recognised floor: never faster than the rate it was made from", 2)
	lr := resolveLimit(c, "L1")
	if lr == nil {
		return
	}
	p := lr.p
	limitBatchLoop(c, lr, "L1")
	// L7 (= Q7 #go): one transfer loop per discipline: a goroutine started from an API method
	// (lazily, per call of Output()) runs N loops over the same channels: N * Quantity per Interval
	r.Doc("L7", "(= C12 Q7) the discipline's goroutine is started once, by the constructor", 1)
	for _, e := range lr.d.Gos {
		inCtor := false
		for _, ct := range lr.d.Ctors {
			if e.Stmt != nil && e.Stmt.Parent() == ct {
				inCtor = true
			}
		}
		where := "-"
		if e.Stmt != nil {
			where = p.InstrPos(e.Stmt)
		}
		r.Check(inCtor && !e.Multi, "L7", p.FnKey(e.Entry)+"#go", where, "started once, by the constructor", "the discipline's goroutine is not started (once) by the constructor: every further start runs another transfer loop over the same input and output, each passing Quantity elements per Interval")
	}
	// L6: the limit the discipline is given is often the output of Optimize(); a conversion that
	// rounds up hands the discipline a faster rate than the one the user specified
	{
		sub := &Ctx{V1: c.V1, V2: c.V2, Tier: c.Tier, R: NewReport("tmp", c.Tier)}
		runC13(sub)
		for _, o := range sub.R.Obls {
			if o.Rule == "V7" || (o.Rule == "V0" && !o.OK) {
				r.Check(o.OK, "L6", o.Key, o.Site, o.Detail, o.Detail)
			}
		}
	}
	fn := lr.batch
	// one write per received element (reuse item flow) and no other writer
	cfg := &ItemFlowConfig{
		P:         p,
		IsSource:  func(rs *RecvSite) bool { return p.chanRole(rs.Chan) == "field:opts.Input" },
		SinkInstr: func(fr *Frame, in ssa.Instruction) (bool, ssa.Value) { return isOutputSend(p, in) },
	}
	res := RunItemFlow(cfg, lr.batch)
	r.Check(len(res.Problems) == 0, "L1", p.FnKey(fn)+"#one-write-per-element", p.Pos(fn.Pos()), "exactly one output write per received element", strings.Join(res.Problems, "; "))
	n := 0
	for _, g := range p.Funcs() {
		if rel, _ := p.Rel(g); rel != "limit" {
			continue
		}
		for _, ss := range p.SendSites(g) {
			if p.chanRole(ss.Chan) != "field:output" {
				continue
			}
			n++
			r.Check(res.Sinks[ss.In], "L1", fmt.Sprintf("%s#send.%d", p.FnKey(g), n), p.InstrPos(ss.In), "written from the batch loop only", "output write outside the counted batch loop")
		}
	}
	// L2: typestate over the entry
	var bad []string
	fl := &Flow{P: p, TrackBoolReturns: true, ContextInsensitive: true}
	fl.Call = func(fr *Frame, st string, call ssa.CallInstruction, deferred bool) (bool, []string) {
		if p.Callee(call) == lr.batch {
			if st == "batched" {
				bad = append(bad, "a batch starts at "+p.InstrPos(call)+" although the previous batch was not followed by the delay ["+fr.Chain(p)+"]")
			}
		}
		return false, nil
	}
	fl.AfterCall = func(fr *Frame, st string, call ssa.CallInstruction, callee *ssa.Function) []string {
		if callee == lr.batch {
			return []string{"batched"}
		}
		return nil
	}
	fl.Instr = func(fr *Frame, st string, in ssa.Instruction) []string {
		if call, ok := in.(*ssa.Call); ok {
			if cal := p.Callee(call); cal != nil && p.funcDisplay(cal) == "time.Sleep" {
				return []string{"fresh"}
			}
		}
		return nil
	}
	fl.Run(lr.entry, []string{"fresh"})
	r.Check(len(bad) == 0, "L2", p.FnKey(lr.outer), p.Pos(lr.outer.Pos()), "batch -> delay -> batch on every path", strings.Join(dedup(bad), "; "))
	limitSleepShape(c, lr, "L3", false)
	// L4: capacity of the output channel
	okCap := false
	what := "output channel not made in the constructor"
	for _, ctor := range lr.d.Ctors {
		for _, b := range ctor.Blocks {
			for _, in := range b.Instrs {
				st, ok := fieldStore(in, "output")
				if !ok {
					continue
				}
				// (the make may sit in a pure private constructor of a named channel type: newSink(1 + cap(opts.Input)))
				xs := p.SymX(st.Val)
				if xs.Op != "make" || !strings.HasPrefix(xs.Name, "chan#") || len(xs.Args) != 1 {
					what = "output is not a freshly made channel"
					continue
				}
				sz := deepStrip(xs.Args[0])
				what = "capacity " + sz.String()
				isCapInput := func(x *Sym) bool {
					if x.Op == "call" && x.Name == "cap" && len(x.Args) == 1 {
						_, path, okp := x.Args[0].FieldPath()
						return okp && path[len(path)-1] == "Input"
					}
					return false
				}
				if k, isK := symConstInt(sz); isK && k <= 1 {
					okCap = true
				}
				if isCapInput(sz) {
					okCap = true
				}
				if sz.Op == "bin" && sz.Name == "+" {
					a, bb := sz.Args[0], sz.Args[1]
					if k, isK := symConstInt(a); isK && k <= 1 && isCapInput(bb) {
						okCap = true
					}
					if k, isK := symConstInt(bb); isK && k <= 1 && isCapInput(a) {
						okCap = true
					}
				}
			}
		}
	}
	r.Doc("L5", "the rate in force is the configured one: the constructor stores the options unmodified", 1)
	optsUnmodified(c, lr, "L5")
	r.Check(okCap, "L4", p.FnKey(lr.d.Ctors[0])+"#output-capacity", p.Pos(lr.d.Ctors[0].Pos()), what, "the output channel is made with "+what+", more than 1+cap(Input): while the consumer stalls the discipline keeps filling it at the limited rate and the consumer then receives the whole backlog at once, far above Quantity*(floor(W/Interval)+2) per window")
}

func phiCountsFromZeroByOne(ph *ssa.Phi, loop map[*ssa.BasicBlock]bool) bool {
	for i, e := range ph.Edges {
		pred := ph.Block().Preds[i]
		if loop[pred] {
			bo, ok := e.(*ssa.BinOp)
			if !ok || bo.Op != token.ADD || bo.X != ssa.Value(ph) {
				return false
			}
			if k, ok := constDuration(bo.Y); !ok || k != 1 {
				return false
			}
		} else {
			if k, ok := constDuration(e); !ok || k != 0 {
				return false
			}
		}
	}
	_ = types.Typ
	return true
}

// limitBatchLoop (C04/L1, C12/Q6): the receive sits in exactly one loop, a counted loop from 0 by 1
// bounded by Limit.Quantity as configured (a narrowed or converted bound can make the batch empty:
// nothing is ever read again and the output is never closed).
func limitBatchLoop(c *Ctx, lr *limitRoles, rule string) {
	p := lr.p
	// L1: the receive sits in exactly one loop, a counted loop with bound Limit.Quantity
	fn := lr.batch
	var problems []string
	comps := sccs(fn.Blocks, blockSet(fn.Blocks))
	var loop map[*ssa.BasicBlock]bool
	for _, comp := range comps {
		set := blockSet(comp)
		if set[lr.anchor.Block()] {
			if loop != nil {
				problems = append(problems, "UNDECIDED: receive is in more than one loop")
			}
			loop = set
		}
	}
	if loop == nil {
		problems = append(problems, "the input receive is not inside a loop of "+shortFn(p, fn))
	} else {
		// inner cycles around the receive (a nested loop) would allow several receives per counted iteration
		ok := false
		for b := range loop {
			if !boundedHeader(b, loop) {
				continue
			}
			iff := b.Instrs[len(b.Instrs)-1].(*ssa.If)
			cmp := p.NormCmp(iff.Cond, loop[b.Succs[0]])
			if cmp == nil {
				continue
			}
			// continue-condition: a test before the body `iter < Quantity`, or a test after the body
			// `iter+1 < Quantity` (the rotated form the compiler front end gives `for range n`),
			// iter counted from 0 by 1
			bound := p.upParam(cmp.R.StripConv(), 0) // (the bound may be handed to a helper)
			_, path, okp := bound.StripConv().FieldPath()
			if !losslessConv(bound) {
				okp = false // int(Quantity) is negative for Quantity > MaxInt64: the batch would be empty
			}
			if base, _ := condOf(iff.Cond); base != nil {
				// (NormCmp strips conversions: look at the operands as written)
				if bo, isB := base.(*ssa.BinOp); isB && (!losslessConv(p.Sym(bo.X)) || !losslessConv(p.Sym(bo.Y))) {
					okp = false
				}
			}
			wantLC := int64(1)
			if b.Dominates(lr.anchor.Block()) {
				wantLC = 0
			}
			if cmp.Op == token.LSS && okp && strings.Join(path, ".") == "opts.Limit.Quantity" && cmp.RC == 0 {
				if ph, isPhi := cmp.L.V.(*ssa.Phi); isPhi && phiCountsFromZeroByOne(ph, loop) && cmp.LC == wantLC {
					ok = true
				}
			}
			if !ok {
				problems = append(problems, "batch loop continues while "+cmp.String()+" (expected: iterations counted from 0 by 1 while < Limit.Quantity)")
			}
			// removing the header must leave no cycle through the receive
			rest := map[*ssa.BasicBlock]bool{}
			var restList []*ssa.BasicBlock
			for x := range loop {
				if x != b {
					rest[x] = true
					restList = append(restList, x)
				}
			}
			for _, sub := range sccs(restList, rest) {
				if blockSet(sub)[lr.anchor.Block()] {
					problems = append(problems, "the receive sits in an inner loop: several elements can pass per counted iteration")
				}
			}
		}
		if !ok && len(problems) == 0 {
			problems = append(problems, "batch loop is not a counted loop bounded by Limit.Quantity")
		}
		// the batch cannot be skipped: no return of the batch function is reachable without entering
		// the loop (a rotated loop is entered through its pre-test 0 < Quantity, which is part of it)
		isQuantityTest := func(e CondEdge) bool {
			iff, isIf := e.From.Instrs[len(e.From.Instrs)-1].(*ssa.If)
			if !isIf {
				return false
			}
			cm := p.NormCmp(iff.Cond, e.Succ == 0)
			if cm == nil {
				return false
			}
			for _, side := range []*Sym{cm.L, cm.R} {
				if _, path, okp := deepStrip(p.upParam(deepStrip(side), 0)).FieldPath(); okp && strings.Join(path, ".") == "opts.Limit.Quantity" {
					return true
				}
			}
			return false
		}
		for _, ret := range returnsBypassingExcept(fn, loop, isQuantityTest) {
			problems = append(problems, "the batch is skipped altogether on the path to "+p.InstrPos(ret)+": an interval passes in which nothing is read although elements may arrive at any moment")
		}
		// loop entry: the pre-test 0 < Quantity or direct entry
	}
	c.R.Check(len(problems) == 0, rule, p.FnKey(fn)+"#loop", p.Pos(fn.Pos()), "counted loop 0..Limit.Quantity around the single receive", strings.Join(dedup(problems), "; "))
}

// losslessConv: every integer conversion at the top of s keeps the value (same signedness, no
// narrowing); conversions whose operand is unknown are taken to lose.
func losslessConv(s *Sym) bool {
	for s != nil && s.Op == "conv" {
		if len(s.Args) != 1 || s.V == nil || s.Args[0] == nil || s.Args[0].V == nil {
			return false
		}
		to, ok1 := s.V.Type().Underlying().(*types.Basic)
		from, ok2 := s.Args[0].V.Type().Underlying().(*types.Basic)
		if !ok1 || !ok2 || to.Info()&types.IsInteger == 0 || from.Info()&types.IsInteger == 0 {
			return false
		}
		if (to.Info()&types.IsUnsigned != 0) != (from.Info()&types.IsUnsigned != 0) {
			return false
		}
		size := func(b *types.Basic) int {
			switch b.Kind() {
			case types.Int8, types.Uint8:
				return 8
			case types.Int16, types.Uint16:
				return 16
			case types.Int32, types.Uint32:
				return 32
			case types.Int, types.Uint, types.Uintptr:
				return 32 // the smallest it can be
			case types.Int64, types.Uint64:
				return 64
			}
			return 0
		}
		sf, st := size(from), size(to)
		if from.Kind() == types.Int || from.Kind() == types.Uint {
			sf = 64 // the largest it can be
		}
		if st < sf {
			return false
		}
		s = s.Args[0]
	}
	return true
}
