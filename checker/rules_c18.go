package main

import (
	"fmt"
	"go/token"
	"go/types"
	"strings"

	"golang.org/x/tools/go/ssa"
)

func init() {
	register(&Property{
		ID:          "C18",
		Run:         runC18,
		Explanation: "Handler-quantity helpers (both versions, structure): U1 every exported helper builds its combinations from a copy of the priorities that went through the descending sort, and hands exactly those combinations to the predicate; U2 the predicates visit every combination (range loop, false only under a failed test, true only after the loop) and give the divider the combination being visited, the quantity and a fresh distribution; U3 the zero-share test quantifies over the members of the combination (for-all over the slice, looked up in the distribution the divider just filled); U4 the suitable-predicate performs that same test before the tolerance test (suitable => non-fatal) and the limit parameter is used only as `diff > limit => false` (monotone in the limit); U5 PickUpMin* iterates 1..max upward inclusively, PickUpMax* max..1 downward, each returns the loop variable under the predicate and 0 after the loop; U6 (= C15/D8) the v2 constructor applies the same zero-share test to the full sorted set.",
		NotDecided:  []string{"that the combination generator enumerates all 2^n-1 order-preserving subsets (combinatorial induction)", "the floating-point tolerance arithmetic"},
	})
}

func isSliceOfSlices(t types.Type) bool {
	s, ok := t.Underlying().(*types.Slice)
	if !ok {
		return false
	}
	_, ok = s.Elem().Underlying().(*types.Slice)
	return ok
}

func runC18(c *Ctx) {
	r := c.R
	r.Doc("U1", "exported helpers: combinations generated from the sorted copy and handed to the predicate", 12)
	r.Doc("U2", "predicates: full range loop; divider(combination, quantity, fresh map)", 4)
	r.Doc("U3", "zero-share test quantifies over the combination's members", 4)
	r.Doc("U4", "suitable => non-fatal (same test first); limit only in diff > limit => false", 2)
	r.Doc("U5", "PickUpMin: 1..max upward; PickUpMax: max..1 downward; loop variable under the predicate, 0 after", 8)
	r.Doc("U6", "(= D8) v2 constructor applies the same test to the full set", 1)
	r.Doc("U8", "the v2 constructor refuses a configuration only for: no divider, HandlersQuantity == 0, no inputs, divider fault, zero share (so every configuration the helpers judge non-fatal is accepted)", 4)
	r.Doc("U7", "combination generator: for every priority in list order, every existing combination is extended by a fresh copy plus the singleton (step m -> 2m+1); extension copies, never aliases", 2)
	for _, spec := range []struct {
		p   *Prog
		rel string
	}{{c.V1, "priority"}, {c.V2, "priority/utils"}} {
		c18prog(c, spec.p, spec.rel)
	}
	checkCtorRejections(c, c.V2, "U8")
	sub := &Ctx{V1: c.V1, V2: c.V2, Tier: c.Tier, R: NewReport("tmp", c.Tier)}
	checkD7D8(sub)
	for _, o := range sub.R.Obls {
		if o.Rule == "D8" && !strings.HasSuffix(o.Key, "-bypass") { // accepting more never breaks C18
			r.Check(o.OK, "U6", strings.TrimPrefix(o.Key, "D8@"), o.Site, o.Detail, o.Detail)
		}
	}
}

func c18prog(c *Ctx, p *Prog, rel string) {
	r := c.R
	var exported, preds []*ssa.Function
	var gen *ssa.Function
	for _, fn := range p.Funcs() {
		if fr, _ := p.Rel(fn); fr != rel || fn.Parent() != nil {
			continue
		}
		if recv := fn.Signature.Recv(); recv != nil {
			// methods of a private named slice / map type are functions of their receiver
			// (cmbs.isNonFatal(divider, quantity)); methods of structs are not helpers
			t := recv.Type()
			if pt, isPtr := t.Underlying().(*types.Pointer); isPtr {
				t = pt.Elem()
			}
			if _, isStruct := t.Underlying().(*types.Struct); isStruct {
				continue
			}
		}
		name := fn.Name()
		obj, _ := fn.Object().(*types.Func)
		hasDivider := false
		for _, par := range fn.Params {
			if isDividerType(par.Type()) {
				hasDivider = true
			}
		}
		if !hasDivider {
			res := fn.Signature.Results()
			if res.Len() == 1 && isSliceOfSlices(res.At(0).Type()) {
				gen = fn
			}
			continue
		}
		if len(fn.Params) > 0 && isSliceOfSlices(fn.Params[0].Type()) {
			preds = append(preds, fn)
			continue
		}
		if obj != nil && obj.Exported() && (strings.Contains(name, "Config") || strings.HasPrefix(name, "PickUp")) {
			exported = append(exported, fn)
		}
	}
	if gen == nil || len(preds) < 2 || len(exported) < 6 {
		r.Fail("U1", p.Name+":"+rel, "-", fmt.Sprintf("UNRESOLVED-ANCHOR: combination generator / predicates / exported helpers not found (%v, %d, %d)", gen != nil, len(preds), len(exported)))
		return
	}
	for _, fn := range append(append([]*ssa.Function{gen}, preds...), exported...) {
		r.Funcs[p.FnKey(fn)] = true
	}
	isPred := func(f *ssa.Function) bool {
		for _, x := range preds {
			if x == f {
				return true
			}
		}
		return false
	}
	// ---- U1 and U5 per exported helper
	for _, fn := range exported {
		var problems []string
		var genCall *ssa.Call
		var predCalls []*ssa.Call
		// the predicate may be evaluated in the helper itself or in a closure it builds (a search
		// predicate handed to a generic search loop)
		scope := append([]*ssa.Function{fn}, fn.AnonFuncs...)
		for _, g := range scope {
			for _, b := range g.Blocks {
				for _, in := range b.Instrs {
					if call, ok := in.(*ssa.Call); ok && isPred(p.Callee(call)) {
						predCalls = append(predCalls, call)
					}
				}
			}
		}
		for _, pc := range predCalls {
			if gc, ok := p.originOf(pc.Call.Args[0], 0).(*ssa.Call); ok && p.Callee(gc) == gen {
				genCall = gc
			}
		}
		if genCall == nil || len(predCalls) == 0 {
			r.Fail("U1", p.FnKey(fn), p.Pos(fn.Pos()), "UNDECIDED: helper does not generate combinations and evaluate a predicate on them")
			continue
		}
		// sorted origin of the generator's argument (judged where the generator is called)
		genFn := genCall.Parent()
		arg := genCall.Call.Args[0]
		sorted := false
		if call, ok := p.originOf(arg, 0).(*ssa.Call); ok {
			if f := p.Callee(call); f != nil && p.IsProduct(f) {
				// every returned value of f went through the descending sort before the return
				okAll := true
				for _, b := range f.Blocks {
					ret, isRet := b.Instrs[len(b.Instrs)-1].(*ssa.Return)
					if !isRet {
						continue
					}
					if !p.sortedBefore(ret, f, ret.Results[0]) {
						okAll = false
					}
				}
				sorted = okAll
			}
		}
		if !sorted && p.sortedBefore(genCall, genFn, arg) {
			sorted = true
		}
		if !sorted {
			problems = append(problems, "combinations are generated from "+p.Sym(arg).String()+", which did not go through the descending sort: the divider is called with unsorted priority lists")
		}
		for _, pc := range predCalls {
			if p.originOf(pc.Call.Args[0], 0) != ssa.Value(genCall) {
				problems = append(problems, "the predicate at "+p.InstrPos(pc)+" is not evaluated on the generated combinations")
			}
			// pass-through of the caller's divider
			for _, a := range pc.Call.Args {
				if isDividerType(a.Type()) {
					if par, isPar := p.originOf(a, 0).(*ssa.Parameter); !isPar || par.Parent() != fn {
						problems = append(problems, "the predicate is not given the caller's divider")
					}
				}
			}
		}
		r.Check(len(problems) == 0, "U1", p.FnKey(fn), p.Pos(fn.Pos()), "sorted copy -> combinations -> predicate", strings.Join(dedup(problems), "; "))
		if strings.HasPrefix(fn.Name(), "PickUp") {
			checkU5(c, p, fn, predCalls)
		}
	}
	// ---- U7 generator shape (necessary structure for the 2^n-1 enumeration)
	checkU7(c, p, gen)
	// ---- U2/U3/U4 per predicate
	for _, fn := range preds {
		checkU23(c, p, fn)
	}
}

// originOf follows a value back through the plumbing a refactoring introduces: a variable
// captured by a closure, a local variable with a single store, a component of the tuple a private
// helper returns, a parameter of a private function with one call site.
func (p *Prog) originOf(v ssa.Value, depth int) ssa.Value {
	if v == nil || depth > 8 {
		return v
	}
	switch x := v.(type) {
	case *ssa.ChangeType:
		return p.originOf(x.X, depth+1)
	case *ssa.UnOp:
		if x.Op != token.MUL {
			return v
		}
		var cell ssa.Value = x.X
		if fv, ok := cell.(*ssa.FreeVar); ok {
			// the captured variable: binding of the closure that owns fv
			owner := fv.Parent()
			idx := -1
			for i, f := range owner.FreeVars {
				if f == fv {
					idx = i
				}
			}
			if owner.Parent() == nil || idx < 0 {
				return v
			}
			for _, b := range owner.Parent().Blocks {
				for _, in := range b.Instrs {
					if mc, ok := in.(*ssa.MakeClosure); ok && mc.Fn == ssa.Value(owner) && idx < len(mc.Bindings) {
						cell = mc.Bindings[idx]
					}
				}
			}
		}
		if al, ok := cell.(*ssa.Alloc); ok {
			var stored ssa.Value
			n := 0
			for _, r := range *al.Referrers() {
				if st, ok := r.(*ssa.Store); ok && st.Addr == ssa.Value(al) {
					stored = st.Val
					n++
				}
			}
			if n == 1 {
				return p.originOf(stored, depth+1)
			}
			// several stores (a parameter that is re-assigned and then captured): the one that
			// decides the value at this load, when the load is in the allocating function
			if _, isFV := x.X.(*ssa.FreeVar); !isFV && n > 1 {
				if stores, esc := allocStores(al); !esc {
					var whole []*ssa.Store
					for _, st := range stores {
						if st.field >= 0 {
							return v
						}
						whole = append(whole, st.st)
					}
					if w, ok := latestDominating(whole, x); ok && w != nil {
						return p.originOf(w.Val, depth+1)
					}
				}
			}
		}
		return v
	case *ssa.Extract:
		call, ok := x.Tuple.(*ssa.Call)
		if !ok {
			return v
		}
		cal := p.Callee(call)
		if cal == nil || !p.IsProduct(cal) {
			return v
		}
		var rv ssa.Value
		n := 0
		for _, b := range cal.Blocks {
			if ret, ok := b.Instrs[len(b.Instrs)-1].(*ssa.Return); ok && b != cal.Recover && x.Index < len(ret.Results) {
				rv = ret.Results[x.Index]
				n++
			}
		}
		if n == 1 {
			return p.originOf(rv, depth+1)
		}
		return v
	case *ssa.Parameter:
		fn := x.Parent()
		if obj, _ := fn.Object().(*types.Func); obj != nil && obj.Exported() {
			return v
		}
		if fn.Parent() != nil {
			return v // parameter of a closure
		}
		sites := p.CallSites(fn)
		if len(sites) != 1 {
			return v
		}
		if _, isGo := sites[0].(*ssa.Go); isGo {
			return v // the parameter of a goroutine entry
		}
		idx := paramIndex(fn, x)
		if idx < 0 || idx >= len(sites[0].Common().Args) {
			return v
		}
		return p.originOf(sites[0].Common().Args[idx], depth+1)
	}
	return v
}

// checkU5: the search loop. It sits in the exported helper itself, or in a private search function
// the helper calls with its maximum and a closure that evaluates the predicate on the candidate.
func checkU5(c *Ctx, p *Prog, fn *ssa.Function, predCalls []*ssa.Call) {
	var problems []string
	upward := strings.Contains(fn.Name(), "Min")
	uintParam := func(f *ssa.Function) *ssa.Parameter {
		var out *ssa.Parameter
		for _, par := range f.Params {
			if b, ok := par.Type().Underlying().(*types.Basic); ok && b.Kind() == types.Uint {
				out = par
			}
		}
		return out
	}
	loopFn := fn
	maxPar := uintParam(fn)
	// isTest: call is the evaluation of the predicate on a candidate; returns the candidate
	isTest := func(call *ssa.Call) (ssa.Value, bool) {
		for _, pc := range predCalls {
			if pc == call {
				for _, a := range call.Call.Args {
					if ph, ok := a.(*ssa.Phi); ok {
						return ph, true
					}
				}
				return nil, true
			}
		}
		return nil, false
	}
	if len(sccs(fn.Blocks, blockSet(fn.Blocks))) == 0 {
		// delegated search: return helper(max, func(q) bool { return pred(..., q, ...) })
		var helperCall *ssa.Call
		for _, b := range fn.Blocks {
			if ret, ok := b.Instrs[len(b.Instrs)-1].(*ssa.Return); ok && b != fn.Recover && len(ret.Results) == 1 {
				if call, ok := ret.Results[0].(*ssa.Call); ok && p.Callee(call) != nil && p.IsProduct(p.Callee(call)) {
					helperCall = call
				} else {
					if k, isK := constDuration(ret.Results[0]); !isK || k != 0 {
						problems = append(problems, "the helper returns "+p.Sym(ret.Results[0]).String()+" instead of the result of the search")
					} else {
						emptyRange := false
						for _, e := range DomEdges(b) {
							if p.isZeroTestEdge(e, 0) {
								iff := e.From.Instrs[len(e.From.Instrs)-1].(*ssa.If)
								if cm := p.NormCmp(iff.Cond, e.Succ == 0); cm != nil && (deepStrip(cm.L).V == ssa.Value(maxPar) || deepStrip(cm.R).V == ssa.Value(maxPar)) {
									emptyRange = true
								}
							}
						}
						if !emptyRange {
							problems = append(problems, "0 is returned at "+p.InstrPos(ret)+" without the range having been searched: a quantity that satisfies the predicate is not found")
						}
					}
				}
			}
		}
		if helperCall == nil {
			c.R.Fail("U5", p.FnKey(fn), p.Pos(fn.Pos()), "UNDECIDED: no search loop and no delegated search found")
			return
		}
		h := p.Callee(helperCall)
		c.R.Funcs[p.FnKey(h)] = true
		hMax := uintParam(h)
		var testPar *ssa.Parameter
		for _, par := range h.Params {
			if _, isSig := par.Type().Underlying().(*types.Signature); isSig {
				testPar = par
			}
		}
		if hMax == nil || testPar == nil {
			c.R.Fail("U5", p.FnKey(fn), p.Pos(fn.Pos()), "UNDECIDED: search function "+h.Name()+" has no (maximum, predicate) parameters")
			return
		}
		// arguments: the caller's maximum and a closure evaluating the predicate on its parameter
		if a := helperCall.Call.Args[paramIndex(h, hMax)]; a != ssa.Value(maxPar) {
			problems = append(problems, "the search is given "+p.Sym(a).String()+" as its maximum, not the caller's maximum")
		}
		mc, isMC := stripChangeType(helperCall.Call.Args[paramIndex(h, testPar)]).(*ssa.MakeClosure) // (may be converted to a named func type)
		if !isMC {
			problems = append(problems, "the search predicate is not a closure built by the helper")
		} else {
			cf := mc.Fn.(*ssa.Function)
			okBody := false
			for _, b := range cf.Blocks {
				if ret, ok := b.Instrs[len(b.Instrs)-1].(*ssa.Return); ok && len(ret.Results) == 1 {
					if call, ok := ret.Results[0].(*ssa.Call); ok {
						for _, pc := range predCalls {
							if pc == call {
								for _, a := range call.Call.Args {
									if len(cf.Params) == 1 && a == ssa.Value(cf.Params[0]) {
										okBody = true
									}
								}
							}
						}
					}
				}
			}
			if !okBody || len(cf.Blocks) != 1 {
				problems = append(problems, "the search predicate closure does not simply evaluate the configuration predicate on the candidate quantity")
			}
		}
		loopFn, maxPar = h, hMax
		isTest = func(call *ssa.Call) (ssa.Value, bool) {
			if call.Call.Value == ssa.Value(testPar) && len(call.Call.Args) == 1 {
				return call.Call.Args[0], true
			}
			return nil, false
		}
	}
	comps := sccs(loopFn.Blocks, blockSet(loopFn.Blocks))
	var testCalls []*ssa.Call
	var cand ssa.Value
	for _, b := range loopFn.Blocks {
		for _, in := range b.Instrs {
			if call, ok := in.(*ssa.Call); ok {
				if v, ok := isTest(call); ok {
					testCalls = append(testCalls, call)
					cand = v
				}
			}
		}
	}
	if len(comps) != 1 || maxPar == nil || len(testCalls) != 1 {
		c.R.Fail("U5", p.FnKey(fn), p.Pos(fn.Pos()), "UNDECIDED: expected one loop, one predicate evaluation and a uint maximum")
		return
	}
	loop := blockSet(comps[0])
	tc := testCalls[0]
	// the quantity argument of the predicate is the loop variable
	iv, _ := cand.(*ssa.Phi)
	if iv == nil || !loop[iv.Block()] {
		c.R.Fail("U5", p.FnKey(fn), p.Pos(fn.Pos()), "the predicate is not evaluated on the loop variable")
		return
	}
	// init / step
	for i, e := range iv.Edges {
		pred := iv.Block().Preds[i]
		if loop[pred] {
			bo, ok := e.(*ssa.BinOp)
			want := token.ADD
			if !upward {
				want = token.SUB
			}
			k, isK := int64(0), false
			if ok {
				k, isK = constDuration(bo.Y)
			}
			if !ok || bo.Op != want || bo.X != ssa.Value(iv) || !isK || k != 1 {
				problems = append(problems, "the candidate quantity is stepped by "+p.Sym(e).String()+" (expected "+map[bool]string{true: "+1", false: "-1"}[upward]+")")
			}
		} else {
			if upward {
				if k, ok := constDuration(e); !ok || k != 1 {
					problems = append(problems, "the search starts at "+p.Sym(e).String()+", not at 1")
				}
			} else if e != ssa.Value(maxPar) {
				problems = append(problems, "the search starts at "+p.Sym(e).String()+", not at the maximum")
			}
		}
	}
	// continue-condition
	for b := range loop {
		iff, ok := b.Instrs[len(b.Instrs)-1].(*ssa.If)
		if !ok {
			continue
		}
		stay0, stay1 := loop[b.Succs[0]], loop[b.Succs[1]]
		if stay0 == stay1 {
			continue
		}
		base, _ := condOf(iff.Cond)
		if call, isCall := base.(*ssa.Call); isCall && call == tc {
			continue
		}
		cm := p.NormCmp(iff.Cond, stay0)
		if cm == nil {
			problems = append(problems, "UNDECIDED: loop condition "+p.Sym(iff.Cond).String())
			continue
		}
		if upward {
			// iv <= max
			if !(cm.Op == token.LEQ && cm.L.V == ssa.Value(iv) && cm.R.V == ssa.Value(maxPar) && cm.RC-cm.LC == 0) {
				problems = append(problems, "the search continues while "+cm.String()+" (expected quantity <= maximum): the maximum itself is not examined or the range is exceeded")
			}
		} else {
			// iv != 0  (0 < iv)
			if !(cm.Op == token.LSS && cm.L.String() == "0" && cm.R.V == ssa.Value(iv) && cm.RC-cm.LC == 0) {
				problems = append(problems, "the search continues while "+cm.String()+" (expected quantity != 0)")
			}
		}
	}
	// returns
	for _, b := range loopFn.Blocks {
		ret, ok := b.Instrs[len(b.Instrs)-1].(*ssa.Return)
		if !ok || b.Comment == "recover" {
			continue
		}
		underPred := false
		for _, e := range DomEdges(b) {
			iff := e.From.Instrs[len(e.From.Instrs)-1].(*ssa.If)
			base, neg := condOf(iff.Cond)
			if call, isCall := base.(*ssa.Call); isCall && call == tc && ((e.Succ == 0) != neg) {
				underPred = true
			}
		}
		rv := ret.Results[0]
		if underPred {
			if rv != ssa.Value(iv) {
				problems = append(problems, "under a satisfied predicate "+p.Sym(rv).String()+" is returned instead of the quantity that satisfied it")
			}
		} else if k, isK := constDuration(rv); !isK || k != 0 {
			problems = append(problems, "without a satisfied predicate "+p.Sym(rv).String()+" is returned instead of 0")
		} else if len(loop) > 0 && loopFn == loop0(loop).Parent() {
			// "nothing found" is answered after the whole range was searched (or for an empty
			// range: maximum == 0), not in front of the search for some other reason
			after := false
			for _, e := range DomEdges(b) {
				if loop[e.From] && !loop[e.From.Succs[e.Succ]] {
					after = true
				}
				if p.isZeroTestEdge(e, 0) {
					iff := e.From.Instrs[len(e.From.Instrs)-1].(*ssa.If)
					if cm := p.NormCmp(iff.Cond, e.Succ == 0); cm != nil && (deepStrip(cm.L).V == ssa.Value(maxPar) || deepStrip(cm.R).V == ssa.Value(maxPar)) {
						after = true
					}
				}
			}
			if !after && !loop[b] {
				problems = append(problems, "0 is returned at "+p.InstrPos(ret)+" without the range having been searched: a quantity that satisfies the predicate is not found")
			}
		}
	}
	c.R.Check(len(problems) == 0, "U5", p.FnKey(fn), p.Pos(fn.Pos()), map[bool]string{true: "1..max upward", false: "max..1 downward"}[upward]+"; loop variable under the predicate, 0 otherwise", strings.Join(dedup(problems), "; "))
}

// quantityParam: the parameter of a configuration predicate that carries the quantity under test:
// the uint parameter that every caller feeds with its own parameter or with the variable of its
// search loop (a value computed by the caller, such as a hoisted reference total, is not it).
func (p *Prog) quantityParam(fn *ssa.Function) *ssa.Parameter {
	var cands []*ssa.Parameter
	for _, par := range fn.Params {
		if b, ok := par.Type().Underlying().(*types.Basic); ok && b.Kind() == types.Uint {
			cands = append(cands, par)
		}
	}
	if len(cands) <= 1 {
		if len(cands) == 1 {
			return cands[0]
		}
		return nil
	}
	var out []*ssa.Parameter
	for _, par := range cands {
		idx := paramIndex(fn, par)
		ok := true
		sites := p.CallSites(fn)
		for _, cs := range sites {
			args := cs.Common().Args
			if idx < 0 || idx >= len(args) {
				ok = false
				continue
			}
			switch args[idx].(type) {
			case *ssa.Parameter, *ssa.Phi:
			default:
				ok = false
			}
		}
		if ok && len(sites) > 0 {
			out = append(out, par)
		}
	}
	if len(out) == 1 {
		return out[0]
	}
	return cands[len(cands)-1]
}

func checkU23(c *Ctx, p *Prog, fn *ssa.Function) {
	var p2, p3, p4 []string
	combos := fn.Params[0]
	quantity := p.quantityParam(fn)
	// loop shape
	comps := sccs(fn.Blocks, blockSet(fn.Blocks))
	// the for-all spelled with the standard helper: return !slices.ContainsFunc(combinations,
	// func(combination []uint) bool { <divide into a fresh map>; return !<zero-share test> })
	negBody := false
	var cfBody *ssa.Function
	var cfBind func(v ssa.Value) ssa.Value
	if len(comps) == 0 {
		cfBody, cfBind = p.containsFuncForAll(fn, combos)
	}
	if len(comps) != 1 && cfBody == nil {
		c.R.Fail("U2", p.FnKey(fn), p.Pos(fn.Pos()), "UNDECIDED: expected exactly one loop over the combinations")
		return
	}
	var loop map[*ssa.BasicBlock]bool
	if cfBody != nil {
		loop = map[*ssa.BasicBlock]bool{}
		negBody = true
	} else {
		loop = blockSet(comps[0])
	}
	var header *ssa.BasicBlock
	truesAfter := 0
	if cfBody == nil {
		for _, b := range comps[0] {
			if boundedHeader(b, loop) {
				header = b
			}
		}
	}
	if header == nil && cfBody == nil {
		p2 = append(p2, "the loop over the combinations is not a range loop")
	}
	for _, b := range fn.Blocks {
		ret, ok := b.Instrs[len(b.Instrs)-1].(*ssa.Return)
		if !ok || b.Comment == "recover" {
			continue
		}
		cv, isC := ret.Results[0].(*ssa.Const)
		if !isC {
			if cfBody == nil {
				p2 = append(p2, "non-constant result at "+p.InstrPos(ret))
			}
			continue
		}
		if constString(cv) == "true" && header != nil {
			after := false
			for _, e := range DomEdges(b) {
				if e.From == header && !loop[e.From.Succs[e.Succ]] {
					after = true
				}
			}
			if !after {
				// (the zero-iteration answer given early: if len(combinations) == 0 { return true })
				early := false
				for _, e := range DomEdges(b) {
					if lenZeroEdge(e, func(v ssa.Value) bool { return v == ssa.Value(combos) }) {
						early = true
					}
				}
				if !early {
					p2 = append(p2, "returns true at "+p.InstrPos(ret)+" before every combination was examined")
				}
				continue
			}
			truesAfter++
		}
		// after the loop the answer is true (every combination passed): false there rejects everything
		if constString(cv) == "false" && header != nil {
			for _, e := range DomEdges(b) {
				if e.From == header && !loop[e.From.Succs[e.Succ]] {
					p2 = append(p2, "returns false at "+p.InstrPos(ret)+" after every combination passed: the predicate is never true")
				}
			}
		}
	}
	if truesAfter == 0 && header != nil {
		p2 = append(p2, "the predicate never answers true")
	}
	isQuantity := func(v ssa.Value) bool { return quantity != nil && v == ssa.Value(quantity) }
	// the per-combination body: the loop's own blocks, or - when the loop only calls one boolean
	// helper on the visited combination and leaves with false when it says false - that helper
	ufn, region := fn, loop
	isCombo := func(v ssa.Value) bool {
		base, okr := rangeElem(p.Sym(v))
		return okr && base.V == ssa.Value(combos)
	}
	hasDivider := false
	var bodyCalls []*ssa.Call
	for b := range loop {
		for _, in := range b.Instrs {
			if call, ok := in.(*ssa.Call); ok {
				if p.Callee(call) == nil && !call.Call.IsInvoke() && isDividerType(call.Call.Value.Type()) {
					hasDivider = true
				} else if cal := p.Callee(call); cal != nil && p.IsProduct(cal) && returnsBoolOnly(cal) {
					bodyCalls = append(bodyCalls, call)
				}
			}
		}
	}
	if !hasDivider && len(bodyCalls) == 1 {
		bc := bodyCalls[0]
		h := p.Callee(bc)
		comboIdx, quantIdx := -1, -1
		for i, a := range bc.Call.Args {
			if isCombo(a) {
				comboIdx = i
			}
			if quantity != nil && a == ssa.Value(quantity) {
				quantIdx = i
			}
		}
		falseLeaves := false
		for _, b := range fn.Blocks {
			ret, ok := b.Instrs[len(b.Instrs)-1].(*ssa.Return)
			if !ok {
				continue
			}
			if cv, isC := ret.Results[0].(*ssa.Const); isC && constString(cv) == "false" {
				for _, e := range DomEdges(b) {
					if p.edgeIsCallResult(e, func(f *ssa.Function) bool { return f == h }, false) {
						falseLeaves = true
					}
				}
			}
		}
		if comboIdx >= 0 && quantIdx >= 0 && falseLeaves && len(sccs(h.Blocks, blockSet(h.Blocks))) == 0 {
			ufn, region = h, blockSet(h.Blocks)
			hc, hq := h.Params[comboIdx], h.Params[quantIdx]
			isCombo = func(v ssa.Value) bool { return v == ssa.Value(hc) }
			quantity = hq
			c.R.Funcs[p.FnKey(h)] = true
		}
	}
	if cfBody != nil {
		if len(sccs(cfBody.Blocks, blockSet(cfBody.Blocks))) != 0 {
			c.R.Fail("U2", p.FnKey(fn), p.Pos(fn.Pos()), "UNDECIDED: the per-combination predicate handed to slices.ContainsFunc contains a loop")
			return
		}
		ufn, region = cfBody, blockSet(cfBody.Blocks)
		hc := cfBody.Params[0]
		isCombo = func(v ssa.Value) bool { return v == ssa.Value(hc) }
		outerQ := quantity
		isQuantity = func(v ssa.Value) bool { return outerQ != nil && cfBind(v) == ssa.Value(outerQ) }
		c.R.Funcs[p.FnKey(cfBody)] = true
	}
	// divider calls and tests inside the body
	var divCalls []*ssa.Call
	var zeroTests []*ssa.Call
	var tolCalls []*ssa.Call
	for b := range region {
		for _, in := range b.Instrs {
			call, ok := in.(*ssa.Call)
			if !ok {
				continue
			}
			if p.Callee(call) == nil && !call.Call.IsInvoke() && isDividerType(call.Call.Value.Type()) {
				divCalls = append(divCalls, call)
				continue
			}
			cal := p.Callee(call)
			if _, _, _, isFA := p.forAllCall(call); isFA {
				zeroTests = append(zeroTests, call)
			} else if cal != nil && p.IsProduct(cal) && returnsBoolOnly(cal) {
				tolCalls = append(tolCalls, call)
			}
		}
	}
	if len(divCalls) == 0 {
		p2 = append(p2, "the divider is not evaluated inside the loop")
	}
	var mainDiv *ssa.Call
	for _, dc := range divCalls {
		if !isCombo(dc.Call.Args[0]) {
			p2 = append(p2, "divider at "+p.InstrPos(dc)+" is not given the combination being visited")
		}
		// fresh distribution: made inside the loop (v2) or nil (v1)
		fresh := isNilConst(dc.Call.Args[2])
		if mm, ok := stripRefConv(dc.Call.Args[2]).(*ssa.MakeMap); ok && region[mm.Block()] {
			fresh = true
		}
		if !fresh {
			p2 = append(p2, "divider at "+p.InstrPos(dc)+" is given a distribution that is shared between combinations")
		}
		if isQuantity(dc.Call.Args[1]) || (cfBody == nil && dc.Call.Args[1] == ssa.Value(quantity)) {
			mainDiv = dc
		}
	}
	if mainDiv == nil {
		p2 = append(p2, "no divider call uses the quantity under test")
	}
	c.R.Check(len(p2) == 0, "U2", p.FnKey(fn), p.Pos(fn.Pos()), fmt.Sprintf("range loop; %d divider call(s) on the visited combination with a fresh map", len(divCalls)), strings.Join(dedup(p2), "; "))
	// U3
	if len(zeroTests) != 1 {
		p3 = append(p3, fmt.Sprintf("expected one zero-share test per combination, found %d", len(zeroTests)))
	} else {
		zt := zeroTests[0]
		over, ztList, ztDist, _ := p.forAllCall(zt)
		if over != "slice" || ztList == nil || ztDist == nil {
			p3 = append(p3, "the zero-share test ("+p.Callee(zt).Name()+") ranges over the entries of the distribution map: members for which the divider created no entry are not seen")
		} else if mainDiv != nil {
			if !isCombo(ztList) {
				p3 = append(p3, "the zero-share test is not applied to the members of the combination being visited")
			}
			// distribution: the map given to / returned by the main divider call
			dist := stripRefConv(ztDist)
			if !(dist == stripRefConv(mainDiv.Call.Args[2]) || dist == ssa.Value(mainDiv)) {
				p3 = append(p3, "the zero-share test does not look at the distribution produced for the quantity under test")
			}
			if !instrDominates(mainDiv, zt) {
				p3 = append(p3, "the zero-share test precedes the division")
			}
		}
		// every visited combination reaches the test: no way round it back to the head of the loop
		// (or, in a per-combination helper, to a "passed" answer) other than for an empty combination
		{
			ztb := zt.Block()
			skip := func(start *ssa.BasicBlock, within map[*ssa.BasicBlock]bool, hit func(b *ssa.BasicBlock) bool) bool {
				return reachAvoiding(start, ztb, within, isCombo, hit)
			}
			if ufn == fn && header != nil && loop[ztb] && header != ztb {
				if skip(header, loop, func(b *ssa.BasicBlock) bool { return b == header }) {
					p3 = append(p3, "some combinations go round the zero-share test (a path from the head of the loop back to it avoids the test): they are not judged")
				}
			} else if ufn != fn && len(ufn.Blocks) > 0 && ufn.Blocks[0] != ztb {
				pass := "true"
				if negBody {
					pass = "false"
				}
				if skip(ufn.Blocks[0], nil, func(b *ssa.BasicBlock) bool {
					ret, ok := b.Instrs[len(b.Instrs)-1].(*ssa.Return)
					if !ok || len(ret.Results) != 1 {
						return false
					}
					cv, isC := ret.Results[0].(*ssa.Const)
					return isC && constString(cv) == pass
				}) {
					p3 = append(p3, "the per-combination predicate can pass a combination without the zero-share test: it is not judged")
				}
			}
		}
		// failed test => return false
		okFalse := false
		for _, b := range ufn.Blocks {
			ret, ok := b.Instrs[len(b.Instrs)-1].(*ssa.Return)
			if !ok {
				continue
			}
			if cv, isC := ret.Results[0].(*ssa.Const); isC && constString(cv) == "false" && !negBody {
				for _, e := range DomEdges(b) {
					if p.edgeIsCallResult(e, func(f *ssa.Function) bool { return f == p.Callee(zt) }, false) {
						okFalse = true
					}
				}
			}
			// the test's answer handed back as the body's answer (return IsPrioritiesFilled(combination, distribution))
			if ret.Results[0] == ssa.Value(zt) && !negBody {
				okFalse = true
			}
			// the body is the "fails" predicate of ContainsFunc: a failed test makes it true
			if negBody {
				if base, neg := condOf(ret.Results[0]); base == ssa.Value(zt) && neg {
					okFalse = true
				}
				if cv, isC := ret.Results[0].(*ssa.Const); isC && constString(cv) == "true" {
					for _, e := range DomEdges(b) {
						if p.edgeIsCallResult(e, func(f *ssa.Function) bool { return f == p.Callee(zt) }, false) {
							okFalse = true
						}
					}
				}
			}
		}
		if !okFalse {
			p3 = append(p3, "a failed zero-share test does not make the predicate false")
		}
	}
	c.R.Check(len(p3) == 0, "U3", p.FnKey(fn), p.Pos(fn.Pos()), "for-all over the visited combination on the fresh distribution", strings.Join(dedup(p3), "; "))
	// U4 for predicates with a tolerance test
	if len(tolCalls) > 0 && negBody {
		c.R.Fail("U4", p.FnKey(fn), p.Pos(fn.Pos()), "UNDECIDED: tolerance test inside a slices.ContainsFunc predicate")
		return
	}
	if len(tolCalls) > 0 {
		tc := tolCalls[0]
		ztBefore := len(zeroTests) == 1 && instrDominates(zeroTests[0], tc)
		if len(zeroTests) == 1 && !ztBefore && ufn == fn && header != nil && loop[zeroTests[0].Block()] && loop[tc.Block()] && zeroTests[0].Block() != tc.Block() && header != zeroTests[0].Block() {
			// the test is skipped only for an empty combination (for which it holds trivially)
			ztBefore = !reachAvoiding(header, zeroTests[0].Block(), loop, isCombo, func(b *ssa.BasicBlock) bool { return b == tc.Block() })
		}
		if len(zeroTests) == 1 && !ztBefore {
			p4 = append(p4, "the tolerance test runs without the zero-share test before it: suitable no longer implies non-fatal")
		}
		tol := p.Callee(tc)
		var limit *ssa.Parameter
		for _, par := range tol.Params {
			if b, ok := par.Type().Underlying().(*types.Basic); ok && b.Kind() == types.Float64 {
				limit = par
			}
		}
		if limit == nil {
			p4 = append(p4, "UNDECIDED: no float limit parameter in "+tol.Name())
		} else {
			// passed through from the predicate's own limit parameter
			uses := 0
			for _, ref := range *limit.Referrers() {
				if _, isDbg := ref.(*ssa.DebugRef); isDbg {
					continue
				}
				uses++
				bo, ok := ref.(*ssa.BinOp)
				okUse := false
				if ok && ((bo.Op == token.GTR && bo.Y == ssa.Value(limit)) || (bo.Op == token.LSS && bo.X == ssa.Value(limit))) {
					// true => return false
					for _, r2 := range *bo.Referrers() {
						if iff, isIf := r2.(*ssa.If); isIf {
							tb := iff.Block().Succs[0]
							if ret, isRet := tb.Instrs[len(tb.Instrs)-1].(*ssa.Return); isRet {
								if cv, isC := ret.Results[0].(*ssa.Const); isC && constString(cv) == "false" {
									okUse = true
								}
							}
						}
					}
				}
				if !okUse {
					p4 = append(p4, "the limit is used at "+p.InstrPos(ref)+" other than as `difference > limit => false`: the predicate is not monotone in the limit")
				}
			}
			if uses == 0 {
				p4 = append(p4, "the limit is not used")
			}
		}
		c.R.Check(len(p4) == 0, "U4", p.FnKey(fn), p.Pos(fn.Pos()), "zero-share test first; limit only as diff > limit => false", strings.Join(dedup(p4), "; "))
		c.R.Funcs[p.FnKey(tol)] = true
	}
}

// checkU7: structural necessary conditions of the subset generator.
func checkU7(c *Ctx, p *Prog, gen *ssa.Function) {
	var problems []string
	prios := gen.Params[0]
	comps := sccs(gen.Blocks, blockSet(gen.Blocks))
	// outer loop over the priorities with an inner loop over the combinations collected so far
	if len(comps) != 1 {
		problems = append(problems, fmt.Sprintf("expected one loop nest, found %d", len(comps)))
	}
	var adder *ssa.Function
	extendCalls, singleCalls := 0, 0
	for _, b := range gen.Blocks {
		for _, in := range b.Instrs {
			call, ok := in.(*ssa.Call)
			if !ok {
				continue
			}
			cal := p.Callee(call)
			if cal == nil || !p.IsProduct(cal) || len(call.Call.Args) != 2 {
				continue
			}
			// second argument: the priority being visited in the outer loop
			if base, okr := rangeElem(p.Sym(call.Call.Args[1])); !okr || base.V != ssa.Value(prios) {
				continue
			}
			adder = cal
			if isNilConst(call.Call.Args[0]) {
				singleCalls++
				if !blockInLoop(call.Block()) {
					problems = append(problems, "the singleton combination is added outside the loop over the priorities")
				}
			} else {
				extendCalls++
			}
			// the result is appended to the collection
			appended := false
			for _, ref := range *call.Referrers() {
				if st, isSt := ref.(*ssa.Store); isSt {
					if al, isAl := baseOf(st.Addr).(*ssa.Alloc); isAl && al.Comment == "varargs" {
						appended = true
					}
				}
			}
			if !appended {
				problems = append(problems, "a generated combination at "+p.InstrPos(call)+" is not appended to the result")
			}
		}
	}
	if extendCalls != 1 || singleCalls != 1 {
		problems = append(problems, fmt.Sprintf("expected one extension of every existing combination and one singleton per priority, found %d and %d", extendCalls, singleCalls))
	}
	c.R.Check(len(problems) == 0, "U7", p.FnKey(gen), p.Pos(gen.Pos()), "per priority: extend every existing combination + singleton", strings.Join(dedup(problems), "; "))
	if adder == nil {
		return
	}
	c.R.Funcs[p.FnKey(adder)] = true
	// the adder returns a fresh slice: make(len(c)+1), copy(c), last = priority
	var ap []string
	fresh := false
	// alternative spelling: append(append(<fresh empty slice>, combination...), priority)
	appendForm := func(v ssa.Value) bool {
		outer, ok := v.(*ssa.Call)
		if !ok {
			return false
		}
		if bi, isB := outer.Call.Value.(*ssa.Builtin); !isB || bi.Name() != "append" || len(outer.Call.Args) != 2 {
			return false
		}
		el, okEl := varargsElem(outer.Call.Args[1])
		if !okEl || el != ssa.Value(adder.Params[1]) {
			return false
		}
		inner, ok := outer.Call.Args[0].(*ssa.Call)
		if !ok {
			return false
		}
		if bi, isB := inner.Call.Value.(*ssa.Builtin); !isB || bi.Name() != "append" || len(inner.Call.Args) != 2 || inner.Call.Args[1] != ssa.Value(adder.Params[0]) {
			return false
		}
		if isNilConst(inner.Call.Args[0]) {
			return true
		}
		if ms, isMS := inner.Call.Args[0].(*ssa.MakeSlice); isMS {
			k, isK := constDuration(ms.Len)
			return isK && k == 0
		}
		return false
	}
	allAppend := true
	nres := 0
	for _, b := range adder.Blocks {
		if ret, ok := b.Instrs[len(b.Instrs)-1].(*ssa.Return); ok && b.Comment != "recover" && len(ret.Results) == 1 {
			nres++
			if !appendForm(ret.Results[0]) {
				allAppend = false
			}
		}
	}
	if nres > 0 && allAppend {
		c.R.Pass("U7", p.FnKey(adder), p.Pos(adder.Pos()), "fresh copy with the priority appended last (append form)")
		return
	}
	for _, s := range p.resultSyms(adder, 0) {
		if ms, ok := s.V.(*ssa.MakeSlice); ok {
			l := deepStrip(p.Sym(ms.Len))
			lb, lk := splitConst(l)
			if lb.Op == "call" && lb.Name == "len" && len(lb.Args) == 1 && lb.Args[0].V == ssa.Value(adder.Params[0]) && lk == 1 {
				fresh = true
			} else {
				ap = append(ap, "the new combination has length "+l.String()+", not len(combination)+1")
			}
		} else {
			ap = append(ap, "the extended combination is "+s.String()+", not a freshly made slice: combinations share memory and later extensions overwrite earlier ones")
		}
	}
	copied, lastSet := false, false
	for _, b := range adder.Blocks {
		for _, in := range b.Instrs {
			if call, ok := in.(*ssa.Call); ok {
				if bi, isB := call.Call.Value.(*ssa.Builtin); isB && bi.Name() == "copy" && call.Call.Args[1] == ssa.Value(adder.Params[0]) {
					copied = true
				}
			}
			if st, ok := in.(*ssa.Store); ok {
				if ia, isIA := st.Addr.(*ssa.IndexAddr); isIA && st.Val == ssa.Value(adder.Params[1]) {
					idx := deepStrip(p.Sym(ia.Index))
					// the last position of the new slice: len(created) - 1
					if ib, ik := splitConst(idx); ib.Op == "call" && ib.Name == "len" && len(ib.Args) == 1 && ik == -1 {
						if _, isMS := stripRefConv(ib.Args[0].V).(*ssa.MakeSlice); isMS || ib.Args[0].V == nil {
							lastSet = true
						}
					}
					// the same position counted from the source: created[len(combination)]
					if idx.Op == "call" && idx.Name == "len" && len(idx.Args) == 1 && idx.Args[0].V == ssa.Value(adder.Params[0]) {
						lastSet = true
					}
				}
			}
		}
	}
	if !fresh || !copied || !lastSet {
		ap = append(ap, fmt.Sprintf("shape not recognised (fresh=%v copies=%v appends-last=%v)", fresh, copied, lastSet))
	}
	c.R.Check(len(ap) == 0, "U7", p.FnKey(adder), p.Pos(adder.Pos()), "fresh copy with the priority appended last", strings.Join(dedup(ap), "; "))
}

// containsFuncForAll: fn is `return !slices.ContainsFunc(<combos>, <literal>)`; returns the
// literal and a function that maps a value inside it to the value of fn it stands for (a load of
// a captured variable -> the parameter of fn that was captured).
func (p *Prog) containsFuncForAll(fn *ssa.Function, combos *ssa.Parameter) (*ssa.Function, func(ssa.Value) ssa.Value) {
	var call *ssa.Call
	for _, b := range fn.Blocks {
		for _, in := range b.Instrs {
			if x, ok := in.(*ssa.Call); ok {
				cal := p.Callee(x)
				if cal == nil {
					return nil, nil
				}
				name := p.funcDisplay(cal)
				if i := strings.Index(name, "["); i >= 0 {
					name = name[:i]
				}
				if name != "slices.ContainsFunc" || call != nil {
					return nil, nil
				}
				call = x
			}
		}
	}
	if call == nil || len(fn.Blocks) != 1 {
		return nil, nil
	}
	ret, isRet := fn.Blocks[0].Instrs[len(fn.Blocks[0].Instrs)-1].(*ssa.Return)
	if !isRet || len(ret.Results) != 1 {
		return nil, nil
	}
	if base, neg := condOf(ret.Results[0]); base != ssa.Value(call) || !neg {
		return nil, nil
	}
	spilled := func(v ssa.Value) ssa.Value {
		v = stripChangeType(v)
		if ld, ok := v.(*ssa.UnOp); ok && ld.Op == token.MUL {
			v = ld.X
		}
		al, ok := v.(*ssa.Alloc)
		if !ok {
			return v
		}
		var val ssa.Value
		n := 0
		for _, ref := range *al.Referrers() {
			if st, ok := ref.(*ssa.Store); ok && st.Addr == ssa.Value(al) {
				n++
				val = st.Val
			}
		}
		if n == 1 {
			return val
		}
		return v
	}
	if spilled(call.Call.Args[0]) != ssa.Value(combos) {
		return nil, nil
	}
	mc, isMC := call.Call.Args[1].(*ssa.MakeClosure)
	if !isMC {
		return nil, nil
	}
	body, _ := mc.Fn.(*ssa.Function)
	if body == nil || len(body.Params) != 1 {
		return nil, nil
	}
	bind := func(v ssa.Value) ssa.Value {
		v = stripChangeType(v)
		if ld, ok := v.(*ssa.UnOp); ok && ld.Op == token.MUL {
			if fv, ok := ld.X.(*ssa.FreeVar); ok {
				for i, f := range body.FreeVars {
					if f == fv && i < len(mc.Bindings) {
						return spilled(mc.Bindings[i])
					}
				}
			}
		}
		if fv, ok := v.(*ssa.FreeVar); ok {
			for i, f := range body.FreeVars {
				if f == fv && i < len(mc.Bindings) {
					return spilled(mc.Bindings[i])
				}
			}
		}
		return v
	}
	return body, bind
}

func loop0(loop map[*ssa.BasicBlock]bool) *ssa.BasicBlock {
	for b := range loop {
		return b
	}
	return nil
}

// lenZeroEdge: taking this edge implies len(x) == 0 for a list x accepted by isList.
func lenZeroEdge(e CondEdge, isList func(ssa.Value) bool) bool {
	ifi, ok := e.From.Instrs[len(e.From.Instrs)-1].(*ssa.If)
	if !ok {
		return false
	}
	v, neg := condOf(ifi.Cond)
	b, ok := v.(*ssa.BinOp)
	if !ok {
		return false
	}
	call, ok := b.X.(*ssa.Call)
	if !ok || len(call.Call.Args) != 1 {
		return false
	}
	if bi, isB := call.Call.Value.(*ssa.Builtin); !isB || bi.Name() != "len" || !isList(call.Call.Args[0]) {
		return false
	}
	cv, ok := b.Y.(*ssa.Const)
	if !ok {
		return false
	}
	truth := (e.Succ == 0) != neg
	k := constString(cv)
	switch {
	case b.Op == token.EQL && k == "0", b.Op == token.LSS && k == "1", b.Op == token.LEQ && k == "0":
		return truth
	case b.Op == token.NEQ && k == "0", b.Op == token.GTR && k == "0", b.Op == token.GEQ && k == "1":
		return !truth
	}
	return false
}

// reachAvoiding: some path from start (exclusive) reaches a block accepted by hit without entering
// avoid, staying within the given blocks (nil = whole function) and never taking an edge that
// implies the visited list is empty.
func reachAvoiding(start, avoid *ssa.BasicBlock, within map[*ssa.BasicBlock]bool, isList func(ssa.Value) bool, hit func(b *ssa.BasicBlock) bool) bool {
	seen := map[*ssa.BasicBlock]bool{}
	found := false
	var stack []*ssa.BasicBlock
	push := func(from *ssa.BasicBlock) {
		_, isIf := from.Instrs[len(from.Instrs)-1].(*ssa.If)
		for i, s := range from.Succs {
			if isIf && len(from.Succs) == 2 && lenZeroEdge(CondEdge{from, i}, isList) {
				continue
			}
			if s == avoid || (within != nil && !within[s]) {
				continue
			}
			if hit(s) {
				found = true
			}
			if !seen[s] {
				seen[s] = true
				stack = append(stack, s)
			}
		}
	}
	push(start)
	for len(stack) > 0 && !found {
		x := stack[len(stack)-1]
		stack = stack[:len(stack)-1]
		push(x)
	}
	return found
}

// emptyGuarded: every path to b takes an edge implying that a collection the function iterates over
// (a ranged map, or a slice whose length bounds a loop) is empty - the zero-iteration answer of a
// for-all given early (`if len(list) == 0 { return true }`).
func (p *Prog) emptyGuarded(b *ssa.BasicBlock) bool {
	fn := b.Parent()
	ranged := map[string]bool{}
	lens := map[string]int{}
	for _, blk := range fn.Blocks {
		for _, in := range blk.Instrs {
			if rg, ok := in.(*ssa.Range); ok {
				ranged[p.Sym(rg.X).String()] = true
			}
			if call, ok := in.(*ssa.Call); ok && len(call.Call.Args) == 1 {
				if bi, isB := call.Call.Value.(*ssa.Builtin); isB && bi.Name() == "len" {
					lens[p.Sym(call.Call.Args[0]).String()]++
				}
			}
		}
	}
	isList := func(v ssa.Value) bool {
		k := p.Sym(v).String()
		return ranged[k] || lens[k] >= 2
	}
	for _, e := range DomEdges(b) {
		if lenZeroEdge(e, isList) {
			return true
		}
	}
	return false
}
