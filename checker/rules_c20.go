package main

import (
	"fmt"
	"go/token"
	"go/types"
	"sort"
	"strings"

	"golang.org/x/tools/go/ssa"
)

func init() {
	register(&Property{
		ID:          "C20",
		Run:         runC20,
		Explanation: "Confinement proof (not a race detector): for every field of every discipline struct (structs that own a `go` statement) all accesses are collected from SSA FieldAddr/Field chains, map updates, element stores, append/copy/delete and calls that mutate a parameter's referent; every instruction gets the set of execution contexts it can run in (constructor with the set of goroutines already spawned, goroutine entry, public API method) from the call graph and a forward dataflow over the constructors; a field passes iff no write is concurrent with any other access (H1/H2). H3: no package-level variable is written outside init. H4: user maps (Opts.Inputs) are read only in constructor context; exported helpers mutate only memory they allocated (dividers: only their distribution parameter).",
		NotDecided: []string{
			"races inside user callbacks (Divider, Handle) and inside third-party breaker",
		},
	})
}

type fieldAccess struct {
	path  string // "opts.Ctx"
	kind  string // read write cread cwrite escape
	in    ssa.Instruction
	fn    *ssa.Function
	how   string
	ctxs  []string
	ftype types.Type
}

func hasSharedContent(t types.Type) bool {
	switch t.Underlying().(type) {
	case *types.Map, *types.Slice:
		return true
	}
	return false
}

// contexts computes, for every instruction in product code, the contexts it may execute in.
type ctxInfo struct {
	p     *Prog
	at    map[ssa.Instruction]map[string]bool
	multi map[string]bool
}

func (ci *ctxInfo) add(in ssa.Instruction, c string) {
	m := ci.at[in]
	if m == nil {
		m = map[string]bool{}
		ci.at[in] = m
	}
	m[c] = true
}

func (p *Prog) Contexts() *ctxInfo {
	if p.ctxCache != nil {
		return p.ctxCache
	}
	ci := &ctxInfo{p: p, at: map[ssa.Instruction]map[string]bool{}, multi: map[string]bool{}}
	for _, e := range p.GoEntries() {
		if e.Entry == nil {
			continue
		}
		k := p.FnKey(e.Entry)
		if e.Multi {
			ci.multi[k] = true
		}
		for fn := range p.Reach(e.Entry) {
			for _, b := range fn.Blocks {
				for _, in := range b.Instrs {
					ci.add(in, "G:"+k)
				}
			}
		}
	}
	ctorSet := map[*ssa.Function]bool{}
	for _, d := range p.Discs() {
		for _, m := range d.API {
			k := "API:" + p.FnKey(m)
			for fn := range p.Reach(m) {
				for _, b := range fn.Blocks {
					for _, in := range b.Instrs {
						ci.add(in, k)
					}
				}
			}
		}
		for _, c := range d.Ctors {
			ctorSet[c] = true
		}
	}
	// exported package-level functions that are not constructors
	for _, fn := range p.Funcs() {
		if fn.Parent() != nil || fn.Signature.Recv() != nil || ctorSet[fn] {
			continue
		}
		obj, _ := fn.Object().(*types.Func)
		if obj == nil || !obj.Exported() {
			continue
		}
		rel, _ := p.Rel(fn)
		if strings.Contains("/"+rel+"/", "/internal/") {
			continue
		}
		k := "API:" + p.FnKey(fn)
		for g := range p.Reach(fn) {
			for _, b := range g.Blocks {
				for _, in := range b.Instrs {
					ci.add(in, k)
				}
			}
		}
	}
	// constructors: forward flow, state = set of goroutine entries already spawned
	for c := range ctorSet {
		ck := p.FnKey(c)
		fl := &Flow{P: p, ContextInsensitive: true}
		rec := func(st string, in ssa.Instruction) {
			ci.add(in, "CT:"+ck+"|"+st)
		}
		fl.Instr = func(fr *Frame, st string, in ssa.Instruction) []string {
			rec(st, in)
			if g, ok := in.(*ssa.Go); ok {
				if e := p.Callee(g); e != nil {
					set := map[string]bool{}
					for _, s := range strings.Split(st, ",") {
						if s != "" {
							set[s] = true
						}
					}
					set[p.FnKey(e)] = true
					for _, s := range p.SpawnClosure(e) {
						set[s] = true
					}
					return []string{strings.Join(sortedKeys(set), ",")}
				}
			}
			return nil
		}
		fl.Call = func(fr *Frame, st string, call ssa.CallInstruction, deferred bool) (bool, []string) {
			rec(st, call)
			return false, nil
		}
		fl.Run(c, []string{""})
		// terminators are not passed to Instr; record them for completeness
	}
	p.ctxCache = ci
	return ci
}

func (ci *ctxInfo) Of(in ssa.Instruction) []string {
	return sortedKeys(ci.at[in])
}

// concurrent reports whether two contexts may run without a happens-before edge.
func (ci *ctxInfo) concurrent(a, b string, sameInstance bool) bool {
	ka, kb := a[:strings.Index(a, ":")], b[:strings.Index(b, ":")]
	switch {
	case ka == "CT" && kb == "CT":
		return false
	case ka == "CT" && kb == "G":
		return ctSpawned(a, b[2:])
	case ka == "G" && kb == "CT":
		return ctSpawned(b, a[2:])
	case ka == "CT" || kb == "CT":
		return false // API calls need the constructor's result
	case ka == "G" && kb == "G":
		if a == b {
			return ci.multi[a[2:]]
		}
		return true
	}
	return true // API vs API, API vs G
}

func ctSpawned(ct, entry string) bool {
	i := strings.Index(ct, "|")
	for _, s := range strings.Split(ct[i+1:], ",") {
		if s == entry {
			return true
		}
	}
	return false
}

func runC20(c *Ctx) {
	r := c.R
	r.Doc("H1", "every field of every discipline struct: no write (header or content) is concurrent with another access; contexts = constructor(spawned set) / goroutine entry / API method", 59)
	r.Doc("H3", "package-level variables are written only by the package initialiser", 20)
	r.Doc("H4a", "user-supplied Opts.Inputs map is read only in constructor context", 6)
	r.Doc("H4b", "exported functions mutate only memory they allocated (dividers: only the distribution parameter)", 20)
	r.Doc("H0", "role resolution: discipline structs, goroutine entries, constructors, API methods", 8)
	for _, p := range []*Prog{c.V1, c.V2} {
		c20prog(c, p)
	}
	// H5: hand-over of slices to the consumer (user-visible data)
	r.Doc("H5", "(= C08 K1-K4) copy-mode payloads are fresh clones; no-copy buffers are not touched between delivery and release (v1: never again after stop/cancel)", 9)
	sub := &Ctx{V1: c.V1, V2: c.V2, Tier: c.Tier, R: NewReport("tmp", c.Tier)}
	for _, jr := range joinDiscs(sub) {
		checkK1(sub, jr)
		checkK2(sub, jr)
		if jr.v1 {
			checkK3(sub, jr)
		}
		checkK4(sub, jr)
	}
	for _, o := range sub.R.Obls {
		if o.Rule == "J0" && o.OK {
			continue
		}
		r.Check(o.OK, "H5", o.Key, o.Site, o.Detail, o.Detail)
	}
	// H8: instances share no mutable state through their fields
	r.Doc("H8", "every channel, map, slice, ticker, breaker and wait group a discipline keeps in a field is created by its constructor or comes from its options (no package-level object shared by all instances)", 30)
	for _, p := range []*Prog{c.V1, c.V2} {
		checkOwnResources(c, p, "H8", nil)
	}
	// H9 (= E5/G2, E7 on the simplified disciplines): Stop()/GracefulStop() returning is what orders the
	// caller's reads after the handlers' writes (Handle runs user code on user data). A completion
	// signal raised anywhere but in the deferred clean-up of the supervising entry - which first
	// joins the handlers - lets the caller read while a handler still writes
	r.Doc("H9", "(= E5, E7, v1 Simple) completion is signalled only by the supervising entry's deferred clean-up, after the handlers are joined", 4)
	{
		sub9 := &Ctx{V1: c.V1, V2: c.V2, Tier: c.Tier, R: NewReport("tmp", c.Tier)}
		signalRules(sub9, c.V1, "E5")
		if d := c.V1.Disc("priority.Simple"); d != nil {
			for _, e := range d.Gos {
				if !e.Multi && e.Parent == nil {
					childJoinRules(sub9, c.V1.Routine(d, e), "E7")
				}
			}
		}
		n9 := 0
		for _, o := range sub9.R.Obls {
			if strings.Contains(o.Key, "priority.Simple") {
				n9++
				r.Check(o.OK, "H9", o.Key, o.Site, o.Detail, o.Detail)
			}
		}
		if n9 == 0 {
			r.Fail("H9", "v1:priority.Simple", "-", "UNRESOLVED-ANCHOR: no completion signal of v1 Simple found")
		}
	}
	// H10: a method with a value receiver copies the whole discipline struct in the caller's
	// goroutine at every call - an unsynchronised read of every field the goroutine writes
	// (`func (dsc Discipline[Type]) Stop()`); the call through the pointer compiles all the same
	r.Doc("H10", "every method of a discipline struct has a pointer receiver (a value receiver copies all fields, unsynchronised, at each call)", 120)
	for _, p := range []*Prog{c.V1, c.V2} {
		checkPointerReceivers(c, p, "H10", func(*Disc) bool { return true })
	}
	// H7 (= E4): the release channel is closed by the scheduler's defers; a Release call is ordered
	// before that close only by the scheduler having received it - the deferred wait leaves only
	// when every counter is zero. Otherwise close(feedback) is concurrent with a send.
	r.Doc("H7", "(= C07 E4) the scheduler closes the release channel only after it has received every release (the wait-for-zero leaves only when all counters are zero)", 2)
	for _, p := range []*Prog{c.V1, c.V2} {
		sr, err := resolveSchedRoles(p)
		if err != nil {
			r.Fail("H7", p.Name+":priority", "-", err.Error())
			continue
		}
		sub7 := &Ctx{V1: c.V1, V2: c.V2, Tier: c.Tier, R: NewReport("tmp", c.Tier)}
		c07waitZero(sub7, sr)
		for _, o := range sub7.R.Obls {
			r.Check(o.OK, "H7", o.Key, o.Site, o.Detail, o.Detail)
		}
	}
}

func c20prog(c *Ctx, p *Prog) {
	r := c.R
	ci := p.Contexts()
	ai := p.alias()
	for _, fn := range p.Funcs() {
		r.Funcs[p.FnKey(fn)] = true
	}
	discs := p.Discs()
	want := map[string]int{"v1": 3, "v2": 5}[p.Name]
	if len(discs) < want {
		r.Fail("H0", p.Name+":discs", "-", fmt.Sprintf("UNRESOLVED-ANCHOR: found %d discipline structs (structs owning a go statement), expected at least %d", len(discs), want))
	}
	discByNamed := map[*types.Named]*Disc{}
	for _, d := range discs {
		discByNamed[d.Named] = d
		ok := len(d.Ctors) > 0 && len(d.Gos) > 0
		r.Check(ok, "H0", p.Name+":"+d.Name, p.Pos(d.Named.Obj().Pos()),
			fmt.Sprintf("ctors=%d goroutines=%d api=%d", len(d.Ctors), len(d.Gos), len(d.API)),
			"UNRESOLVED-ANCHOR: discipline struct without exported constructor or goroutine")
	}
	// every go statement must belong to a discipline struct (new kinds are UNDECIDED)
	for _, e := range p.GoEntries() {
		if e.Recv == nil || discByNamed[e.Recv] == nil || e.Entry == nil {
			r.Fail("H0", p.Name+":go@"+p.FnKey(e.Stmt.Parent()), p.InstrPos(e.Stmt), "UNDECIDED: go statement whose target is not a method of a discipline struct")
		}
	}

	// ---- collect accesses
	acc := map[*Disc]map[string][]*fieldAccess{}
	addAcc := func(d *Disc, a *fieldAccess) {
		a.ctxs = ci.Of(a.in)
		top := strings.SplitN(a.path, ".", 2)[0]
		if acc[d] == nil {
			acc[d] = map[string][]*fieldAccess{}
		}
		acc[d][top] = append(acc[d][top], a)
	}
	depthOf := map[ssa.Value]int{}
	var classify func(d *Disc, fn *ssa.Function, addr ssa.Value, path string, ftype types.Type)
	classify = func(d *Disc, fn *ssa.Function, addr ssa.Value, path string, ftype types.Type) {
		refs := addr.Referrers()
		if refs == nil {
			return
		}
		for _, ref := range *refs {
			switch x := ref.(type) {
			case *ssa.UnOp:
				if x.Op == token.MUL {
					addAcc(d, &fieldAccess{path: path, kind: "read", in: x, fn: fn, ftype: ftype})
					if hasSharedContent(ftype) {
						addAcc(d, &fieldAccess{path: path, kind: "cread", in: x, fn: fn, ftype: ftype, how: "loads the map/slice"})
					}
				}
			case *ssa.Store:
				if x.Addr == addr {
					addAcc(d, &fieldAccess{path: path, kind: "write", in: x, fn: fn, ftype: ftype})
				} else {
					addAcc(d, &fieldAccess{path: path, kind: "escape", in: x, fn: fn, ftype: ftype, how: "address stored"})
				}
			case *ssa.FieldAddr:
				classify(d, fn, x, path+"."+fieldName(x.X.Type(), x.Field), x.Type().(*types.Pointer).Elem())
			case *ssa.DebugRef:
			case *ssa.Call, *ssa.Defer:
				// the address handed to a product function (a pointer-receiver method of a wrapper type),
				// called or deferred: what that function does through its parameter is done to the field
				ci := ref.(ssa.CallInstruction)
				followed := false
				if cal := p.Callee(ci); cal != nil && p.IsProduct(cal) && depthOf[addr] < 3 {
					for i, a := range ci.Common().Args {
						if a == addr && i < len(cal.Params) {
							depthOf[cal.Params[i]] = depthOf[addr] + 1
							classify(d, cal, cal.Params[i], path, ftype)
							followed = true
						}
					}
				}
				if !followed {
					addAcc(d, &fieldAccess{path: path, kind: "escape", in: ci, fn: fn, ftype: ftype, how: "address of the field escapes"})
				}
			default:
				if in, ok := ref.(ssa.Instruction); ok {
					addAcc(d, &fieldAccess{path: path, kind: "escape", in: in, fn: fn, ftype: ftype, how: "address of the field escapes"})
				}
			}
		}
	}
	for _, fn := range p.Funcs() {
		for _, b := range fn.Blocks {
			for _, in := range b.Instrs {
				switch x := in.(type) {
				case *ssa.FieldAddr:
					if d := discByNamed[namedOrigin(x.X.Type())]; d != nil {
						classify(d, fn, x, fieldName(x.X.Type(), x.Field), x.Type().(*types.Pointer).Elem())
					}
				case *ssa.Field:
					if d := discByNamed[namedOrigin(x.X.Type())]; d != nil {
						addAcc(d, &fieldAccess{path: fieldName(x.X.Type(), x.Field), kind: "read", in: x, fn: fn, ftype: x.Type()})
					}
				}
			}
		}
		for _, w := range ai.contentWritesIn(fn) {
			for _, root := range ai.Roots(w.Target) {
				if root.Kind != "fieldload" {
					continue
				}
				parts := strings.SplitN(root.Path, ".", 2)
				for _, d := range discs {
					if d.Named.Obj().Name() == parts[0] && namedOrigin(baseTypeOfLoad(root.V)) == d.Named {
						addAcc(d, &fieldAccess{path: parts[1], kind: "cwrite", in: w.In, fn: fn, how: w.How, ftype: root.V.Type()})
					}
				}
			}
		}
	}

	// ---- H1 per field
	for _, d := range discs {
		for _, f := range d.Fields() {
			as := acc[d][f.Name()]
			key := p.Name + ":" + d.Name + "#" + f.Name()
			site := p.Pos(f.Pos())
			var problems []string
			nowhere := 0
			for _, a := range as {
				if len(a.ctxs) == 0 {
					nowhere++
				}
				if a.kind == "escape" {
					problems = append(problems, fmt.Sprintf("UNDECIDED: %s at %s in %s", a.how, p.InstrPos(a.in), p.FnKey(a.fn)))
				}
			}
			var writeCtx, allCtx = map[string]bool{}, map[string]bool{}
			for _, w := range as {
				if w.kind != "write" && w.kind != "cwrite" {
					continue
				}
				if w.kind == "cwrite" && !hasSharedContent(w.ftype) {
					continue
				}
				for _, wc := range w.ctxs {
					writeCtx[wc] = true
				}
				for _, a := range as {
					// header writes conflict with header accesses; content writes with content accesses
					hdrW := w.kind == "write"
					hdrA := a.kind == "read" || a.kind == "write"
					if hdrW != hdrA {
						continue
					}
					for _, wc := range w.ctxs {
						for _, ac := range a.ctxs {
							if ci.concurrent(wc, ac, w == a) {
								problems = append(problems, fmt.Sprintf("%s of %s.%s at %s (%s) in context %s is concurrent with %s at %s (%s) in context %s",
									kindWord(w.kind), d.Name, w.path, p.InstrPos(w.in), shortFn(p, w.fn), shortCtx(wc),
									kindWord(a.kind), p.InstrPos(a.in), shortFn(p, a.fn), shortCtx(ac)))
							}
						}
					}
				}
			}
			for _, a := range as {
				for _, x := range a.ctxs {
					allCtx[x] = true
				}
			}
			class := classifyField(writeCtx, allCtx)
			problems = dedup(problems)
			if len(problems) > 3 {
				problems = append(problems[:3], fmt.Sprintf("... and %d more", len(problems)-3))
			}
			detail := fmt.Sprintf("class=%s accesses=%d writers=%s", class, len(as), strings.Join(shortCtxs(writeCtx), ","))
			if len(problems) > 0 {
				r.Fail("H1", key, site, strings.Join(problems, "; "))
			} else {
				r.Pass("H1", key, site, detail)
			}
		}
	}

	// ---- H3 globals
	for rel := range p.Product {
		sp := p.ByRel[rel]
		var names []string
		for n, m := range sp.Members {
			if _, ok := m.(*ssa.Global); ok && !strings.HasPrefix(n, "init$") {
				names = append(names, n)
			}
		}
		sort.Strings(names)
		for _, n := range names {
			g := sp.Members[n].(*ssa.Global)
			var bad []string
			for _, fn := range p.Funcs() {
				if fn.Synthetic == "package initializer" || fn.Name() == "init" {
					continue
				}
				for _, b := range fn.Blocks {
					for _, in := range b.Instrs {
						if st, ok := in.(*ssa.Store); ok && baseOf(st.Addr) == ssa.Value(g) {
							bad = append(bad, fmt.Sprintf("written at %s in %s", p.InstrPos(in), p.FnKey(fn)))
						}
					}
				}
				for _, w := range ai.contentWritesIn(fn) {
					for _, root := range ai.Roots(w.Target) {
						if root.Kind == "global" && root.V == ssa.Value(g) {
							bad = append(bad, fmt.Sprintf("content mutated (%s) at %s in %s", w.How, p.InstrPos(w.In), p.FnKey(fn)))
						}
					}
				}
				// the address of the variable (or of a part of it) handed to a call: a method with a
				// pointer receiver may write it (operands.quantity.SetUint64(q)); only the types of
				// package sync are made for that
				for _, b := range fn.Blocks {
					for _, in := range b.Instrs {
						call, ok := in.(ssa.CallInstruction)
						if !ok {
							continue
						}
						for _, a := range call.Common().Args {
							if _, isPtr := a.Type().Underlying().(*types.Pointer); !isPtr || baseOf(a) != ssa.Value(g) {
								continue
							}
							if _, isLoad := a.(*ssa.UnOp); isLoad {
								continue
							}
							elem := a.Type().Underlying().(*types.Pointer).Elem()
							if nt, isN := elem.(*types.Named); isN && nt.Obj().Pkg() != nil && (nt.Obj().Pkg().Path() == "sync" || nt.Obj().Pkg().Path() == "sync/atomic") {
								// (a sync.Pool hands objects out to its callers: the pool itself is safe,
								// an object that is still used after it was put back is shared with
								// whoever gets it next)
								if nt.Obj().Name() == "Pool" && callee0(p, call) == "(*sync.Pool).Put" {
									if use := usedAfterPut(call); use != nil {
										bad = append(bad, fmt.Sprintf("an object is put back into the pool at %s and still used at %s in %s (concurrent callers get the same object and race on it)", p.InstrPos(in), p.InstrPos(use), p.FnKey(fn)))
									}
								}
								continue
							}
							bad = append(bad, fmt.Sprintf("its address is handed to %s at %s in %s (shared mutable state: concurrent callers race on it)", p.calleeName(call.Common()), p.InstrPos(in), p.FnKey(fn)))
						}
					}
				}
			}
			r.Check(len(bad) == 0, "H3", p.Name+":"+rel+"."+n, p.Pos(g.Pos()), "written only by init", strings.Join(bad, "; "))
		}
	}

	// ---- H4a Opts.Inputs loads
	for _, fn := range p.Funcs() {
		idx := 0
		for _, b := range fn.Blocks {
			for _, in := range b.Instrs {
				var name string
				var t types.Type
				switch x := in.(type) {
				case *ssa.FieldAddr:
					name, t = fieldName(x.X.Type(), x.Field), x.Type().(*types.Pointer).Elem()
				case *ssa.Field:
					name, t = fieldName(x.X.Type(), x.Field), x.Type()
				default:
					continue
				}
				if name != "Inputs" {
					continue
				}
				if _, ok := t.Underlying().(*types.Map); !ok {
					continue
				}
				idx++
				ctxs := ci.Of(in)
				ok := len(ctxs) > 0
				var bad []string
				for _, x := range ctxs {
					if !strings.HasPrefix(x, "CT:") {
						ok = false
						bad = append(bad, shortCtx(x))
					}
				}
				r.Check(ok, "H4a", fmt.Sprintf("%s#Inputs.%d", p.FnKey(fn), idx), p.InstrPos(in),
					"constructor context only", "user-supplied Inputs map accessed outside constructor context: "+strings.Join(bad, ","))
			}
		}
	}

	// ---- H4b exported functions
	for _, fn := range p.Funcs() {
		if fn.Parent() != nil {
			continue
		}
		obj, _ := fn.Object().(*types.Func)
		if obj == nil || !obj.Exported() {
			continue
		}
		rel, _ := p.Rel(fn)
		if strings.Contains("/"+rel+"/", "/internal/") {
			continue
		}
		cw := ai.ContentWriteParams(fn)
		var bad []string
		for i := range cw {
			par := fn.Params[i]
			if fn.Signature.Recv() != nil && i == 0 {
				if namedOrigin(par.Type()) != nil && discByNamed[namedOrigin(par.Type())] != nil {
					continue // receiver's own fields: covered by H1
				}
			}
			if isDividerSig(fn.Signature) && par.Name() == fn.Params[len(fn.Params)-1].Name() && i == 2 {
				continue // divider contract: writes its distribution argument
			}
			var where []string
			for _, w := range ai.contentWritesIn(fn) {
				for _, root := range ai.Roots(w.Target) {
					if root.Kind == "param" && root.Idx == i {
						where = append(where, fmt.Sprintf("%s at %s", w.How, p.InstrPos(w.In)))
					}
				}
			}
			bad = append(bad, fmt.Sprintf("mutates caller-owned parameter %q (%s)", par.Name(), strings.Join(where, "; ")))
		}
		sort.Strings(bad)
		r.Check(len(bad) == 0, "H4b", p.FnKey(fn), p.Pos(fn.Pos()), "mutates only own allocations", strings.Join(bad, "; "))
	}
}

func isDividerSig(sig *types.Signature) bool {
	if sig.Recv() != nil || sig.Params().Len() != 3 {
		return false
	}
	_, ok1 := sig.Params().At(0).Type().Underlying().(*types.Slice)
	_, ok3 := sig.Params().At(2).Type().Underlying().(*types.Map)
	return ok1 && ok3
}

func baseTypeOfLoad(v ssa.Value) types.Type {
	u, ok := v.(*ssa.UnOp)
	if !ok {
		return v.Type()
	}
	root, _, _, ok := fieldPathOf(u.X)
	if !ok || root == nil {
		return v.Type()
	}
	return root.Type()
}

func kindWord(k string) string {
	switch k {
	case "write":
		return "write"
	case "cwrite":
		return "content write"
	case "cread":
		return "content read"
	case "read":
		return "read"
	}
	return k
}

func shortFn(p *Prog, fn *ssa.Function) string { return strings.TrimPrefix(p.FnKey(fn), p.Name+":") }

func shortCtx(c string) string {
	if strings.HasPrefix(c, "CT:") {
		i := strings.Index(c, "|")
		sp := c[i+1:]
		if sp == "" {
			return "ctor(before any go)"
		}
		return "ctor(after go " + sp + ")"
	}
	return c
}

func shortCtxs(m map[string]bool) []string {
	s := map[string]bool{}
	for c := range m {
		s[shortCtx(c)] = true
	}
	return sortedKeys(s)
}

func classifyField(w, all map[string]bool) string {
	onlyCT := true
	g := map[string]bool{}
	for c := range w {
		if !strings.HasPrefix(c, "CT:") {
			onlyCT = false
		}
		if strings.HasPrefix(c, "G:") {
			g[c] = true
		}
	}
	if onlyCT {
		return "immutable-after-spawn"
	}
	if len(g) == 1 {
		return "scheduler-confined(" + sortedKeys(g)[0] + ")"
	}
	return "shared"
}

func dedup(xs []string) []string {
	m := map[string]bool{}
	var out []string
	for _, x := range xs {
		if !m[x] {
			m[x] = true
			out = append(out, x)
		}
	}
	return out
}

// checkPointerReceivers (C20/H10, C08/K6): every method of the selected discipline structs has a
// pointer receiver. A value receiver works on a copy of the struct: the copy is an unsynchronised
// read of every field (H10), and whatever the method records - `unreleased = true` - is lost (K6).
func checkPointerReceivers(c *Ctx, p *Prog, rule string, sel func(*Disc) bool) {
	for _, d := range p.Discs() {
		if !sel(d) {
			continue
		}
		for i := 0; i < d.Named.NumMethods(); i++ {
			m := d.Named.Method(i)
			sig, _ := m.Type().(*types.Signature)
			if sig == nil || sig.Recv() == nil {
				continue
			}
			_, isPtr := sig.Recv().Type().(*types.Pointer)
			c.R.Check(isPtr, rule, p.Name+":"+d.Name+"."+m.Name()+"#receiver", p.Pos(m.Pos()), "pointer receiver", "method "+m.Name()+" of "+d.Name+" has a value receiver: every call copies the whole struct (an unsynchronised read of every field the goroutine writes), and what the method stores into the copy - a flag, the buffer - is lost")
		}
	}
}

func callee0(p *Prog, call ssa.CallInstruction) string {
	if cal := p.Callee(call); cal != nil {
		return p.funcDisplay(cal)
	}
	return ""
}

// usedAfterPut: put is a (non-deferred) pool.Put(x); returns an instruction that uses x (or what
// x was asserted / converted from) and can execute after the Put.
func usedAfterPut(put ssa.CallInstruction) ssa.Instruction {
	if _, isDefer := put.(*ssa.Defer); isDefer {
		return nil
	}
	args := put.Common().Args
	if len(args) < 2 {
		return nil
	}
	// the object and its aliases: through MakeInterface / TypeAssert / ChangeType / phi-free chains
	roots := map[ssa.Value]bool{}
	var add func(v ssa.Value, depth int)
	add = func(v ssa.Value, depth int) {
		if v == nil || roots[v] || depth > 6 {
			return
		}
		roots[v] = true
		switch x := v.(type) {
		case *ssa.MakeInterface:
			add(x.X, depth+1)
		case *ssa.TypeAssert:
			add(x.X, depth+1)
		case *ssa.ChangeType:
			add(x.X, depth+1)
		case *ssa.Extract:
			add(x.Tuple, depth+1)
		}
		if refs := v.Referrers(); refs != nil {
			for _, r := range *refs {
				switch y := r.(type) {
				case *ssa.TypeAssert:
					add(y, depth+1)
				case *ssa.MakeInterface:
					add(y, depth+1)
				case *ssa.ChangeType:
					add(y, depth+1)
				case *ssa.Extract:
					add(y, depth+1)
				}
			}
		}
	}
	add(args[1], 0)
	for v := range roots {
		refs := v.Referrers()
		if refs == nil {
			continue
		}
		for _, r := range *refs {
			if r == ssa.Instruction(put) {
				continue
			}
			if _, isDbg := r.(*ssa.DebugRef); isDbg {
				continue
			}
			if rv, isV := r.(ssa.Value); isV && roots[rv] {
				continue // an alias step, judged by its own uses
			}
			if instrReachableFrom(put, r) {
				return r
			}
		}
	}
	return nil
}
