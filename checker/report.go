package main

import (
	"encoding/json"
	"fmt"
	"os"
	"path/filepath"
	"regexp"
	"sort"
	"strings"
	"time"
)

// Obligation is one rule instance, keyed by rule + construct (never by line).
type Obligation struct {
	Rule   string `json:"rule"`
	Key    string `json:"key"` // <rule>@<prog>:<pkg>.<func>[#construct]
	Site   string `json:"site"`
	OK     bool   `json:"ok"`
	Detail string `json:"detail,omitempty"`
	Known  bool   `json:"known_finding,omitempty"`
}

type Report struct {
	Property string
	Tier     string
	Obls     []*Obligation
	// minimal instance counts per rule (vacuity guard)
	MinCount map[string]int
	Notes    []string
	// rule descriptions
	RuleDoc map[string]string
	Funcs   map[string]bool
	Configs []string
	Fatal   []string
}

func NewReport(prop, tier string) *Report {
	return &Report{Property: prop, Tier: tier, MinCount: map[string]int{}, RuleDoc: map[string]string{}, Funcs: map[string]bool{}}
}

func (r *Report) Doc(rule, doc string, min int) {
	r.RuleDoc[rule] = doc
	if min > r.MinCount[rule] {
		r.MinCount[rule] = min
	}
	if _, ok := r.MinCount[rule]; !ok {
		r.MinCount[rule] = min
	}
}

func (r *Report) add(rule, key, site string, ok bool, detail string) *Obligation {
	full := rule + "@" + key
	for _, o := range r.Obls {
		if o.Key == full {
			// same construct seen again (e.g. other path / config): keep the worst verdict
			if !ok && o.OK {
				o.OK = false
				o.Detail = detail
				o.Site = site
			}
			return o
		}
	}
	o := &Obligation{Rule: rule, Key: full, Site: site, OK: ok, Detail: detail}
	r.Obls = append(r.Obls, o)
	return o
}

func (r *Report) Pass(rule, key, site, detail string) { r.add(rule, key, site, true, detail) }
func (r *Report) Fail(rule, key, site, detail string) { r.add(rule, key, site, false, detail) }
func (r *Report) Check(cond bool, rule, key, site, okDetail, failDetail string) bool {
	if cond {
		r.Pass(rule, key, site, okDetail)
	} else {
		r.Fail(rule, key, site, failDetail)
	}
	return cond
}

// Fatalf records a failure that is not tied to a rule instance (load error, unresolved anchor).
func (r *Report) Fatalf(format string, a ...any) {
	r.Fatal = append(r.Fatal, fmt.Sprintf(format, a...))
}

type KnownFinding struct {
	Property string `json:"property"`
	Key      string `json:"key"`
	What     string `json:"what"`
}

type KnownFile struct {
	Findings []KnownFinding `json:"findings"`
	Fixed    []string       `json:"fixed"`
}

func loadKnown(path string) (*KnownFile, error) {
	kf := &KnownFile{}
	b, err := os.ReadFile(path)
	if err != nil {
		if os.IsNotExist(err) {
			return kf, nil
		}
		return nil, err
	}
	if err := json.Unmarshal(b, kf); err != nil {
		return nil, err
	}
	return kf, nil
}

// Finish applies vacuity guards and known findings, prints the outcome, writes evidence
// and returns the process exit code.
func (r *Report) Finish(known *KnownFile, evidencePath, replayDir string, started time.Time, explanation string, assumptions []string, notDecided []string) int {
	// vacuity guards
	count := map[string]int{}
	for _, o := range r.Obls {
		count[o.Rule]++
	}
	var rules []string
	for rule := range r.MinCount {
		rules = append(rules, rule)
	}
	sort.Strings(rules)
	// The guard is against a rule that silently matches (almost) nothing, not against a
	// code base that legitimately shrinks a little: it fires below 60% of the hand-confirmed count.
	need := func(rule string) int {
		m := r.MinCount[rule]
		if m <= 1 {
			return m
		}
		return (m*3 + 4) / 5
	}
	for _, rule := range rules {
		if count[rule] < need(rule) {
			r.Fail(rule, "vacuity", "-", fmt.Sprintf("VACUOUS: rule matched %d instances, hand-confirmed count is %d, guard threshold %d (anchor moved or rule no longer recognises the idiom)", count[rule], r.MinCount[rule], need(rule)))
		}
	}
	sort.SliceStable(r.Obls, func(i, j int) bool { return r.Obls[i].Key < r.Obls[j].Key })
	var viol []*Obligation
	knownHit := 0
	for _, o := range r.Obls {
		if o.OK {
			continue
		}
		matched := false
		for _, k := range known.Findings {
			if k.Property == r.Property && k.Key == o.Key {
				fmt.Printf("KNOWN-FINDING: property=%s %s [%s at %s]\n", r.Property, k.What, o.Key, o.Site)
				o.Known = true
				matched = true
				knownHit++
			}
		}
		if !matched {
			viol = append(viol, o)
		}
	}
	discharged := 0
	for _, o := range r.Obls {
		if o.OK {
			discharged++
		}
	}
	nviol := len(viol) + len(r.Fatal)
	// console
	fmt.Printf("property %s tier=%s: %d obligations, %d discharged, %d known findings, %d violations; %d functions analysed; configs: %s\n",
		r.Property, r.Tier, len(r.Obls), discharged, knownHit, nviol, len(r.Funcs), strings.Join(r.Configs, "; "))
	for _, rule := range rules {
		fmt.Printf("  rule %-4s instances=%-3d min=%-2d %s\n", rule, count[rule], r.MinCount[rule], r.RuleDoc[rule])
	}
	var replay strings.Builder
	for _, m := range r.Fatal {
		fmt.Printf("%s/FATAL %s\n", r.Property, m)
		fmt.Fprintf(&replay, "FATAL %s\n", m)
	}
	for _, o := range viol {
		fmt.Printf("%s/%s %s %s\n       %s\n", r.Property, o.Rule, o.Site, o.Key, o.Detail)
		fmt.Fprintf(&replay, "%s/%s %s %s\n  %s\n  rule: %s\n", r.Property, o.Rule, o.Site, o.Key, o.Detail, r.RuleDoc[o.Rule])
	}
	// evidence
	type sample struct {
		Rule   string `json:"rule"`
		Key    string `json:"key"`
		Site   string `json:"site"`
		Status string `json:"status"`
		Detail string `json:"detail,omitempty"`
	}
	var samples []sample
	for _, o := range r.Obls {
		st := "discharged"
		if !o.OK {
			st = "VIOLATION"
			if o.Known {
				st = "known-finding"
			}
		}
		samples = append(samples, sample{o.Rule, o.Key, o.Site, st, o.Detail})
	}
	var fns []string
	for f := range r.Funcs {
		fns = append(fns, f)
	}
	sort.Strings(fns)
	ruleTable := map[string]any{}
	for _, rule := range rules {
		ruleTable[rule] = map[string]any{"doc": r.RuleDoc[rule], "instances": count[rule], "min_instances": r.MinCount[rule]}
	}
	// rules added after the explanation was written: named here so that the text stays a complete
	// account of what was applied (their wording is in the rule table)
	var later []string
	for _, rule := range rules {
		if !regexp.MustCompile(`\b` + regexp.QuoteMeta(rule) + `\b`).MatchString(explanation) {
			later = append(later, rule+" "+r.RuleDoc[rule])
		}
	}
	if len(later) > 0 {
		explanation += " Further rules applied (see the rule table): " + strings.Join(later, "; ") + "."
	}
	seed := 0
	fmt.Sscanf(os.Getenv("VERIF_SEED"), "%d", &seed)
	ev := map[string]any{
		"property_id": r.Property,
		"tier":        r.Tier,
		"seed":        seed,
		"level":       "other",
		"coverage": map[string]any{
			"explanation":        explanation,
			"obligations":        len(r.Obls),
			"discharged":         discharged,
			"known_findings":     knownHit,
			"rules":              ruleTable,
			"samples":            samples,
			"functions_analysed": fns,
			"build_configs":      r.Configs,
			"not_decided":        notDecided,
			"notes":              r.Notes,
			"checker_cmd":        "cqoscheck -property " + r.Property + " -tier " + r.Tier,
			"exhaustive":         true,
		},
		"assumptions": assumptions,
		"wall_s":      time.Since(started).Seconds(),
		"violations":  nviol,
	}
	if evidencePath != "" {
		os.MkdirAll(filepath.Dir(evidencePath), 0o755)
		b, _ := json.MarshalIndent(ev, "", " ")
		if err := os.WriteFile(evidencePath, b, 0o644); err != nil {
			fmt.Printf("cannot write evidence: %v\n", err)
			return 2
		}
	}
	if nviol > 0 {
		os.MkdirAll(replayDir, 0o755)
		rp := filepath.Join(replayDir, r.Property+".txt")
		fmt.Fprintf(&replay, "\nreproduce: cd /verif && ./run.sh %s %s\n", r.Property, r.Tier)
		os.WriteFile(rp, []byte(replay.String()), 0o644)
		fmt.Printf("VIOLATION property=%s replay=%s\n", r.Property, rp)
		return 1
	}
	return 0
}
