package main

import (
	"fmt"
	"go/token"
	"go/types"
	"os"

	"golang.org/x/tools/go/ssa"
)

// Derived fields: a private field of a discipline struct that is stored exactly once, by the
// constructor, with a pure function of the options the constructor also stores (for example
// `joinSize: int(opts.JoinSize)` next to `opts: opts`), merely caches that expression. A load of
// such a field denotes the expression with the stored options in place of the constructor's
// local, so that hoisting a conversion or an option into a field does not change what the rules
// see. A field with any other store, an escaping address, or an impure initialiser is left alone.

type derivedKey struct {
	named *types.Named
	idx   int
}

func (p *Prog) derivedTemplates() map[derivedKey]*Sym {
	switch p.derivedState {
	case 0:
		p.derivedState = 1 // being computed: loads met meanwhile are not expanded
		p.derivedTmpl = p.computeDerived()
		p.derivedState = 2
	case 1:
		return nil
	}
	return p.derivedTmpl
}

func (p *Prog) computeDerived() map[derivedKey]*Sym {
	out := map[derivedKey]*Sym{}
	p.derivedVirtual = map[*types.Named]*Sym{}
	type use struct {
		stores  []*ssa.Store
		escapes bool
	}
	uses := map[derivedKey]*use{}
	for _, fn := range p.Funcs() {
		for _, b := range fn.Blocks {
			for _, in := range b.Instrs {
				fa, ok := in.(*ssa.FieldAddr)
				if !ok {
					continue
				}
				named := namedOrigin(fa.X.Type())
				if named == nil {
					continue
				}
				k := derivedKey{named, fa.Field}
				u := uses[k]
				if u == nil {
					u = &use{}
					uses[k] = u
				}
				var scan func(addr ssa.Value, top bool)
				scan = func(addr ssa.Value, top bool) {
					for _, ref := range *addr.Referrers() {
						switch r := ref.(type) {
						case *ssa.UnOp:
							if r.Op != token.MUL {
								u.escapes = true
							}
						case *ssa.Store:
							if r.Addr == addr && top {
								u.stores = append(u.stores, r)
							} else {
								u.escapes = true
							}
						case *ssa.FieldAddr:
							if r.X == addr {
								scan(r, false) // a sub-field that is only read
							} else {
								u.escapes = true
							}
						case *ssa.DebugRef:
						default:
							u.escapes = true
						}
					}
				}
				scan(fa, true)
			}
		}
	}
	for _, d := range p.Discs() {
		if len(d.Ctors) != 1 {
			continue
		}
		ctor := d.Ctors[0]
		st, ok := d.Named.Underlying().(*types.Struct)
		if !ok {
			continue
		}
		// the options value the constructor stores
		var optsSym *Sym
		var lit *ssa.Alloc
		for i := 0; i < st.NumFields(); i++ {
			if fieldName(types.NewPointer(d.Named), i) != "opts" {
				continue
			}
			u := uses[derivedKey{d.Named, i}]
			if u == nil || u.escapes || len(u.stores) != 1 || u.stores[0].Parent() != ctor {
				continue
			}
			fa := u.stores[0].Addr.(*ssa.FieldAddr)
			al, isAl := fa.X.(*ssa.Alloc)
			if !isAl {
				continue
			}
			optsSym, lit = p.Sym(u.stores[0].Val), al
		}
		optsStr := ""
		hasOptsField := false
		for i := 0; i < st.NumFields(); i++ {
			if fieldName(types.NewPointer(d.Named), i) == "opts" {
				hasOptsField = true
			}
		}
		if optsSym != nil {
			optsStr = optsSym.String()
		} else if hasOptsField {
			continue
		} else {
			// no options field at all: the struct keeps only the options it needs; they are read
			// as fields of virtual options, provided the constructor has one struct parameter
			if len(ctor.Params) != 1 {
				continue
			}
			if _, isSt := ctor.Params[0].Type().Underlying().(*types.Struct); !isSt {
				continue
			}
			for _, b := range ctor.Blocks {
				for _, in := range b.Instrs {
					if al, isAl := in.(*ssa.Alloc); isAl && al.Heap && namedOrigin(al.Type()) == d.Named {
						if lit != nil {
							lit = nil
							break
						}
						lit = al
					}
				}
			}
			if lit == nil {
				continue
			}
		}
		// isOptions: the constructor's options parameter, or what a normaliser (a product method
		// from the options type to itself) makes of it
		var isOptions func(s *Sym, depth int) bool
		isOptions = func(s *Sym, depth int) bool {
			if s == nil || depth > 3 {
				return false
			}
			if s.Op == "param" {
				return s.V == ssa.Value(ctor.Params[0])
			}
			if par := spilledParamOf(s); par != nil {
				return par == ctor.Params[0]
			}
			if s.Op == "un" && s.Name == "*" && len(s.Args) == 1 {
				return false
			}
			if s.Op == "call" {
				call, ok := s.V.(*ssa.Call)
				if !ok {
					return false
				}
				cal := p.Callee(call)
				if cal == nil || !p.IsProduct(cal) || cal.Signature.Recv() == nil || cal.Signature.Results().Len() != 1 || len(s.Args) != 1 {
					return false
				}
				if !types.Identical(cal.Signature.Recv().Type(), cal.Signature.Results().At(0).Type()) {
					return false
				}
				return isOptions(s.Args[0], depth+1)
			}
			return false
		}
		virtualStr := ""
		// the fields of the struct and of the private structs it nests to group them (canon.go)
		type cand struct {
			named *types.Named
			st    *types.Struct
			idx   int
		}
		var cands []cand
		for i := 0; i < st.NumFields(); i++ {
			if isHolderField(types.NewPointer(d.Named), i) {
				if nn, isNamed := st.Field(i).Type().(*types.Named); isNamed {
					if nst, isSt := nn.Underlying().(*types.Struct); isSt {
						for j := 0; j < nst.NumFields(); j++ {
							cands = append(cands, cand{nn.Origin(), nst, j})
						}
					}
				}
				continue
			}
			cands = append(cands, cand{d.Named, st, i})
		}
		for _, cd := range cands {
			i := cd.idx
			if cd.st.Field(i).Exported() || fieldName(types.NewPointer(cd.named), i) == "opts" {
				continue
			}
			k := derivedKey{cd.named, i}
			u := uses[k]
			if u == nil || u.escapes || len(u.stores) != 1 || u.stores[0].Parent() != ctor {
				continue
			}
			{
				// stored into the literal (directly or into a nested grouping struct of it)
				base := u.stores[0].Addr.(*ssa.FieldAddr).X
				for {
					inner, isFA := base.(*ssa.FieldAddr)
					if !isFA {
						break
					}
					base = inner.X
				}
				if base != ssa.Value(lit) {
					continue
				}
			}
			pure := true
			usesOpts := false
			var conv func(s *Sym) *Sym
			conv = func(s *Sym) *Sym {
				if s == nil {
					pure = false
					return nil
				}
				if optsStr != "" && s.String() == optsStr {
					usesOpts = true
					return &Sym{Op: "field", Name: "opts", Args: []*Sym{{Op: "hole"}}}
				}
				if optsStr == "" && len(ctor.Params) == 1 && isOptions(s, 0) {
					// every derived field must read the same version of the options
					if virtualStr == "" {
						virtualStr = s.String()
						p.derivedVirtual[d.Named] = s
					}
					if s.String() == virtualStr {
						usesOpts = true
						return &Sym{Op: "field", Name: "opts", Args: []*Sym{{Op: "hole"}}}
					}
					pure = false
					return s
				}
				switch s.Op {
				case "const":
					return s
				case "conv", "bin", "field":
				case "call":
					if s.Name != "len" && s.Name != "cap" && s.Name != "min" && s.Name != "max" {
						pure = false
						return s
					}
				case "un":
					if s.Name == "*" {
						pure = false
						return s
					}
				default:
					pure = false
					return s
				}
				n := *s
				n.V = nil
				n.Args = make([]*Sym, len(s.Args))
				for j, a := range s.Args {
					n.Args[j] = conv(a)
				}
				return &n
			}
			t := conv(p.Sym(u.stores[0].Val))
			if os.Getenv("DERIVED_DEBUG") != "" {
				fmt.Println("derived-debug:", d.Name, st.Field(i).Name(), pure, usesOpts, p.Sym(u.stores[0].Val))
			}
			if pure && usesOpts {
				out[k] = t
			}
		}
	}
	return out
}

func fillHole(t, base *Sym) *Sym {
	if t == nil {
		return nil
	}
	if t.Op == "hole" {
		return base
	}
	if len(t.Args) == 0 {
		return t
	}
	n := *t
	n.Args = make([]*Sym, len(t.Args))
	for i, a := range t.Args {
		n.Args[i] = fillHole(a, base)
	}
	return &n
}

// derivedLoad: the expression a load through fa denotes when fa addresses a derived field.
func (p *Prog) derivedLoad(fa *ssa.FieldAddr) *Sym {
	named := namedOrigin(fa.X.Type())
	if named == nil {
		return nil
	}
	if fa.Parent() != nil {
		// inside the constructor the literal is still being built
		base := fa.X
		for {
			inner, isFA := base.(*ssa.FieldAddr)
			if !isFA {
				break
			}
			base = inner.X
		}
		if _, isAl := base.(*ssa.Alloc); isAl {
			return nil
		}
	}
	t := p.derivedTemplates()[derivedKey{named, fa.Field}]
	if t == nil {
		return nil
	}
	return fillHole(t, p.Sym(fa.X))
}

func (p *Prog) derivedNotes() []string {
	var out []string
	for k, t := range p.derivedTemplates() {
		st := k.named.Underlying().(*types.Struct)
		out = append(out, p.Name+": "+k.named.Obj().Name()+"."+st.Field(k.idx).Name()+" caches "+fillHole(t, &Sym{Op: "param", Name: "<struct>"}).String())
	}
	return out
}

// virtualOptions: for a discipline struct without an options field whose fields cache single
// options, the version of the constructor's options they were read from (nil if none).
func (p *Prog) virtualOptions(named *types.Named) *Sym {
	has := false
	for k := range p.derivedTemplates() {
		if k.named == named {
			has = true
		}
	}
	if !has {
		return nil
	}
	return p.derivedVirtual[named]
}

// Entry parameters: a value the constructor hands to the goroutine as an argument of the go
// statement (`go dsc.main(interval)`) instead of storing it in a field plays the role of the field
// the vocabulary knows it by, when the struct has no such field and exactly one missing role has the
// parameter's type. The parameter then reads as that (virtual) field of the receiver.

type entryParamInfo struct {
	role string
	recv *ssa.Parameter
}

func (p *Prog) entryParams() map[*ssa.Parameter]entryParamInfo {
	if p.entryParamDone {
		return p.entryParamMap
	}
	p.entryParamDone = true
	p.entryParamMap = map[*ssa.Parameter]entryParamInfo{}
	for _, d := range p.Discs() {
		vocab, ok := fieldVocabulary[p.Name+":"+d.Name]
		if !ok {
			continue
		}
		st, isSt := d.Named.Underlying().(*types.Struct)
		if !isSt {
			continue
		}
		present := map[string]bool{}
		for i := 0; i < st.NumFields(); i++ {
			present[fieldName(types.NewPointer(d.Named), i)] = true
		}
		var missing []string
		for _, r := range vocab {
			if !present[r] {
				missing = append(missing, r)
			}
		}
		if len(missing) == 0 {
			continue
		}
		for _, e := range d.Gos {
			if e.Parent != nil || e.Entry == nil || e.Entry.Signature.Recv() == nil || len(e.Entry.Params) < 2 {
				continue
			}
			for _, par := range e.Entry.Params[1:] {
				class := fieldTypeClass(par.Type())
				var roles []string
				for _, r := range missing {
					if roleTypeClass(r) == class {
						roles = append(roles, r)
					}
				}
				if len(roles) == 1 {
					p.entryParamMap[par] = entryParamInfo{role: roles[0], recv: e.Entry.Params[0]}
				}
			}
		}
	}
	return p.entryParamMap
}

// virtualFieldStores: the values the constructor binds to the virtual field `role` (the matching
// arguments of its go statements).
func (p *Prog) virtualFieldStores(fn *ssa.Function, role string) []ssa.Value {
	var out []ssa.Value
	for _, b := range fn.Blocks {
		for _, in := range b.Instrs {
			g, ok := in.(*ssa.Go)
			if !ok {
				continue
			}
			cal := p.Callee(g)
			if cal == nil {
				continue
			}
			for i, par := range cal.Params {
				if info, okp := p.entryParams()[par]; okp && info.role == role && i < len(g.Call.Args) {
					out = append(out, g.Call.Args[i])
				}
			}
		}
	}
	return out
}

// spilledParamOf: s denotes a local to which a parameter was spilled so that its fields can be
// addressed - written once, with the parameter, and otherwise only read; returns that parameter.
func spilledParamOf(s *Sym) *ssa.Parameter {
	al, isAl := s.V.(*ssa.Alloc)
	if !isAl || s.Op != "alloc" || al.Referrers() == nil {
		return nil
	}
	var par *ssa.Parameter
	stores, readOnly := 0, true
	var scanRO func(addr ssa.Value)
	scanRO = func(addr ssa.Value) {
		for _, ref := range *addr.Referrers() {
			switch r := ref.(type) {
			case *ssa.DebugRef:
			case *ssa.UnOp:
				if r.Op != token.MUL {
					readOnly = false
				}
			case *ssa.FieldAddr:
				scanRO(r)
			case *ssa.Store:
				if pp, isPar := r.Val.(*ssa.Parameter); isPar && r.Addr == ssa.Value(al) {
					par = pp
					stores++
				} else {
					readOnly = false
				}
			default:
				readOnly = false
			}
		}
	}
	scanRO(al)
	if readOnly && stores == 1 {
		return par
	}
	return nil
}
