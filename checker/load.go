package main

import (
	"fmt"
	"go/token"
	"go/types"
	"os"
	"path/filepath"
	"sort"
	"strings"

	"golang.org/x/tools/go/packages"
	"golang.org/x/tools/go/ssa"
	"golang.org/x/tools/go/ssa/ssautil"
)

// Prog is one loaded Go module (v1 = /repo, v2 = /repo/v2) as a type-checked SSA program.
type Prog struct {
	Name         string // "v1" or "v2"
	Dir          string
	ModPath      string
	Fset         *token.FileSet
	Pkgs         []*packages.Package
	SSA          *ssa.Program
	ByRel        map[string]*ssa.Package // key: package path relative to module ("priority", "join/unite", ...)
	Product      map[string]bool         // relative paths of product packages
	Config       string                  // build configuration label
	AddedProduct []string                // packages analysed because a product package imports them

	funcsCache []*ssa.Function
	selCache   map[*ssa.Select]*SelInfo
	symCache   map[ssa.Value]*Sym
	aliasCache *aliasInfo
	discCache  []*Disc
	ctxCache   *ctxInfo
	liveCache  map[*ssa.Function]bool

	derivedState   int
	derivedTmpl    map[derivedKey]*Sym
	derivedVirtual map[*types.Named]*Sym
	entryParamDone bool
	entryParamMap  map[*ssa.Parameter]entryParamInfo
}

// product packages per module (DESIGN.md §1). A missing one is a hard failure.
var productPkgs = map[string][]string{
	"v1": {"priority", "priority/internal/common", "join", "join/internal/common", "internal/general"},
	"v2": {"priority", "priority/simple", "priority/divider", "priority/utils", "priority/types",
		"priority/internal/common", "join", "join/unite", "join/defaults", "limit",
		"internal/general", "internal/consts"},
}

type LoadConfig struct {
	Repo   string
	GOARCH string
	Tags   string
}

func (c LoadConfig) Label() string {
	arch := c.GOARCH
	if arch == "" {
		arch = "amd64"
	}
	l := "GOARCH=" + arch
	if c.Tags != "" {
		l += " -tags " + c.Tags
	}
	return l
}

func loadProg(name, dir string, lc LoadConfig) (*Prog, error) {
	env := []string{}
	for _, e := range os.Environ() {
		if strings.HasPrefix(e, "GOWORK=") || strings.HasPrefix(e, "GOFLAGS=") || strings.HasPrefix(e, "GOARCH=") {
			continue
		}
		env = append(env, e)
	}
	env = append(env, "GOWORK=off", "GOFLAGS=-mod=mod", "GOPROXY=off", "GOSUMDB=off", "GOTOOLCHAIN=local")
	if lc.GOARCH != "" {
		env = append(env, "GOARCH="+lc.GOARCH)
	}
	cfg := &packages.Config{
		Mode: packages.NeedName | packages.NeedFiles | packages.NeedCompiledGoFiles | packages.NeedImports |
			packages.NeedDeps | packages.NeedTypes | packages.NeedTypesSizes | packages.NeedSyntax |
			packages.NeedTypesInfo | packages.NeedModule,
		Dir:   dir,
		Env:   env,
		Tests: false,
	}
	if lc.Tags != "" {
		cfg.BuildFlags = []string{"-tags", lc.Tags}
	}
	pkgs, err := packages.Load(cfg, "./...")
	if err != nil {
		return nil, fmt.Errorf("load %s: %w", dir, err)
	}
	if len(pkgs) == 0 {
		return nil, fmt.Errorf("load %s: zero packages", dir)
	}
	var errs []string
	packages.Visit(pkgs, nil, func(p *packages.Package) {
		for _, e := range p.Errors {
			errs = append(errs, e.Error())
		}
	})
	if len(errs) > 0 {
		return nil, fmt.Errorf("load %s: %d type/load errors, first: %s", dir, len(errs), errs[0])
	}
	prog, ssaPkgs := ssautil.AllPackages(pkgs, ssa.BuilderMode(0))
	prog.Build()
	p := &Prog{Name: name, Dir: dir, Fset: pkgs[0].Fset, Pkgs: pkgs, SSA: prog,
		ByRel: map[string]*ssa.Package{}, Product: map[string]bool{}, Config: lc.Label(),
		selCache: map[*ssa.Select]*SelInfo{}, symCache: map[ssa.Value]*Sym{}}
	for i, pk := range pkgs {
		if pk.Module != nil && p.ModPath == "" {
			p.ModPath = pk.Module.Path
		}
		if ssaPkgs[i] == nil {
			return nil, fmt.Errorf("no SSA package for %s", pk.PkgPath)
		}
	}
	if p.ModPath == "" {
		return nil, fmt.Errorf("load %s: module path unknown", dir)
	}
	for i, pk := range pkgs {
		rel := strings.TrimPrefix(strings.TrimPrefix(pk.PkgPath, p.ModPath), "/")
		p.ByRel[rel] = ssaPkgs[i]
	}
	for _, rel := range productPkgs[name] {
		if p.ByRel[rel] == nil {
			return nil, fmt.Errorf("UNRESOLVED-ANCHOR: product package %s/%s not found", p.ModPath, rel)
		}
		p.Product[rel] = true
	}
	// packages the product packages import from their own module (a helper package split off an
	// existing one: join/internal/interval) are analysed with them
	for changed := true; changed; {
		changed = false
		for i, pk := range pkgs {
			rel := strings.TrimPrefix(strings.TrimPrefix(pk.PkgPath, p.ModPath), "/")
			if !p.Product[rel] || ssaPkgs[i] == nil {
				continue
			}
			for ipath := range pk.Imports {
				if ipath != p.ModPath && !strings.HasPrefix(ipath, p.ModPath+"/") {
					continue
				}
				irel := strings.TrimPrefix(strings.TrimPrefix(ipath, p.ModPath), "/")
				if p.ByRel[irel] != nil && !p.Product[irel] {
					p.Product[irel] = true
					p.AddedProduct = append(p.AddedProduct, irel)
					changed = true
				}
			}
		}
	}
	p.resolveCanonFields()
	return p, nil
}

// Rel returns the module-relative package path of fn ("" if foreign).
func (p *Prog) Rel(fn *ssa.Function) (string, bool) {
	pk := fn.Package()
	if pk == nil {
		if o := fn.Origin(); o != nil {
			pk = o.Package()
		}
	}
	if pk == nil && fn.Parent() != nil {
		return p.Rel(fn.Parent())
	}
	if pk == nil {
		if obj := fn.Object(); obj != nil && obj.Pkg() != nil {
			path := obj.Pkg().Path()
			if path == p.ModPath || strings.HasPrefix(path, p.ModPath+"/") {
				return strings.TrimPrefix(strings.TrimPrefix(path, p.ModPath), "/"), true
			}
		}
		return "", false
	}
	path := pk.Pkg.Path()
	if path == p.ModPath || strings.HasPrefix(path, p.ModPath+"/") {
		return strings.TrimPrefix(strings.TrimPrefix(path, p.ModPath), "/"), true
	}
	return "", false
}

// IsProduct reports whether fn belongs to a product package of this module and has a body.
func (p *Prog) IsProduct(fn *ssa.Function) bool {
	if fn == nil || len(fn.Blocks) == 0 {
		return false
	}
	rel, ok := p.Rel(fn)
	return ok && p.Product[rel]
}

// Norm maps instantiation wrappers / instances to their generic origin.
func (p *Prog) Norm(fn *ssa.Function) *ssa.Function {
	if fn == nil {
		return nil
	}
	if o := fn.Origin(); o != nil {
		return o
	}
	if strings.HasPrefix(fn.Synthetic, "instantiation wrapper") || strings.HasPrefix(fn.Synthetic, "instance of") {
		if obj, ok := fn.Object().(*types.Func); ok && obj != nil {
			if g := p.SSA.FuncValue(obj.Origin()); g != nil {
				return g
			}
		}
	}
	return fn
}

// Callee returns the normalised static callee of a call (nil for dynamic calls and builtins).
func (p *Prog) Callee(c ssa.CallInstruction) *ssa.Function {
	cc := c.Common()
	if cc.IsInvoke() {
		return nil
	}
	switch v := cc.Value.(type) {
	case *ssa.Function:
		if t := p.wrapperTarget(v); t != nil && strings.HasPrefix(v.Synthetic, "thunk") {
			return t // a method expression (Rate.Recalculate(rt, minimum)): same arguments as the method
		}
		return p.Norm(v)
	case *ssa.MakeClosure:
		if f, ok := v.Fn.(*ssa.Function); ok {
			if _, isGo := c.(*ssa.Go); isGo {
				// go func() { dsc.main() }() starts dsc.main
				if inner := thinGoTarget(f); inner != nil {
					return p.Callee(inner)
				}
			}
			return p.Norm(f)
		}
	}
	return nil
}

// wrapperTarget: the method behind a bound-method wrapper (x.m as a value) or a method-expression
// thunk (T.m); nil for anything else.
func (p *Prog) wrapperTarget(fn *ssa.Function) *ssa.Function {
	if fn == nil || !(strings.HasPrefix(fn.Synthetic, "bound method wrapper") || strings.HasPrefix(fn.Synthetic, "thunk")) {
		return nil
	}
	var only *ssa.Function
	for _, b := range fn.Blocks {
		for _, in := range b.Instrs {
			if call, ok := in.(ssa.CallInstruction); ok {
				cc := call.Common()
				if cc.IsInvoke() {
					return nil
				}
				g, isFn := cc.Value.(*ssa.Function)
				if !isFn || only != nil {
					return nil
				}
				only = g
			}
		}
	}
	return p.Norm(only)
}

// thinGoTarget: fn is a closure whose whole body is one static call on captured variables
// (func() { dsc.main() }); returns that call.
func thinGoTarget(fn *ssa.Function) *ssa.Call {
	if fn == nil || fn.Parent() == nil || len(fn.Blocks) != 1 || len(fn.Params) != 0 {
		return nil
	}
	var only *ssa.Call
	for _, in := range fn.Blocks[0].Instrs {
		switch x := in.(type) {
		case *ssa.DebugRef:
		case *ssa.UnOp:
			if _, isFV := x.X.(*ssa.FreeVar); !isFV || x.Op != token.MUL {
				return nil
			}
		case *ssa.Call:
			if only != nil {
				return nil
			}
			only = x
		case *ssa.Return:
			if len(x.Results) != 0 {
				return nil
			}
		default:
			return nil
		}
	}
	if only == nil || only.Call.IsInvoke() {
		return nil
	}
	if _, isFn := only.Call.Value.(*ssa.Function); !isFn {
		return nil
	}
	return only
}

// isThinGoClosure: fn is such a closure and is only ever started with a go statement.
func isThinGoClosure(fn *ssa.Function) bool {
	return thinGoTarget(fn) != nil && isGoOnlyClosure(fn)
}

// isGoOnlyClosure: fn is a closure literal that is only ever started with a go statement: its
// body runs in the new goroutine, not in the function that contains the literal.
func isGoOnlyClosure(fn *ssa.Function) bool {
	if fn == nil || fn.Parent() == nil || fn.Referrers() == nil {
		return false
	}
	n := 0
	for _, r := range *fn.Referrers() {
		mc, ok := r.(*ssa.MakeClosure)
		if !ok || mc.Referrers() == nil {
			return false
		}
		for _, rr := range *mc.Referrers() {
			switch rr.(type) {
			case *ssa.Go:
				n++
			case *ssa.DebugRef:
			default:
				return false
			}
		}
	}
	return n > 0
}

// Funcs lists every function with a body in product packages (generic origins, incl. closures), sorted.
func (p *Prog) Funcs() []*ssa.Function {
	if p.funcsCache != nil {
		return p.funcsCache
	}
	seen := map[*ssa.Function]bool{}
	var add func(f *ssa.Function)
	add = func(f *ssa.Function) {
		if f == nil || seen[f] || len(f.Blocks) == 0 {
			return
		}
		if f.Synthetic != "" && f.Synthetic != "package initializer" {
			return
		}
		if isThinGoClosure(f) {
			return // represented by its go statement (Callee)
		}
		seen[f] = true
		for _, a := range f.AnonFuncs {
			add(a)
		}
	}
	for rel := range p.Product {
		sp := p.ByRel[rel]
		for _, m := range sp.Members {
			switch m := m.(type) {
			case *ssa.Function:
				add(m)
			case *ssa.Type:
				nt, ok := m.Type().(*types.Named)
				if !ok {
					continue
				}
				for i := 0; i < nt.NumMethods(); i++ {
					add(p.SSA.FuncValue(nt.Method(i)))
				}
			}
		}
	}
	var out []*ssa.Function
	for f := range seen {
		out = append(out, f)
	}
	sort.Slice(out, func(i, j int) bool { return p.FnKey(out[i]) < p.FnKey(out[j]) })
	p.funcsCache = out
	return out
}

// FnKey gives a stable, position-independent key: "<rel pkg>.<Recv>.<name>".
func (p *Prog) FnKey(fn *ssa.Function) string {
	if fn == nil {
		return "<nil>"
	}
	fn = p.Norm(fn)
	rel, _ := p.Rel(fn)
	name := fn.Name()
	if fn.Parent() != nil {
		return p.FnKey(fn.Parent()) + "$" + strings.TrimPrefix(name, fn.Parent().Name()+"$")
	}
	if recv := fn.Signature.Recv(); recv != nil {
		t := recv.Type()
		if pt, ok := t.(*types.Pointer); ok {
			t = pt.Elem()
		}
		if nt, ok := t.(*types.Named); ok {
			return p.Name + ":" + rel + "." + nt.Obj().Name() + "." + name
		}
	}
	return p.Name + ":" + rel + "." + name
}

// Func finds a function by relative package path and "Recv.name" or "name"; nil if absent.
func (p *Prog) Func(rel, name string) *ssa.Function {
	want := p.Name + ":" + rel + "." + name
	for _, f := range p.Funcs() {
		if p.FnKey(f) == want {
			return f
		}
	}
	return nil
}

// Pos renders a position as repo-relative file:line.
func (p *Prog) Pos(pos token.Pos) string {
	if !pos.IsValid() {
		return "?"
	}
	ps := p.Fset.Position(pos)
	f := ps.Filename
	if r, err := filepath.Rel(repoRoot, f); err == nil && !strings.HasPrefix(r, "..") {
		f = r
	}
	return fmt.Sprintf("%s:%d", f, ps.Line)
}

// InstrPos finds the best position for an instruction (falls back to operands / function).
func (p *Prog) InstrPos(in ssa.Instruction) string {
	if in == nil {
		return "?"
	}
	if in.Pos().IsValid() {
		return p.Pos(in.Pos())
	}
	for _, op := range in.Operands(nil) {
		if *op != nil && (*op).Pos().IsValid() {
			return p.Pos((*op).Pos())
		}
	}
	// nearest earlier instruction with a position in the same block
	b := in.Block()
	if b != nil {
		idx := -1
		for i, x := range b.Instrs {
			if x == in {
				idx = i
			}
		}
		for i := idx - 1; i >= 0; i-- {
			if b.Instrs[i].Pos().IsValid() {
				return p.Pos(b.Instrs[i].Pos())
			}
		}
		for i := idx + 1; i < len(b.Instrs) && i > 0; i++ {
			if b.Instrs[i].Pos().IsValid() {
				return p.Pos(b.Instrs[i].Pos())
			}
		}
	}
	if in.Parent() != nil {
		return p.Pos(in.Parent().Pos())
	}
	return "?"
}

var repoRoot = "/repo"
