package main

func c02V1Subsequence(c *Ctx) {}
