package main

import (
	"fmt"
	"go/types"
	"strings"

	"golang.org/x/tools/go/ssa"
)

func init() {
	register(&Property{
		ID:          "C02",
		Run:         runC02,
		Explanation: "Exactly-once, correctly tagged, FIFO delivery (safety half): X1 the channel registered under key p is the user's channel paired with p (range pair over Opts.Inputs, AddInput arguments through the command channel); X2/X6 every receive from an input and every send on the output lies in code that only the single scheduler goroutine can execute; X3 a typestate dataflow over the SSA CFG with inlining shows that every value received with ok=true reaches exactly one successful output send before the next receive or return (v1: unless a stop clause is taken), and nothing is sent with no item in hand; X4 the table key, the Priority field of the value sent and the key passed down are the same SSA value; X5 the received value flows nowhere but into the Item field of the value sent; X7 the simplified disciplines' handlers call Handle exactly once per received item and then release its priority exactly once. Go channels are FIFO, so a single mover holding at most one item preserves per-input order.",
		NotDecided:  []string{"eventual delivery (liveness) - necessary conditions only under C06"},
	})
}

func isInputChanType(t types.Type) bool {
	ch, ok := t.Underlying().(*types.Chan)
	if !ok || ch.Dir() != types.RecvOnly {
		return false
	}
	_, isTP := ch.Elem().(*types.TypeParam)
	return isTP
}

func runC02(c *Ctx) {
	r := c.R
	r.Doc("X1", "registration: the channel stored under key p in the input table is the user's channel paired with p", 3)
	r.Doc("X2", "every receive from an input channel executes only in the scheduler goroutine", 4)
	r.Doc("X3", "every item received with ok reaches exactly one successful output send before the next receive/return; no send without an item; closed input: no send", 4)
	r.Doc("X4", "table key == Priority of the value sent (same SSA value)", 4)
	r.Doc("X5", "the received value flows only into the Item field of the value sent", 4)
	r.Doc("X6", "every send on the output executes only in the scheduler goroutine and is reached by an X3 flow", 2)
	r.Doc("X14", "what is handed to the sending function was received from an input channel by an ordinary receive (no reflection)", 2)
	r.Doc("X7", "simplified disciplines: per received item exactly one Handle(item) then exactly one release of its priority", 2)
	c02priority(c, c.V1, "")
	c02priority(c, c.V2, "")
	// X8: normal termination only after every input was observed closed and empty - otherwise
	// items written before the close are never delivered (= C07 E0-E3)
	r.Doc("X8", "(= C07 E1-E3) the scheduler ends normally only after all inputs were observed drained; drained is set only on the closed edge; the all-drained helper visits every input", 10)
	r.Doc("X9", "v1 Simple: the supervising goroutine waits only for stop, cancel, the graceful request and the inner discipline's end (its return stops everything)", 7)
	checkSupervisorWaits(c, c.V1, "X9")
	// X10 (= R1): v1 AddInput/RemoveInput hand the command to the scheduler synchronously. Queued
	// commands are applied late and out of order between the two queues: an input added before a
	// graceful stop is dropped, a channel ends up registered under the key it was removed from
	r.Doc("X10", "(= R1) v1 command channels are unbuffered: a registration is in effect, in call order, when the call returns", 2)
	if d := c.V1.Disc("priority.Discipline"); d != nil && len(d.Ctors) > 0 {
		for _, f := range []string{"inputAdds", "inputRmvs"} {
			capc := c.V1.chanCapacityConst(d, f)
			r.Check(capc == 0, "X10", "v1:priority.Discipline#"+f, c.V1.Pos(d.Ctors[0].Pos()), "make(chan, 0)", fmt.Sprintf("command channel %s is made with capacity %d: AddInput/RemoveInput return before the scheduler has seen the command; commands are applied late and the two queues are drained in no particular order, so items of an input added before termination are lost or delivered under a removed key", f, capc))
		}
	} else {
		r.Fail("X10", "v1:priority.Discipline", "-", "UNRESOLVED-ANCHOR: v1 priority discipline not found")
	}
	// X15 (= E7): v1 Simple closes its output only after the handlers were joined: a handler that
	// comes back to its select finds the closed channel ready and calls Handle with a zero item
	// nobody wrote
	r.Doc("X15", "(= C07 E7) v1 Simple: the handlers are joined (wg.Wait) before the output they read is closed and before any signal: nothing that was not written is handed to Handle", 3)
	if d := c.V1.Disc("priority.Simple"); d != nil {
		for _, e := range d.Gos {
			if !e.Multi && e.Parent == nil {
				childJoinRules(c, c.V1.Routine(d, e), "X15")
			}
		}
	} else {
		r.Fail("X15", "v1:priority.Simple", "-", "UNRESOLVED-ANCHOR: v1 Simple not found")
	}
	// X17 (= R2): v1 - an input handed to AddInput is registered by the clause that receives the
	// command, whatever else is going on
	r.Doc("X17", "(= C17 R2) v1: a received AddInput / RemoveInput command is applied inside its clause, unconditionally", 2)
	if pr, err := resolvePrio(c.V1); err == nil {
		checkCommandsApplied(c, pr, "X17")
	} else {
		r.Fail("X17", "v1:priority", "-", err.Error())
	}
	// X16: the simplified disciplines serve the configured inputs, all of them
	r.Doc("X16", "simplified disciplines: the inner discipline is given the caller's Inputs as configured", 2)
	checkInputsForwarded(c, c.V1, "X16")
	checkInputsForwarded(c, c.V2, "X16")
	// X13: the handlers exist
	r.Doc("X13", "simplified disciplines: the handler goroutines are started on every successful construction", 2)
	checkHandlersStarted(c, c.V1, "X13")
	checkHandlersStarted(c, c.V2, "X13")
	// X12: valid configurations are accepted
	r.Doc("X12", "constructors refuse a configuration only on a missing / out-of-range test (v1 priority and simplified, v2 simplified)", 6)
	checkCtorRefusals(c, c.V1, c.V1.Disc("priority.Discipline"), "X12")
	checkCtorRefusals(c, c.V1, c.V1.Disc("priority.Simple"), "X12")
	checkCtorRefusals(c, c.V2, c.V2.Disc("priority/simple.Discipline"), "X12")
	// X11 (= D2, P2 membership clauses): the list of priorities the scheduler visits holds exactly the
	// keys of the input table - a key that is in the table but not in the list is never read
	r.Doc("X11", "(= D2, P2) the list of priorities the scheduler visits holds the registered keys: built from the keys of Opts.Inputs / appended on registration, and removal takes out exactly the removed key", 3)
	for _, p := range []*Prog{c.V1, c.V2} {
		pr, err := resolvePrioLight(p)
		if err != nil {
			r.Fail("X11", p.Name+":priority", "-", err.Error())
			continue
		}
		sub := &Ctx{V1: c.V1, V2: c.V2, Tier: c.Tier, R: NewReport("tmp", c.Tier)}
		checkD2(sub, pr)
		checkP2(sub, pr)
		checkP2c(sub, pr)
		for _, o := range sub.R.Obls {
			if strings.HasSuffix(o.Key, "#list-shrinks-with-table") || strings.HasSuffix(o.Key, ".removePriority") || strings.HasSuffix(o.Key, "#append-unique") || strings.HasSuffix(o.Key, "#append-base") || strings.HasSuffix(o.Key, "#registered-appended") || strings.HasSuffix(o.Key, "#unregister") || strings.HasSuffix(o.Key, "#list") {
				r.Check(o.OK, "X11", o.Key, o.Site, o.Detail, o.Detail)
			}
		}
	}
	for _, p := range []*Prog{c.V1, c.V2} {
		sr, err := resolveSchedRoles(p)
		if err != nil {
			r.Fail("X8", p.Name+":priority", "-", err.Error())
			continue
		}
		sub := &Ctx{V1: c.V1, V2: c.V2, Tier: c.Tier, R: NewReport("tmp", c.Tier)}
		c07loopReturns(sub, sr)
		c07drainedMarks(sub, sr)
		c07forall(sub, sr, sr.allDrained, "Drained")
		for _, o := range sub.R.Obls {
			if strings.HasSuffix(o.Key, "#drained-exit") {
				continue // (a discipline that never ends loses nothing: C07's business only)
			}
			r.Check(o.OK, "X8", o.Key, o.Site, o.Detail, o.Detail)
		}
	}
}

// c02V1Subsequence re-uses the v1 rules under C16/S7.
func c02V1Subsequence(c *Ctx) {
	c.R.Doc("S7", "(= C02 rules X2-X6 on v1) what is delivered is an in-order duplicate-free subsequence of what was written", 9)
	c02priority(c, c.V1, "S7")
}

func c02priority(c *Ctx, p *Prog, as string) {
	r := c.R
	rule := func(x string) (string, string) {
		if as != "" {
			return as, x + ":"
		}
		return x, ""
	}
	d := p.Disc("priority.Discipline")
	if d == nil || len(d.Gos) != 1 {
		r.Fail("X2", p.Name+":priority.Discipline", "-", "UNRESOLVED-ANCHOR: priority discipline or its single scheduler goroutine not found")
		return
	}
	entry := d.Gos[0].Entry
	sched := "G:" + p.FnKey(entry)
	ci := p.Contexts()
	outRole := map[string]bool{"field:output": true, "field:opts.Output": true}

	// ---- X1
	if as == "" {
		c02registration(c, p)
	}

	// ---- sources
	var srcFns []*ssa.Function
	for _, fn := range p.Funcs() {
		rel, _ := p.Rel(fn)
		if rel != "priority" {
			continue
		}
		n := 0
		for _, rs := range p.RecvSites(fn) {
			if !isInputChanType(rs.Chan.Type()) {
				continue
			}
			n++
			// X2
			rn, pre := rule("X2")
			key := fmt.Sprintf("%s%s#recv.%d", pre, p.FnKey(fn), n)
			ctxs := ci.Of(rs.In)
			ok := len(ctxs) > 0
			for _, x := range ctxs {
				if x != sched {
					ok = false
				}
			}
			r.Check(ok, rn, key, rs.Pos(p), "scheduler goroutine only", "input channel is read outside the scheduler goroutine (contexts: "+strings.Join(shortCtxList(ctxs), ", ")+"): an item can be consumed without being delivered, or two readers reorder items")
			// X5
			if rs.Val != nil {
				rn5, pre5 := rule("X5")
				esc := p.valueEscapes(rs.Val, func(user ssa.Instruction, v ssa.Value) bool {
					switch u := user.(type) {
					case *ssa.Send:
						return outRole[p.chanRole(u.Chan)] && u.X == v
					case *ssa.Select:
						for _, st := range u.States {
							if st.Send == v && outRole[p.chanRole(st.Chan)] {
								return true
							}
						}
					}
					return false
				})
				r.Check(len(esc) == 0, rn5, fmt.Sprintf("%s%s#recv.%d", pre5, p.FnKey(fn), n), rs.Pos(p), "item flows only into the value sent on the output", "received item is also "+strings.Join(esc, "; "))
			}
		}
		if n > 0 {
			srcFns = append(srcFns, fn)
		}
	}

	// ---- X3/X4 per source function
	visitedSinks := map[ssa.Instruction]bool{}
	for _, fn := range srcFns {
		r.Funcs[p.FnKey(fn)] = true
		var x4 []string
		cfg := &ItemFlowConfig{
			P:        p,
			IsSource: func(rs *RecvSite) bool { return isInputChanType(rs.Chan.Type()) },
			SinkInstr: func(fr *Frame, in ssa.Instruction) (bool, ssa.Value) {
				if s, ok := in.(*ssa.Send); ok && outRole[p.chanRole(s.Chan)] {
					return true, s.X
				}
				return false, nil
			},
			SinkEdge: func(fr *Frame, from *ssa.BasicBlock, succ int) (bool, ssa.Value) {
				if _, cs, _ := p.CaseOnEdge(from, succ); cs != nil && cs.State.Dir == types.SendOnly && outRole[p.chanRole(cs.State.Chan)] {
					return true, cs.State.Send
				}
				return false, nil
			},
			StopEdge: func(fr *Frame, from *ssa.BasicBlock, succ int) bool {
				if _, cs, _ := p.CaseOnEdge(from, succ); cs != nil {
					return strings.HasPrefix(p.stopRoleOf(cs.State.Chan), "stop:")
				}
				return false
			},
			ItemOf: func(fr *Frame, consumed ssa.Value) *Sym {
				return symField(p.SymFrame(fr, consumed), "Item")
			},
			OnConsume: func(fr *Frame, src *RecvSite, consumed ssa.Value, where ssa.Instruction) []string {
				tag := symField(p.SymFrame(fr, consumed), "Priority").StripInst()
				chs := p.Sym(src.Chan)
				key := tableKeyOf(chs)
				if key == nil && chs.StripConv().Op == "param" {
					// the channel was looked up by the caller and handed in (io(priority, channel)):
					// compare key and tag as the call sites see them
					if up := p.upParam(chs, 0); tableKeyOf(up) != nil {
						key = tableKeyOf(up)
						if tag.Op == "param" {
							tag = p.upParam(tag, 0).StripInst()
						}
					}
				}
				if key == nil {
					m := fmt.Sprintf("UNDECIDED: input channel expression %s at %s is not a lookup in the input table", chs, src.Pos(p))
					x4 = append(x4, m)
					return nil
				}
				if tag.String() != key.String() {
					x4 = append(x4, fmt.Sprintf("item read at %s from the channel registered under %s is sent at %s tagged %s", src.Pos(p), key, p.InstrPos(where), tag))
				}
				return nil
			},
		}
		res := RunItemFlow(cfg, fn)
		for s := range res.Sinks {
			visitedSinks[s] = true
		}
		rn, pre := rule("X3")
		r.Check(len(res.Problems) == 0, rn, pre+p.FnKey(fn), p.Pos(fn.Pos()), fmt.Sprintf("%d receive sites, %d send sites reached holding exactly one item", res.Sources, len(res.Sinks)), strings.Join(res.Problems, "; "))
		rn4, pre4 := rule("X4")
		r.Check(len(x4) == 0, rn4, pre4+p.FnKey(fn), p.Pos(fn.Pos()), "tag == table key", strings.Join(dedup(x4), "; "))
	}

	// ---- X6
	for _, fn := range p.Funcs() {
		rel, _ := p.Rel(fn)
		if rel != "priority" {
			continue
		}
		n := 0
		for _, ss := range p.SendSites(fn) {
			if !outRole[p.chanRole(ss.Chan)] || namedOrigin(fnRecvType(fn)) != d.Named {
				continue
			}
			n++
			rn, pre := rule("X6")
			key := fmt.Sprintf("%s%s#send.%d", pre, p.FnKey(fn), n)
			ctxs := ci.Of(ss.In)
			ok := len(ctxs) > 0
			for _, x := range ctxs {
				if x != sched {
					ok = false
				}
			}
			var bad []string
			if !ok {
				bad = append(bad, "output is written outside the scheduler goroutine (contexts: "+strings.Join(shortCtxList(ctxs), ", ")+")")
			}
			if !visitedSinks[ss.In] {
				bad = append(bad, "this output send is not reached from any input receive holding an item (fabricated value)")
			}
			r.Check(len(bad) == 0, rn, key, p.InstrPos(ss.In), "scheduler only, fed by an input receive", strings.Join(bad, "; "))
		}
	}

	// ---- X14: what is handed to the sending function was received from an input, by a receive the
	// rules can see. A value of any other origin (rebuilt from a reflect.Select result, say) is
	// outside X3-X5: nothing ties its tag to the channel it came from
	{
		rn, pre := rule("X14")
		ai := p.alias()
		n := 0
		for _, fn := range p.Funcs() {
			if rel, _ := p.Rel(fn); rel != "priority" {
				continue
			}
			for _, ss := range p.SendSites(fn) {
				if !outRole[p.chanRole(ss.Chan)] || namedOrigin(fnRecvType(fn)) != d.Named {
					continue
				}
				item := symField(p.Sym(ss.Val), "Item")
				par, isPar := item.V.(*ssa.Parameter)
				if !isPar || item.Op != "param" {
					continue // the send sits where the item is received: X3 covers it
				}
				idx := paramIndex(fn, par)
				for _, cs := range p.CallSites(fn) {
					if idx < 0 || idx >= len(cs.Common().Args) {
						continue
					}
					n++
					var bad []string
					var up func(v ssa.Value, depth int)
					up = func(v ssa.Value, depth int) {
						for _, root := range ai.Roots(v) {
							if root.Kind == "recv" {
								continue
							}
							// handed down through a private helper (forward(item, opened, priority))
							if par, isP := root.V.(*ssa.Parameter); isP && root.Kind == "param" && depth < 3 {
								if obj, _ := par.Parent().Object().(*types.Func); obj != nil && !obj.Exported() {
									if sites := p.CallSites(p.Norm(par.Parent())); len(sites) > 0 {
										pi := paramIndex(par.Parent(), par)
										okAll := true
										for _, s2 := range sites {
											if _, isGo := s2.(*ssa.Go); isGo || pi < 0 || pi >= len(s2.Common().Args) {
												okAll = false
												break
											}
										}
										if okAll {
											for _, s2 := range sites {
												up(s2.Common().Args[pi], depth+1)
											}
											continue
										}
									}
								}
							}
							bad = append(bad, root.String())
						}
					}
					up(cs.Common().Args[idx], 0)
					r.Check(len(bad) == 0, rn, fmt.Sprintf("%s%s#item.%d", pre, p.FnKey(cs.Parent()), n), p.InstrPos(cs), "the item handed to the sending function was received from an input",
						"the value handed to the sending function at "+p.InstrPos(cs)+" does not come from a receive on an input channel ("+strings.Join(dedup(bad), ", ")+"): its tag is not tied to the channel it was read from, and it may be an item nobody wrote")
				}
			}
			for _, b := range fn.Blocks {
				for _, in := range b.Instrs {
					call, ok := in.(ssa.CallInstruction)
					if !ok {
						continue
					}
					if cal := p.Callee(call); cal != nil {
						switch p.funcDisplay(cal) {
						case "reflect.Select", "(reflect.Value).Recv", "(reflect.Value).TryRecv", "(reflect.Value).Send", "(reflect.Value).TrySend", "(reflect.Value).Close":
							n++
							r.Fail(rn, fmt.Sprintf("%s%s#reflect.%d", pre, p.FnKey(fn), n), p.InstrPos(in), "UNDECIDED: channel operation through reflection ("+p.funcDisplay(cal)+"): receives and sends made this way are invisible to the item-flow rules")
						}
					}
				}
			}
		}
		if n == 0 {
			r.Pass(rn, pre+p.Name+":priority#item", "-", "the sending function is called only where the item is received")
		}
	}

	if as == "" {
		c02handlers(c, p)
	}
}

func fnRecvType(fn *ssa.Function) types.Type {
	if fn.Signature.Recv() == nil {
		return types.Typ[types.Invalid]
	}
	return fn.Signature.Recv().Type()
}

func shortCtxList(cs []string) []string {
	var out []string
	for _, c := range cs {
		out = append(out, shortCtx(c))
	}
	return out
}

// tableKeyOf: for `T.inputs[k].Channel` returns k.
func tableKeyOf(s *Sym) *Sym {
	s = s.StripConv()
	if s.Op == "field" && s.Args[0].Op == "index" {
		return s.Args[0].Args[1].StripInst()
	}
	return nil
}

func isInputTableType(t types.Type) bool {
	m, ok := t.Underlying().(*types.Map)
	if !ok {
		return false
	}
	nt, ok := m.Elem().(*types.Named)
	if !ok {
		return false
	}
	st, ok := nt.Underlying().(*types.Struct)
	if !ok {
		return false
	}
	for i := 0; i < st.NumFields(); i++ {
		if st.Field(i).Name() == "Channel" {
			return true
		}
	}
	return false
}

// c02registration decides X1.
func c02registration(c *Ctx, p *Prog) {
	r := c.R
	var paired func(fn *ssa.Function, key, ch ssa.Value, depth int) (bool, string)
	paired = func(fn *ssa.Function, key, ch ssa.Value, depth int) (bool, string) {
		if depth > 6 {
			return false, "pairing chain too deep"
		}
		key, ch = stripChangeType(key), stripChangeType(ch)
		// range pair
		if ek, ok := key.(*ssa.Extract); ok {
			if ec, ok := ch.(*ssa.Extract); ok && ek.Tuple == ec.Tuple && ek.Index == 1 && ec.Index == 2 {
				if nx, ok := ek.Tuple.(*ssa.Next); ok {
					if rg, ok := nx.Iter.(*ssa.Range); ok {
						if _, isMap := rg.X.Type().Underlying().(*types.Map); isMap {
							// the ranged map must itself be the user's Inputs (or a parameter fed with it)
							src := p.Sym(rg.X)
							if par, isPar := rg.X.(*ssa.Parameter); isPar {
								if len(p.CallSites(fn)) == 0 {
									return false, "the registration loop over the configured inputs is never called: configured inputs are not registered"
								}
								for _, cs := range p.CallSites(fn) {
									a := cs.Common().Args[paramIndex(fn, par)]
									as := p.Sym(a)
									if !strings.HasSuffix(as.String(), ".Inputs") {
										return false, fmt.Sprintf("map ranged over is %s at %s, not Opts.Inputs", as, p.InstrPos(cs))
									}
								}
								return true, "range pair over a parameter fed with Opts.Inputs"
							}
							if strings.HasSuffix(src.String(), ".Inputs") {
								return true, "range pair over " + src.String()
							}
							return false, "range over " + src.String() + " which is not Opts.Inputs"
						}
					}
				}
			}
		}
		// parameters: every call site must pass a pair
		if pk, ok := key.(*ssa.Parameter); ok {
			if pc, ok := ch.(*ssa.Parameter); ok {
				sites := p.CallSites(fn)
				if len(sites) == 0 {
					if obj, _ := fn.Object().(*types.Func); obj != nil && obj.Exported() {
						return true, "API boundary: the user supplies (channel, priority)"
					}
					return false, "no call sites"
				}
				for _, cs := range sites {
					args := cs.Common().Args
					ok2, why := paired(cs.Parent(), args[paramIndex(fn, pk)], args[paramIndex(fn, pc)], depth+1)
					if !ok2 {
						return false, fmt.Sprintf("call at %s: %s", p.InstrPos(cs), why)
					}
				}
				return true, fmt.Sprintf("parameters, paired at all %d call sites", len(sites))
			}
		}
		// fields of one command struct received from a channel
		sk, sc := p.Sym(key), p.Sym(ch)
		if sk.Op == "field" && sc.Op == "field" && sk.Args[0].String() == sc.Args[0].String() {
			base := sk.Args[0]
			var chanV ssa.Value
			switch bv := base.V.(type) {
			case *ssa.Extract:
				if sel, ok := bv.Tuple.(*ssa.Select); ok {
					si := p.SelectInfo(sel)
					for _, cs := range si.Cases {
						if cs.RecvVal == bv {
							chanV = cs.State.Chan
						}
					}
				}
			case *ssa.UnOp:
				chanV = bv.X
			}
			if chanV == nil {
				return false, "command struct " + base.String() + " does not come from a channel receive"
			}
			role := p.chanRole(chanV)
			// all sends on that channel
			n := 0
			for _, g := range p.Funcs() {
				for _, ss := range p.SendSites(g) {
					if p.chanRole(ss.Chan) != role {
						continue
					}
					n++
					sv := p.Sym(ss.Val)
					k2, c2 := symField(sv, sk.Name), symField(sv, sc.Name)
					if k2.V == nil || c2.V == nil {
						return false, fmt.Sprintf("send at %s: command fields not resolved", p.InstrPos(ss.In))
					}
					ok2, why := paired(g, k2.V, c2.V, depth+1)
					if !ok2 {
						return false, fmt.Sprintf("send at %s: %s", p.InstrPos(ss.In), why)
					}
				}
			}
			if n == 0 {
				return false, "no sender for command channel " + role
			}
			return true, fmt.Sprintf("command struct received from %s, paired at all %d senders", role, n)
		}
		return false, fmt.Sprintf("key %s and channel %s are not a pair", sk, sc)
	}
	for _, fn := range p.Funcs() {
		rel, _ := p.Rel(fn)
		if rel != "priority" {
			continue
		}
		n := 0
		for _, b := range fn.Blocks {
			for _, in := range b.Instrs {
				mu, ok := in.(*ssa.MapUpdate)
				if !ok || !isInputTableType(mu.Map.Type()) {
					continue
				}
				n++
				key := fmt.Sprintf("%s#store.%d", p.FnKey(fn), n)
				val := p.Sym(mu.Value)
				// (the record may be built by a pure constructor: common.NewInput(channel))
				if val.Op == "call" {
					if x := p.SymX(mu.Value); x != nil && x.Op == "struct" {
						val = x
					}
				}
				// preserved-channel form: base = table[key]
				if val.Op == "struct" && len(val.Keys) > 0 && val.Keys[0] == "<base>" {
					base := val.Args[0]
					okp := base.Op == "index" && base.Args[1].String() == p.Sym(mu.Key).String() && symField(val, "Channel").String() == symField(base, "Channel").String()
					r.Check(okp, "X1", key, p.InstrPos(mu), "entry rewritten with its Channel preserved", "input table entry is rewritten with a different channel or key: "+val.String())
					continue
				}
				chs := symField(val, "Channel")
				if chs.V == nil {
					r.Fail("X1", key, p.InstrPos(mu), "UNDECIDED: cannot resolve the Channel stored: "+val.String())
					continue
				}
				ok2, why := paired(fn, mu.Key, chs.V, 0)
				r.Check(ok2, "X1", key, p.InstrPos(mu), why, "channel registered under a key it was not supplied with: "+why)
				if ok2 && strings.HasPrefix(why, "range pair") {
					// every configured input is registered: inside the range over Opts.Inputs the store is
					// unconditional (an input left out of the table is never required to be drained, and is
					// never looked at by the all-drained test)
					uncond := true
					for _, e := range InstrDomEdges(mu) {
						iff := e.From.Instrs[len(e.From.Instrs)-1].(*ssa.If)
						base, _ := condOf(iff.Cond)
						if ex, isEx := base.(*ssa.Extract); isEx {
							if _, isNext := ex.Tuple.(*ssa.Next); isNext && ex.Index == 0 {
								continue
							}
						}
						uncond = false
					}
					r.Check(uncond, "X1", key+"#every", p.InstrPos(mu), "every configured input is registered", "the registration of a configured input is conditional: an input that is left out of the table is not covered by the all-inputs-drained test, so the discipline can terminate normally while that input is still open")
				}
			}
		}
	}
}

// c02handlers decides X7 for the handler goroutines of the simplified disciplines.
func c02handlers(c *Ctx, p *Prog) {
	r := c.R
	for _, d := range p.Discs() {
		for _, e := range d.Gos {
			if !e.Multi {
				continue
			}
			fn := e.Entry
			r.Funcs[p.FnKey(fn)] = true
			var problems []string
			problem := func(f string, a ...any) { problems = append(problems, fmt.Sprintf(f, a...)) }
			isSrc := func(rs *RecvSite) bool {
				role := p.chanRole(rs.Chan)
				return role == "call:Output" || role == "field:output"
			}
			type src struct{ rs *RecvSite }
			byInstr := map[ssa.Instruction]*RecvSite{}
			byEdge := map[string]*RecvSite{}
			okOf := map[ssa.Value]*RecvSite{}
			var the *RecvSite
			// (the receive may sit in a helper the handler calls: serve(dsc.priority.Output()))
			var allRecv []*RecvSite
			for _, g := range p.productClosure(fn) {
				allRecv = append(allRecv, p.RecvSites(g)...)
			}
			for _, rs := range allRecv {
				if !isSrc(rs) {
					continue
				}
				if the != nil {
					problem("UNDECIDED: more than one receive from the inner output")
				}
				the = rs
				if rs.Case != nil {
					byEdge[fmt.Sprintf("%p/%d", rs.Case.From, rs.Case.Succ)] = rs
				} else {
					byInstr[rs.In] = rs
				}
				if rs.Ok != nil {
					okOf[rs.Ok] = rs
				}
			}
			if the == nil {
				r.Fail("X7", p.FnKey(fn), p.Pos(fn.Pos()), "UNRESOLVED-ANCHOR: handler does not receive from the inner discipline's output")
				continue
			}
			handles, releases := 0, 0
			recvd := func(st string) []string {
				if st == "have" || st == "handled" {
					problem("handler receives the next item while the previous one is in state %q (Handle or release skipped)", st)
				}
				if the.Ok != nil {
					return []string{"got"}
				}
				return []string{"have"}
			}
			fieldOfItem := func(fr *Frame, v ssa.Value, name string) bool {
				s := p.SymFrame(fr, v).StripInst()
				want := symField(p.Sym(the.Val), name)
				if s.String() == want.String() {
					return true
				}
				// the receive sits in a helper: compare in the terms of the frame chain (parameters
				// replaced by the arguments of the calls that lead here)
				for f := fr; f != nil; f = f.Parent {
					if f.Fn == the.Fn {
						w2 := symField(p.SymFrame(f, the.Val), name).StripInst()
						if s.String() == w2.String() {
							return true
						}
					}
				}
				return false
			}
			fl := &Flow{P: p}
			fl.Instr = func(fr *Frame, st string, in ssa.Instruction) []string {
				if st == "stop" {
					return nil
				}
				if byInstr[in] != nil {
					return recvd(st)
				}
				if call, ok := in.(*ssa.Call); ok {
					cc := call.Common()
					if !cc.IsInvoke() && p.Callee(call) == nil {
						// the function value may have been handed down as an argument (process(item, handle, release))
						fv, _ := fr.Resolve(cc.Value)
						if fe, isGoArg := goEntryArg(p, fn, fv); isGoArg {
							fv = fe // ... or to the goroutine with the go statement
						}
						if mc, isMC := fv.(*ssa.MakeClosure); isMC {
							if bf, isF := mc.Fn.(*ssa.Function); isF && strings.HasSuffix(bf.Name(), "Release$bound") && st != "stop" && len(cc.Args) == 1 {
								releases++
								if st != "handled" {
									problem("release at %s in state %q (must follow Handle exactly once)", p.InstrPos(call), st)
								}
								if !fieldOfItem(fr, cc.Args[0], "Priority") {
									problem("release at %s does not pass the received item's Priority", p.InstrPos(call))
								}
								return []string{"none"}
							}
						}
						if _, isB := cc.Value.(*ssa.Builtin); !isB && strings.HasSuffix(p.Sym(fv).String(), ".opts.Handle") {
							handles++
							if st != "have" {
								problem("Handle called at %s in state %q (not exactly once per item)", p.InstrPos(in), st)
							}
							if !fieldOfItem(fr, cc.Args[len(cc.Args)-1], "Item") {
								problem("Handle at %s is not given the received item's Item", p.InstrPos(in))
							}
							return []string{"handled"}
						}
					}
				}
				return nil
			}
			fl.Call = func(fr *Frame, st string, call ssa.CallInstruction, deferred bool) (bool, []string) {
				callee := p.Callee(call)
				cargs := call.Common().Args
				if callee == nil {
					// the inner discipline's Release handed on as a method value
					if ts := p.funcValueTargets(fr, call); len(ts) == 1 {
						callee, cargs = ts[0].Fn, ts[0].Args
					}
				}
				if callee != nil && callee.Name() == "Release" && callee.Signature.Recv() != nil && st != "stop" && len(cargs) == 2 {
					releases++
					if st != "handled" {
						problem("release at %s in state %q (must follow Handle exactly once)", p.InstrPos(call), st)
					}
					if !fieldOfItem(fr, cargs[1], "Priority") {
						problem("release at %s does not pass the received item's Priority", p.InstrPos(call))
					}
					return true, []string{"none"}
				}
				return false, nil
			}
			fl.Edge = func(fr *Frame, st string, from *ssa.BasicBlock, succ int) []string {
				if st == "stop" {
					return nil
				}
				if byEdge[fmt.Sprintf("%p/%d", from, succ)] != nil {
					return recvd(st)
				}
				if _, cs, _ := p.CaseOnEdge(from, succ); cs != nil {
					if strings.HasPrefix(p.stopRoleOf(cs.State.Chan), "stop:") {
						return []string{"stop"}
					}
					if cs.State.Dir == types.SendOnly {
						role := p.chanRole(cs.State.Chan)
						if role == "field:feedback" {
							releases++
							if st != "handled" {
								problem("release at %s in state %q (must follow Handle exactly once)", p.InstrPos(cs.State.Chan.(ssa.Instruction)), st)
							}
							if !fieldOfItem(fr, cs.State.Send, "Priority") {
								problem("release at %s does not send the received item's Priority", p.InstrPos(from.Instrs[len(from.Instrs)-1]))
							}
							return []string{"none"}
						}
					}
				}
				if iff, ok := from.Instrs[len(from.Instrs)-1].(*ssa.If); ok && st == "got" {
					base, neg := condOf(iff.Cond)
					if okOf[base] != nil {
						if (succ == 0) != neg {
							return []string{"have"}
						}
						return []string{"closed"}
					}
				}
				return nil
			}
			fl.Exit = func(fr *Frame, st string, ret *ssa.Return) []string {
				if fr.Parent == nil && (st == "have" || st == "handled") {
					problem("handler returns at %s with an item in state %q: Handle or the release is skipped on that path", p.InstrPos(ret), st)
				}
				return nil
			}
			fl.Run(fn, []string{"none"})
			if handles == 0 {
				problem("no call of the user's Handle found")
			}
			if releases == 0 {
				problem("no release of the handled item's priority found")
			}
			problems = dedup(problems)
			r.Check(len(problems) == 0, "X7", p.FnKey(fn), p.Pos(fn.Pos()), "receive -> Handle(item) -> release(priority), each exactly once per item", strings.Join(problems, "; "))
		}
	}
}

// goEntryArg: v is a parameter of the goroutine entry fn; returns the argument every go statement
// that starts fn passes for it (when they agree).
func goEntryArg(p *Prog, fn *ssa.Function, v ssa.Value) (ssa.Value, bool) {
	par, ok := v.(*ssa.Parameter)
	if !ok || par.Parent() != fn {
		return nil, false
	}
	idx := paramIndex(fn, par)
	var found ssa.Value
	for _, g := range p.GoStmts() {
		if p.Callee(g) != fn || idx < 0 || idx >= len(g.Call.Args) {
			continue
		}
		a := g.Call.Args[idx]
		if found != nil && p.Sym(found).String() != p.Sym(a).String() {
			return nil, false
		}
		found = a
	}
	return found, found != nil
}
