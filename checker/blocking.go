package main

import (
	"go/constant"
	"go/token"
	"go/types"
	"strings"

	"golang.org/x/tools/go/ssa"
)

// chanRole classifies a channel expression by what the API / struct layout says it is.
func (p *Prog) chanRole(v ssa.Value) string {
	s := p.upChan(p.Sym(v), 0)
	// the channel of a ticker that reached a private helper as an argument (iterate(ticker) ...
	// case <-ticker.C) is that ticker's channel
	if root, path, ok := s.FieldPath(); ok && len(path) == 1 && path[0] == "C" && root.Op == "param" {
		if up := p.upParam(root, 0); up.String() != root.String() {
			s = &Sym{Op: "field", Name: "C", Args: []*Sym{up}, V: s.V}
		}
	}
	return symChanRole(s)
}

// upChan: a channel that reaches a private helper as an argument (send(dsc.output, item)) plays
// the role it has at the call sites, when they all agree.
func (p *Prog) upChan(s *Sym, depth int) *Sym {
	s0 := s.StripConv()
	par, ok := s0.V.(*ssa.Parameter)
	if !ok || s0.Op != "param" || depth > 3 {
		return s
	}
	if _, isChan := par.Type().Underlying().(*types.Chan); !isChan {
		return s
	}
	if up := p.upParam(s, depth); up.String() != s.String() {
		return up
	}
	// a channel handed to a goroutine with its go statement (go smpl.handler(ctx, smpl.output, smpl.feedback))
	// is that channel for the whole life of the goroutine
	fn := par.Parent()
	if obj, _ := fn.Object().(*types.Func); obj != nil && obj.Exported() {
		return s
	}
	idx := paramIndex(fn, par)
	var found *Sym
	for _, sa := range p.CallSitesX(fn) {
		args := sa.Args
		if idx < 0 || idx >= len(args) {
			return s
		}
		a := p.upChan(p.Sym(args[idx]), depth+1)
		if found != nil && found.String() != a.String() {
			return s
		}
		found = a
	}
	if found == nil {
		return s
	}
	return found
}

// upParam resolves a parameter of a private function through its call sites when they all pass
// the same thing (a flag or channel handed to a helper: prepareItem(item, dsc.opts.NoCopy)).
func (p *Prog) upParam(s *Sym, depth int) *Sym {
	s0 := s.StripConv()
	par, ok := s0.V.(*ssa.Parameter)
	if !ok || s0.Op != "param" || depth > 3 {
		return s
	}
	fn := par.Parent()
	if obj, _ := fn.Object().(*types.Func); obj != nil && obj.Exported() {
		return s
	}
	idx := paramIndex(fn, par)
	var found *Sym
	for _, sa := range p.CallSitesX(fn) {
		if _, isGo := sa.Call.(*ssa.Go); isGo {
			return s
		}
		args := sa.Args
		if idx < 0 || idx >= len(args) {
			return s
		}
		a := p.upParam(p.Sym(args[idx]), depth+1)
		if found != nil && found.String() != a.String() {
			return s
		}
		found = a
	}
	if found == nil {
		return s
	}
	return found
}

func symChanRole(s *Sym) string {
	s = s.StripConv()
	switch s.Op {
	case "call":
		switch {
		case strings.HasSuffix(s.Name, "breaker.Breaker).IsBreaked"):
			if len(s.Args) == 1 {
				if _, path, ok := s.Args[0].FieldPath(); ok {
					switch path[len(path)-1] {
					case "breaker":
						return "stop:breaker"
					case "graceful":
						return "graceful"
					}
					return "breaker:" + strings.Join(path, ".")
				}
			}
			return "breaker:?"
		case s.Name == "invoke:context.Context.Done":
			return "stop:ctx"
		}
		// method call returning a channel, e.g. Output(), Err()
		i := strings.LastIndex(s.Name, ".")
		return "call:" + s.Name[i+1:]
	case "field":
		root, path, ok := s.FieldPath()
		if !ok {
			return "unknown"
		}
		if path[len(path)-1] == "C" && len(path) >= 1 {
			// ticker.C
			if root.Op == "call" && strings.HasSuffix(root.Name, "time.NewTicker") || (len(path) >= 2) || root.Op == "call" {
				if len(path) >= 2 {
					return "ticker:" + strings.Join(path[:len(path)-1], ".")
				}
				return "ticker:local"
			}
		}
		if root.Op == "index" {
			// dsc.inputs[p].Channel
			if _, ipath, ok := root.Args[0].FieldPath(); ok {
				return "table:" + strings.Join(ipath, ".") + "." + strings.Join(path, ".")
			}
		}
		if root.Op == "param" || root.Op == "free" {
			return "field:" + strings.Join(path, ".")
		}
		return "field?:" + strings.Join(path, ".")
	case "param":
		return "param:" + s.Name
	}
	return "unknown:" + s.String()
}

// BlockOp is one potentially blocking operation.
type BlockOp struct {
	Fn      *ssa.Function
	In      ssa.Instruction
	Kind    string // select send recv rangechan sleep wgwait call
	Sel     *SelInfo
	Role    string // channel role for send/recv
	CommaOk bool
	Callee  string // for call kinds: display name
	Dyn     bool
}

// knownNonBlocking: external calls enumerated (by reading) as returning without waiting on
// another goroutine.
func externalCallClass(name string) string {
	switch {
	case name == "time.Sleep":
		return "sleep"
	case name == "(*sync.WaitGroup).Wait":
		return "wgwait"
	case strings.HasSuffix(name, "breaker.Breaker).Break"):
		return "break"
	case strings.HasSuffix(name, "breaker.Breaker).Complete"),
		strings.HasSuffix(name, "breaker.Breaker).IsBreaked"),
		strings.HasSuffix(name, "breaker.New"):
		return "nonblocking"
	}
	for _, pre := range []string{"time.", "(time.", "(*time.", "context.", "sort.", "slices.", "math.", "math/big.", "(*math/big.", "errors.",
		"(*sync.WaitGroup).Add", "(*sync.WaitGroup).Done", "github.com/akramarenkov/safe."} {
		if strings.HasPrefix(name, pre) {
			return "nonblocking"
		}
	}
	return "unknown"
}

// BlockingOps enumerates the potentially blocking operations written in fn itself
// (callees are visited separately through Reach).
func (p *Prog) BlockingOps(fn *ssa.Function) []*BlockOp {
	var out []*BlockOp
	for _, b := range fn.Blocks {
		for _, in := range b.Instrs {
			switch x := in.(type) {
			case *ssa.Select:
				out = append(out, &BlockOp{Fn: fn, In: x, Kind: "select", Sel: p.SelectInfo(x)})
			case *ssa.Send:
				out = append(out, &BlockOp{Fn: fn, In: x, Kind: "send", Role: p.chanRole(x.Chan)})
			case *ssa.UnOp:
				if x.Op == token.ARROW {
					out = append(out, &BlockOp{Fn: fn, In: x, Kind: "recv", Role: p.chanRole(x.X), CommaOk: x.CommaOk})
				}
			case *ssa.Next:
				// range over channel is lowered to a receive loop, but keep for completeness
				if r, ok := x.Iter.(*ssa.Range); ok {
					if _, isChan := r.X.Type().Underlying().(*types.Chan); isChan {
						out = append(out, &BlockOp{Fn: fn, In: x, Kind: "rangechan", Role: p.chanRole(r.X)})
					}
				}
			case *ssa.Go:
			case ssa.CallInstruction:
				if _, isDefer := in.(*ssa.Defer); isDefer {
					// deferred calls are classified where they are registered
				}
				cc := x.Common()
				if _, ok := cc.Value.(*ssa.Builtin); ok {
					continue
				}
				callee := p.Callee(x)
				if callee != nil && p.IsProduct(callee) {
					continue // visited through Reach
				}
				if callee != nil {
					name := p.funcDisplay(callee)
					cls := externalCallClass(name)
					if cls == "nonblocking" {
						continue
					}
					out = append(out, &BlockOp{Fn: fn, In: in, Kind: cls, Callee: name})
					continue
				}
				if cc.IsInvoke() {
					name := "invoke:" + typeShort(cc.Value.Type()) + "." + cc.Method.Name()
					switch name {
					case "invoke:context.Context.Done", "invoke:context.Context.Err", "invoke:error.Error":
						continue
					}
					out = append(out, &BlockOp{Fn: fn, In: in, Kind: "unknown", Callee: name, Dyn: true})
					continue
				}
				// the function value may have reached fn as an argument: of a call (process(item, handle))
				// or of the go statement that starts fn (go handler(inner, dsc.opts.Handle))
				cs := p.Sym(cc.Value)
				if cs.Op == "param" {
					if up := p.upParam(cs, 0); up.String() != cs.String() {
						cs = up
					} else if a, ok := goEntryArg(p, fn, cc.Value); ok {
						cs = p.Sym(a)
					}
				}
				if ci, isCI := in.(ssa.CallInstruction); isCI && len(p.funcValueTargets(nil, ci)) > 0 {
					continue // methods of the product handed on as values: visited through Reach
				}
				// a function-typed parameter that every call site feeds with a function literal of the
				// product (FilterPriorities(dst, list, func(p uint) bool { ... })): the literals are
				// visited through Reach like any other function of the goroutine
				if par, isPar := cc.Value.(*ssa.Parameter); isPar && par.Parent() == fn {
					idx := paramIndex(fn, par)
					sites := p.CallSites(fn)
					allLits := len(sites) > 0 && idx >= 0
					for _, site := range sites {
						args := site.Common().Args
						if idx >= len(args) {
							allLits = false
							continue
						}
						mc, isMC := stripChangeType(args[idx]).(*ssa.MakeClosure)
						if !isMC {
							allLits = false
							continue
						}
						if lf, isFn := mc.Fn.(*ssa.Function); !isFn || !p.IsProduct(lf) {
							allLits = false
						}
					}
					if allLits {
						continue
					}
				}
				out = append(out, &BlockOp{Fn: fn, In: in, Kind: "dyncall", Callee: cs.String(), Dyn: true})
			}
		}
	}
	return out
}

func constDuration(v ssa.Value) (int64, bool) {
	c, ok := v.(*ssa.Const)
	if !ok || c.Value == nil || c.Value.Kind() != constant.Int {
		return 0, false
	}
	n, ok := constant.Int64Val(c.Value)
	return n, ok
}

// ---- strongly connected components of a block subset ----

func sccs(blocks []*ssa.BasicBlock, in map[*ssa.BasicBlock]bool) [][]*ssa.BasicBlock {
	index := map[*ssa.BasicBlock]int{}
	low := map[*ssa.BasicBlock]int{}
	on := map[*ssa.BasicBlock]bool{}
	var stack []*ssa.BasicBlock
	var out [][]*ssa.BasicBlock
	n := 0
	var strong func(v *ssa.BasicBlock)
	strong = func(v *ssa.BasicBlock) {
		index[v] = n
		low[v] = n
		n++
		stack = append(stack, v)
		on[v] = true
		for _, w := range v.Succs {
			if !in[w] {
				continue
			}
			if _, seen := index[w]; !seen {
				strong(w)
				if low[w] < low[v] {
					low[v] = low[w]
				}
			} else if on[w] && index[w] < low[v] {
				low[v] = index[w]
			}
		}
		if low[v] == index[v] {
			var comp []*ssa.BasicBlock
			for {
				w := stack[len(stack)-1]
				stack = stack[:len(stack)-1]
				on[w] = false
				comp = append(comp, w)
				if w == v {
					break
				}
			}
			nontrivial := len(comp) > 1
			if !nontrivial {
				for _, s := range comp[0].Succs {
					if s == comp[0] {
						nontrivial = true
					}
				}
			}
			if nontrivial {
				out = append(out, comp)
			}
		}
	}
	for _, b := range blocks {
		if in[b] {
			if _, seen := index[b]; !seen {
				strong(b)
			}
		}
	}
	return out
}

func blockSet(bs []*ssa.BasicBlock) map[*ssa.BasicBlock]bool {
	m := map[*ssa.BasicBlock]bool{}
	for _, b := range bs {
		m[b] = true
	}
	return m
}

// boundedHeader reports whether block b (inside SCC c) is the controlling test of a loop
// with a statically bounded trip count: range over map/slice/string/int, or a counted loop
// whose induction variable moves by a constant towards a loop-invariant bound.
func boundedHeader(b *ssa.BasicBlock, c map[*ssa.BasicBlock]bool) bool {
	if len(b.Instrs) == 0 {
		return false
	}
	iff, ok := b.Instrs[len(b.Instrs)-1].(*ssa.If)
	if !ok {
		return false
	}
	exits := !c[b.Succs[0]] || !c[b.Succs[1]]
	if !exits {
		return false
	}
	switch cond := iff.Cond.(type) {
	case *ssa.Extract:
		if nx, ok := cond.Tuple.(*ssa.Next); ok && cond.Index == 0 {
			if r, ok := nx.Iter.(*ssa.Range); ok {
				if _, isChan := r.X.Type().Underlying().(*types.Chan); !isChan {
					return true
				}
			}
		}
	case *ssa.BinOp:
		switch cond.Op {
		case token.LSS, token.LEQ, token.GTR, token.GEQ, token.NEQ:
		default:
			return false
		}
		isInduction := func(v ssa.Value) bool {
			// v is phi or phi±const with phi in the SCC
			if bo, ok := v.(*ssa.BinOp); ok && (bo.Op == token.ADD || bo.Op == token.SUB) {
				if _, isC := bo.Y.(*ssa.Const); isC {
					v = bo.X
				}
			}
			ph, ok := v.(*ssa.Phi)
			if !ok || !c[ph.Block()] {
				return false
			}
			// every in-loop edge is phi ± const
			for i, e := range ph.Edges {
				pred := ph.Block().Preds[i]
				if !c[pred] {
					continue
				}
				bo, ok := e.(*ssa.BinOp)
				if !ok || (bo.Op != token.ADD && bo.Op != token.SUB) || bo.X != ssa.Value(ph) {
					return false
				}
				if _, isC := bo.Y.(*ssa.Const); !isC {
					return false
				}
			}
			return true
		}
		invariant := func(v ssa.Value) bool {
			in, ok := v.(ssa.Instruction)
			if !ok {
				return true // consts, params
			}
			if !c[in.Block()] {
				return true
			}
			// len / cap of a value that is itself invariant (for i := 0; i < len(list); i++)
			if call, isCall := v.(*ssa.Call); isCall {
				if bi, isB := call.Call.Value.(*ssa.Builtin); isB && (bi.Name() == "len" || bi.Name() == "cap") && len(call.Call.Args) == 1 {
					if _, isPar := call.Call.Args[0].(*ssa.Parameter); isPar {
						return true
					}
				}
			}
			// a field re-loaded in the loop is invariant if the loop's function never stores to a
			// field of that name (e.g. dsc.opts.Limit.Quantity)
			if ld, isLd := v.(*ssa.UnOp); isLd && ld.Op == token.MUL {
				if fa, isFA := ld.X.(*ssa.FieldAddr); isFA {
					name := fieldName(fa.X.Type(), fa.Field)
					for _, bb := range b.Parent().Blocks {
						for _, x := range bb.Instrs {
							if st, isSt := x.(*ssa.Store); isSt {
								if fa2, ok2 := st.Addr.(*ssa.FieldAddr); ok2 && fieldName(fa2.X.Type(), fa2.Field) == name {
									return false
								}
							}
							if _, isCall := x.(*ssa.Call); isCall && c[bb] {
								// a call in the loop could write it: accept only option fields (immutable after construction)
								if _, _, path, okp := fieldPathOf(fa); okp && len(path) > 0 && path[0] == "opts" {
									continue
								}
								return false
							}
						}
					}
					return true
				}
			}
			return false
		}
		if (isInduction(cond.X) && invariant(cond.Y)) || (isInduction(cond.Y) && invariant(cond.X)) {
			return true
		}
	}
	return false
}
