package main

import (
	"fmt"
	"go/constant"
	"go/token"
	"go/types"
	"strings"

	"golang.org/x/tools/go/ssa"
)

// CondEdge is a CFG edge whose traversal is implied at some program point.
type CondEdge struct {
	From *ssa.BasicBlock
	Succ int
}

// DomEdges returns the conditional edges (If / select clause tests) that every path from the
// function entry to block b must traverse.
func DomEdges(b *ssa.BasicBlock) []CondEdge {
	var out []CondEdge
	fn := b.Parent()
	for _, d := range fn.Blocks {
		if len(d.Succs) != 2 || !d.Dominates(b) {
			continue
		}
		if _, ok := d.Instrs[len(d.Instrs)-1].(*ssa.If); !ok {
			continue
		}
		for i, s := range d.Succs {
			if len(s.Preds) == 1 && (s == b || s.Dominates(b)) && d != s {
				out = append(out, CondEdge{d, i})
			}
		}
	}
	return out
}

// AllPathsPass: every path from the function entry to block b takes a conditional edge for which
// pred holds. It generalises "some dominating edge satisfies pred" to conditions that were merged
// (`if a && b`), split, or turned into a switch.
func AllPathsPass(b *ssa.BasicBlock, pred func(e CondEdge) bool) bool {
	fn := b.Parent()
	if len(fn.Blocks) == 0 || fn.Blocks[0] == b {
		return false
	}
	seen := map[*ssa.BasicBlock]bool{fn.Blocks[0]: true}
	stack := []*ssa.BasicBlock{fn.Blocks[0]}
	for len(stack) > 0 {
		x := stack[len(stack)-1]
		stack = stack[:len(stack)-1]
		_, isIf := x.Instrs[len(x.Instrs)-1].(*ssa.If)
		for i, s := range x.Succs {
			if isIf && len(x.Succs) == 2 && pred(CondEdge{x, i}) {
				continue
			}
			if s == b {
				return false
			}
			if !seen[s] {
				seen[s] = true
				stack = append(stack, s)
			}
		}
	}
	return true
}

// InstrDomEdges: like DomEdges for the block of an instruction.
func InstrDomEdges(in ssa.Instruction) []CondEdge { return DomEdges(in.Block()) }

// Cmp is a normalised integer comparison  L + lc  OP  R + rc  (OP in < <= == !=).
type Cmp struct {
	L, R   *Sym
	LC, RC int64
	Op     token.Token
	Unsig  bool
}

func (c *Cmp) String() string {
	f := func(s *Sym, k int64) string {
		if k == 0 {
			return s.String()
		}
		return fmt.Sprintf("%s%+d", s, k)
	}
	return f(c.L, c.LC) + " " + c.Op.String() + " " + f(c.R, c.RC)
}

func splitConst(s *Sym) (*Sym, int64) {
	s = s.StripConv()
	if s.Op == "bin" && (s.Name == "+" || s.Name == "-") {
		if k, ok := symConstInt(s.Args[1]); ok {
			b, kk := splitConst(s.Args[0])
			if s.Name == "+" {
				return b, kk + k
			}
			return b, kk - k
		}
		if k, ok := symConstInt(s.Args[0]); ok && s.Name == "+" {
			b, kk := splitConst(s.Args[1])
			return b, kk + k
		}
	}
	if k, ok := symConstInt(s); ok {
		return &Sym{Op: "const", Name: "0"}, k
	}
	return s, 0
}

func symConstInt(s *Sym) (int64, bool) {
	s = s.StripConv()
	if s.Op != "const" {
		return 0, false
	}
	c, ok := s.V.(*ssa.Const)
	if !ok || c.Value == nil || c.Value.Kind() != constant.Int {
		var n int64
		if _, err := fmt.Sscanf(s.Name, "%d", &n); err == nil && fmt.Sprint(n) == s.Name {
			return n, true
		}
		return 0, false
	}
	n, ok := constant.Int64Val(c.Value)
	return n, ok
}

// NormCmp normalises the comparison denoted by value v taken with the given polarity
// (truth=true: v holds). Returns nil if v is not an integer comparison.
// reportedCmp: call is a call of a product function with exactly one return whose only result is
// a comparison computed in the returning block (so nothing the function does comes after it).
func (p *Prog) reportedCmp(call *ssa.Call) (*ssa.Function, *ssa.Return) {
	fn := p.Callee(call)
	if fn == nil || !p.IsProduct(fn) || !returnsBoolOnly(fn) {
		return nil, nil
	}
	var only *ssa.Return
	for _, b := range fn.Blocks {
		if b == fn.Recover {
			continue
		}
		if ret, ok := b.Instrs[len(b.Instrs)-1].(*ssa.Return); ok {
			if only != nil {
				return nil, nil
			}
			only = ret
		}
	}
	if only == nil || len(only.Results) != 1 {
		return nil, nil
	}
	base, _ := condOf(only.Results[0])
	bo, ok := base.(*ssa.BinOp)
	if !ok || bo.Block() != only.Block() {
		return nil, nil
	}
	// nothing with effects between the comparison and the return
	after := false
	for _, in := range only.Block().Instrs {
		if in == ssa.Instruction(bo) {
			after = true
			continue
		}
		if !after {
			continue
		}
		switch in.(type) {
		case *ssa.UnOp, *ssa.BinOp, *ssa.Return, *ssa.DebugRef, *ssa.Convert, *ssa.ChangeType:
		default:
			return nil, nil
		}
	}
	return fn, only
}

func (p *Prog) NormCmp(v ssa.Value, truth bool) *Cmp {
	base, neg := condOf(v)
	if neg {
		truth = !truth
	}
	if call, isCall := base.(*ssa.Call); isCall {
		// a condition hidden in an expression function: compare what the function returns
		if fn, ret := p.exprFunc(call); ret != nil && len(ret.Results) == 1 {
			if c := p.NormCmp(ret.Results[0], truth); c != nil {
				c.L, c.R = p.substParams(call, fn, c.L), p.substParams(call, fn, c.R)
				return c
			}
		}
		// a function with effects that reports a comparison it evaluated last (`full := dsc.add(item)`
		// = append, then `return len(join) >= JoinSize`): tested right after the call, the result
		// denotes that comparison
		if fn, ret := p.reportedCmp(call); ret != nil {
			if c := p.NormCmp(ret.Results[0], truth); c != nil {
				c.L, c.R = p.substParams(call, fn, c.L), p.substParams(call, fn, c.R)
				return c
			}
		}
		return nil
	}
	bo, ok := base.(*ssa.BinOp)
	if !ok {
		return nil
	}
	op := bo.Op
	switch op {
	case token.LSS, token.LEQ, token.GTR, token.GEQ, token.EQL, token.NEQ:
	default:
		return nil
	}
	if !truth {
		switch op {
		case token.LSS:
			op = token.GEQ
		case token.LEQ:
			op = token.GTR
		case token.GTR:
			op = token.LEQ
		case token.GEQ:
			op = token.LSS
		case token.EQL:
			op = token.NEQ
		case token.NEQ:
			op = token.EQL
		}
	}
	l, lc := splitConst(p.SymX(bo.X)) // operands may be calls of expression functions (length(x))
	r, rc := splitConst(p.SymX(bo.Y))
	c := &Cmp{L: l, R: r, LC: lc, RC: rc, Op: op}
	if b, ok := bo.X.Type().Underlying().(*types.Basic); ok && b.Info()&types.IsUnsigned != 0 {
		c.Unsig = true
	}
	// orient: > and >= become < and <= with sides swapped
	switch c.Op {
	case token.GTR:
		c.L, c.R, c.LC, c.RC, c.Op = c.R, c.L, c.RC, c.LC, token.LSS
	case token.GEQ:
		c.L, c.R, c.LC, c.RC, c.Op = c.R, c.L, c.RC, c.LC, token.LEQ
	}
	// unsigned x != 0  ==  0 < x
	if c.Unsig && c.Op == token.NEQ {
		if c.R.String() == "0" && c.RC == 0 && c.LC == 0 {
			c.L, c.R, c.Op = c.R, c.L, token.LSS
		} else if c.L.String() == "0" && c.LC == 0 && c.RC == 0 {
			c.Op = token.LSS
		}
	}
	return c
}

// Implies reports whether comparison c implies  l + lc  OP  r + rc  (OP < or <=) for integers.
func (c *Cmp) ImpliesLess(l, r string, strict bool, k int64) bool {
	// want: l < r + k   (strict)  or  l <= r + k
	// have: L + LC  op  R + RC   <=>  L op R + (RC-LC)
	if c.L.String() != l || c.R.String() != r {
		return false
	}
	d := c.RC - c.LC
	switch c.Op {
	case token.LSS: // L < R + d  => L <= R + d - 1
		if strict {
			return d <= k
		}
		return d-1 <= k
	case token.LEQ:
		if strict {
			return d < k
		}
		return d <= k
	case token.EQL:
		if strict {
			return d < k
		}
		return d <= k
	}
	return false
}

// condSymOnEdge renders the condition known to hold when edge e is taken.
func (p *Prog) condSymOnEdge(e CondEdge) string {
	iff := e.From.Instrs[len(e.From.Instrs)-1].(*ssa.If)
	if si, cs, isDef := p.CaseOnEdge(e.From, e.Succ); si != nil {
		if cs != nil {
			return "select:" + p.stopRoleOf(cs.State.Chan)
		}
		if isDef {
			return "select:default"
		}
		return "select:other"
	}
	s := p.Sym(iff.Cond).String()
	if e.Succ == 1 {
		return "!(" + s + ")"
	}
	return s
}

// edgeIsCallResult: the edge asserts that a call of a function accepted by pred returned want.
func (p *Prog) edgeIsCallResult(e CondEdge, pred func(callee *ssa.Function) bool, want bool) bool {
	iff, ok := e.From.Instrs[len(e.From.Instrs)-1].(*ssa.If)
	if !ok {
		return false
	}
	base, neg := condOf(iff.Cond)
	call, ok := base.(*ssa.Call)
	if !ok {
		return false
	}
	callee := p.Callee(call)
	if callee == nil || !pred(callee) {
		return false
	}
	val := (e.Succ == 0) != neg
	return val == want
}

func describeEdges(p *Prog, es []CondEdge) string {
	var parts []string
	for _, e := range es {
		parts = append(parts, p.condSymOnEdge(e))
	}
	return strings.Join(parts, " && ")
}

// isZeroTestEdge: taking edge e asserts that something is zero / nil / empty: `x == 0`,
// `x == nil` (in any spelling NormCmp reduces to that), or a private boolean helper answered true
// that answers true only behind such a test (isNothingToDivide(priorities, distribution)).
func (p *Prog) isZeroTestEdge(e CondEdge, depth int) bool {
	iff, ok := e.From.Instrs[len(e.From.Instrs)-1].(*ssa.If)
	if !ok {
		return false
	}
	return p.isZeroTest(iff.Cond, e.Succ == 0, depth)
}

func (p *Prog) isZeroTest(cond ssa.Value, truth bool, depth int) bool {
	if cm := p.NormCmp(cond, truth); cm != nil {
		if cm.Op != token.EQL {
			return false
		}
		zero := func(x *Sym, k int64) bool {
			x = deepStrip(x)
			return k == 0 && (x.String() == "0" || x.String() == "nil" || (x.Op == "const" && (x.Name == "nil" || x.Name == "0")))
		}
		return zero(cm.R, cm.RC) && cm.LC == 0 || zero(cm.L, cm.LC) && cm.RC == 0
	}
	base, neg := condOf(cond)
	call, isCall := base.(*ssa.Call)
	if !isCall || depth > 2 {
		return false
	}
	// the helper's answer on this edge: true (isNothingToDivide(...)) or false (!isDividable(...))
	want := truth != neg
	wantS, otherS := "true", "false"
	if !want {
		wantS, otherS = "false", "true"
	}
	h := p.Callee(call)
	if h == nil || !p.IsProduct(h) || !returnsBoolOnly(h) || len(h.Blocks) == 0 {
		return false
	}
	// blocks of h reachable from its entry without taking a zero-test edge
	reach := map[*ssa.BasicBlock]bool{h.Blocks[0]: true}
	viaPlain := map[[2]*ssa.BasicBlock]bool{}
	stack := []*ssa.BasicBlock{h.Blocks[0]}
	for len(stack) > 0 {
		x := stack[len(stack)-1]
		stack = stack[:len(stack)-1]
		_, isIf := x.Instrs[len(x.Instrs)-1].(*ssa.If)
		for i, s := range x.Succs {
			if isIf && len(x.Succs) == 2 && p.isZeroTestEdge(CondEdge{x, i}, depth+1) {
				continue
			}
			viaPlain[[2]*ssa.BasicBlock{x, s}] = true
			if !reach[s] {
				reach[s] = true
				stack = append(stack, s)
			}
		}
	}
	var okVal func(v ssa.Value, b *ssa.BasicBlock) bool
	okVal = func(v ssa.Value, b *ssa.BasicBlock) bool {
		switch x := v.(type) {
		case *ssa.Const:
			if constString(x) == otherS {
				return true
			}
			return !reach[b] // the answer in question: only behind a zero test
		case *ssa.Phi:
			for i, ev := range x.Edges {
				pred := x.Block().Preds[i]
				if c, isC := ev.(*ssa.Const); isC {
					if constString(c) == wantS && reach[pred] && viaPlain[[2]*ssa.BasicBlock{pred, x.Block()}] {
						return false
					}
					continue
				}
				if !p.isZeroTest(ev, want, depth+1) && reach[pred] {
					return false
				}
			}
			return true
		}
		return p.isZeroTest(v, want, depth+1) || !reach[b]
	}
	for _, b := range h.Blocks {
		ret, isRet := b.Instrs[len(b.Instrs)-1].(*ssa.Return)
		if !isRet || b == h.Recover {
			continue
		}
		if len(ret.Results) != 1 || !okVal(ret.Results[0], b) {
			return false
		}
	}
	return true
}
