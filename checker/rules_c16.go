package main

import (
	"fmt"
	"go/token"
	"strings"

	"golang.org/x/tools/go/ssa"
)

func init() {
	register(&Property{
		ID:          "C16",
		Run:         runC16,
		Explanation: "v1 Stop/cancel completes: for each of the v1 goroutine entries (priority, join and Simple main, the Simple handler, the Simple graceful-stop helper) the checker enumerates every potentially blocking operation reachable from it (select, plain send/receive, Sleep, WaitGroup.Wait, Break/Stop/GracefulStop of a sub-discipline, dynamic calls) and requires it to be a select that contains every stop signal of its goroutine or one of the enumerated bounded idioms (S1); decomposes every CFG cycle into strongly connected components and requires each to have a bounded trip count or a stop exit that leaves the component (S2); checks the order in which the entry's deferred calls run (S4-S6) and that no output write is reachable from a deferred call. The subsequence clause (S7) is decided by the C02 rules in their v1 form.",
		NotDecided:  []string{"the bound in real time (only that every wait is stop-aware and every loop leaves on stop)"},
	})
}

// stopReporting: fn contains a stop-complete select whose stop clauses all return the boolean
// constant K while every other return yields !K. Returns K.
func (p *Prog) stopReporting(fn *ssa.Function, req []string) (k string, ok bool) {
	if fn.Signature.Results().Len() != 1 {
		return "", false
	}
	stopRet := map[*ssa.Return]bool{}
	found := false
	for _, s := range Selects(fn) {
		si := p.SelectInfo(s)
		stops := p.selectStops(si)
		if len(hasAll(stops, req)) > 0 {
			continue
		}
		for _, c := range stops {
			if c.Body == nil {
				return "", false
			}
			ret, isRet := c.Body.Instrs[len(c.Body.Instrs)-1].(*ssa.Return)
			if !isRet || len(c.Body.Preds) != 1 {
				return "", false
			}
			stopRet[ret] = true
		}
		found = true
	}
	if !found {
		return "", false
	}
	kStop, kOther := "", ""
	for _, b := range fn.Blocks {
		for _, in := range b.Instrs {
			ret, isRet := in.(*ssa.Return)
			if !isRet || b.Comment == "recover" {
				continue
			}
			c, isC := ret.Results[0].(*ssa.Const)
			if !isC {
				return "", false
			}
			v := constString(c)
			if stopRet[ret] {
				if kStop != "" && kStop != v {
					return "", false
				}
				kStop = v
			} else {
				if kOther != "" && kOther != v {
					return "", false
				}
				kOther = v
			}
		}
	}
	if kStop == "" || kStop == kOther {
		return "", false
	}
	return kStop, true
}

// stopExitBlock builds the S2 exit predicate for a goroutine with the given required stops.
func (p *Prog) stopExitBlock(req []string) func(b *ssa.BasicBlock, scc map[*ssa.BasicBlock]bool) bool {
	return func(b *ssa.BasicBlock, scc map[*ssa.BasicBlock]bool) bool {
		for _, in := range b.Instrs {
			switch x := in.(type) {
			case *ssa.Select:
				si := p.SelectInfo(x)
				stops := p.selectStops(si)
				if len(hasAll(stops, req)) > 0 {
					continue
				}
				all := true
				for _, r := range req {
					if !caseLeaves(stops[r], scc) {
						all = false
					}
				}
				if all {
					return true
				}
			case *ssa.Call:
				callee := p.Callee(x)
				if callee == nil || !p.IsProduct(callee) {
					continue
				}
				k, ok := p.stopReporting(callee, req)
				if !ok {
					continue
				}
				// the result must be tested at the end of this block and the K edge must leave the SCC
				iff, isIf := b.Instrs[len(b.Instrs)-1].(*ssa.If)
				if !isIf {
					continue
				}
				cond := iff.Cond
				neg := false
				if u, isU := cond.(*ssa.UnOp); isU && u.Op == token.NOT {
					cond, neg = u.X, true
				}
				if cond != ssa.Value(x) {
					continue
				}
				edge := 0 // taken when result is true
				if (k == "false") != neg {
					edge = 1
				}
				if !scc[b.Succs[edge]] {
					return true
				}
			}
		}
		return false
	}
}

func runC16(c *Ctx) {
	r := c.R
	p := c.V1
	r.Doc("S0", "role resolution: the five v1 goroutine entries (main of priority, join, Simple; Simple handler; Simple graceful-stop helper)", 5)
	r.Doc("S1", "every potentially blocking operation reachable from a v1 goroutine is a select containing every stop signal of that goroutine, or an enumerated bounded idiom", 20)
	r.Doc("S2", "every CFG cycle has a bounded trip count or a stop exit leaving it (stop-complete select whose stop clauses leave the loop, or a tested stop-reporting call)", 12)
	r.Doc("S3", "stop clauses of blocking selects outside loops leave their function", 4)
	r.Doc("S4", "deferred calls of each entry: Complete() calls run last; join closes its output before Complete; no output send is reachable from a deferred call", 3)
	r.Doc("S5", "Simple: sub-discipline Stop() and wg.Wait() run before any channel is closed", 1)
	r.Doc("S6", "Simple: cancel() runs before wg.Wait(); wg.Add(1) precedes each go handler; handler defers wg.Done() first", 3)
	entries := 0
	for _, d := range p.Discs() {
		for _, e := range d.Gos {
			entries++
			rt := p.Routine(d, e)
			ek := p.FnKey(e.Entry)
			r.Pass("S0", ek, p.Pos(e.Entry.Pos()), fmt.Sprintf("functions=%d subcalls=%d required stops=%v", len(rt.Funcs), len(rt.SubCalls), rt.RequiredStops()))
			c16routine(c, rt)
		}
	}
	// S10: the context every v1 goroutine selects on exists: a missing Opts.Ctx is replaced by
	// context.Background() exactly when it is nil (replaced when present, cancellation is lost; left
	// nil when missing, the first select panics on a nil interface)
	r.Doc("S10", "a missing Ctx is defaulted exactly under Ctx == nil", 3)
	n10 := 0
	for _, fn := range p.Funcs() {
		for _, b := range fn.Blocks {
			for _, in := range b.Instrs {
				st, ok := in.(*ssa.Store)
				if !ok {
					continue
				}
				fa, isFA := st.Addr.(*ssa.FieldAddr)
				if !isFA || fieldName(fa.X.Type(), fa.Field) != "Ctx" {
					continue
				}
				vs := p.Sym(st.Val)
				if !(vs.Op == "call" && vs.Name == "context.Background") {
					continue
				}
				n10++
				underNil := false
				for _, e := range InstrDomEdges(st) {
					iff := e.From.Instrs[len(e.From.Instrs)-1].(*ssa.If)
					cm := p.NormCmp(iff.Cond, e.Succ == 0)
					if cm == nil || cm.Op != token.EQL {
						continue
					}
					l, rr := deepStrip(cm.L), deepStrip(cm.R)
					isCtx := func(x *Sym) bool {
						_, path, okp := x.FieldPath()
						return okp && path[len(path)-1] == "Ctx"
					}
					isNil := func(x *Sym) bool { return x.String() == "nil" || (x.Op == "const" && x.Name == "nil") }
					if (isCtx(l) && isNil(rr)) || (isCtx(rr) && isNil(l)) {
						underNil = true
					}
				}
				r.Check(underNil, "S10", fmt.Sprintf("%s#ctx-default.%d", p.FnKey(fn), n10), p.InstrPos(in), "context.Background() under Ctx == nil",
					"the context is replaced by context.Background() although it is not tested to be nil here: a configured context is dropped (its cancellation no longer stops the discipline) and a missing one stays nil (the goroutine panics at its first select)")
			}
		}
	}
	if n10 == 0 {
		r.Fail("S10", "v1#ctx-default", "-", "UNRESOLVED-ANCHOR: no defaulting of Opts.Ctx found")
	}
	// S11: there is a goroutine to complete
	r.Doc("S11", "every successful return of a v1 constructor is reached through the go statement of the discipline's goroutine (whose completion Stop() waits for)", 3)
	checkEntryStarted(c, p, "S11")
	// S8: the stop API blocks until completion (Break on the own breaker, synchronously)
	r.Doc("S8", "Stop()/GracefulStop() call Break() of the matching breaker synchronously (they return only after the goroutine completed)", 5)
	checkStopSync(c, p, "S8")
	if entries < 4 {
		r.Fail("S0", "v1:entries", "-", fmt.Sprintf("UNRESOLVED-ANCHOR: %d v1 goroutine entries found, expected 4", entries))
	}
	c02V1Subsequence(c)
	// S9: after a stop/cancel that arrives before the release signal the delivered slice stays
	// frozen (what was delivered remains what was written)
	r.Doc("S9", "(= C08 K2/K3, v1 join) a no-copy slice delivered before a stop/cancel is never touched again", 4)
	sub := &Ctx{V1: c.V1, V2: c.V2, Tier: c.Tier, R: NewReport("tmp", c.Tier)}
	for _, jr := range joinDiscs(sub) {
		if jr.v1 {
			checkK2(sub, jr)
			checkK3(sub, jr)
		}
	}
	for _, o := range sub.R.Obls {
		if o.Rule == "J0" {
			if !o.OK && strings.Contains(o.Key, "v1:") {
				r.Fail("S9", o.Key, o.Site, o.Detail)
			}
			continue
		}
		r.Check(o.OK, "S9", o.Key, o.Site, o.Detail, o.Detail)
	}
	errChannelNonBlocking(c, c.V1, "S1")
}

func c16routine(c *Ctx, rt *Routine) {
	r, p := c.R, rt.P
	req := rt.RequiredStops()
	ek := shortFn(p, rt.E.Entry)
	exitPred := p.stopExitBlock(req)
	for _, fn := range rt.Funcs {
		r.Funcs[p.FnKey(fn)] = true
		fk := p.FnKey(fn)
		ord := map[string]int{}
		for _, op := range p.BlockingOps(fn) {
			if rt.isSubCall(op.In) {
				continue
			}
			ord[op.Kind]++
			key := fmt.Sprintf("%s#%s.%d[%s]", fk, op.Kind, ord[op.Kind], ek)
			site := p.InstrPos(op.In)
			switch op.Kind {
			case "select":
				stops := p.selectStops(op.Sel)
				var roles []string
				for _, cse := range op.Sel.Cases {
					roles = append(roles, p.stopRoleOf(cse.State.Chan))
				}
				desc := "select{" + strings.Join(roles, ", ")
				if op.Sel.HasDefault {
					desc += ", default"
				}
				desc += "}"
				if op.Sel.HasDefault {
					r.Pass("S1", key, site, desc+": non-blocking")
					continue
				}
				missing := hasAll(stops, req)
				r.Check(len(missing) == 0, "S1", key, site, desc, desc+" can block and does not watch "+strings.Join(missing, ", "))
				// S3: outside loops the stop clauses must return
				if len(missing) == 0 && !blockInLoop(op.In.Block()) {
					okAll := true
					var bad []string
					for _, rq := range req {
						cse := stops[rq]
						if cse.Body == nil {
							okAll = false
							continue
						}
						if !p.blockOnlyReturns(cse.Body) {
							okAll = false
							bad = append(bad, rq)
						}
					}
					r.Check(okAll, "S3", key, site, "stop clauses return", "stop clause of "+strings.Join(bad, ", ")+" falls through to more work instead of returning")
				}
			case "send":
				// accepted idiom: single send on the capacity-1 err channel
				if op.Role == "field:err" && p.chanCapacityConst(rt.D, "err") >= 1 && p.atMostOnce(rt.E.Entry, op.In) {
					r.Pass("S1", key, site, "send on err: channel made with capacity >= 1 and sent to at most once per goroutine life")
				} else {
					r.Fail("S1", key, site, "plain send on "+op.Role+" can block forever and watches no stop signal")
				}
			case "recv", "rangechan":
				r.Fail("S1", key, site, "plain receive on "+op.Role+" can block forever and watches no stop signal")
			case "sleep":
				call := op.In.(ssa.CallInstruction)
				if d, ok := constDuration(call.Common().Args[0]); ok && d <= 1_000_000 {
					r.Pass("S1", key, site, fmt.Sprintf("Sleep(%dns): constant <= 1ms", d))
				} else {
					r.Fail("S1", key, site, "Sleep of a non-constant or long duration delays stop")
				}
			case "wgwait":
				// bounded iff the waited goroutines were told to stop first: checked by S6 (cancel before wait)
				r.Pass("S1", key, site, "WaitGroup.Wait: bounded given S6 (handlers' context cancelled first) and the handlers' own S1/S2")
			case "dyncall":
				s := op.Callee
				switch {
				case strings.HasSuffix(s, ".opts.Handle"):
					if why := handleCtxProblem(p, rt, op.In); why != "" {
						r.Fail("S1", key, site, why)
					} else {
						r.Pass("S1", key, site, "user Handle, given the context the parent cancels: returns when it is cancelled (documented contract)")
					}
				case strings.HasSuffix(s, ".opts.Divider") || s == "dyn:divider" || strings.HasPrefix(s, "divider"):
					r.Pass("S1", key, site, "user Divider: pure computation (documented contract)")
				case strings.Contains(s, "context.WithCancel"):
					r.Pass("S1", key, site, "cancel func: non-blocking")
				default:
					r.Fail("S1", key, site, "UNDECIDED: dynamic call "+s+" of unknown blocking behaviour")
				}
			default:
				r.Fail("S1", key, site, "UNDECIDED: call "+op.Callee+" of unknown blocking behaviour ("+op.Kind+")")
			}
		}
		// S2
		loops, problems := p.loopCheck(fn, exitPred)
		if loops > 0 || len(problems) > 0 {
			r.Check(len(problems) == 0, "S2", fk+"["+ek+"]", p.Pos(fn.Pos()), fmt.Sprintf("%d loops, each bounded or with a stop exit", loops), strings.Join(problems, "; "))
		}
	}
	// sub-discipline calls
	subOrd := map[string]int{}
	for _, sc := range rt.SubCalls {
		callee := p.Callee(sc)
		name := callee.Name()
		key := fmt.Sprintf("%s#call:%s", p.FnKey(sc.Parent()), shortFn(p, callee))
		subOrd[key]++
		if subOrd[key] > 1 {
			key += fmt.Sprintf(".%d", subOrd[key])
		}
		site := p.InstrPos(sc)
		switch name {
		case "Stop":
			r.Pass("S1", key, site, "Stop() of the owned sub-discipline: bounded because that discipline's own S1/S2 hold (checked in this run)")
		case "Err", "Output":
			r.Pass("S1", key, site, "returns a channel, does not block")
		case "GracefulStop":
			if rt.E.Helper() {
				okh, why := p.helperBounded(rt.D, rt.E)
				r.Check(okh, "S1", key, site, "GracefulStop() of the sub-discipline in a joined helper goroutine: "+why, "GracefulStop() of the sub-discipline in a helper goroutine: "+why)
				continue
			}
			r.Fail("S1", key, site, "GracefulStop() of the sub-discipline blocks until its inputs are closed and drained; while it is pending neither Stop() nor cancellation of Opts.Ctx is observed")
		default:
			r.Fail("S1", key, site, "UNDECIDED: call of "+name+" on a sub-discipline")
		}
	}
	// S4-S6: defer order of the entry
	fn := rt.E.Entry
	order, okOrder := p.CleanupOrder(fn)
	ekey := p.FnKey(fn)
	if !okOrder {
		r.Fail("S4", ekey, p.Pos(fn.Pos()), "UNDECIDED: conditional defer in a goroutine entry")
		return
	}
	desc := p.describeDefers(order)
	if rt.E.Helper() {
		// a helper goroutine is joined by its parent and must not raise the parent's signals
		var bad []string
		done := false
		for _, d := range order {
			switch k, _ := p.deferKind(d); k {
			case "wgdone":
				done = true
			case "complete":
				bad = append(bad, "a helper goroutine completes a breaker: Stop() returns before the discipline has terminated")
			}
		}
		if !done {
			bad = append(bad, "helper goroutine does not defer wg.Done(): the parent's wg.Wait() never returns")
		}
		r.Check(len(bad) == 0, "S4", ekey, p.Pos(fn.Pos()), "helper goroutine; run order: "+desc, strings.Join(bad, "; ")+" (run order: "+desc+")")
	}
	if !rt.E.Multi && rt.E.Parent == nil {
		firstComplete := -1
		var bad []string
		ncomplete := 0
		for i, d := range order {
			k, _ := p.deferKind(d)
			if k == "complete" {
				ncomplete++
				if firstComplete < 0 {
					firstComplete = i
				}
			} else if firstComplete >= 0 {
				bad = append(bad, fmt.Sprintf("%s runs after Complete()", k))
			}
		}
		if ncomplete == 0 {
			bad = append(bad, "no deferred Complete(): Stop() would never return")
		}
		// every breaker of the struct must be completed
		for _, f := range rt.D.Fields() {
			if typeShort(f.Type()) == "*breaker.Breaker" {
				found := false
				for _, d := range order {
					if k, _ := p.deferKind(d); k == "complete" {
						if _, path, ok := p.Sym(d.Common().Args[0]).FieldPath(); ok && path[len(path)-1] == f.Name() {
							found = true
						}
					}
				}
				if !found {
					bad = append(bad, "breaker "+f.Name()+" is never completed")
				}
			}
		}
		// output channel owned by the struct (join, Simple) must be closed before Complete
		for _, f := range rt.D.Fields() {
			if f.Name() == "output" {
				closed := false
				for i, d := range order {
					if k, a := p.deferKind(d); k == "close" && a == "field:output" && (firstComplete < 0 || i < firstComplete) {
						closed = true
					}
				}
				if !closed {
					bad = append(bad, "owned output channel is not closed before Complete()")
				}
			}
		}
		// no output send reachable from a deferred call that runs after the output was closed (a final
		// flush deferred by the entry before the close is the loop functions' own deferred flush moved
		// up; its send is stop-aware or not by S1)
		closedAt := -1
		for i, d := range order {
			if k, a := p.deferKind(d); k == "close" && a == "field:output" && closedAt < 0 {
				closedAt = i
			}
		}
		for i, d := range order {
			if closedAt < 0 || i < closedAt {
				continue
			}
			if callee := p.Callee(d); callee != nil && p.IsProduct(callee) {
				for g := range p.Reach(callee) {
					for _, op := range p.BlockingOps(g) {
						if op.Kind == "send" && isOutputRole(op.Role) {
							bad = append(bad, "output send reachable from deferred "+shortFn(p, callee)+", which runs after the output was closed")
						}
						if op.Kind == "select" {
							for _, cs := range op.Sel.Cases {
								if cs.State.Dir == 1 && isOutputRole(p.chanRole(cs.State.Chan)) {
									bad = append(bad, "output send reachable from deferred "+shortFn(p, callee)+", which runs after the output was closed")
								}
							}
						}
					}
				}
			}
		}
		// same for defers of functions called by the entry (loop's deferred waitZeroActual / pass)
		r.Check(len(bad) == 0, "S4", ekey, p.Pos(fn.Pos()), "run order: "+desc, strings.Join(bad, "; ")+" (run order: "+desc+")")
	}
	// Simple-specific: S5/S6 when the entry spawns children
	spawns := false
	for _, b := range rt.routineBlocks() {
		for _, in := range b.Instrs {
			if _, ok := in.(*ssa.Go); ok {
				spawns = true
			}
		}
	}
	if spawns {
		pos := map[string]int{}
		firstClose := -1
		for i, d := range order {
			k, a := p.deferKind(d)
			if k == "close" && firstClose < 0 {
				firstClose = i
			}
			if k == "call" && strings.HasSuffix(a, ".Stop") {
				k = "substop"
			}
			if _, seen := pos[k]; !seen {
				pos[k] = i
			}
		}
		var bad5 []string
		if i, ok := pos["substop"]; !ok {
			bad5 = append(bad5, "sub-discipline is never stopped")
		} else if firstClose >= 0 && i > firstClose {
			bad5 = append(bad5, "a channel is closed before the sub-discipline (which sends on it) is stopped")
		}
		if i, ok := pos["wgwait"]; !ok {
			bad5 = append(bad5, "handlers are never joined (no deferred wg.Wait)")
		} else if firstClose >= 0 && i > firstClose {
			bad5 = append(bad5, "a channel is closed before the handlers (which use it) are joined")
		}
		r.Check(len(bad5) == 0, "S5", ekey, p.Pos(fn.Pos()), "run order: "+desc, strings.Join(bad5, "; ")+" (run order: "+desc+")")
		var bad6 []string
		ci, okc := pos["cancel"]
		wi, okw := pos["wgwait"]
		if !okc {
			bad6 = append(bad6, "handlers' context is never cancelled")
		} else if okw && ci > wi {
			bad6 = append(bad6, "wg.Wait() runs before cancel(): handlers blocked in Handle are never told to stop")
		}
		if fc, ok := pos["complete"]; ok && okw && wi > fc {
			bad6 = append(bad6, "Complete() runs before wg.Wait(): Stop() returns while Handle may still run")
		}
		r.Check(len(bad6) == 0, "S6", ekey+"#order", p.Pos(fn.Pos()), "cancel before wg.Wait before Complete", strings.Join(bad6, "; ")+" (run order: "+desc+")")
		// wg.Add(1) immediately dominates each go; child defers wg.Done first
		for _, b := range rt.routineBlocks() {
			for i, in := range b.Instrs {
				g, ok := in.(*ssa.Go)
				if !ok {
					continue
				}
				added := false
				for j := i - 1; j >= 0; j-- {
					if call, ok := b.Instrs[j].(*ssa.Call); ok {
						if cal := p.Callee(call); cal != nil && p.funcDisplay(cal) == "(*sync.WaitGroup).Add" {
							if d, ok := constDuration(call.Call.Args[1]); ok && d == 1 {
								added = true
							}
						}
					}
				}
				r.Check(added, "S6", ekey+"#add", p.InstrPos(g), "wg.Add(1) precedes go", "go statement without a preceding wg.Add(1) in the same block: wg.Wait() may return while the handler runs")
				child := p.Callee(g)
				doneFirst := false
				if child != nil && len(child.Blocks) > 0 {
					for _, ci := range child.Blocks[0].Instrs {
						if d, ok := ci.(*ssa.Defer); ok {
							if k, _ := p.deferKind(d); k == "wgdone" {
								doneFirst = true
							}
							break
						}
						if _, ok := ci.(ssa.CallInstruction); ok {
							break
						}
						if _, ok := ci.(*ssa.Select); ok {
							break
						}
					}
				}
				r.Check(doneFirst, "S6", ekey+"#done", p.InstrPos(g), "child defers wg.Done() first", "spawned goroutine does not defer wg.Done() before anything else")
			}
		}
	}
}

func isOutputRole(role string) bool {
	return role == "field:output" || role == "field:opts.Output"
}

// blockOnlyReturns: from b every path reaches a return (possibly via rundefers / simple stores)
// without a call to product code, channel operation or loop.
func (p *Prog) blockOnlyReturns(b *ssa.BasicBlock) bool {
	seen := map[*ssa.BasicBlock]bool{}
	var walk func(x *ssa.BasicBlock) bool
	walk = func(x *ssa.BasicBlock) bool {
		if seen[x] {
			return false
		}
		seen[x] = true
		for _, in := range x.Instrs {
			switch y := in.(type) {
			case *ssa.Return:
				return true
			case *ssa.Select, *ssa.Send, *ssa.Go:
				return false
			case *ssa.UnOp:
				if y.Op == token.ARROW {
					return false
				}
			case *ssa.Call:
				if _, isB := y.Call.Value.(*ssa.Builtin); isB {
					continue
				}
				return false
			}
		}
		for _, s := range x.Succs {
			if !walk(s) {
				return false
			}
		}
		return len(x.Succs) > 0
	}
	return walk(b)
}

// chanCapacityConst: capacity (constant) with which the ctor makes channel field `name` of d; -1 if unknown.
func (p *Prog) chanCapacityConst(d *Disc, name string) int64 {
	best := int64(-1)
	for _, ctor := range d.Ctors {
		for _, b := range ctor.Blocks {
			for _, in := range b.Instrs {
				st, ok := in.(*ssa.Store)
				if !ok {
					continue
				}
				fa, ok := st.Addr.(*ssa.FieldAddr)
				if !ok || fieldName(fa.X.Type(), fa.Field) != name || rootStructOf(fa) != d.Named {
					continue
				}
				mc, ok := st.Val.(*ssa.MakeChan)
				if !ok {
					return -1
				}
				n, ok := constDuration(mc.Size)
				if !ok {
					return -1
				}
				best = n
			}
		}
	}
	return best
}

// atMostOnce: instruction `in` executes at most once per run of entry (counting dataflow).
func (p *Prog) atMostOnce(entry *ssa.Function, target ssa.Instruction) bool {
	fl := &Flow{P: p, ContextInsensitive: true}
	fl.Instr = func(fr *Frame, st string, in ssa.Instruction) []string {
		if in == target {
			if st == "0" {
				return []string{"1"}
			}
			return []string{"2"}
		}
		return nil
	}
	for _, s := range fl.Run(entry, []string{"0"}) {
		if s == "2" {
			return false
		}
	}
	return fl.Err == nil && !fl.sawState("2")
}

// handleCtxProblem: the user callback of a handler goroutine must be given the context that the
// spawning goroutine cancels at termination (the handler's own context parameter).
func handleCtxProblem(p *Prog, rt *Routine, in ssa.Instruction) string {
	call, ok := in.(ssa.CallInstruction)
	if !ok {
		return ""
	}
	var ctxPar *ssa.Parameter
	for _, par := range rt.E.Entry.Params {
		if typeShort(par.Type()) == "context.Context" {
			ctxPar = par
		}
	}
	if ctxPar == nil {
		return ""
	}
	for _, a := range call.Common().Args {
		if typeShort(a.Type()) != "context.Context" {
			continue
		}
		if a != ssa.Value(ctxPar) && p.originOf(a, 0) != ssa.Value(ctxPar) {
			return "Handle is given " + p.Sym(a).String() + " instead of the handler's own context (the one the parent cancels on Stop): a Handle call that honours its context is never interrupted, wg.Wait() never returns and Stop() hangs with the handler goroutine alive"
		}
	}
	return ""
}

// checkStopSync (S8 = C19/G8): the stop API blocks until completion (Break on the own breaker,
// synchronously and unconditionally).
func checkStopSync(c *Ctx, p *Prog, rule string) {
	for _, d := range p.Discs() {
		for _, m := range d.API {
			if m.Name() != "Stop" && m.Name() != "GracefulStop" {
				continue
			}
			want := map[string]string{"Stop": "breaker", "GracefulStop": "graceful"}[m.Name()]
			ok := false
			var bad []string
			for _, b := range m.Blocks {
				for _, in := range b.Instrs {
					switch x := in.(type) {
					case *ssa.Go:
						bad = append(bad, "starts a goroutine: the method returns before the discipline has stopped")
					case *ssa.Defer:
						_ = x
					case *ssa.Call:
						if cal := p.Callee(x); cal != nil && strings.HasSuffix(p.funcDisplay(cal), "breaker.Breaker).Break") {
							if _, path, okp := p.Sym(x.Call.Args[0]).FieldPath(); okp && path[len(path)-1] == want && b.Index == 0 {
								ok = true
							}
						}
					}
				}
			}
			if !ok {
				bad = append(bad, "does not call Break() on the "+want+" breaker unconditionally")
			}
			c.R.Check(len(bad) == 0, rule, p.FnKey(m), p.Pos(m.Pos()), "synchronous Break() on "+want, strings.Join(bad, "; "))
		}
	}
}
