// rename: development tool. Renames struct fields precisely (through type information) in a
// scratch copy of the repository, tests included, so that behaviour-preserving rename patches
// can be produced for the self-validation of the checker.
//
//	rename -dir <module dir> <pkgpath-suffix>.<Type>.<field>=<new> ...
package main

import (
	"flag"
	"fmt"
	"go/ast"
	"go/token"
	"go/types"
	"os"
	"sort"
	"strings"

	"golang.org/x/tools/go/packages"
)

type edit struct {
	off int
	old string
	new string
}

func main() {
	dir := flag.String("dir", ".", "module directory")
	privFuncs := flag.String("privfuncs", "", "append this suffix to every unexported function and method declared in non-test files")
	privFields := flag.String("privfields", "", "append this suffix to every unexported struct field declared in non-test files")
	privLocals := flag.String("privlocals", "", "append this suffix to every local variable and parameter of non-test files")
	flag.Parse()
	type spec struct{ pkg, typ, field, to string }
	var specs []spec
	for _, a := range flag.Args() {
		lr := strings.SplitN(a, "=", 2)
		parts := strings.Split(lr[0], ".")
		n := len(parts)
		specs = append(specs, spec{strings.Join(parts[:n-2], "."), parts[n-2], parts[n-1], lr[1]})
	}
	cfg := &packages.Config{Mode: packages.LoadAllSyntax | packages.NeedModule, Dir: *dir, Tests: true,
		Env: append(os.Environ(), "GOWORK=off", "GOFLAGS=-mod=mod", "GOPROXY=off", "GOSUMDB=off", "GOTOOLCHAIN=local")}
	pkgs, err := packages.Load(cfg, "./...")
	if err != nil {
		fmt.Println(err)
		os.Exit(2)
	}
	edits := map[string][]edit{}
	seen := map[string]bool{}
	done := map[string]int{}
	for _, pk := range pkgs {
		for _, sp := range specs {
			match := func(obj types.Object) bool {
				v, ok := obj.(*types.Var)
				if !ok || !v.IsField() || v.Name() != sp.field || v.Pkg() == nil {
					return false
				}
				path := strings.TrimSuffix(v.Pkg().Path(), "_test")
				if !strings.HasSuffix(path, sp.pkg) {
					return false
				}
				// the field belongs to the named struct sp.typ
				tn, _ := v.Pkg().Scope().Lookup(sp.typ).(*types.TypeName)
				if tn == nil {
					return false
				}
				st, ok := tn.Type().Underlying().(*types.Struct)
				if !ok {
					return false
				}
				for i := 0; i < st.NumFields(); i++ {
					if st.Field(i).Pos() == v.Origin().Pos() {
						return true
					}
				}
				return false
			}
			visit := func(id *ast.Ident, obj types.Object) {
				if obj == nil || !match(obj) {
					return
				}
				pos := pk.Fset.Position(id.Pos())
				key := fmt.Sprintf("%s:%d", pos.Filename, pos.Offset)
				if seen[key] {
					return
				}
				seen[key] = true
				edits[pos.Filename] = append(edits[pos.Filename], edit{pos.Offset, sp.field, sp.to})
				done[sp.pkg+"."+sp.typ+"."+sp.field]++
			}
			for id, obj := range pk.TypesInfo.Defs {
				visit(id, obj)
			}
			for id, obj := range pk.TypesInfo.Uses {
				visit(id, obj)
			}
		}
	}
	// bulk modes
	if *privFuncs != "" || *privFields != "" || *privLocals != "" {
		bulk := 0
		want := func(pk *packages.Package, obj types.Object) string {
			if obj == nil || obj.Pkg() == nil || obj.Exported() || obj.Name() == "_" || obj.Name() == "init" || obj.Name() == "main" {
				return ""
			}
			if pk.Module == nil || !strings.HasPrefix(obj.Pkg().Path(), pk.Module.Path) {
				return ""
			}
			if strings.HasSuffix(pk.Fset.Position(obj.Pos()).Filename, "_test.go") {
				return ""
			}
			switch o := obj.(type) {
			case *types.Func:
				if *privFuncs != "" {
					return *privFuncs
				}
			case *types.Var:
				if o.IsField() {
					if *privFields != "" && !o.Embedded() {
						return *privFields
					}
					return ""
				}
				if *privLocals != "" && o.Parent() != nil && o.Parent() != o.Pkg().Scope() {
					return *privLocals
				}
			}
			return ""
		}
		for _, pk := range pkgs {
			visit := func(id *ast.Ident, obj types.Object) {
				if obj == nil {
					return
				}
				if f, ok := obj.(*types.Func); ok {
					obj = f.Origin()
				}
				if v, ok := obj.(*types.Var); ok {
					obj = v.Origin()
				}
				suf := want(pk, obj)
				if suf == "" || id.Name == "_" {
					return
				}
				pos := pk.Fset.Position(id.Pos())
				key := fmt.Sprintf("%s:%d", pos.Filename, pos.Offset)
				if seen[key] {
					return
				}
				seen[key] = true
				edits[pos.Filename] = append(edits[pos.Filename], edit{pos.Offset, id.Name, id.Name + suf})
				bulk++
			}
			for id, obj := range pk.TypesInfo.Defs {
				visit(id, obj)
			}
			for id, obj := range pk.TypesInfo.Uses {
				visit(id, obj)
			}
		}
		fmt.Printf("bulk rename: %d identifiers\n", bulk)
	}
	_ = token.NoPos
	for file, es := range edits {
		b, err := os.ReadFile(file)
		if err != nil {
			fmt.Println(err)
			os.Exit(2)
		}
		sort.Slice(es, func(i, j int) bool { return es[i].off > es[j].off })
		for _, e := range es {
			if string(b[e.off:e.off+len(e.old)]) != e.old {
				fmt.Printf("offset mismatch in %s at %d\n", file, e.off)
				os.Exit(2)
			}
			b = append(b[:e.off:e.off], append([]byte(e.new), b[e.off+len(e.old):]...)...)
		}
		if err := os.WriteFile(file, b, 0o644); err != nil {
			fmt.Println(err)
			os.Exit(2)
		}
	}
	for _, sp := range specs {
		k := sp.pkg + "." + sp.typ + "." + sp.field
		fmt.Printf("%s -> %s: %d identifiers\n", k, sp.to, done[k])
		if done[k] == 0 {
			os.Exit(3)
		}
	}
}
