package main

import (
	"fmt"
	"go/token"
	"go/types"
	"sort"
	"strings"

	"golang.org/x/tools/go/ssa"
)

func init() {
	register(&Property{
		ID:          "C05",
		Run:         runC05,
		Explanation: "Share under saturation (necessary structure only): P1 the first-phase allotment tops every priority up by exactly strategic[p]-actual[p], rejects only when actual[p] > strategic[p] (strictly) and answers true exactly when what it wrote sums to the vacant handlers; P2 `strategic` is the divider applied to all registered priorities (sorted high to low) and HandlersQuantity into an empty map - v2: validated by safeDivide in the constructor and never written again; v1: re-computed after every change of the priority set before control returns to the scheduler; D2 (shared with C15) every list handed to the divider is sorted and duplicate-free. Paper lemma: if actual <= strategic for all p and Σstrategic = H the top-up always succeeds, so under saturation the base path is never taken.",
		NotDecided:  []string{"the lemma's premises that depend on run-time arithmetic (Σstrategic = H for custom dividers in v1; the allotment being consumed while inputs are full)", "'exactly its share when no release is outstanding' (liveness)"},
	})
	register(&Property{
		ID:          "C06",
		Run:         runC06,
		Explanation: "Progress (necessary structure only; liveness of a numeric allotment is not statically decidable): N1 every receive from an input in the scheduler sits in a select with a default clause, or in one with a ticker clause whose body leaves the loop once a flag that the clause itself sets is true (bounded ticks) - an empty open input never blocks the round; N2 blocking receives on the release channel occur only on the proceed==false edge of the round-start calculation or inside the wait loop guarded by 'some actual non-zero'; N3 a round is wait-for-allotment -> spend -> re-divide the remainder measured before anything resets the map -> spend again when that division filled every candidate (the second phase gives a lone active priority all handlers); N4 (= C15/D8) the v2 constructor rejects a zero share for any registered priority.",
		NotDecided:  []string{"eventual delivery itself", "that the round-start wait is reached only with something in flight (needs Σstrategic = H)"},
	})
	register(&Property{
		ID:          "C17",
		Run:         runC17,
		Explanation: "v1 AddInput/RemoveInput (structure): R1 both command channels are made unbuffered, so the API call returns only after the scheduler received the command; R2 the receiving clause applies the command (a call that updates the input table with the command's own fields) before the clause is left; R3 removal deletes the table entry and every input receive reads a channel that was looked up in the table with no write of the table possible between that lookup and the receive (a lookup may be hoisted out of a loop that does not touch the table, it may not survive the point where a command is applied), so a removed channel is never read again; R4 (= B11) in-flight counters of a removed priority stay until they are zero; R5 (= X1/D2/P2) addition replaces the channel and resets Drained, appends the key only if new, re-sorts the list and re-divides the shares before returning to the round.",
		NotDecided:  []string{"nothing structural; capacity / exactly-once / termination across changes follow from the C01/C02/C07 rules, which do not depend on the priority set"},
	})
}

func runC05(c *Ctx) {
	r := c.R
	r.Doc("P0", "role resolution", 2)
	r.Doc("P1", "top-up: exact deficit, strict rejection, true iff total == vacants", 2)
	r.Doc("P2", "strategic = divider(all registered priorities sorted, HandlersQuantity) into an empty map; v1: refreshed after every change of the set", 4)
	r.Doc("D2", "lists handed to the divider are sorted and duplicate-free", 8)
	r.Doc("P3", "the second phase hands out the unspent allotment of the round, measured before anything changes the map", 2)
	r.Doc("P5", "(= B4) the number of vacant handlers is HandlersQuantity - sum(actual): handlers whose release was not read yet are not vacant", 2)
	r.Doc("P6", "(= B13) HandlersQuantity reaches the inner discipline as configured (the shares are shares of the handlers that exist)", 2)
	r.Doc("P8", "(= B3) the allotment map is written only by its reset, the checked divisions, the top-up and the per-item decrement", 12)
	r.Doc("P12", "(= X13, N15) the simplified disciplines start exactly HandlersQuantity handlers (what is allotted is handled: no share stays in the output buffer)", 2)
	checkHandlersStarted(c, c.V1, "P12")
	checkHandlersStarted(c, c.V2, "P12")
	r.Doc("P11", "(= N3) round structure: wait -> spend -> re-divide the remainder -> spend again when filled; no phase is skipped for another reason", 2)
	r.Doc("P10", "(= B9) actual[k] -= 1 exactly once per release received, where it is received: no handler is counted busy after its release was read", 7)
	r.Doc("P7", "(= N2 no-proceed) the round start answers 'cannot proceed' only when no handler is vacant", 2)
	r.Doc("P4", "the pass over an input ends only when its allotment is spent, nothing is buffered / two ticks passed, it is closed, or a stop fired (so an unspent allotment means 'no data')", 4)
	for _, p := range []*Prog{c.V1, c.V2} {
		pr, err := resolvePrio(p)
		if err != nil {
			r.Fail("P0", p.Name+":priority", "-", err.Error())
			continue
		}
		r.Pass("P0", pr.key, p.Pos(pr.topUpFn.Pos()), pr.String())
		for _, fn := range pr.rt.Funcs {
			r.Funcs[p.FnKey(fn)] = true
		}
		checkB5(c, pr, true)
		checkP2(c, pr)
		checkD2(c, pr)
		// P3: what the second phase hands out is the unspent allotment of this round (releases that
		// arrive during the round wait for the next round's top-up)
		subp := &Ctx{V1: c.V1, V2: c.V2, Tier: c.Tier, R: NewReport("tmp", c.Tier)}
		checkN3(subp, pr)
		for _, o := range subp.R.Obls {
			if strings.Contains(o.Key, "#remainder") {
				c.R.Check(o.OK, "P3", strings.TrimPrefix(o.Key, "N3@"), o.Site, o.Detail, o.Detail)
			}
		}
		// P11 (= N3): the round keeps its structure: the spending pass is made whenever the
		// allotment was established (a pass skipped because the output buffer is full leaves the
		// allotment unspent: it reads as "no data", and the handlers go to priorities on their share)
		for _, o := range subp.R.Obls {
			if !strings.Contains(o.Key, "#remainder") {
				c.R.Check(o.OK, "P11", strings.TrimPrefix(o.Key, "N3@"), o.Site, o.Detail, o.Detail)
			}
		}
		checkP2c(c, pr)
		checkSpendLoopExits(c, pr, "P4")
		// P5 (= B4): what is handed out is measured as HandlersQuantity - sum(actual), nothing else
		subv := &Ctx{V1: c.V1, V2: c.V2, Tier: c.Tier, R: NewReport("tmp", c.Tier)}
		checkB4(subv, pr)
		for _, o := range subv.R.Obls {
			c.R.Check(o.OK, "P5", strings.TrimPrefix(o.Key, "B4@"), o.Site, o.Detail, o.Detail)
		}
		// P6 (= B13): the shares are shares of the configured number of handlers: the simplified
		// disciplines hand HandlersQuantity to the inner discipline as given (they run exactly that
		// many handlers, so shares of any other number are exceeded or never reached)
		checkCapacityUnmodified(c, p, "P6")
		// P8 (= B3): the allotment of a round is what the top-up or the checked divisions put there
		// from the current counters: any other writer (a remembered allotment copied back, say) gives
		// handlers to a priority because of what was the case in an earlier round, and a priority ends
		// above its share while another stays below
		subw := &Ctx{V1: c.V1, V2: c.V2, Tier: c.Tier, R: NewReport("tmp", c.Tier)}
		checkB3(subw, pr)
		for _, o := range subw.R.Obls {
			c.R.Check(o.OK, "P8", strings.TrimPrefix(o.Key, "B3@"), o.Site, o.Detail, o.Detail)
		}
		// P7 (= N2 no-proceed): the round-start calculation gives up on its own account only when no
		// handler is vacant: otherwise, with nothing more to release, vacant handlers stay unused and a
		// priority stays below its share
		subn := &Ctx{V1: c.V1, V2: c.V2, Tier: c.Tier, R: NewReport("tmp", c.Tier)}
		checkN2b(subn, pr)
		for _, o := range subn.R.Obls {
			c.R.Check(o.OK, "P7", strings.TrimPrefix(o.Key, "N2@"), o.Site, o.Detail, o.Detail)
		}
		checkP9(c, pr)
		// P10 (= B9): a release is taken off the in-flight count when it is received, once: a
		// release that is remembered and applied later leaves handlers counted as busy, and with no
		// further release they stay vacant although every input has data
		subr := &Ctx{V1: c.V1, V2: c.V2, Tier: c.Tier, R: NewReport("tmp", c.Tier)}
		checkB9(subr, pr)
		for _, o := range subr.R.Obls {
			c.R.Check(o.OK, "P10", strings.TrimPrefix(o.Key, "B9@"), o.Site, o.Detail, o.Detail)
		}
	}
}

// isChanCapSym: cap(<channel>)
func isChanCapSym(x *Sym) bool {
	x = deepStrip(x)
	if x.Op != "call" || x.Name != "cap" || len(x.Args) != 1 {
		return false
	}
	if v := x.Args[0].V; v != nil {
		_, isChan := v.Type().Underlying().(*types.Chan)
		return isChan
	}
	return false
}

// checkP9 (C05): the read of an input that may give up although data is waiting - the select of
// the input against the interrupter ticker, without default - is reached only for an input of
// capacity 0 (behind `cap(channel) == 0`, in the function or at every call site of it). A buffered
// input with data waiting that is read this way loses to two ready ticks now and then; its unspent
// allotment then counts as "no data" and goes to priorities that already hold their share.
func checkP9(c *Ctx, pr *prioRoles) {
	p := pr.p
	c.R.Doc("P9", "the ticker-bounded read (it may give up with data waiting) is reached only under cap(input) == 0: buffered inputs are read by the polling select", 2)
	capZero := func(e CondEdge) bool {
		iff, ok := e.From.Instrs[len(e.From.Instrs)-1].(*ssa.If)
		if !ok {
			return false
		}
		cm := p.NormCmp(iff.Cond, e.Succ == 0)
		if cm == nil {
			return false
		}
		konst := func(x *Sym, k int64) (int64, bool) {
			v, isK := symConstInt(deepStrip(x))
			return v + k, isK
		}
		switch cm.Op {
		case token.EQL:
			if v, isK := konst(cm.R, cm.RC); isK && v == 0 && isChanCapSym(cm.L) && cm.LC == 0 {
				return true
			}
			if v, isK := konst(cm.L, cm.LC); isK && v == 0 && isChanCapSym(cm.R) && cm.RC == 0 {
				return true
			}
		case token.LEQ: // cap(ch) <= 0 (the else branch of cap(ch) > 0): a capacity is never negative
			if v, isK := konst(cm.R, cm.RC); isK && v <= 0 && isChanCapSym(cm.L) && cm.LC == 0 {
				return true
			}
		case token.LSS: // cap(ch) < 1
			if v, isK := konst(cm.R, cm.RC); isK && v <= 1 && isChanCapSym(cm.L) && cm.LC == 0 {
				return true
			}
		}
		return false
	}
	// the edge pred -> succ is taken only under cap == 0
	capZeroInto := func(pred, succ *ssa.BasicBlock) bool {
		for i, sb := range pred.Succs {
			if sb == succ && len(pred.Succs) == 2 && capZero(CondEdge{pred, i}) && pred.Succs[1-i] != succ {
				return true
			}
		}
		for _, e := range DomEdges(pred) {
			if capZero(e) {
				return true
			}
		}
		return false
	}
	var guarded func(in ssa.Instruction, depth int) bool
	guarded = func(in ssa.Instruction, depth int) bool {
		for _, e := range InstrDomEdges(in) {
			if capZero(e) {
				return true
			}
		}
		fn := in.Parent()
		if depth > 3 || fn == pr.rt.E.Entry {
			return false
		}
		sites := p.CallSitesX(fn)
		if len(sites) == 0 {
			return false
		}
		for _, cs := range sites {
			ci, ok := cs.Call.(ssa.Instruction)
			if !ok {
				return false
			}
			// chosen by a branch (transfer := dsc.iou; if cap(ch) != 0 { transfer = dsc.io };
			// transfer(p)): the edges of the phi that carry this function are cap == 0 edges
			if ph, isPhi := stripChangeType(cs.Call.Common().Value).(*ssa.Phi); isPhi && p.Callee(cs.Call) != fn {
				okPhi := true
				for i := range ph.Edges {
					idx := i
					ts := p.funcValueTargetsChoice(nil, cs.Call, func(q *ssa.Phi) (int, bool) {
						if q == ph {
							return idx, true
						}
						return 0, false
					})
					carries := false
					for _, t := range ts {
						if t.Fn == fn {
							carries = true
						}
					}
					if carries && !capZeroInto(ph.Block().Preds[i], ph.Block()) {
						okPhi = false
					}
				}
				if okPhi {
					continue
				}
			}
			if !guarded(ci, depth+1) {
				return false
			}
		}
		return true
	}
	n := 0
	for _, fn := range pr.rt.Funcs {
		k := 0
		for _, rs := range p.RecvSites(fn) {
			if !isInputChanType(rs.Chan.Type()) || rs.Case == nil || rs.Sel.HasDefault {
				continue
			}
			k++
			n++
			c.R.Check(guarded(rs.Sel.Sel, 0), "P9", fmt.Sprintf("%s#bounded-read.%d", p.FnKey(fn), k), rs.Pos(p), "reached only under cap(input) == 0",
				"an input is read by the select that gives up after two ticks although its capacity is not known to be 0: a buffered input with data waiting can be passed over, and its unspent allotment is then handed to priorities that already hold their share")
		}
	}
	if n == 0 {
		c.R.Pass("P9", pr.key+"#no-bounded-read", "-", "no input is read by a select that may give up")
	}
}

// checkP2c (v1): removing an input also removes its key from the registered list.
func checkP2c(c *Ctx, pr *prioRoles) {
	if !pr.v1 {
		return
	}
	p := pr.p
	for _, fn := range pr.rt.Funcs {
		for _, b := range fn.Blocks {
			for _, in := range b.Instrs {
				call, ok := in.(*ssa.Call)
				if !ok {
					continue
				}
				bi, isB := call.Call.Value.(*ssa.Builtin)
				if !isB || bi.Name() != "delete" || !p.isFieldLoad(call.Call.Args[0], "inputs") {
					continue
				}
				key := call.Call.Args[1]
				okRem := false
				for _, b2 := range fn.Blocks {
					for _, in2 := range b2.Instrs {
						st, isSt := fieldStore(in2, "priorities")
						if !isSt {
							continue
						}
						if c2, isC := st.Val.(*ssa.Call); isC && p.IsProduct(p.Callee(c2)) && len(c2.Call.Args) == 2 &&
							p.isFieldLoad(c2.Call.Args[0], "priorities") && c2.Call.Args[1] == key {
							okRem = true
						}
					}
				}
				c.R.Check(okRem, "P2", p.FnKey(fn)+"#unregister", p.InstrPos(call), "removed key leaves the registered list", "the input table entry is deleted but the priority stays in the registered list: the shares are still divided among the old set and the top-up keeps reserving handlers for a priority that has no input")
			}
		}
	}
	if c.R.Property == "C05" {
		return // (with every input open and loaded nothing is drained: not C05's business)
	}
	// ... and only then: the registered list shrinks only where the table entry of the same key is
	// deleted (a key dropped from the list while its entry stays - "a drained input needs no
	// share" - is not appended again when a new channel is registered under it, because the
	// entry exists: the new channel is never read)
	for _, fn := range pr.rt.Funcs {
		for _, b := range fn.Blocks {
			for _, in := range b.Instrs {
				st, isSt := fieldStore(in, "priorities")
				if !isSt {
					continue
				}
				val := stripRefConv(st.Val)
				if _, isMake := val.(*ssa.MakeSlice); isMake {
					continue
				}
				var key ssa.Value
				if c2, isC := val.(*ssa.Call); isC {
					if bi, isB := c2.Call.Value.(*ssa.Builtin); isB && bi.Name() == "append" {
						continue // grows (D2 #append-base, #append-unique)
					}
					if len(c2.Call.Args) == 2 {
						key = c2.Call.Args[1]
					}
				}
				okDel := false
				for _, b2 := range fn.Blocks {
					for _, in2 := range b2.Instrs {
						call, ok := in2.(*ssa.Call)
						if !ok {
							continue
						}
						bi, isB := call.Call.Value.(*ssa.Builtin)
						if isB && bi.Name() == "delete" && p.isFieldLoad(call.Call.Args[0], "inputs") && (key == nil || call.Call.Args[1] == key) {
							okDel = true
						}
					}
				}
				c.R.Check(okDel, "P2", p.FnKey(fn)+"#list-shrinks-with-table", p.InstrPos(in), "the registered list loses a key only where its table entry is deleted", "a priority is taken out of the registered list although its entry stays in the input table: a channel registered under it later is not appended again (the entry exists) and is never read")
			}
		}
	}
}

func checkP2(c *Ctx, pr *prioRoles) {
	p := pr.p
	isHQ := func(v ssa.Value) bool {
		_, path, ok := deepStrip(p.Sym(v)).FieldPath()
		return ok && strings.HasSuffix(strings.Join(path, "."), "HandlersQuantity")
	}
	if !pr.v1 {
		prep := p.prepareFn()
		var problems []string
		if prep == nil {
			c.R.Fail("P2", "v2:priority.prepare", "-", "UNRESOLVED-ANCHOR: prepare not found")
			return
		}
		found := false
		for _, b := range prep.Blocks {
			ret, ok := b.Instrs[len(b.Instrs)-1].(*ssa.Return)
			if !ok || len(ret.Results) != 4 || isNilConst(ret.Results[2]) {
				continue
			}
			list, strat := ret.Results[1], ret.Results[2]
			if _, isMake := strat.(*ssa.MakeMap); !isMake {
				problems = append(problems, "strategic is not a fresh map")
			}
			for _, b2 := range prep.Blocks {
				for _, in := range b2.Instrs {
					call, ok := in.(*ssa.Call)
					if !ok || p.Callee(call) != pr.safeDivideFn {
						continue
					}
					if call.Call.Args[3] == strat {
						found = true
						if call.Call.Args[1] != list {
							problems = append(problems, "the strategic division is not made over the registered list that is returned")
						}
						if !isHQ(call.Call.Args[2]) {
							problems = append(problems, "the strategic division does not divide HandlersQuantity but "+p.Sym(call.Call.Args[2]).String())
						}
						if !instrDominates(call, ret) {
							problems = append(problems, "the strategic division does not precede the return")
						}
					}
				}
			}
			// no other writer of the fresh map
			for _, ref := range *strat.Referrers() {
				switch x := ref.(type) {
				case *ssa.MapUpdate:
					problems = append(problems, "strategic is written directly at "+p.InstrPos(x))
				}
			}
		}
		if !found {
			problems = append(problems, "no validated division (safeDivide) fills the strategic map that is returned")
		}
		c.R.Check(len(problems) == 0, "P2", "v2:priority.prepare#strategic", p.Pos(prep.Pos()), "safeDivide(divider, all priorities sorted, HandlersQuantity, fresh map)", strings.Join(dedup(problems), "; "))
		// stored once in the constructor, never written by the scheduler
		var bad []string
		for _, fn := range pr.rt.Funcs {
			for _, b := range fn.Blocks {
				for _, in := range b.Instrs {
					if _, ok := fieldStore(in, "strategic"); ok {
						bad = append(bad, "strategic replaced at "+p.InstrPos(in))
					}
					if w, ok := p.mapWriteOf(nil, in); ok && w.Field == "strategic" {
						bad = append(bad, "strategic written at "+p.InstrPos(in))
					}
				}
			}
			if fn != pr.sr.loopFn && p.mayWriteMapField(fn, "strategic") && fn == pr.rt.E.Entry {
				bad = append(bad, "scheduler may write strategic")
			}
		}
		c.R.Check(len(bad) == 0, "P2", "v2:priority.Discipline#strategic-immutable", "-", "shares fixed at construction", strings.Join(dedup(bad), "; "))
		return
	}
	// v1: every store to strategic is divider(dsc.priorities, HandlersQuantity, nil)
	n := 0
	for _, fn := range p.Funcs() {
		if rel, _ := p.Rel(fn); rel != "priority" {
			continue
		}
		for _, b := range fn.Blocks {
			for _, in := range b.Instrs {
				st, ok := fieldStore(in, "strategic")
				if !ok {
					continue
				}
				if _, isMake := st.Val.(*ssa.MakeMap); isMake {
					continue // constructor's initial empty map
				}
				n++
				key := fmt.Sprintf("%s#strategic.%d", p.FnKey(fn), n)
				call, isCall := stripRefConv(st.Val).(*ssa.Call)
				okForm := isCall && p.Callee(call) == nil && isDividerType(call.Call.Value.Type()) && len(call.Call.Args) == 3 &&
					p.isFieldLoad(call.Call.Args[0], "priorities") && isHQ(call.Call.Args[1]) && isNilConst(call.Call.Args[2])
				c.R.Check(okForm, "P2", key, p.InstrPos(in), "divider(priorities, HandlersQuantity, nil)", "strategic is set to "+p.Sym(st.Val).String()+", not the division of HandlersQuantity among all registered priorities into a new map")
			}
		}
	}
	// v1: ... and nothing writes into the shares afterwards: the map the divider returned is only
	// read (a round division made into it - safeDivide(..., dsc.strategic) - overwrites the shares
	// every later top-up is measured against)
	{
		ai := p.alias()
		k := 0
		for _, fn := range pr.rt.Funcs {
			for _, w := range ai.contentWritesIn(fn) {
				for _, root := range ai.Roots(w.Target) {
					if root.Kind == "fieldload" && strings.HasSuffix(root.Path, ".strategic") {
						k++
						c.R.Fail("P2", fmt.Sprintf("%s#strategic-content.%d", p.FnKey(fn), k), p.InstrPos(w.In), "the strategic shares are written in place ("+w.How+"): they no longer are the division of HandlersQuantity among the registered priorities, and every later top-up is measured against the overwritten values")
					}
				}
			}
		}
		if k == 0 {
			c.R.Pass("P2", "v1:priority.Discipline#strategic-content", "-", "the shares are only replaced as a whole, never written in place")
		}
	}
	// every function that changes the registered set refreshes strategic before it returns
	changes := map[*ssa.Function]bool{}
	for _, fn := range p.Funcs() {
		if rel, _ := p.Rel(fn); rel != "priority" {
			continue
		}
		for _, b := range fn.Blocks {
			for _, in := range b.Instrs {
				if _, ok := fieldStore(in, "priorities"); ok {
					changes[fn] = true
				}
			}
		}
	}
	for _, fn := range p.Funcs() {
		if rel, _ := p.Rel(fn); rel != "priority" {
			continue
		}
		// roots: functions that change the set but are not called by another changing function
		direct := changes[fn]
		viaCallee := false
		for _, cal := range calledIn(p, fn) {
			if changes[cal] {
				viaCallee = true
			}
		}
		if !direct && !viaCallee {
			continue
		}
		calledByChanger := false
		for _, cs := range p.CallSites(fn) {
			for _, cal := range calledIn(p, cs.Parent()) {
				_ = cal
			}
			if changes[cs.Parent()] || callsAny(p, cs.Parent(), changes) && cs.Parent() != fn {
				calledByChanger = true
			}
		}
		if direct && calledByChanger {
			continue
		}
		var problems []string
		fl := &Flow{P: p, ContextInsensitive: true}
		fl.Instr = func(fr *Frame, st string, in ssa.Instruction) []string {
			if _, ok := fieldStore(in, "priorities"); ok {
				return []string{"stale"}
			}
			if _, ok := fieldStore(in, "strategic"); ok {
				return []string{"fresh"}
			}
			return nil
		}
		fl.Exit = func(fr *Frame, st string, ret *ssa.Return) []string {
			if fr.Parent == nil && st == "stale" {
				problems = append(problems, "returns at "+p.InstrPos(ret)+" after changing the registered priorities without re-dividing the shares: the top-up works with shares of the old set")
			}
			return nil
		}
		fl.Run(fn, []string{"fresh"})
		c.R.Check(len(problems) == 0, "P2", p.FnKey(fn)+"#refresh", p.Pos(fn.Pos()), "set changed => strategic re-divided before return", strings.Join(dedup(problems), "; "))
	}
}

func callsAny(p *Prog, fn *ssa.Function, set map[*ssa.Function]bool) bool {
	for _, cal := range calledIn(p, fn) {
		if set[cal] {
			return true
		}
	}
	return false
}

// ---------------------------------------------------------------- C06

func runC06(c *Ctx) {
	r := c.R
	r.Doc("N0", "role resolution", 2)
	r.Doc("N11", "the scheduler's resources (interrupter ticker, channels, maps) are created for the instance by its constructor, not shared through package-level objects", 10)
	r.Doc("N1", "input receives never block the round: select with default, or with a ticker clause of bounded ticks", 4)
	r.Doc("N2", "blocking release receives only under proceed==false of the round-start calculation or inside the wait-for-zero loop", 4)
	r.Doc("N3", "round structure: wait -> spend -> re-divide remainder (measured before any reset) -> spend again when filled", 4)
	r.Doc("N4", "(= D8) v2 constructor rejects a zero share for any registered priority", 1)
	r.Doc("N5", "(= P1) with nothing in flight the first-phase allotment is the validated strategic distribution: the top-up visits every registered priority and assigns strategic-actual", 2)
	r.Doc("N6", "the base-path candidates (uncrowded) are exactly the registered priorities with actual < strategic", 2)
	r.Doc("N7", "the 'allotment filled' predicate answers true exactly when every listed priority has a non-zero allotment", 2)
	r.Doc("N10", "(= E2 registration) a newly registered channel starts not drained, so it is read", 1)
	r.Doc("N15", "(= X13) the simplified disciplines start exactly HandlersQuantity handlers on every successful construction (what is allotted can be handled)", 2)
	checkHandlersStarted(c, c.V1, "N15")
	checkHandlersStarted(c, c.V2, "N15")
	r.Doc("N14", "a spending phase visits the list of registered priorities", 2)
	r.Doc("N13", "every division into the allotment map starts from the emptied map (nearest event before it is the reset)", 3)
	r.Doc("N12", "the may-proceed answer of a dividing function is the for-all over the list it just divided", 3)
	r.Doc("N17", "(= P2 refresh, D2 re-sort; v1) every change of the registered set re-sorts the list and re-divides the shares before the scheduler goes on", 3)
	r.Doc("N18", "(= B9) the in-flight count changes only by -1 per release received: a count reset or freed elsewhere makes a later release underflow (fatal, nothing delivered afterwards), a count kept too high leaves handlers vacant with nothing in flight", 7)
	r.Doc("N9", "(= P4) the pass over an input is left early only for lack of data, closure or stop", 4)
	r.Doc("N8", "second-phase candidates: first the priorities that used up their allotment (tactic == 0), then those with actual < hypothetical share", 4)
	for _, p := range []*Prog{c.V1, c.V2} {
		pr, err := resolvePrio(p)
		if err != nil {
			r.Fail("N0", p.Name+":priority", "-", err.Error())
			continue
		}
		r.Pass("N0", pr.key, p.Pos(pr.sr.loopFn.Pos()), pr.String())
		for _, fn := range pr.rt.Funcs {
			r.Funcs[p.FnKey(fn)] = true
		}
		checkN1(c, pr)
		checkN1b(c, pr)
		// N11: the interrupter (and every other resource of the scheduler) belongs to this instance
		checkOwnResources(c, p, "N11", func(d *Disc, field string) bool { return d == pr.d })
		checkN2(c, pr)
		checkN2b(c, pr)
		checkN78(c, pr)
		checkN12(c, pr, "N12")
		checkN13(c, pr, "N13")
		checkN14(c, pr, "N14")
		checkN3(c, pr)
		subp := &Ctx{V1: c.V1, V2: c.V2, Tier: c.Tier, R: NewReport("tmp", c.Tier)}
		checkB5(subp, pr, true)
		for _, o := range subp.R.Obls {
			c.R.Check(o.OK, "N5", strings.TrimPrefix(o.Key, "P1@"), o.Site, o.Detail, o.Detail)
		}
		checkN6(c, pr)
		// N18 (= B9): the vacant handlers are HandlersQuantity - sum(actual): progress with nothing in
		// flight needs actual to return to zero exactly with the releases
		subb := &Ctx{V1: c.V1, V2: c.V2, Tier: c.Tier, R: NewReport("tmp", c.Tier)}
		checkB9(subb, pr)
		for _, o := range subb.R.Obls {
			c.R.Check(o.OK, "N18", strings.TrimPrefix(o.Key, "B9@"), o.Site, o.Detail, o.Detail)
		}
		checkSpendLoopExits(c, pr, "N9")
		// N17 (= P2 refresh, D2 re-sort): whenever the registered set changes the shares are divided
		// anew before the scheduler goes on (a priority re-added without a share is never topped up
		// and never a candidate: its input starves while the others stay loaded)
		if pr.v1 {
			subs := &Ctx{V1: c.V1, V2: c.V2, Tier: c.Tier, R: NewReport("tmp", c.Tier)}
			checkP2(subs, pr)
			checkD2(subs, pr)
			for _, o := range subs.R.Obls {
				if strings.HasSuffix(o.Key, "#refresh") || strings.HasSuffix(o.Key, "#resort") {
					c.R.Check(o.OK, "N17", o.Key, o.Site, o.Detail, o.Detail)
				}
			}
		}
		// N10 (= E2 registration): a channel registered under a priority is read: its entry does not
		// inherit the drained flag of a previous channel
		if sr, err := resolveSchedRoles(p); err == nil {
			subd := &Ctx{V1: c.V1, V2: c.V2, Tier: c.Tier, R: NewReport("tmp", c.Tier)}
			c07drainedMarks(subd, sr)
			for _, o := range subd.R.Obls {
				if strings.Contains(o.Key, "#register") {
					c.R.Check(o.OK, "N10", strings.TrimPrefix(o.Key, "E2@"), o.Site, o.Detail, o.Detail)
				}
			}
		}
	}
	sub := &Ctx{V1: c.V1, V2: c.V2, Tier: c.Tier, R: NewReport("tmp", c.Tier)}
	checkD7D8(sub)
	for _, o := range sub.R.Obls {
		if o.Rule == "D8" {
			c.R.Check(o.OK, "N4", strings.TrimPrefix(o.Key, "D8@"), o.Site, o.Detail, o.Detail)
		}
	}
}

func checkN1(c *Ctx, pr *prioRoles) {
	p := pr.p
	for _, fn := range pr.rt.Funcs {
		n := 0
		for _, rs := range p.RecvSites(fn) {
			if !isInputChanType(rs.Chan.Type()) {
				continue
			}
			n++
			key := fmt.Sprintf("%s#recv.%d", p.FnKey(fn), n)
			if rs.Case == nil {
				c.R.Fail("N1", key, rs.Pos(p), "plain receive from an input: an empty open input blocks the whole round (all other priorities starve)")
				continue
			}
			if rs.Sel.HasDefault {
				c.R.Pass("N1", key, rs.Pos(p), "select with default")
				continue
			}
			// ticker clause with bounded ticks
			ok := false
			why := "blocking select on an input without default or ticker clause: an empty open input blocks the whole round"
			for _, cs := range rs.Sel.Cases {
				if !strings.HasPrefix(p.chanRole(cs.State.Chan), "ticker:") || cs.Body == nil {
					continue
				}
				why = "the ticker clause never leaves the loop (no exit guarded by a flag it sets)"
				iff, isIf := cs.Body.Instrs[len(cs.Body.Instrs)-1].(*ssa.If)
				if !isIf {
					continue
				}
				base, neg := condOf(iff.Cond)
				ph, isPhi := base.(*ssa.Phi)
				if !isPhi {
					continue
				}
				exitSucc := 0
				if neg {
					exitSucc = 1
				}
				// exit edge leaves the loop
				scc := map[*ssa.BasicBlock]bool{}
				for _, comp := range sccs(fn.Blocks, blockSet(fn.Blocks)) {
					if blockSet(comp)[cs.Body] {
						scc = blockSet(comp)
					}
				}
				if scc[cs.Body.Succs[exitSucc]] {
					continue
				}
				// the flag is set true on the other branch of this clause
				setsTrue := false
				for i, e := range ph.Edges {
					if cv, isC := e.(*ssa.Const); isC && constString(cv) == "true" {
						pred := ph.Block().Preds[i]
						if pred == cs.Body.Succs[1-exitSucc] || pred == cs.Body || cs.Body.Dominates(pred) {
							setsTrue = true
						}
					}
				}
				if setsTrue {
					ok = true
				}
			}
			c.R.Check(ok, "N1", key, rs.Pos(p), "ticker clause leaves after bounded ticks", why)
		}
	}
}

// checkN1b: the interrupter ticker keeps ticking while the scheduler runs.
func checkN1b(c *Ctx, pr *prioRoles) { checkN1bAs(c, pr, "N1") }

func checkN1bAs(c *Ctx, pr *prioRoles, rule string) {
	p := pr.p
	n := 0
	// (also what the constructor runs before the goroutine starts: a ticker stopped there because
	// no unbuffered input is configured yet is missing when one is added later)
	fns := append([]*ssa.Function{}, pr.rt.Funcs...)
	inRt := map[*ssa.Function]bool{}
	for _, fn := range fns {
		inRt[fn] = true
	}
	for _, ct := range pr.d.Ctors {
		for g := range p.Reach(ct) {
			if !inRt[g] {
				inRt[g] = true
				fns = append(fns, g)
			}
		}
	}
	sort.Slice(fns, func(i, j int) bool { return p.FnKey(fns[i]) < p.FnKey(fns[j]) })
	for _, fn := range fns {
		for _, b := range fn.Blocks {
			for _, in := range b.Instrs {
				call, ok := in.(ssa.CallInstruction)
				if !ok {
					continue
				}
				cal := p.Callee(call)
				if cal == nil {
					continue
				}
				name := p.funcDisplay(cal)
				if name != "(*time.Ticker).Stop" && name != "(*time.Ticker).Reset" {
					continue
				}
				if _, path, okp := p.Sym(call.Common().Args[0]).FieldPath(); !okp || path[len(path)-1] != "interrupter" {
					continue
				}
				n++
				_, isDefer := in.(*ssa.Defer)
				if !isDefer && fn != pr.rt.E.Entry && b == straightLine(fn) {
					// in a clean-up helper that only runs as an unconditional defer of the entry
					entries := map[*ssa.Function]*GoEntry{pr.rt.E.Entry: pr.rt.E}
					if e := p.cleanupOnly(fn, entries, 0); e == pr.rt.E && name == "(*time.Ticker).Stop" {
						c.R.Pass(rule, fmt.Sprintf("%s#interrupter.%d", p.FnKey(fn), n), p.InstrPos(in), "interrupter stopped only by the entry's deferred clean-up")
						continue
					}
				}
				c.R.Check(isDefer && fn == pr.rt.E.Entry && name == "(*time.Ticker).Stop", rule, fmt.Sprintf("%s#interrupter.%d", p.FnKey(fn), n), p.InstrPos(in), "interrupter stopped only by a defer of the goroutine entry",
					"the interrupter ticker is stopped or re-armed while the scheduler runs: the bounded-ticks exit of the unbuffered-input receive never fires and an empty open input blocks the round")
			}
		}
	}
}

func checkN2(c *Ctx, pr *prioRoles) {
	p := pr.p
	// the round-start calculation: functions that reach the vacants producer and return (bool[, error])
	reachesVac := func(f *ssa.Function) bool { return p.Reach(f)[pr.vacantsFn] }
	for _, fn := range pr.rt.Funcs {
		n := 0
		for _, rs := range p.RecvSites(fn) {
			if !pr.isReleaseRecv(rs) {
				continue
			}
			if rs.Case != nil && rs.Sel.HasDefault {
				continue // polling
			}
			n++
			key := fmt.Sprintf("%s#release-wait.%d", p.FnKey(fn), n)
			// the receive - or every call site of its function, transitively - is either
			// (b) inside the loop guarded by not-all-zero, or
			// (a) on the proceed==false edge of the round-start calculation
			guardOf := func(in ssa.Instruction) string {
				// (b) holds only in the terminal wait (the deferred wait-for-zero function): anywhere
				// else "something is in flight" does not excuse blocking while inputs may have data
				if in.Parent() == pr.sr.waitZero {
					for _, e := range InstrDomEdges(in) {
						if p.edgeIsCallResult(e, func(f *ssa.Function) bool { return f == pr.sr.allZero }, false) {
							return "inside the wait loop guarded by 'something is in flight'"
						}
					}
				}
				for _, e := range InstrDomEdges(in) {
					if p.edgeIsCallResult(e, reachesVac, false) {
						return "only when the round-start calculation could not proceed"
					}
					// result extracted from a tuple
					iff := e.From.Instrs[len(e.From.Instrs)-1].(*ssa.If)
					base, neg := condOf(iff.Cond)
					isProceed := func(v ssa.Value) bool {
						if ex, isEx := v.(*ssa.Extract); isEx && ex.Index == 0 {
							if call, isCall := ex.Tuple.(*ssa.Call); isCall && p.CalleeX(call) != nil && reachesVac(p.CalleeX(call)) {
								return true
							}
						}
						if call, isCall := v.(*ssa.Call); isCall && p.CalleeX(call) != nil && reachesVac(p.CalleeX(call)) {
							return true
						}
						return false
					}
					if isProceed(base) && (e.Succ == 0) == neg {
						return "only when the round-start calculation could not proceed"
					}
					// the verdict kept in a variable that every path assigns from the calculation
					// (proceed, err := calc(); for err == nil && !proceed { wait(); proceed, err = calc() })
					if ph, isPhi := base.(*ssa.Phi); isPhi && (e.Succ == 0) == neg {
						all := len(ph.Edges) > 0
						for _, ev := range ph.Edges {
							if !isProceed(ev) {
								all = false
							}
						}
						if all {
							return "only when the round-start calculation could not proceed"
						}
					}
				}
				return ""
			}
			if g := guardOf(rs.In); g != "" {
				c.R.Pass("N2", key, rs.Pos(p), g)
				continue
			}
			var bad []string
			var sitesOK func(f *ssa.Function, depth int) bool
			sitesOK = func(f *ssa.Function, depth int) bool {
				var sites []ssa.CallInstruction
				for _, sa := range p.CallSitesX(f) { // (also calls through a method value: waitProceed(dsc.calcTactic, dsc.getOneFeedback))
					sites = append(sites, sa.Call)
				}
				if len(sites) == 0 || depth > 3 {
					return false
				}
				ok := true
				for _, cs := range sites {
					if guardOf(cs) != "" {
						continue
					}
					if _, isGo := cs.(*ssa.Go); !isGo && cs.Parent() != f && sitesOK(cs.Parent(), depth+1) {
						continue
					}
					ok = false
					bad = append(bad, p.InstrPos(cs))
				}
				return ok
			}
			okA := sitesOK(fn, 0)
			c.R.Check(okA, "N2", key, rs.Pos(p), "only when the round-start calculation could not proceed", "the scheduler can block waiting for a release at "+strings.Join(bad, ", ")+" although an allotment may be possible: with nothing in flight no release ever comes and delivery stops")
		}
	}
}

func checkN3(c *Ctx, pr *prioRoles) {
	p := pr.p
	// classify callees of the round function: W reaches vacants; S reaches send; R contains sum(tactic)
	sendReach := func(f *ssa.Function) bool { return f != nil && p.Reach(f)[pr.sendFn] }
	vacReach := func(f *ssa.Function) bool { return f != nil && p.Reach(f)[pr.vacantsFn] }
	var rFn *ssa.Function
	for _, fn := range pr.rt.Funcs {
		for _, b := range fn.Blocks {
			for _, in := range b.Instrs {
				if call, ok := in.(*ssa.Call); ok && p.Callee(call) == pr.sumFn && p.isFieldLoad(call.Call.Args[0], "tactic") {
					rFn = fn
				}
			}
		}
	}
	if rFn == nil {
		c.R.Fail("N3", pr.key+"#remainder", "-", "no second phase: the unspent remainder (sum of tactic) is never measured, so a priority that is alone in having data is never granted the handlers other priorities did not use")
		return
	}
	// the round function: calls W-ish, S-ish and rFn
	var round *ssa.Function
	for _, fn := range pr.rt.Funcs {
		hasW, hasS, hasR := false, false, false
		for _, cal := range calledIn(p, fn) {
			if cal == rFn {
				hasR = true
			} else if sendReach(cal) {
				hasS = true
			} else if vacReach(cal) {
				hasW = true
			}
		}
		if hasW && hasS && hasR {
			round = fn
		}
	}
	if round == nil {
		c.R.Fail("N3", pr.key+"#round", "-", "UNRESOLVED-ANCHOR: no function calls the allotment wait, the spending loop and the remainder re-division")
		return
	}
	var problems []string
	fl := &Flow{P: p, ContextInsensitive: true, TrackBoolReturns: true}
	var rCall ssa.CallInstruction
	fl.Call = func(fr *Frame, st string, call ssa.CallInstruction, deferred bool) (bool, []string) {
		if fr.Parent != nil {
			return true, nil
		}
		cal := p.Callee(call)
		switch {
		case cal == rFn:
			if st != "S1" {
				problems = append(problems, "the remainder is re-divided at "+p.InstrPos(call)+" in state "+st+" (expected right after the first spending phase)")
			}
			rCall = call
			return true, []string{"R"}
		case sendReach(cal):
			switch st {
			case "W":
				return true, []string{"S1"}
			case "Rok":
				return true, []string{"S2"}
			default:
				problems = append(problems, "spending phase at "+p.InstrPos(call)+" in state "+st+" (expected after the allotment wait, or after a successful re-division)")
				return true, []string{st}
			}
		case vacReach(cal):
			if st != "start" {
				problems = append(problems, "allotment wait at "+p.InstrPos(call)+" in state "+st)
			}
			return true, []string{"W"}
		}
		return true, nil
	}
	fl.Edge = func(fr *Frame, st string, from *ssa.BasicBlock, succ int) []string {
		if st != "R" || rCall == nil {
			return nil
		}
		iff, ok := from.Instrs[len(from.Instrs)-1].(*ssa.If)
		if !ok {
			return nil
		}
		base, neg := condOf(iff.Cond)
		if ex, isEx := base.(*ssa.Extract); isEx && ex.Index == 0 && ex.Tuple == rCall.Value() {
			if (succ == 0) != neg {
				return []string{"Rok"}
			}
			return []string{"Rno"}
		}
		if call, isCall := base.(*ssa.Call); isCall && ssa.CallInstruction(call) == rCall {
			if (succ == 0) != neg {
				return []string{"Rok"}
			}
			return []string{"Rno"}
		}
		return nil
	}
	fl.Exit = func(fr *Frame, st string, ret *ssa.Return) []string {
		if fr.Parent != nil {
			return nil
		}
		switch st {
		case "Rok":
			problems = append(problems, "the round returns at "+p.InstrPos(ret)+" although the re-division of the remainder succeeded: the second spending phase is missing, so a lone active priority never gets more than its first-phase share")
		case "S1":
			problems = append(problems, "the round returns at "+p.InstrPos(ret)+" right after the first spending phase without re-dividing the remainder")
		}
		return nil
	}
	fl.Run(round, []string{"start"})
	if !fl.sawState("S2") {
		problems = append(problems, "no second spending phase is reachable")
	}
	c.R.Check(len(problems) == 0, "N3", p.FnKey(round), p.Pos(round.Pos()), "wait -> spend -> re-divide -> spend again iff filled", strings.Join(dedup(problems), "; "))
	// inside rFn: the remainder is measured before anything resets / re-divides the map
	var sumCall *ssa.Call
	var bad []string
	for _, b := range rFn.Blocks {
		for _, in := range b.Instrs {
			if call, ok := in.(*ssa.Call); ok && p.Callee(call) == pr.sumFn && p.isFieldLoad(call.Call.Args[0], "tactic") {
				sumCall = call
			}
		}
	}
	for _, b := range rFn.Blocks {
		for _, in := range b.Instrs {
			call, ok := in.(*ssa.Call)
			if !ok || call == sumCall {
				continue
			}
			cal := p.Callee(call)
			_, _, isDiv := pr.asDivision(call)
			if cal != nil && p.IsProduct(cal) && p.mayWriteMapField(cal, "tactic") || isDiv {
				if !instrDominates(sumCall, call) {
					bad = append(bad, "the tactic map may be changed at "+p.InstrPos(call)+" before the remainder is measured at "+p.InstrPos(sumCall)+": the unspent handlers are lost and the second phase has nothing to hand out")
				}
			}
		}
	}
	// the divisions of rFn in execution order: the last one hands out the remainder, the earlier
	// (hypothetical-share) ones divide the full capacity
	var divs []*ssa.Call
	for _, b := range rFn.Blocks {
		for _, in := range b.Instrs {
			if call, ok := in.(*ssa.Call); ok {
				if _, _, isDiv := pr.asDivision(call); isDiv {
					divs = append(divs, call)
				}
			}
		}
	}
	for i, call := range divs {
		last := true
		for j, other := range divs {
			if i != j && instrDominates(call, other) {
				last = false
			}
		}
		if last {
			continue
		}
		dividend, _, _ := pr.asDivision(call)
		_, path, okp := deepStrip(p.Sym(dividend)).FieldPath()
		if !(okp && strings.HasSuffix(strings.Join(path, "."), "HandlersQuantity")) {
			bad = append(bad, "the division at "+p.InstrPos(call)+" that decides which priorities may receive the remainder divides "+p.Sym(dividend).String()+" instead of HandlersQuantity: a priority that already holds that much is dropped from the re-division and a lone active priority is not granted all handlers")
		}
	}
	// the measured remainder is the dividend of the last division in rFn
	usedAsDividend := false
	for _, ref := range *sumCall.Referrers() {
		if call, ok := ref.(*ssa.Call); ok {
			if dividend, _, isDiv := pr.asDivision(call); isDiv && dividend == ssa.Value(sumCall) {
				usedAsDividend = true
			}
		}
	}
	if !usedAsDividend {
		bad = append(bad, "the measured remainder is not what the second division hands out")
	}
	c.R.Check(len(bad) == 0, "N3", p.FnKey(rFn)+"#remainder", p.InstrPos(sumCall), "remainder measured first and handed to the second division", strings.Join(dedup(bad), "; "))
}

// ---------------------------------------------------------------- C17

func runC17(c *Ctx) {
	r := c.R
	p := c.V1
	r.Doc("R0", "role resolution", 1)
	r.Doc("R1", "command channels are unbuffered; the API hands the command over with one plain blocking send", 4)
	r.Doc("R2", "a received command is applied inside its clause before the clause is left", 2)
	r.Doc("R3", "removal deletes the table entry; input receives read a channel looked up in the table with no table write between the lookup and the receive", 3)
	r.Doc("R4", "(= B9, B11, E3, E4) counters of a removed priority change only by releases, are kept until zero, and graceful termination waits for them", 8)
	r.Doc("R5", "(= X1, D2, P2) replace channel / reset Drained / append if new / re-sort / re-divide", 6)
	pr, err := resolvePrio(p)
	if err != nil {
		r.Fail("R0", "v1:priority", "-", err.Error())
		return
	}
	r.Pass("R0", pr.key, p.Pos(pr.sr.loopFn.Pos()), pr.String())
	for _, fn := range pr.rt.Funcs {
		r.Funcs[p.FnKey(fn)] = true
	}
	d := pr.d
	// R6 (= N1 ticker): whatever the inputs were at construction, an unbuffered input can be added
	// later, and reading it relies on the interrupter ticking
	r.Doc("R6", "(= N1) the interrupter ticks for the whole life of the discipline: stopped only by the entry's deferred clean-up, never by the constructor", 1)
	checkN1bAs(c, pr, "R6")
	// R7 (= E13, E15 on v1): "graceful termination holds across any sequence": with every input
	// removed the scheduler must still come round to the graceful request, so it parks nowhere but
	// in a wait for a release that is bound to come (or a select that a release / tick wakes)
	r.Doc("R7", "(= C07 E13, E15) the v1 scheduler blocks only for a release it is owed or in selects a release / live ticker wakes: with all inputs removed it still observes the graceful request", 4)
	{
		sub := &Ctx{V1: c.V1, V2: c.V2, Tier: c.Tier, R: NewReport("tmp", c.Tier)}
		checkN2(sub, pr)
		checkSchedulerWaits(sub, pr.sr, "E13")
		for _, o := range sub.R.Obls {
			if (o.Rule == "N2" && strings.Contains(o.Key, "#release-wait")) || o.Rule == "E13" {
				r.Check(o.OK, "R7", o.Key, o.Site, o.Detail, o.Detail)
			}
		}
	}
	// R9 (= N7, N8): "after AddInput(ch, p) returns, elements of ch are delivered": also when p has no
	// share of its own (more inputs than handlers) - such a priority is served by the second phase
	// only, whose candidates are selected by the allotment, not by the shares
	r.Doc("R9", "(= C06 N7, N8) second-phase candidates are the priorities that used up their allotment / are below their hypothetical share - whatever their own share is", 6)
	{
		sub := &Ctx{V1: c.V1, V2: c.V2, Tier: c.Tier, R: NewReport("tmp", c.Tier)}
		checkN78(sub, pr)
		for _, o := range sub.R.Obls {
			r.Check(o.OK, "R9", o.Key, o.Site, o.Detail, o.Detail)
		}
	}
	// R8 (= B14): commands are applied between the uses of the round's allotment
	r.Doc("R8", "(= C01 B14) commands are received only outside the functions that use the round's allotment: capacity holds across any sequence of additions and removals", 2)
	checkCommandsBetweenRounds(c, pr, "R8")
	// R1
	for _, f := range []string{"inputAdds", "inputRmvs"} {
		capc := p.chanCapacityConst(d, f)
		r.Check(capc == 0, "R1", pr.key+"#"+f, p.Pos(d.Ctors[0].Pos()), "make(chan, 0)", fmt.Sprintf("command channel %s is made with capacity %d: AddInput/RemoveInput return before the scheduler has seen the command, so the change is not in effect on return", f, capc))
	}
	// R1b: the API methods hand the command over with one plain blocking send
	for _, m := range d.API {
		role := map[string]string{"AddInput": "field:inputAdds", "RemoveInput": "field:inputRmvs"}[m.Name()]
		if role == "" {
			continue
		}
		var problems []string
		sends := 0
		for _, ss := range p.SendSites(m) {
			if p.chanRole(ss.Chan) != role {
				continue
			}
			sends++
			if ss.Case != nil {
				problems = append(problems, "the command is sent from a select: it can be dropped or the call can return without the scheduler having received it")
			}
			// value built from the parameters
			uses := map[string]bool{}
			p.Sym(ss.Val).Contains(func(x *Sym) bool {
				if x.Op == "param" {
					uses[x.Name] = true
				}
				return false
			})
			for _, par := range m.Params[1:] {
				if !uses[par.Name()] {
					problems = append(problems, "the command does not carry the argument "+par.Name())
				}
			}
		}
		if sends != 1 {
			problems = append(problems, fmt.Sprintf("%d sends of the command", sends))
		}
		for _, b := range m.Blocks {
			for _, in := range b.Instrs {
				if _, isGo := in.(*ssa.Go); isGo {
					problems = append(problems, "the command is sent from a new goroutine: the call returns before it is in effect")
				}
			}
		}
		r.Check(len(problems) == 0, "R1", p.FnKey(m), p.Pos(m.Pos()), "one plain blocking send of the command built from the arguments", strings.Join(problems, "; "))
	}
	checkCommandsApplied(c, pr, "R2")
	// R3a: removal deletes the entry keyed by the command
	okDel := false
	for _, fn := range pr.rt.Funcs {
		for _, b := range fn.Blocks {
			for _, in := range b.Instrs {
				if call, ok := in.(*ssa.Call); ok {
					if bi, isB := call.Call.Value.(*ssa.Builtin); isB && bi.Name() == "delete" && p.isFieldLoad(call.Call.Args[0], "inputs") {
						// unconditional: the removal is not skipped on any path through the handler
						if len(InstrDomEdges(call)) != 0 {
							continue
						}
						if _, isPar := call.Call.Args[1].(*ssa.Parameter); isPar {
							// reached from the inputRmvs clause with the received value
							for _, cs := range p.CallSites(fn) {
								for _, a := range cs.Common().Args {
									if ex, isEx := a.(*ssa.Extract); isEx {
										if sel, isSel := ex.Tuple.(*ssa.Select); isSel {
											for _, sc := range p.SelectInfo(sel).Cases {
												if sc.RecvVal == ex && p.chanRole(sc.State.Chan) == "field:inputRmvs" {
													okDel = true
												}
											}
										}
									}
								}
							}
						}
					}
				}
			}
		}
	}
	r.Check(okDel, "R3", pr.key+"#delete", "-", "RemoveInput(p) => delete(inputs, p)", "the removal command does not (unconditionally) delete the input-table entry of the removed priority: its channel keeps being read")
	// R3b: fresh lookup: the channel that is read was looked up in the input table, and the table
	// cannot have been written between that lookup and the receive (the lookup may be hoisted out
	// of a loop that does not touch the table; it may not survive a point where a command is applied)
	isTableWriter := func(in ssa.Instruction) bool {
		switch x := in.(type) {
		case *ssa.MapUpdate:
			return isInputTableType(x.Map.Type())
		case *ssa.Store:
			_, isW := fieldStore(in, "inputs")
			return isW
		case ssa.CallInstruction:
			if bi, isB := x.Common().Value.(*ssa.Builtin); isB {
				return bi.Name() == "delete" && isInputTableType(x.Common().Args[0].Type())
			}
			cal := p.Callee(x)
			if cal == nil {
				return !x.Common().IsInvoke() // a dynamic call of a function value: unknown effects
			}
			return p.IsProduct(cal) && p.mayWriteMapField(cal, "inputs")
		}
		return false
	}
	// lookupOf: v is inputs[k].Channel (possibly through a local copy of the entry: input :=
	// inputs[k]; ... input.Channel); returns the lookup
	lookupOf := func(v ssa.Value) *ssa.Lookup {
		var entry ssa.Value
		switch x := v.(type) {
		case *ssa.Field:
			if fieldName(x.X.Type(), x.Field) == "Channel" {
				entry = x.X
			}
		case *ssa.UnOp:
			if fa, isFA := x.X.(*ssa.FieldAddr); isFA && x.Op == token.MUL && fieldName(fa.X.Type(), fa.Field) == "Channel" {
				if al, isAl := fa.X.(*ssa.Alloc); isAl {
					stores, escapes := allocStores(al)
					if !escapes && len(stores) == 1 && stores[0].field == -1 {
						entry = stores[0].st.Val
					}
				}
			}
		}
		lk, isL := entry.(*ssa.Lookup)
		if !isL || !p.isFieldLoad(lk.X, "inputs") {
			return nil
		}
		return lk
	}
	for _, fn := range pr.rt.Funcs {
		n := 0
		for _, rs := range p.RecvSites(fn) {
			if !isInputChanType(rs.Chan.Type()) {
				continue
			}
			n++
			key := fmt.Sprintf("%s#recv.%d", p.FnKey(fn), n)
			why := ""
			use := rs.In.(ssa.Instruction)
			if lk := lookupOf(rs.Chan); lk != nil {
				if w := staleBetween(fn, lk, use, isTableWriter); w != nil {
					why = "the input table can be written at " + p.InstrPos(w) + " between the lookup at " + p.InstrPos(lk) + " and the receive"
				}
			} else if par, isPar := rs.Chan.(*ssa.Parameter); isPar {
				// the channel handed to a helper: looked up by every caller, nothing written in between
				idx := paramIndex(fn, par)
				sites := p.CallSites(fn)
				if len(sites) == 0 {
					why = "the channel is a parameter of a function without call sites"
				}
				for _, cs := range sites {
					args := cs.Common().Args
					if _, isGo := cs.(*ssa.Go); isGo || idx < 0 || idx >= len(args) {
						why = "the channel is handed over at " + p.InstrPos(cs) + " in a way that is not followed"
						continue
					}
					lk := lookupOf(args[idx])
					if lk == nil {
						why = "the channel handed over at " + p.InstrPos(cs) + " is " + p.Sym(args[idx]).String() + ", not a lookup in the input table"
						continue
					}
					if w := staleBetween(cs.Parent(), lk, cs, isTableWriter); w != nil {
						why = "the input table can be written at " + p.InstrPos(w) + " between the lookup and the call at " + p.InstrPos(cs)
					}
				}
				if w := staleBetween(fn, nil, use, isTableWriter); w != nil && why == "" {
					why = "the input table can be written at " + p.InstrPos(w) + " before the receive of the channel handed in"
				}
			} else {
				why = "the channel expression is " + p.Sym(rs.Chan).String()
			}
			r.Check(why == "", "R3", key, rs.Pos(p), "channel looked up in the table; no table write between the lookup and the receive", "the input channel is not looked up afresh in the input table before the receive ("+why+"): a removed or replaced channel can still be read")
		}
	}
	// R4
	sub := &Ctx{V1: c.V1, V2: c.V2, Tier: c.Tier, R: NewReport("tmp", c.Tier)}
	checkB11(sub, pr)
	// ... the counters change only by +1 per send and -1 per received release: re-adding a removed
	// priority must not reset what is still in flight
	checkB9(sub, pr)
	// ... and termination waits for them: the nothing-in-flight predicate ranges over the whole
	// `actual` map (which outlives removed inputs), and the deferred wait leaves only when it holds
	c07forall(sub, pr.sr, pr.sr.allZero, "zero")
	c07waitZero(sub, pr.sr)
	for _, o := range sub.R.Obls {
		r.Check(o.OK, "R4", strings.TrimPrefix(o.Key, "B11@"), o.Site, o.Detail, o.Detail)
	}
	// R5
	sub = &Ctx{V1: c.V1, V2: c.V2, Tier: c.Tier, R: NewReport("tmp", c.Tier)}
	c02registration(sub, p)
	checkD2(sub, pr)
	checkP2(sub, pr)
	checkP2c(sub, pr)
	for _, o := range sub.R.Obls {
		if strings.Contains(o.Key, "v2:") || strings.Contains(o.Key, "#strategic-content") {
			continue // (shares overwritten by a round division: C05's business, not a matter of adding / removing inputs)
		}
		r.Check(o.OK, "R5", o.Key, o.Site, o.Detail, o.Detail)
	}
	// Drained reset on (re-)registration: the stored entry is a literal with only Channel set
	for _, fn := range pr.rt.Funcs {
		for _, b := range fn.Blocks {
			for _, in := range b.Instrs {
				mu, ok := in.(*ssa.MapUpdate)
				if !ok || !isInputTableType(mu.Map.Type()) {
					continue
				}
				val := p.Sym(mu.Value)
				if val.Op == "struct" && len(val.Keys) > 0 && val.Keys[0] != "<base>" {
					okReset := true
					for _, k := range val.Keys {
						if k == "Drained" {
							okReset = false
						}
					}
					// the store must not be skipped for an existing key
					uncond := len(InstrDomEdges(mu)) == 0
					r.Check(okReset && uncond, "R5", p.FnKey(fn)+"#replace", p.InstrPos(mu), "entry replaced unconditionally with Drained=false", "AddInput for an already registered priority does not replace the channel / reset the drained flag unconditionally")
				}
			}
		}
	}
}

// staleBetween: an instruction accepted by isWriter that can execute after def and before use
// without def being executed again in between (def == nil: anywhere before use). nil if none.
func staleBetween(fn *ssa.Function, def, use ssa.Instruction, isWriter func(ssa.Instruction) bool) ssa.Instruction {
	reachesUse := func(w ssa.Instruction) bool {
		seen := map[*ssa.BasicBlock]bool{}
		var scan func(b *ssa.BasicBlock, from int) bool
		scan = func(b *ssa.BasicBlock, from int) bool {
			for _, in := range b.Instrs[from:] {
				if in == use {
					return true
				}
				if def != nil && in == def {
					return false
				}
			}
			for _, s := range b.Succs {
				if !seen[s] {
					seen[s] = true
					if scan(s, 0) {
						return true
					}
				}
			}
			return false
		}
		b := w.Block()
		for i, in := range b.Instrs {
			if in == w {
				return scan(b, i+1)
			}
		}
		return false
	}
	for _, b := range fn.Blocks {
		for _, in := range b.Instrs {
			if in != use && in != def && isWriter(in) && reachesUse(in) {
				return in
			}
		}
	}
	return nil
}

// checkN6: the filter that rebuilds `uncrowded` keeps exactly the priorities with actual < strategic.
func checkN6(c *Ctx, pr *prioRoles) {
	p := pr.p
	n := 0
	for _, fn := range pr.rt.Funcs {
		for _, b := range fn.Blocks {
			for _, in := range b.Instrs {
				st, ok := fieldStore(in, "uncrowded")
				if !ok {
					continue
				}
				call, isCall := st.Val.(*ssa.Call)
				if !isCall {
					continue
				}
				type keepCond struct {
					cm   *Cmp
					text string
				}
				var keep []keepCond
				key := ""
				if df := p.delegatedFilter(st, "uncrowded"); df != nil {
					// x = pick(x, func(p) bool { return cond }): the predicate's answer is the condition
					key = df.key
					for _, cm := range df.conds {
						text := "?"
						if cm != nil {
							text = cm.String()
						}
						keep = append(keep, keepCond{cm, text})
					}
				} else {
					if bi, isB := call.Call.Value.(*ssa.Builtin); !isB || bi.Name() != "append" {
						continue
					}
					if el, okv := varargsElem(call.Call.Args[1]); okv {
						key = p.Sym(el).String()
					}
					for _, e := range InstrDomEdges(in) {
						if !blockInLoop(e.From) {
							continue
						}
						iff := e.From.Instrs[len(e.From.Instrs)-1].(*ssa.If)
						cm := p.NormCmp(iff.Cond, e.Succ == 0)
						if cm != nil && isRangeHeaderCmp(cm) {
							continue // the range loop's own test
						}
						keep = append(keep, keepCond{cm, p.condSymOnEdge(e)})
					}
				}
				n++
				var conds []string
				okCond := false
				extra := false
				for _, kc := range keep {
					cm := kc.cm
					conds = append(conds, kc.text)
					isIdx := func(s *Sym, field string) bool {
						s = deepStrip(s)
						if s.Op != "index" || s.Args[1].String() != key {
							return false
						}
						_, path, okp := s.Args[0].FieldPath()
						return okp && path[len(path)-1] == field
					}
					if cm != nil && cm.Op == token.LSS && isIdx(cm.L, "actual") && isIdx(cm.R, "strategic") && cm.LC == 0 && cm.RC == 0 {
						okCond = true
					} else {
						extra = true
					}
				}
				c.R.Check(okCond && !extra, "N6", fmt.Sprintf("%s#uncrowded.%d", p.FnKey(fn), n), p.InstrPos(in), "kept iff actual < strategic",
					"the candidates for the base allotment are filtered by "+strings.Join(conds, " && ")+" instead of exactly actual[p] < strategic[p]: the divider may then be given a subset for which some candidate's share is zero, and the round-start wait blocks with nothing in flight")
			}
		}
	}
}

// checkN2b: the round-start calculation answers "cannot proceed" on its own account only when no
// handler is vacant (otherwise it hands on the answer of the base allotment).
func checkN2b(c *Ctx, pr *prioRoles) {
	p := pr.p
	for _, vac := range pr.vacantsSites() {
		fn := vac.(ssa.Instruction).Parent()
		n := 0
		for _, b := range fn.Blocks {
			ret, ok := b.Instrs[len(b.Instrs)-1].(*ssa.Return)
			if !ok || len(ret.Results) < 1 || b.Comment == "recover" {
				continue
			}
			cv, isC := ret.Results[0].(*ssa.Const)
			if !isC || constString(cv) != "false" {
				continue
			}
			if len(ret.Results) == 2 && !isNilConst(ret.Results[1]) {
				continue // error exit
			}
			n++
			okZero := false
			for _, e := range DomEdges(b) {
				iff := e.From.Instrs[len(e.From.Instrs)-1].(*ssa.If)
				cm := p.NormCmp(iff.Cond, e.Succ == 0)
				if cm != nil && cm.Op == token.EQL && cm.LC == 0 && cm.RC == 0 &&
					((cm.L.V == vac && cm.R.String() == "0") || (cm.R.V == vac && cm.L.String() == "0")) {
					okZero = true
				}
			}
			c.R.Check(okZero, "N2", fmt.Sprintf("%s#no-proceed.%d", p.FnKey(fn), n), p.InstrPos(ret), "cannot proceed only when vacants == 0", "the round-start calculation gives up although handlers may be vacant (not under vacants == 0): the scheduler then waits for a release that never comes when nothing is in flight")
		}
	}
}

// checkN13: the divider adds to the distribution it is given, so every division into the
// allotment map starts from an emptied map: the nearest event before it (in the function that makes
// the call) is the reset of the allotment - not an earlier division, not a spending phase. Dividing
// on top of what an earlier step left there gives priorities without data a share of what a lone
// active priority should have been granted (and, undivided leftovers added in, more than is vacant).
func checkN13(c *Ctx, pr *prioRoles, rule string) {
	p := pr.p
	type ev struct {
		in   *ssa.Call
		kind string
	}
	inRt := map[*ssa.Function]bool{}
	for _, fn := range pr.rt.Funcs {
		inRt[fn] = true
	}
	// wrappers: functions whose division into the allotment has nothing before it in the function
	// itself (divideTactic(list, quantity) = safeDivide(divider, list, quantity, dsc.tactic)): the
	// call of the wrapper is the division, judged where it is called
	wrapper := map[*ssa.Function]bool{}
	events := func(fn *ssa.Function) []ev {
		var evs []ev
		for _, b := range fn.Blocks {
			for _, in := range b.Instrs {
				call, ok := in.(*ssa.Call)
				if !ok {
					continue
				}
				cal := p.Callee(call)
				switch {
				case cal == nil:
				case cal == pr.resetFn:
					evs = append(evs, ev{call, "reset"})
				case isCheckedDivision(cal) && len(call.Call.Args) == 4 && p.isFieldLoad(call.Call.Args[3], "tactic"):
					evs = append(evs, ev{call, "division"})
				case wrapper[cal]:
					evs = append(evs, ev{call, "division"})
				case p.IsProduct(cal) && (p.mayWriteField(cal, "useful") || p.mayWriteField(cal, "uncrowded")) && !p.Reach(cal)[pr.safeDivideFn]:
					evs = append(evs, ev{call, "filter"})
				case p.IsProduct(cal) && (p.Reach(cal)[pr.sendFn] || p.Reach(cal)[pr.safeDivideFn]):
					evs = append(evs, ev{call, "other"})
				}
			}
		}
		return evs
	}
	nearest := func(evs []ev, d ev) *ev {
		var last *ev
		for i := range evs {
			e := &evs[i]
			if e.in == d.in || !instrDominates(e.in, d.in) {
				continue
			}
			if last == nil || instrDominates(last.in, e.in) {
				last = e
			}
		}
		return last
	}
	for changed := true; changed; {
		changed = false
		for _, fn := range pr.rt.Funcs {
			if wrapper[fn] || fn == pr.safeDivideFn {
				continue
			}
			evs := events(fn)
			for _, d := range evs {
				var evsNF []ev
				for _, e := range evs {
					if e.kind != "filter" {
						evsNF = append(evsNF, e)
					}
				}
				if d.kind == "division" && nearest(evsNF, d) == nil {
					called := false
					for _, sa := range p.CallSitesX(fn) {
						if inRt[sa.Call.Parent()] {
							called = true
						}
					}
					if called {
						wrapper[fn] = true
						changed = true
					}
				}
			}
		}
	}
	n, nfc := 0, 0
	for _, fn := range pr.rt.Funcs {
		if fn == pr.safeDivideFn {
			continue
		}
		evs := events(fn)
		for _, d := range evs {
			if d.kind != "division" {
				continue
			}
			var evsNoFilter []ev
			for _, e := range evs {
				if e.kind != "filter" {
					evsNoFilter = append(evsNoFilter, e)
				}
			}
			last := nearest(evsNoFilter, d)
			// the candidate list of the division was rebuilt for it: among the divisions and list
			// rebuilds before it, the nearest is a rebuild (a second division over the list of the
			// first one hands the remainder to the wrong candidates)
			if cal := p.Callee(d.in); cal != nil && isCheckedDivision(cal) && len(d.in.Call.Args) == 4 {
				// a candidate list was rebuilt right before this division: it is the list to divide among
				{
					var evsDF []ev
					for _, e := range evs {
						if e.kind == "filter" || e.kind == "division" {
							evsDF = append(evsDF, e)
						}
					}
					if lf := nearest(evsDF, d); lf != nil && lf.kind == "filter" {
						if _, path, okp := p.Sym(d.in.Call.Args[1]).FieldPath(); okp {
							lst := path[len(path)-1]
							if fcal := p.Callee(lf.in); fcal != nil && (lst == "priorities" || !p.mayWriteField(fcal, lst)) {
								nfc++
								c.R.Fail(rule, fmt.Sprintf("%s#candidates-used.%d", p.FnKey(fn), nfc), p.InstrPos(d.in), "the candidate list was rebuilt at "+p.InstrPos(lf.in)+" for this division, but the division is made among "+p.Sym(d.in.Call.Args[1]).String()+": priorities that are not candidates take part, and the hypothetical shares the second phase is based on are those of another set")
							}
						}
					}
				}
				if _, path, okp := p.Sym(d.in.Call.Args[1]).FieldPath(); okp && (path[len(path)-1] == "useful" || path[len(path)-1] == "uncrowded") {
					var evsDF []ev
					for _, e := range evs {
						if e.kind == "filter" || e.kind == "division" {
							evsDF = append(evsDF, e)
						}
					}
					lf := nearest(evsDF, d)
					c.R.Check(lf != nil && lf.kind == "filter", rule, fmt.Sprintf("%s#fresh-candidates.%d", p.FnKey(fn), func() int { nfc++; return nfc }()), p.InstrPos(d.in), "candidate list rebuilt before the division",
						"the division at "+p.InstrPos(d.in)+" is made among "+p.Sym(d.in.Call.Args[1]).String()+" as an earlier step left it (the list is not rebuilt between the previous division, or the start of the function, and this one): the handlers go to the wrong candidates")
				}
			}
			if last == nil && wrapper[fn] {
				continue // judged at the call sites of fn
			}
			n++
			key := fmt.Sprintf("%s#fresh-allotment.%d", p.FnKey(fn), n)
			okReset := last != nil && last.kind == "reset"
			what := "nothing"
			if last != nil {
				what = last.kind + " at " + p.InstrPos(last.in)
			}
			c.R.Check(okReset, rule, key, p.InstrPos(d.in), "division into the just emptied allotment", "the division at "+p.InstrPos(d.in)+" adds to an allotment map that was not emptied right before it (nearest event before it: "+what+"): what an earlier step left there is counted again")
		}
	}
	if n == 0 {
		c.R.Fail(rule, p.Name+":priority#fresh-allotment", "-", "UNRESOLVED-ANCHOR: no division into the allotment map found")
	}
}

// checkN14: a spending phase passes over every registered priority, in the order of the registered
// list: the loop whose body reaches the sending function ranges over that list (over a candidate
// list of some earlier round, inputs outside it are not read in this phase although they hold an
// allotment).
func checkN14(c *Ctx, pr *prioRoles, rule string) {
	p := pr.p
	n := 0
	for _, fn := range pr.rt.Funcs {
		if fn == pr.sendFn || p.Reach(fn)[pr.sendFn] == false {
			continue
		}
		for _, comp := range sccs(fn.Blocks, blockSet(fn.Blocks)) {
			set := blockSet(comp)
			var rng *ssa.Range
			var idxBase *Sym
			callsSend := false
			for _, b := range comp {
				for _, in := range b.Instrs {
					switch x := in.(type) {
					case *ssa.Next:
						if r, ok := x.Iter.(*ssa.Range); ok {
							rng = r
						}
					case *ssa.Call:
						var cals []*ssa.Function
						if cal := p.Callee(x); cal != nil {
							cals = append(cals, cal)
						} else {
							for _, t := range p.funcValueTargets(nil, x) { // (transfer := dsc.iou; ... transfer(priority))
								cals = append(cals, t.Fn)
							}
						}
						reaches := false
						for _, cal := range cals {
							if p.IsProduct(cal) && (cal == pr.sendFn || p.Reach(cal)[pr.sendFn]) {
								reaches = true
							}
						}
						if reaches {
							callsSend = true
							// the priority handed on is the element visited
							for _, a := range x.Call.Args {
								if base, okr := rangeElem(p.Sym(a)); okr {
									idxBase = base
								}
							}
						}
					}
				}
			}
			_ = set
			if !callsSend || (rng == nil && idxBase == nil) {
				continue
			}
			var list *Sym
			if idxBase != nil {
				list = idxBase
			} else {
				list = p.Sym(rng.X)
			}
			if list.V != nil {
				lt := list.V.Type().Underlying()
				if pt, isPtr := lt.(*types.Pointer); isPtr {
					lt = pt.Elem().Underlying()
				}
				if _, isSlice := lt.(*types.Slice); !isSlice {
					continue // a loop over something else (the spending loop of one input)
				}
			}
			n++
			_, path, okp := p.upParam(list, 0).FieldPath()
			c.R.Check(okp && path[len(path)-1] == "priorities", rule, fmt.Sprintf("%s#pass-list.%d", p.FnKey(fn), n), p.Pos(fn.Pos()), "the spending phase visits the registered priorities",
				"the spending phase visits "+list.String()+", not the list of registered priorities: inputs of the priorities outside that list are not read in this phase although they were allotted handlers")
			// ... all of them: the pass is left only by its own bound test (a `break` where the
			// drained input is skipped ends the pass at the first closed input: the priorities
			// after it are never read again)
			var early []string
			for _, b := range comp {
				if boundedHeader(b, set) {
					continue
				}
				for _, sb := range b.Succs {
					if !set[sb] {
						early = append(early, p.InstrPos(b.Instrs[len(b.Instrs)-1]))
					}
				}
			}
			c.R.Check(len(early) == 0, rule, fmt.Sprintf("%s#pass-complete.%d", p.FnKey(fn), n), p.Pos(fn.Pos()), "the pass is left only at the end of the list",
				"the pass over the registered priorities is left early at "+strings.Join(dedup(early), ", ")+": the priorities after that point are not read in this round (for a closed input: never again)")
		}
	}
	if n == 0 {
		c.R.Fail(rule, p.Name+":priority#pass-list", "-", "UNRESOLVED-ANCHOR: no loop over a list of priorities reaches the sending function")
	}
}

// checkN12: the "may proceed" answer of a function that divides an allotment is "every priority
// of the list just divided got something": the for-all is applied to the very list handed to the
// last division before it. (Applied to another list - all registered priorities, say - it is
// false whenever some priority outside the candidates has nothing, and the scheduler waits for a
// release although handlers are vacant and data is waiting.)
func checkN12(c *Ctx, pr *prioRoles, rule string) {
	p := pr.p
	listArg := func(call *ssa.Call) ssa.Value {
		for i, a := range call.Call.Args {
			if i == 0 && p.Callee(call) != nil && p.Callee(call).Signature.Recv() != nil {
				continue
			}
			if sl, ok := a.Type().Underlying().(*types.Slice); ok {
				if b, isB := sl.Elem().Underlying().(*types.Basic); isB && b.Kind() == types.Uint {
					return a
				}
			}
		}
		return nil
	}
	isDivision := func(call *ssa.Call) bool {
		cal := p.Callee(call)
		if cal == nil || !p.IsProduct(cal) {
			return false
		}
		if isCheckedDivision(cal) || isCheckedDivision(p.forwardsTo(cal)) {
			return true
		}
		// a helper that divides the list it is given (divideTactic(list, quantity): reset; safeDivide(..., list, ...))
		for _, b := range cal.Blocks {
			for _, in := range b.Instrs {
				if inner, ok := in.(*ssa.Call); ok && isCheckedDivision(p.Callee(inner)) && len(inner.Call.Args) == 4 {
					if _, isPar := stripChangeType(inner.Call.Args[1]).(*ssa.Parameter); isPar {
						return true
					}
				}
			}
		}
		return false
	}
	n := 0
	for _, fn := range pr.rt.Funcs {
		var divs []*ssa.Call
		for _, b := range fn.Blocks {
			for _, in := range b.Instrs {
				if call, ok := in.(*ssa.Call); ok && isDivision(call) {
					divs = append(divs, call)
				}
			}
		}
		if len(divs) == 0 {
			continue
		}
		for _, s := range p.resultSyms(fn, 0) {
			fc, ok := s.V.(*ssa.Call)
			if !ok || fc.Parent() != fn {
				continue
			}
			cal := p.Callee(fc)
			if cal == nil || !p.IsProduct(cal) || !returnsBoolOnly(cal) {
				continue
			}
			fl := listArg(fc)
			if fl == nil {
				continue
			}
			var last *ssa.Call
			for _, d := range divs {
				if instrDominates(d, fc) && (last == nil || instrDominates(last, d)) {
					last = d
				}
			}
			n++
			key := fmt.Sprintf("%s#filled-list.%d", p.FnKey(fn), n)
			if last == nil {
				c.R.Fail(rule, key, p.InstrPos(fc), "the allotment-filled test is not preceded by a division in "+fn.Name())
				continue
			}
			dl := listArg(last)
			same := dl != nil && p.Sym(dl).String() == p.Sym(fl).String()
			c.R.Check(same, rule, key, p.InstrPos(fc), "for-all over the list just divided ("+p.Sym(fl).String()+")",
				"the allotment-filled test looks at "+p.Sym(fl).String()+" but the division before it was made among "+func() string {
					if dl == nil {
						return "?"
					}
					return p.Sym(dl).String()
				}()+": a priority outside the divided list has no allotment, so the answer is 'cannot proceed' and the scheduler waits for a release although handlers are vacant and data is waiting")
		}
	}
	if n == 0 {
		c.R.Fail(rule, p.Name+":priority#filled-list", "-", "UNRESOLVED-ANCHOR: no function returns an allotment-filled test after a division")
	}
}

// checkN78: shape of the filled-predicate and of the two `useful` filters.
func checkN78(c *Ctx, pr *prioRoles) {
	p := pr.p
	// N7: functions whose result is returned as the proceed flag of the base / re-division functions
	seen := map[*ssa.Function]bool{}
	for _, fn := range pr.rt.Funcs {
		for _, s := range p.resultSyms(fn, 0) {
			call, ok := s.V.(*ssa.Call)
			if !ok {
				continue
			}
			cal := p.Callee(call)
			if cal == nil || !p.IsProduct(cal) || !returnsBoolOnly(cal) || len(cal.Params) != 2 || seen[cal] {
				continue
			}
			if _, isSlice := cal.Params[1].Type().Underlying().(*types.Slice); !isSlice {
				// the shared for-all helper (list, distribution) applied to the tactic map
				if over, isFA := p.forAllShape(cal); isFA && len(call.Call.Args) == 2 && p.isFieldLoad(call.Call.Args[1], "tactic") {
					seen[cal] = true
					c.R.Check(over == "slice", "N7", p.FnKey(fn)+"#filled:"+shortFn(p, cal), p.InstrPos(call), "for-all listed priorities: tactic != 0 (shared helper over the list)", "the allotment-filled predicate ranges over the entries of the map, not over the listed priorities: a priority without an entry is not seen")
				}
				continue
			}
			seen[cal] = true
			// the method only forwards to the shared for-all helper: isTacticFilled(list) =
			// IsPrioritiesFilled(list, dsc.tactic)
			if g := p.forwardsTo(cal); g != cal {
				var fwd *ssa.Call
				for _, b := range cal.Blocks {
					if ret, isRet := b.Instrs[len(b.Instrs)-1].(*ssa.Return); isRet && len(ret.Results) == 1 {
						fwd, _ = ret.Results[0].(*ssa.Call)
					}
				}
				if over, isFA := p.forAllShape(g); isFA && fwd != nil && p.Callee(fwd) == g && len(fwd.Call.Args) == 2 &&
					fwd.Call.Args[0] == ssa.Value(cal.Params[1]) && p.isFieldLoad(fwd.Call.Args[1], "tactic") {
					c.R.Check(over == "slice", "N7", p.FnKey(cal), p.Pos(cal.Pos()), "for-all listed priorities: tactic != 0 (forwarded to the shared helper over the list)", "the allotment-filled predicate ranges over the entries of the map, not over the listed priorities: a priority without an entry is not seen")
					continue
				}
			}
			// the same for-all spelled with the standard helper:
			//   return !slices.ContainsFunc(list, func(p uint) bool { return tactic[p] == 0 })
			if okCF, whyCF, isCF := p.filledByContainsFunc(cal); isCF {
				c.R.Check(okCF, "N7", p.FnKey(cal), p.Pos(cal.Pos()), "for-all listed priorities: tactic != 0 (!slices.ContainsFunc(list, tactic[p] == 0))", "the allotment-filled predicate is not 'every listed priority has a non-zero allotment' ("+whyCF+")")
				continue
			}
			ok7 := true
			why := ""
			comps := sccs(cal.Blocks, blockSet(cal.Blocks))
			if len(comps) != 1 {
				ok7, why = false, "not a single loop over the listed priorities"
			}
			trues, falses := 0, 0
			for _, b := range cal.Blocks {
				ret, isRet := b.Instrs[len(b.Instrs)-1].(*ssa.Return)
				if !isRet || b.Comment == "recover" {
					continue
				}
				cv, isC := ret.Results[0].(*ssa.Const)
				if !isC {
					ok7, why = false, "non-constant result"
					continue
				}
				if constString(cv) == "true" {
					trues++
					if blockInLoop(b) || len(comps) == 1 && blockSet(comps[0])[b] {
						ok7, why = false, "answers true before every listed priority was examined"
					}
					continue
				}
				falses++
				okEdge := false
				for _, e := range DomEdges(b) {
					iff := e.From.Instrs[len(e.From.Instrs)-1].(*ssa.If)
					cm := p.NormCmp(iff.Cond, e.Succ == 0)
					if cm == nil || cm.Op != token.EQL || cm.LC != 0 || cm.RC != 0 {
						continue
					}
					l, r := deepStrip(cm.L), deepStrip(cm.R)
					if r.String() != "0" {
						l, r = r, l
					}
					if r.String() == "0" && l.Op == "index" {
						if _, path, okp := l.Args[0].FieldPath(); okp && path[len(path)-1] == "tactic" {
							if base, okr := rangeElem(l.Args[1]); okr && base.V == ssa.Value(cal.Params[1]) {
								okEdge = true
							}
						}
					}
				}
				if !okEdge {
					ok7, why = false, "answers false not under tactic[listed priority] == 0"
				}
			}
			if trues != 1 || falses == 0 {
				ok7, why = false, fmt.Sprintf("%d true / %d false results", trues, falses)
			}
			c.R.Check(ok7, "N7", p.FnKey(cal), p.Pos(cal.Pos()), "for-all listed priorities: tactic != 0", "the allotment-filled predicate is not 'every listed priority has a non-zero allotment' ("+why+"): the scheduler proceeds with a starved priority, or waits for a release although every candidate can be served")
		}
	}
	// N8: a function that empties a candidate list also refills it (a list that is emptied and left
	// empty gives the second phase nobody to hand the unspent handlers to)
	for _, field := range []string{"useful", "uncrowded"} {
		for _, fn := range pr.rt.Funcs {
			var trunc ssa.Instruction
			refills := false
			for _, b := range fn.Blocks {
				for _, in := range b.Instrs {
					st, ok := fieldStore(in, field)
					if !ok {
						continue
					}
					if sl, isSl := st.Val.(*ssa.Slice); isSl && sl.Low == nil {
						trunc = in
					} else {
						refills = true
					}
				}
			}
			if trunc != nil {
				c.R.Check(refills, "N8", p.FnKey(fn)+"#"+field+"-refilled", p.InstrPos(trunc), "emptied and rebuilt", "the "+field+" list is emptied and never refilled: no priority is a candidate any more, the unspent handlers are handed to nobody")
			}
		}
	}
	// N8: appends to `useful`
	usedUpFns := map[*ssa.Function]bool{}
	defer func() {
		// the "used up its allotment" filter looks at what the spending pass left of the round's
		// allotment: where it is evaluated, nothing in the same function has emptied or rewritten
		// the allotment map before it (evaluated after the reset, every priority looks used up
		// and the hypothetical shares are computed among all of them)
		ai := p.alias()
		var fl []*ssa.Function
		for f := range usedUpFns {
			fl = append(fl, f)
		}
		sort.Slice(fl, func(i, j int) bool { return p.FnKey(fl[i]) < p.FnKey(fl[j]) })
		for _, f := range fl {
			for k, sa := range p.CallSitesX(f) {
				site, ok := sa.Call.(ssa.Instruction)
				if !ok {
					continue
				}
				g := site.Parent()
				var before []string
				for _, b := range g.Blocks {
					for _, in := range b.Instrs {
						if in == site || !instrReachableFrom(in, site) {
							continue
						}
						writes := false
						if w, ok := p.mapWriteOf(nil, in); ok && w.Field == "tactic" {
							writes = true
						}
						if call, ok := in.(*ssa.Call); ok {
							if cal := p.Callee(call); cal != nil && p.IsProduct(cal) && cal != f && p.mayWriteMapField(cal, "tactic") {
								writes = true
							}
						}
						if writes {
							before = append(before, p.InstrPos(in))
						}
					}
				}
				for _, w := range ai.contentWritesIn(g) {
					if w.In == site || !instrReachableFrom(w.In, site) {
						continue
					}
					for _, root := range ai.Roots(w.Target) {
						if root.Kind == "fieldload" && strings.HasSuffix(root.Path, ".tactic") {
							before = append(before, p.InstrPos(w.In))
						}
					}
				}
				c.R.Check(len(before) == 0, "N8", fmt.Sprintf("%s#used-up-measured.%d", p.FnKey(g), k+1), p.InstrPos(site), "the used-up filter sees the allotment as the spending pass left it",
					"the candidates that \"used up their allotment\" are selected after the allotment map was rewritten at "+strings.Join(dedup(before), ", ")+": the filter no longer sees what the spending pass left, every priority looks used up and the unspent handlers are shared among all of them")
			}
		}
	}()
	n := 0
	for _, fn := range pr.rt.Funcs {
		for _, b := range fn.Blocks {
			for _, in := range b.Instrs {
				st, ok := fieldStore(in, "useful")
				if !ok {
					continue
				}
				call, isCall := st.Val.(*ssa.Call)
				if !isCall {
					continue
				}
				var keep []*Cmp
				key := ""
				described := ""
				if df := p.delegatedFilter(st, "useful"); df != nil {
					key = df.key
					keep = df.conds
					for _, cm := range df.conds {
						if cm != nil {
							described += cm.String() + " "
						} else {
							described += "? "
						}
					}
				} else {
					if bi, isB := call.Call.Value.(*ssa.Builtin); !isB || bi.Name() != "append" {
						continue
					}
					if el, okv := varargsElem(call.Call.Args[1]); okv {
						key = p.Sym(el).String()
					}
					for _, e := range InstrDomEdges(in) {
						if !blockInLoop(e.From) {
							continue
						}
						iff := e.From.Instrs[len(e.From.Instrs)-1].(*ssa.If)
						cm := p.NormCmp(iff.Cond, e.Succ == 0)
						if cm != nil && isRangeHeaderCmp(cm) {
							continue
						}
						keep = append(keep, cm)
					}
					described = describeEdges(p, InstrDomEdges(in))
				}
				n++
				form := ""
				extra := false
				for _, cm := range keep {
					isIdx := func(s *Sym, field string) bool {
						s = deepStrip(s)
						if s.Op != "index" || s.Args[1].String() != key {
							return false
						}
						_, path, okp := s.Args[0].FieldPath()
						return okp && path[len(path)-1] == field
					}
					switch {
					case cm != nil && cm.Op == token.EQL && cm.LC == 0 && cm.RC == 0 && ((isIdx(cm.L, "tactic") && cm.R.String() == "0") || (isIdx(cm.R, "tactic") && cm.L.String() == "0")):
						form = "allotment used up (tactic == 0)"
					case cm != nil && cm.Op == token.LSS && cm.LC == 0 && cm.RC == 0 && isIdx(cm.L, "actual") && isIdx(cm.R, "tactic"):
						form = "actual < hypothetical share"
					default:
						extra = true
					}
				}
				if form == "allotment used up (tactic == 0)" && !extra {
					usedUpFns[fn] = true
				}
				c.R.Check(form != "" && !extra, "N8", fmt.Sprintf("%s#useful.%d", p.FnKey(fn), n), p.InstrPos(in), form,
					"the second-phase candidates are selected by "+described+", not by 'used up its allotment' / 'actual < hypothetical share': the unspent handlers go to priorities without data, or a lone active priority is left out")
			}
		}
	}
}

// filledByContainsFunc: fn is `return !slices.ContainsFunc(<its list parameter>, pred)` with
// pred(p) = tactic[p] == 0.
func (p *Prog) filledByContainsFunc(fn *ssa.Function) (ok bool, why string, is bool) {
	var call *ssa.Call
	for _, b := range fn.Blocks {
		for _, in := range b.Instrs {
			if c2, isCall := in.(*ssa.Call); isCall {
				if cal := p.Callee(c2); cal != nil {
					name := p.funcDisplay(cal)
					if i := strings.Index(name, "["); i >= 0 {
						name = name[:i]
					}
					if name == "slices.ContainsFunc" {
						call = c2
					}
				}
			}
		}
	}
	if call == nil {
		return false, "", false
	}
	if len(fn.Blocks) != 1 {
		return false, "the helper does more than evaluate slices.ContainsFunc", true
	}
	ret, isRet := fn.Blocks[0].Instrs[len(fn.Blocks[0].Instrs)-1].(*ssa.Return)
	if !isRet || len(ret.Results) != 1 {
		return false, "no single result", true
	}
	base, neg := condOf(ret.Results[0])
	if base != ssa.Value(call) || !neg {
		return false, "the result is not the negation of ContainsFunc", true
	}
	if par, isPar := stripChangeType(call.Call.Args[0]).(*ssa.Parameter); !isPar || par.Parent() != fn {
		return false, "ContainsFunc does not range over the listed priorities", true
	}
	var pred *ssa.Function
	switch f := call.Call.Args[1].(type) {
	case *ssa.MakeClosure:
		pred, _ = f.Fn.(*ssa.Function)
	case *ssa.Function:
		pred = f
	}
	if pred == nil || len(pred.Params) != 1 || len(pred.Blocks) != 1 {
		return false, "the element predicate is not a simple function", true
	}
	pret, isRet := pred.Blocks[0].Instrs[len(pred.Blocks[0].Instrs)-1].(*ssa.Return)
	if !isRet || len(pret.Results) != 1 {
		return false, "the element predicate has no single result", true
	}
	cm := p.NormCmp(pret.Results[0], true)
	if cm == nil || cm.LC != 0 || cm.RC != 0 || !(cm.Op == token.EQL || cm.Op == token.LEQ) {
		return false, "the element predicate is not tactic[p] == 0", true
	}
	l, r := deepStrip(cm.L), deepStrip(cm.R)
	if r.String() != "0" {
		l, r = r, l
	}
	if r.String() != "0" || l.Op != "index" {
		return false, "the element predicate is not tactic[p] == 0", true
	}
	_, path, okp := l.Args[0].FieldPath()
	key := l.Args[1].StripInst()
	if !okp || path[len(path)-1] != "tactic" || key.V != ssa.Value(pred.Params[0]) {
		return false, "the element predicate is not tactic[p] == 0 for the visited priority", true
	}
	return true, "", true
}

// checkCommandsApplied (C17/R2 = C02/X17): a received AddInput / RemoveInput command is applied
// inside its clause, unconditionally, before the clause is left (an addition that is received but
// skipped - "not while a graceful stop is pending" - leaves the channel unregistered: what is
// written to it is never delivered although AddInput returned).
func checkCommandsApplied(c *Ctx, pr *prioRoles, rule string) {
	p := pr.p
	// R2
	// (the control select may sit in the loop function or in a helper it calls)
	for _, loop := range pr.rt.Funcs {
		for _, s := range Selects(loop) {
			for _, cs := range p.SelectInfo(s).Cases {
				role := p.chanRole(cs.State.Chan)
				if role != "field:inputAdds" && role != "field:inputRmvs" {
					continue
				}
				key := p.FnKey(loop) + "#" + strings.TrimPrefix(role, "field:")
				ok := false
				why := "the clause body does not apply the command"
				if cs.Body != nil && cs.RecvVal != nil {
					for _, in := range cs.Body.Instrs {
						call, isCall := in.(*ssa.Call)
						if !isCall {
							continue
						}
						cal := p.Callee(call)
						if cal == nil || !p.IsProduct(cal) {
							continue
						}
						// arguments come from the received command
						fromCmd := false
						for _, a := range call.Call.Args {
							s := p.Sym(a)
							if s.V == ssa.Value(cs.RecvVal) || (s.Op == "field" && s.Args[0].V == ssa.Value(cs.RecvVal)) {
								fromCmd = true
							}
						}
						touches := p.mayWriteMapField(cal, "inputs")
						// an addition registers its channel whatever the state of the discipline is (a
						// removal may have nothing to remove)
						if fromCmd && touches && role == "field:inputAdds" && !p.mustWriteMapField(cal, "inputs", 0) {
							why = "the handler " + cal.Name() + " registers the added channel only on some paths: an AddInput that returned may have had no effect"
						} else if fromCmd && touches {
							ok = true
						} else if fromCmd {
							why = "the handler " + cal.Name() + " does not update the input table"
						}
					}
				}
				c.R.Check(ok, rule, key, p.InstrPos(s), "command applied in its clause", why)
			}
		}
	}
}
