package main

import (
	"fmt"
	"go/token"
	"go/types"
	"strings"

	"golang.org/x/tools/go/ssa"
)

func init() {
	register(&Property{
		ID:          "C15",
		Run:         runC15,
		Explanation: "Divider contract and fail-safe behaviour: D1 every dynamic call through a Divider value in the discipline packages is enumerated; D2 its priorities argument is the registered list or an order-preserving filter of it (fields rebuilt as x=x[:0]; for p in priorities {if c {x=append(x,p)}}), the registered list is sorted by the descending comparator after every append and before every use, and is duplicate-free (v2: keys of the Inputs map; v1: appended only when the key is not registered); D3 the dividend is HandlersQuantity, the vacants value or the measured remainder; D4 (v2) the distribution argument is rooted in make(map); D5 safeDivide returns nil only for total 0 / exact match and ErrDividerBad otherwise (B7), the error reaches the err channel unchanged (E6) and the tactic typestate shows that no output write follows a failed division (B10); D6 the deferred wait-for-zero runs on the error exit (E4); D7 v2 New returns the error of prepare and nil, the go statement is reached only on the no-error edges; D8 the zero-share rejection quantifies over the registered priorities (a for-all over the list that was divided, looking each priority up in the distribution), not over the keys the divider chose to write.",
		NotDecided:  []string{"what a faulty divider does to memory it was not given (contract)"},
	})
}

// rangeElem: s denotes the element of a slice visited by a `for range` loop: base[(phi + 1)].
func rangeElem(s *Sym) (*Sym, bool) {
	s = s.StripConv()
	if s.Op != "index" {
		return nil, false
	}
	i := s.Args[1].StripConv()
	if i.Op == "bin" && i.Name == "+" {
		// range form: index = phi + 1 with phi counting from -1
		for k := 0; k < 2; k++ {
			if c, ok := symConstInt(i.Args[k]); ok && c == 1 && i.Args[1-k].StripConv().Op == "phi" {
				return s.Args[0], true
			}
		}
	}
	if isCountingPhi(i, 0) {
		// three-clause form: for i := 0; i < len(x); i++
		return s.Args[0], true
	}
	return nil, false
}

// forAllCall: call evaluates an "every listed priority has a non-zero share" helper (forAllShape)
// - directly, or through a private wrapper that only forwards its parameters to one
// (distributed.isFilled(combination) = common.IsPrioritiesFilled(combination, distributed)).
// list and dist are the call's own arguments that reach the helper's slice and map parameters.
func (p *Prog) forAllCall(call *ssa.Call) (over string, list, dist ssa.Value, ok bool) {
	if call == nil {
		return "", nil, nil, false
	}
	cal := p.Callee(call)
	if cal == nil {
		return "", nil, nil, false
	}
	pick := func(g *ssa.Function, args []ssa.Value) {
		for i, par := range g.Params {
			if i >= len(args) {
				break
			}
			switch par.Type().Underlying().(type) {
			case *types.Slice:
				if list == nil {
					list = args[i]
				}
			case *types.Map:
				if dist == nil {
					dist = args[i]
				}
			}
		}
	}
	if o, isFA := p.forAllShape(cal); isFA {
		pick(cal, call.Call.Args)
		return o, list, dist, true
	}
	if !p.IsProduct(cal) || !returnsBoolOnly(cal) {
		return "", nil, nil, false
	}
	var body *ssa.BasicBlock
	for _, b := range cal.Blocks {
		if b == cal.Recover {
			continue
		}
		if body != nil {
			return "", nil, nil, false
		}
		body = b
	}
	if body == nil || len(body.Instrs) == 0 {
		return "", nil, nil, false
	}
	ret, isRet := body.Instrs[len(body.Instrs)-1].(*ssa.Return)
	if !isRet || len(ret.Results) != 1 {
		return "", nil, nil, false
	}
	inner, isCall := ret.Results[0].(*ssa.Call)
	if !isCall {
		return "", nil, nil, false
	}
	for _, in := range body.Instrs[:len(body.Instrs)-1] {
		switch x := in.(type) {
		case *ssa.DebugRef, *ssa.ChangeType:
		case *ssa.Call:
			if x != inner {
				return "", nil, nil, false
			}
		default:
			return "", nil, nil, false
		}
	}
	g := p.Callee(inner)
	o, isFA := p.forAllShape(g)
	if !isFA {
		return "", nil, nil, false
	}
	args := make([]ssa.Value, len(inner.Call.Args))
	for i, a := range inner.Call.Args {
		par, isPar := stripChangeType(a).(*ssa.Parameter)
		if !isPar {
			return "", nil, nil, false
		}
		idx := paramIndex(cal, par)
		if idx < 0 || idx >= len(call.Call.Args) {
			return "", nil, nil, false
		}
		args[i] = call.Call.Args[idx]
	}
	pick(g, args)
	return o, list, dist, true
}

// forAllShape classifies a boolean helper "every element is non-zero": over="slice" when it
// visits a slice parameter and looks each element up in a map parameter, "map" when it visits
// the entries of a map parameter.
func (p *Prog) forAllShape(fn *ssa.Function) (over string, ok bool) {
	if fn == nil || !returnsBoolOnly(fn) {
		return "", false
	}
	if p.forAllByContainsFunc(fn) {
		return "slice", true
	}
	comps := sccs(fn.Blocks, blockSet(fn.Blocks))
	if len(comps) != 1 {
		return "", false
	}
	loop := blockSet(comps[0])
	var header *ssa.BasicBlock
	for _, b := range comps[0] {
		if boundedHeader(b, loop) {
			header = b
		}
	}
	if header == nil {
		return "", false
	}
	doneSucc := 0
	if loop[header.Succs[0]] {
		doneSucc = 1
	}
	trues, falses := 0, 0
	zeroForms, absentOnly := 0, 0
	for _, b := range fn.Blocks {
		ret, isRet := b.Instrs[len(b.Instrs)-1].(*ssa.Return)
		if !isRet || b.Comment == "recover" {
			continue
		}
		cv, isC := ret.Results[0].(*ssa.Const)
		if !isC {
			return "", false
		}
		if constString(cv) == "true" {
			trues++
			after := false
			for _, e := range DomEdges(b) {
				if e.From == header && e.Succ == doneSucc {
					after = true
				}
			}
			if !after {
				if p.emptyGuarded(b) {
					trues-- // the zero-iteration answer given early
					continue
				}
				return "", false
			}
			continue
		}
		falses++
		found := ""
		extraGuards := 0
		for _, e := range DomEdges(b) {
			if !loop[e.From] {
				continue
			}
			iff := e.From.Instrs[len(e.From.Instrs)-1].(*ssa.If)
			// an additional guard "the entry exists" in front of the zero test (`q, ok := m[k]; ok &&
			// q == 0`) lets an absent entry pass as non-zero
			if base, neg := condOf(iff.Cond); true {
				if bs := deepStrip(p.Sym(base)); bs.Op == "extract" && bs.Name == "1" && len(bs.Args) == 1 && bs.Args[0].Op == "index" && (e.Succ == 0) != neg {
					// (harmless when the absent entry answers false as well: switch { case !ok: return
					// false; case q == 0: return false })
					other := e.From.Succs[1-e.Succ]
					for hop := 0; hop < 2 && len(other.Instrs) == 1 && len(other.Succs) == 1; hop++ {
						other = other.Succs[0]
					}
					absentFalse := false
					if ret2, isRet2 := other.Instrs[len(other.Instrs)-1].(*ssa.Return); isRet2 && len(ret2.Results) == 1 {
						if cv2, isC2 := ret2.Results[0].(*ssa.Const); isC2 && constString(cv2) == "false" {
							absentFalse = true
						}
					}
					if !absentFalse {
						extraGuards++
					}
				}
			}
			// comma-ok form: `q, ok := mapParam[sliceParam[i]]`; !ok (no entry: nothing was given)
			if base, neg := condOf(iff.Cond); true {
				if bs := deepStrip(p.Sym(base)); bs.Op == "extract" && bs.Name == "1" && len(bs.Args) == 1 && bs.Args[0].Op == "index" && bs.Args[0].Args[0].Op == "param" {
					if rb, okb := rangeElem(bs.Args[0].Args[1]); okb && rb.Op == "param" && (e.Succ == 0) == neg {
						found = "slice"
						absentOnly++
						continue
					}
				}
			}
			cm := p.NormCmp(iff.Cond, e.Succ == 0)
			if cm == nil || cm.Op != token.EQL || cm.LC != 0 || cm.RC != 0 {
				continue
			}
			l, r := deepStrip(cm.L), deepStrip(cm.R)
			if r.String() != "0" {
				l, r = r, l
			}
			if r.String() != "0" {
				continue
			}
			// (the value of a comma-ok lookup is the entry)
			if l.Op == "extract" && l.Name == "0" && len(l.Args) == 1 && l.Args[0].Op == "index" {
				l = l.Args[0]
			}
			// slice form: mapParam[sliceParam[i]] == 0
			if l.Op == "index" && l.Args[0].Op == "param" {
				if base, okb := rangeElem(l.Args[1]); okb && base.Op == "param" {
					found = "slice"
					zeroForms++
				}
			}
			// map form: value of the range entry == 0
			if l.Op == "extract" && l.Name == "2" && l.Args[0].Op == "next" {
				found = "map"
			}
		}
		if extraGuards > 0 {
			return "", false
		}
		if found == "" {
			return "", false
		}
		over = found
	}
	if trues != 1 || falses == 0 {
		return "", false
	}
	if over == "slice" && absentOnly > 0 && zeroForms == 0 {
		return "", false // only missing entries are refused: an entry that is present with 0 passes
	}
	return over, true
}

// isDescendingSort: fn sorts its slice parameter with a comparator "x[j] < x[i]".
// comparatorFn: the function a comparator argument denotes: a function, a closure, or the closure
// handed back by a product constructor (`sort.SliceStable(x, higherFirst(x))`).
func (p *Prog) comparatorFn(v ssa.Value, depth int) *ssa.Function {
	if depth > 3 {
		return nil
	}
	switch f := v.(type) {
	case *ssa.Function:
		return f
	case *ssa.MakeClosure:
		fn, _ := f.Fn.(*ssa.Function)
		return fn
	case *ssa.ChangeType:
		return p.comparatorFn(f.X, depth+1)
	case *ssa.Call:
		cal := p.Callee(f)
		if cal == nil || !p.IsProduct(cal) {
			return nil
		}
		var out *ssa.Function
		for _, b := range cal.Blocks {
			ret, isRet := b.Instrs[len(b.Instrs)-1].(*ssa.Return)
			if !isRet || len(ret.Results) != 1 {
				continue
			}
			got := p.comparatorFn(ret.Results[0], depth+1)
			if got == nil || (out != nil && out != got) {
				return nil
			}
			out = got
		}
		return out
	}
	return nil
}

func (p *Prog) isDescendingSort(fn *ssa.Function) bool {
	return p.isDescendingSortD(fn, 0)
}

func (p *Prog) isDescendingSortD(fn *ssa.Function, depth int) bool {
	if fn == nil || len(fn.Params) != 1 || depth > 2 {
		return false
	}
	// a wrapper that only hands its slice on (SortPriorities(x) = list(x).sortDescending())
	if len(fn.Blocks) == 1 {
		var only *ssa.Call
		plain := true
		for _, in := range fn.Blocks[0].Instrs {
			switch x := in.(type) {
			case *ssa.DebugRef, *ssa.ChangeType, *ssa.Return:
			case *ssa.Call:
				if only != nil {
					plain = false
				}
				only = x
			default:
				plain = false
			}
		}
		if plain && only != nil && len(only.Call.Args) == 1 && stripChangeType(only.Call.Args[0]) == ssa.Value(fn.Params[0]) {
			if g := p.Callee(only); g != nil && p.IsProduct(g) && g != fn {
				return p.isDescendingSortD(g, depth+1)
			}
		}
	}
	for _, b := range fn.Blocks {
		for _, in := range b.Instrs {
			call, ok := in.(*ssa.Call)
			if !ok {
				continue
			}
			cal := p.Callee(call)
			if cal == nil {
				continue
			}
			name := p.funcDisplay(cal)
			if i := strings.Index(name, "["); i >= 0 {
				name = name[:i]
			}
			if name == "slices.SortFunc" || name == "slices.SortStableFunc" {
				// three-way comparator (a, b): descending iff it is cmp.Compare(b, a) or -cmp.Compare(a, b);
				// a subtraction of converted operands is not accepted (it overflows for large priorities)
				cmpFn := p.comparatorFn(call.Call.Args[1], 0)
				if cmpFn == nil || len(cmpFn.Params) != 2 {
					continue
				}
				for _, rs := range p.resultSyms(cmpFn, 0) {
					neg := false
					if rs.Op == "un" && rs.Name == "-" {
						neg, rs = true, rs.Args[0]
					}
					if rs.Op != "call" || len(rs.Args) != 2 {
						continue
					}
					cn := rs.Name
					if i := strings.Index(cn, "["); i >= 0 {
						cn = cn[:i]
					}
					if cn != "cmp.Compare" {
						continue
					}
					a, b := cmpFn.Params[0].Name(), cmpFn.Params[1].Name()
					x, y := rs.Args[0], rs.Args[1]
					if x.Op != "param" || y.Op != "param" {
						continue
					}
					if (!neg && x.Name == b && y.Name == a) || (neg && x.Name == a && y.Name == b) {
						return true
					}
				}
				continue
			}
			if name == "sort.Stable" || name == "sort.Sort" {
				// sort.Interface: descending iff Less(i, j) is x[j] < x[i] on the receiver
				if p.isDescendingInterface(call.Call.Args[0]) {
					return true
				}
				continue
			}
			if name != "sort.SliceStable" && name != "sort.Slice" {
				continue
			}
			less := p.comparatorFn(call.Call.Args[1], 0)
			if less == nil || len(less.Params) != 2 {
				continue
			}
			for _, s := range p.resultSyms(less, 0) {
				// (x[j] < x[i])  with i, j the closure parameters in order (i, j); the comparison
				// may sit in an expression helper (isHigher(x[i], x[j]))
				s = p.expandSym(s, 0)
				if s.Op != "bin" {
					continue
				}
				l, r := s.Args[0], s.Args[1]
				idx := func(x *Sym) string {
					if x.Op == "index" && x.Args[1].Op == "param" {
						return x.Args[1].Name
					}
					return ""
				}
				pi, pj := less.Params[0].Name(), less.Params[1].Name()
				if (s.Name == "<" && idx(l) == pj && idx(r) == pi) || (s.Name == ">" && idx(l) == pi && idx(r) == pj) {
					return true
				}
			}
		}
	}
	return false
}

func runC15(c *Ctx) {
	r := c.R
	r.Doc("D0", "role resolution", 2)
	r.Doc("D1", "every dynamic divider call in the discipline packages, with its arguments classified (D2 list, D3 dividend, D4 distribution)", 5)
	r.Doc("D2", "filter fields keep the registered order; the registered list is sorted (descending) after every append, duplicate-free", 8)
	r.Doc("D5", "safeDivide verdicts (B7), ErrDividerBad on mismatch, error forwarded unchanged (E6), no output write after a failed division (B10)", 6)
	r.Doc("D6", "the deferred wait-for-zero covers the error exit (E4)", 2)
	r.Doc("D7", "v2 New: error of validation/prepare returned with a nil discipline; go only on the no-error edges", 2)
	r.Doc("D8", "zero-share rejection quantifies over the registered priorities", 1)
	r.Doc("D10", "error tests are not inverted: no function of the priority packages returns as its error a value it tested nil, none reports success where a product call's error was found non-nil (a divider fault reaches Err() / New's result)", 10)
	r.Doc("D9", "v1 Simple forwards every error it receives from the inner discipline to its own Err()", 1)
	for _, p := range []*Prog{c.V1, c.V2} {
		pr, err := resolvePrio(p)
		if err != nil {
			r.Fail("D0", p.Name+":priority", "-", err.Error())
			continue
		}
		r.Pass("D0", pr.key, p.Pos(pr.safeDivideFn.Pos()), pr.String())
		for _, fn := range pr.rt.Funcs {
			r.Funcs[p.FnKey(fn)] = true
		}
		checkD1(c, pr)
		checkD2(c, pr)
		// D5
		sub := &Ctx{V1: c.V1, V2: c.V2, Tier: c.Tier, R: NewReport("tmp", c.Tier)}
		checkB7(sub, pr)
		checkB10(sub, pr)
		c07errChannel(sub, p)
		c07waitZero(sub, pr.sr)
		for _, o := range sub.R.Obls {
			rule := "D5"
			if o.Rule == "E4" {
				rule = "D6"
			}
			if strings.Contains(o.Key, "#overrun-guard") {
				continue // a spurious overrun fault is C07's business (no error in normal mode), not a divider fault
			}
			c.R.Check(o.OK, rule, o.Key, o.Site, o.Detail, o.Detail)
		}
		checkD5bad(c, pr)
		if pr.v1 {
			checkErrForwarding(c, p, "D9")
		}
		checkD5b(c, pr)
	}
	checkD7D8(c)
	// D11 (= E9): reporting the fault never waits for a reader (Err() need not be watched): the
	// error channel has room for the one value written, otherwise the faulty discipline neither
	// terminates nor lets a consumer that reads Err() after the output closed ever see the fault
	// D13 (= B5): "still never exceeds HandlersQuantity" - in v1 the shares come from an unchecked
	// division (into a nil map), and the only thing that keeps a faulty one from being handed out is
	// the top-up's own test that what it wrote sums to the vacant handlers, made in every round
	r.Doc("D13", "(= C01 B5) the top-up answers true only if what it wrote sums to the vacant handlers (a faulty share division is not handed out)", 2)
	for _, p := range []*Prog{c.V1, c.V2} {
		if pr, err := resolvePrio(p); err == nil {
			sub := &Ctx{V1: c.V1, V2: c.V2, Tier: c.Tier, R: NewReport("tmp", c.Tier)}
			checkB5(sub, pr, false)
			for _, o := range sub.R.Obls {
				r.Check(o.OK, "D13", strings.TrimPrefix(o.Key, "B5@"), o.Site, o.Detail, o.Detail)
			}
		} else {
			r.Fail("D13", p.Name+":priority", "-", err.Error())
		}
	}
	// D12 (= U8): "v2 New itself returns ErrDividerBad for such a fault at creation": no other
	// refusal stands in front of the creation-time division for a configuration the division would
	// have judged (HandlersQuantity < len(Inputs) refused as "too small" hides a faulty divider)
	r.Doc("D12", "(= C18 U8) the v2 constructor refuses a configuration only for: no divider, HandlersQuantity == 0, no inputs, divider fault, zero share - a fault of the divider at creation is reported as ErrDividerBad", 4)
	checkCtorRejections(c, c.V2, "D12")
	r.Doc("D11", "(= E9) the error channel is made with capacity >= 1 and written at most once per goroutine", 3)
	errChannelNonBlocking(c, c.V1, "D11")
	errChannelNonBlocking(c, c.V2, "D11")
	checkErrorTests(c, c.V1, "D10", c.V1.errorFuncs("priority"))
	checkErrorTests(c, c.V2, "D10", c.V2.errorFuncs("priority", "priority/simple"))
}

func checkD5bad(c *Ctx, pr *prioRoles) {
	p := pr.p
	fn := pr.safeDivideFn
	ok := false
	for _, b := range fn.Blocks {
		ret, isRet := b.Instrs[len(b.Instrs)-1].(*ssa.Return)
		if !isRet {
			continue
		}
		s := p.Sym(ret.Results[0])
		if s.Op == "global" && strings.HasSuffix(s.Name, ".ErrDividerBad") {
			// under a mismatch edge
			for _, e := range DomEdges(b) {
				iff := e.From.Instrs[len(e.From.Instrs)-1].(*ssa.If)
				if cm := p.NormCmp(iff.Cond, e.Succ == 0); cm != nil && cm.Op == token.NEQ && strings.Contains(cm.String(), "dividend") {
					ok = true
				}
			}
		}
	}
	c.R.Check(ok, "D5", p.FnKey(fn)+"#ErrDividerBad", p.Pos(fn.Pos()), "mismatch => ErrDividerBad", "safeDivide does not return ErrDividerBad when the added total differs from the dividend")
}

// argOrigin describes the priorities argument of a divider call, following parameters to call sites.
func (p *Prog) listOrigins(fn *ssa.Function, v ssa.Value, depth int) []string {
	v = stripChangeType(v)
	if par, ok := v.(*ssa.Parameter); ok && depth < 4 {
		var out []string
		idx := paramIndex(fn, par)
		sites := p.CallSites(fn)
		for _, cs := range sites {
			out = append(out, p.listOrigins(cs.Parent(), cs.Common().Args[idx], depth+1)...)
		}
		if len(sites) == 0 {
			out = append(out, "param:"+par.Name())
		}
		return out
	}
	s := p.Sym(v)
	if _, path, ok := s.FieldPath(); ok {
		return []string{"field:" + path[len(path)-1]}
	}
	if s.Op == "phi" {
		return []string{"local:" + s.String() + "@" + p.FnKey(fn)}
	}
	return []string{"other:" + s.String()}
}

func checkD1(c *Ctx, pr *prioRoles) {
	p := pr.p
	n := 0
	for _, fn := range p.Funcs() {
		if rel, _ := p.Rel(fn); rel != "priority" {
			continue
		}
		if strings.Contains(p.FnKey(fn), "Config") || strings.Contains(p.FnKey(fn), "PickUp") || p.calledOnlyByQuantityHelpers(fn) {
			continue // handler-quantity helpers (and private functions only they use): C18
		}
		for _, b := range fn.Blocks {
			for _, in := range b.Instrs {
				call, ok := in.(*ssa.Call)
				if !ok || call.Call.IsInvoke() || p.Callee(call) != nil || !isDividerType(call.Call.Value.Type()) || len(call.Call.Args) != 3 {
					continue
				}
				n++
				key := fmt.Sprintf("%s#divider.%d", p.FnKey(fn), n)
				var problems []string
				// who may call the divider: the checking wrapper, and (v1) the functions that
				// compute the strategic shares into a new map
				allowed := fn == pr.safeDivideFn
				if pr.v1 && !allowed {
					for _, ref := range refConvReferrers(call) {
						if _, isSt := fieldStore(ref, "strategic"); isSt && isNilConst(call.Call.Args[2]) {
							allowed = true
						}
					}
				}
				if !allowed {
					problems = append(problems, "the divider is called directly, outside the checking wrapper: a result whose added total differs from the dividend is accepted silently (no ErrDividerBad)")
				}
				// D2: list origin
				for _, o := range p.listOrigins(fn, call.Call.Args[0], 0) {
					switch {
					case o == "field:priorities", o == "field:uncrowded", o == "field:useful":
					case strings.HasPrefix(o, "local:") && pr.p.Name == "v2":
						// v2 prepare: checked by D2 (sorted before the call)
						if !p.sortedBefore(call, fn, call.Call.Args[0]) {
							problems = append(problems, "priorities list "+o+" is not sorted before it is divided")
						}
					default:
						// through safeDivide's callers
						if strings.HasPrefix(o, "local:") {
							continue
						}
						problems = append(problems, "priorities argument comes from "+o+", not from the registered list or its filters")
					}
				}
				// D3: dividend
				for _, o := range p.dividendOrigins(pr, fn, call.Call.Args[1], 0) {
					if !o.ok {
						problems = append(problems, "dividend "+o.what+" is not HandlersQuantity, the vacant-handlers value or the measured remainder")
					}
				}
				// D4 (v2): distribution rooted in make
				if !pr.v1 {
					for _, o := range p.distOrigins(fn, call.Call.Args[2], 0) {
						if !o.ok {
							problems = append(problems, "distribution argument "+o.what+" may be nil / is not rooted in make(map)")
						}
					}
				}
				c.R.Check(len(problems) == 0, "D1", key, p.InstrPos(call), "list/dividend/distribution arguments classified", strings.Join(dedup(problems), "; "))
			}
		}
	}
}

type originVerdict struct {
	ok   bool
	what string
}

func (p *Prog) dividendOrigins(pr *prioRoles, fn *ssa.Function, v ssa.Value, depth int) []originVerdict {
	v = stripChangeType(v)
	if par, ok := v.(*ssa.Parameter); ok && depth < 4 {
		var out []originVerdict
		for _, cs := range p.CallSites(fn) {
			out = append(out, p.dividendOrigins(pr, cs.Parent(), cs.Common().Args[paramIndex(fn, par)], depth+1)...)
		}
		return out
	}
	s := deepStrip(p.Sym(v))
	if _, path, ok := s.FieldPath(); ok && strings.HasSuffix(strings.Join(path, "."), "HandlersQuantity") {
		return []originVerdict{{true, "HandlersQuantity"}}
	}
	if ex, ok := v.(*ssa.Extract); ok && ex.Index == 0 {
		v = ex.Tuple
	}
	if _, isVac := pr.vacantsValue(v); isVac {
		return []originVerdict{{true, "vacants"}}
	}
	if call, ok := v.(*ssa.Call); ok {
		switch p.Callee(call) {
		case pr.sumFn:
			if p.isFieldLoad(call.Call.Args[0], "tactic") {
				return []originVerdict{{true, "remainder"}}
			}
		}
	}
	return []originVerdict{{false, s.String()}}
}

func (p *Prog) distOrigins(fn *ssa.Function, v ssa.Value, depth int) []originVerdict {
	v = stripChangeType(v)
	if par, ok := v.(*ssa.Parameter); ok && depth < 4 {
		var out []originVerdict
		for _, cs := range p.CallSites(fn) {
			out = append(out, p.distOrigins(cs.Parent(), cs.Common().Args[paramIndex(fn, par)], depth+1)...)
		}
		return out
	}
	if _, ok := v.(*ssa.MakeMap); ok {
		return []originVerdict{{true, "make"}}
	}
	s := p.Sym(v)
	if _, path, ok := s.FieldPath(); ok {
		field := path[len(path)-1]
		// every store to that field stores a made map (or the result of a function returning one)
		okAll, n := true, 0
		ai := p.alias()
		for _, g := range p.Funcs() {
			for _, b := range g.Blocks {
				for _, in := range b.Instrs {
					st, isSt := fieldStore(in, field)
					if !isSt || !isUintMap(st.Val.Type()) {
						continue
					}
					n++
					for _, root := range ai.Roots(st.Val) {
						if _, isMake := root.V.(*ssa.MakeMap); !(root.Kind == "fresh" && isMake) {
							okAll = false
						}
					}
				}
			}
		}
		return []originVerdict{{okAll && n > 0, "field " + field}}
	}
	return []originVerdict{{false, s.String()}}
}

// sortedBefore: the slice value `list` was passed to the descending sort on every path to `at`,
// with no append to it afterwards.
func (p *Prog) sortedBefore(at ssa.Instruction, fn *ssa.Function, list ssa.Value) bool {
	if p.isFieldLoad(list, "priorities") || p.isFieldLoad(list, "uncrowded") || p.isFieldLoad(list, "useful") {
		return true // D2 field rules
	}
	for _, b := range fn.Blocks {
		for _, in := range b.Instrs {
			call, ok := in.(*ssa.Call)
			if !ok || !p.isDescendingSort(p.Callee(call)) {
				continue
			}
			if call.Call.Args[0] == list && instrDominates(call, at) {
				// ... and it is still sorted there: everything else that writes the elements of
				// this slice (the copy that fills it) happens before the sort
				still := true
				for _, w := range p.alias().contentWritesIn(fn) {
					if w.In == ssa.Instruction(call) || stripChangeType(w.Target) != stripChangeType(list) {
						continue
					}
					if instrReachableFrom(call, w.In) {
						still = false
					}
				}
				if still {
					return true
				}
			}
		}
	}
	// through a parameter: check the callers
	if par, ok := stripChangeType(list).(*ssa.Parameter); ok {
		sites := p.CallSites(fn)
		if len(sites) == 0 {
			return false
		}
		for _, cs := range sites {
			if !p.sortedBefore(cs, cs.Parent(), cs.Common().Args[paramIndex(fn, par)]) {
				return false
			}
		}
		return true
	}
	return false
}

func checkD2(c *Ctx, pr *prioRoles) {
	p := pr.p
	// filter fields
	for _, field := range []string{"uncrowded", "useful"} {
		n := 0
		for _, fn := range pr.rt.Funcs {
			for _, b := range fn.Blocks {
				for _, in := range b.Instrs {
					st, ok := fieldStore(in, field)
					if !ok {
						continue
					}
					n++
					key := fmt.Sprintf("%s#%s.%d", p.FnKey(fn), field, n)
					okForm := false
					what := p.Sym(st.Val).String()
					if sl, isSl := st.Val.(*ssa.Slice); isSl && p.isFieldLoad(sl.X, field) && sl.Low == nil {
						if k, isK := constDuration(sl.High); isK && k == 0 {
							okForm = true
							what = "truncate"
						}
					}
					if call, isCall := st.Val.(*ssa.Call); isCall {
						if bi, isB := call.Call.Value.(*ssa.Builtin); isB && bi.Name() == "append" && p.isFieldLoad(call.Call.Args[0], field) {
							if el, okv := varargsElem(call.Call.Args[1]); okv {
								if base, okr := rangeElem(p.Sym(el)); okr {
									if _, path, okp := base.FieldPath(); okp && path[len(path)-1] == "priorities" {
										okForm = true
										what = "append of the element visited in priorities"
									}
								}
							}
						}
					}
					if df := p.delegatedFilter(st, field); df != nil && df.sameField {
						if _, path, okp := df.source.FieldPath(); okp && path[len(path)-1] == "priorities" {
							okForm = true
							what = "filter of priorities delegated to " + shortFn(p, df.helper)
						}
					}
					c.R.Check(okForm, "D2", key, p.InstrPos(in), what, "field "+field+" is rebuilt by "+what+": not an order-preserving filter of the registered list, so the divider may see an unsorted or duplicated list")
				}
			}
		}
	}
	// every function that appends to a filter field truncates it first
	for _, field := range []string{"uncrowded", "useful"} {
		for _, fn := range pr.rt.Funcs {
			var trunc, app ssa.Instruction
			for _, b := range fn.Blocks {
				for _, in := range b.Instrs {
					st, ok := fieldStore(in, field)
					if !ok {
						continue
					}
					if _, isSl := st.Val.(*ssa.Slice); isSl {
						trunc = in
					} else if df := p.delegatedFilter(st, field); df != nil && df.sameField && df.truncated && len(InstrDomEdges(in)) == 0 {
						// the delegated filter starts from list[:0] itself
					} else {
						app = in
					}
				}
			}
			if app == nil {
				continue
			}
			// (emptied unconditionally: a rebuild that is skipped on some path leaves the list of an
			// earlier round in place)
			okT := trunc != nil && instrDominates(trunc, app) && !blockInLoop(trunc.Block()) && len(InstrDomEdges(trunc)) == 0
			c.R.Check(okT, "D2", p.FnKey(fn)+"#"+field+"-truncate", p.InstrPos(app), "list emptied before it is rebuilt", "the "+field+" list is appended to without being emptied first: entries of earlier rounds stay and the divider is given duplicates")
		}
	}
	// the sort helper
	var sortFn *ssa.Function
	for _, fn := range p.Funcs() {
		if p.isDescendingSort(fn) && strings.HasSuffix(p.FnKey(fn), "SortPriorities") {
			sortFn = fn
		}
	}
	if sortFn == nil {
		c.R.Fail("D2", p.Name+":sort", "-", "no helper sorting priorities from highest to lowest found (comparator must be x[j] < x[i])")
		return
	}
	c.R.Pass("D2", p.FnKey(sortFn), p.Pos(sortFn.Pos()), "descending comparator")
	// registered list: every function that appends to it (or calls one that does) sorts afterwards
	// before any divider call and before returning to the scheduler
	appenders := map[*ssa.Function]bool{}
	for _, fn := range p.Funcs() {
		if rel, _ := p.Rel(fn); rel != "priority" {
			continue
		}
		for _, b := range fn.Blocks {
			for _, in := range b.Instrs {
				if st, ok := fieldStore(in, "priorities"); ok {
					if call, isCall := st.Val.(*ssa.Call); isCall {
						if bi, isB := call.Call.Value.(*ssa.Builtin); isB && bi.Name() == "append" {
							appenders[fn] = true
							// extended from itself (append(dsc.uncrowded, k) would drop every registered
							// priority that is not in the other list: registered and never read again)
							if c.R.Property != "C15" {
								c.R.Check(p.isFieldLoad(call.Call.Args[0], "priorities"), "D2", p.FnKey(fn)+"#append-base", p.InstrPos(in), "the registered list is extended from itself", "the registered list is replaced by "+p.Sym(call.Call.Args[0]).String()+" plus the new key: the priorities that are not in that list are no longer visited although their inputs stay registered")
							}
							// duplicate-free: dominated by "key not registered"
							dupFree := false
							if el, okv := varargsElem(call.Call.Args[1]); okv {
								for _, e := range InstrDomEdges(in) {
									iff := e.From.Instrs[len(e.From.Instrs)-1].(*ssa.If)
									base, neg := condOf(iff.Cond)
									bs := p.SymX(base) // (the lookup may sit in an expression helper: isInputExists(p))
									if bs.Op == "extract" && bs.Name == "1" && bs.Args[0].Op == "index" {
										if _, path, okp := bs.Args[0].Args[0].FieldPath(); okp && path[len(path)-1] == "inputs" && bs.Args[0].Args[1].String() == p.Sym(el).String() {
											if (e.Succ == 0) == neg {
												dupFree = true
											}
										}
									}
								}
							}
							c.R.Check(dupFree, "D2", p.FnKey(fn)+"#append-unique", p.InstrPos(in), "appended only when the key is not registered", "a priority can be appended to the registered list although it is already registered: the divider sees duplicates")
						}
					}
				}
			}
		}
	}
	if pr.v1 && c.R.Property != "C15" { // (a list that misses a registered key is still a list of distinct configured priorities: not C15's business)
		// a key newly stored in the input table also joins the list the scheduler visits: the function
		// that stores the entry (from a parameter pair) appends the key, itself or through a callee
		for _, fn := range p.Funcs() {
			if rel, _ := p.Rel(fn); rel != "priority" {
				continue
			}
			for _, b := range fn.Blocks {
				for _, in := range b.Instrs {
					mu, ok := in.(*ssa.MapUpdate)
					if !ok || !isInputTableType(mu.Map.Type()) {
						continue
					}
					if _, isPar := stripChangeType(mu.Key).(*ssa.Parameter); !isPar {
						continue // rewriting an existing entry (marking it drained)
					}
					if v := p.Sym(mu.Value); v.Op == "struct" && len(v.Keys) > 0 && v.Keys[0] == "<base>" {
						continue
					}
					appends := appenders[fn]
					for g := range p.Reach(fn) {
						if appenders[g] {
							appends = true
						}
					}
					c.R.Check(appends, "D2", p.FnKey(fn)+"#registered-appended", p.InstrPos(mu), "a newly registered key is appended to the registered list", "the function stores an input under a new key but never appends the key to the list of priorities the scheduler visits: the input is registered and never read")
				}
			}
		}
	}
	if pr.v1 {
		// roots: functions called from the scheduler loop / constructor that (transitively) append
		for _, fn := range p.Funcs() {
			if rel, _ := p.Rel(fn); rel != "priority" || appenders[fn] {
				continue
			}
			callsAppender := false
			for _, cal := range calledIn(p, fn) {
				if appenders[cal] {
					callsAppender = true
				}
			}
			if !callsAppender {
				continue
			}
			var problems []string
			fl := &Flow{P: p, ContextInsensitive: true}
			fl.Call = func(fr *Frame, st string, call ssa.CallInstruction, deferred bool) (bool, []string) {
				cal := p.Callee(call)
				if cal != nil && appenders[cal] {
					return true, []string{"unsorted"}
				}
				if cal == sortFn && p.isFieldLoad(call.Common().Args[0], "priorities") {
					return true, []string{"sorted"}
				}
				if cal == nil && isDividerType(call.Common().Value.Type()) && st == "unsorted" {
					problems = append(problems, "divider called at "+p.InstrPos(call)+" with a list that was appended to and not re-sorted")
				}
				return false, nil
			}
			fl.Exit = func(fr *Frame, st string, ret *ssa.Return) []string {
				if fr.Parent == nil && st == "unsorted" {
					problems = append(problems, "returns at "+p.InstrPos(ret)+" leaving the registered list unsorted after an append")
				}
				return nil
			}
			fl.Run(fn, []string{"sorted"})
			c.R.Check(len(problems) == 0, "D2", p.FnKey(fn)+"#resort", p.Pos(fn.Pos()), "append -> sort before any division / return", strings.Join(dedup(problems), "; "))
		}
		// removal keeps order: in-place filter
		for _, fn := range p.Funcs() {
			if fn.Name() != "removePriority" {
				continue
			}
			okFilter := false
			for _, b := range fn.Blocks {
				for _, in := range b.Instrs {
					if st, ok := in.(*ssa.Store); ok {
						if ia, ok := st.Addr.(*ssa.IndexAddr); ok && ia.X == ssa.Value(fn.Params[0]) {
							if base, okr := rangeElem(p.Sym(st.Val)); okr && base.V == ssa.Value(fn.Params[0]) {
								// kept under "element != removed" ...
								keptIfOther := false
								for _, e := range InstrDomEdges(st) {
									if !blockInLoop(e.From) {
										continue
									}
									iff := e.From.Instrs[len(e.From.Instrs)-1].(*ssa.If)
									if cm := p.NormCmp(iff.Cond, e.Succ == 0); cm != nil && cm.Op == token.NEQ && cm.LC == 0 && cm.RC == 0 && len(fn.Params) > 1 {
										l, r := deepStrip(cm.L), deepStrip(cm.R)
										isEl := func(x *Sym) bool { b2, ok2 := rangeElem(x); return ok2 && b2.V == ssa.Value(fn.Params[0]) }
										if (isEl(l) && r.V == ssa.Value(fn.Params[1])) || (isEl(r) && l.V == ssa.Value(fn.Params[1])) {
											keptIfOther = true
										}
									}
								}
								// ... at a write position that counts the kept elements from 0 by 1, advanced
								// exactly on the path of the store ...
								counts := false
								if ph, isPhi := ia.Index.(*ssa.Phi); isPhi && isCountingPhiLoose(ph, st) {
									counts = true
									// ... and the result is the prefix of that length
									for _, b2 := range fn.Blocks {
										if ret, isRet := b2.Instrs[len(b2.Instrs)-1].(*ssa.Return); isRet && b2 != fn.Recover && len(ret.Results) == 1 {
											sl, isSl := ret.Results[0].(*ssa.Slice)
											if !isSl || sl.X != ssa.Value(fn.Params[0]) || sl.Low != nil || sl.High != ssa.Value(ph) {
												counts = false
											}
										}
									}
								}
								okFilter = keptIfOther && counts
							}
						}
					}
				}
			}
			c.R.Check(okFilter, "D2", p.FnKey(fn), p.Pos(fn.Pos()), "order-preserving in-place filter", "removal does not keep the order of the remaining priorities")
		}
	} else {
		// v2: the list stored in the struct is the one prepare sorted; elements are map keys (distinct)
		prep := p.prepareFn()
		ok := false
		why := "prepare not found"
		if prep != nil {
			why = "the list returned by prepare is not sorted before it is returned"
			for _, b := range prep.Blocks {
				ret, isRet := b.Instrs[len(b.Instrs)-1].(*ssa.Return)
				if !isRet || len(ret.Results) < 2 || isNilConst(ret.Results[1]) {
					continue
				}
				ok = p.sortedBefore(ret, prep, ret.Results[1])
				// elements: keys of the Inputs map
				if ph, isPhi := ret.Results[1].(*ssa.Phi); isPhi {
					for _, e := range ph.Edges {
						if call, isCall := e.(*ssa.Call); isCall {
							if el, okv := varargsElem(call.Call.Args[1]); okv {
								es := p.Sym(el)
								if !(es.Op == "extract" && es.Name == "1" && es.Args[0].Op == "next") {
									ok = false
									why = "list elements are not the keys of the Inputs map (distinctness not guaranteed)"
								}
							}
						}
					}
				}
			}
		}
		c.R.Check(ok, "D2", p.Name+":priority.prepare#list", "-", "keys of Opts.Inputs, sorted descending before use", why)
		// nobody else writes the field
		for _, fn := range pr.rt.Funcs {
			for _, b := range fn.Blocks {
				for _, in := range b.Instrs {
					if _, isSt := fieldStore(in, "priorities"); isSt {
						c.R.Fail("D2", p.FnKey(fn)+"#priorities-write", p.InstrPos(in), "the registered list is modified after construction")
					}
				}
			}
		}
	}
}

func checkD7D8(c *Ctx) {
	p := c.V2
	d := p.Disc("priority.Discipline")
	if d == nil || len(d.Ctors) == 0 {
		c.R.Fail("D7", "v2:priority.New", "-", "UNRESOLVED-ANCHOR: constructor not found")
		return
	}
	ctor := d.Ctors[0]
	var goStmt *ssa.Go
	for _, b := range ctor.Blocks {
		for _, in := range b.Instrs {
			if g, ok := in.(*ssa.Go); ok {
				goStmt = g
			}
		}
	}
	if goStmt == nil {
		c.R.Fail("D7", p.FnKey(ctor), p.Pos(ctor.Pos()), "UNRESOLVED-ANCHOR: no go statement in the constructor")
		return
	}
	n := 0
	for _, b := range ctor.Blocks {
		for _, in := range b.Instrs {
			call, ok := in.(*ssa.Call)
			if !ok {
				continue
			}
			cal := p.Callee(call)
			if cal == nil || !p.IsProduct(cal) {
				continue
			}
			res := cal.Signature.Results()
			if res.Len() == 0 || typeShort(res.At(res.Len()-1).Type()) != "error" {
				continue
			}
			n++
			var errV ssa.Value = call
			if res.Len() > 1 {
				errV = nil
				for _, ref := range *call.Referrers() {
					if ex, ok := ref.(*ssa.Extract); ok && ex.Index == res.Len()-1 {
						errV = ex
					}
				}
			}
			key := fmt.Sprintf("%s#err-of-%s", p.FnKey(ctor), cal.Name())
			var problems []string
			if errV == nil {
				problems = append(problems, "the error result is discarded")
			} else {
				okGuard := false
				for _, e := range InstrDomEdges(goStmt) {
					iff := e.From.Instrs[len(e.From.Instrs)-1].(*ssa.If)
					base, neg := condOf(iff.Cond)
					if bo, isB := base.(*ssa.BinOp); isB && bo.X == errV && isNilConst(bo.Y) {
						isErr := (bo.Op == token.NEQ) == ((e.Succ == 0) != neg)
						if !isErr {
							okGuard = true
							// the error edge must return (nil, err)
							errSucc := e.From.Succs[1-e.Succ]
							if ret, isRet := errSucc.Instrs[len(errSucc.Instrs)-1].(*ssa.Return); !isRet || !isNilConst(ret.Results[0]) || ret.Results[1] != errV {
								problems = append(problems, "on error the constructor does not return (nil, that error)")
							}
						}
					}
				}
				if !okGuard {
					problems = append(problems, "the go statement is reachable although "+cal.Name()+" reported an error")
				}
			}
			c.R.Check(len(problems) == 0, "D7", key, p.InstrPos(call), "error => return nil, err; go only when nil", strings.Join(problems, "; "))
		}
	}
	// D8 in prepare (or wherever the strategic division is validated)
	found := false
	for fn := range p.Reach(ctor) {
		for _, b := range fn.Blocks {
			for _, in := range b.Instrs {
				call, ok := in.(*ssa.Call)
				if !ok {
					continue
				}
				cal := p.Callee(call)
				over, faList, faDist, isForAll := p.forAllCall(call)
				if !isForAll {
					continue
				}
				if g := p.forwardsTo(fn); g != fn {
					continue // fn only forwards to the test: decided where fn is called
				}
				found = true
				key := p.FnKey(fn) + "#zero-share-test"
				var problems []string
				if over != "slice" {
					problems = append(problems, "the zero-share test ("+cal.Name()+") ranges over the entries of the distribution map: a priority for which the divider created no entry is not seen (e.g. Rate([24 23 22 21 8], 7))")
				} else {
					// args: (list that was divided, map that was filled)
					div := (*ssa.Call)(nil)
					for _, b2 := range fn.Blocks {
						for _, in2 := range b2.Instrs {
							if c2, ok := in2.(*ssa.Call); ok && isCheckedDivision(p.Callee(c2)) {
								div = c2
							}
						}
					}
					if div == nil || faList == nil || faDist == nil || div.Call.Args[1] != stripRefConv(faList) || stripRefConv(div.Call.Args[3]) != stripRefConv(faDist) {
						problems = append(problems, "the zero-share test is not applied to the list and distribution of the strategic division")
					}
				}
				// false => error return
				okRej := false
				for _, b2 := range fn.Blocks {
					ret, isRet := b2.Instrs[len(b2.Instrs)-1].(*ssa.Return)
					if !isRet || isNilConst(ret.Results[len(ret.Results)-1]) {
						continue
					}
					for _, e := range DomEdges(b2) {
						if p.edgeIsCallResult(e, func(f *ssa.Function) bool { return f == cal }, false) {
							okRej = true
						}
					}
				}
				if !okRej {
					problems = append(problems, "a failed zero-share test does not make the constructor fail")
				}
				c.R.Check(len(problems) == 0, "D8", key, p.InstrPos(call), "for-all over the divided list", strings.Join(problems, "; "))
				var bypass []string
				// no success return goes round the test (or round the creation-time division)
				for _, b2 := range fn.Blocks {
					ret, isRet := b2.Instrs[len(b2.Instrs)-1].(*ssa.Return)
					if !isRet || b2 == fn.Recover || len(ret.Results) == 0 || p.provablyError(ret.Results[len(ret.Results)-1], b2) {
						continue
					}
					tested := false
					for _, e := range DomEdges(b2) {
						if p.edgeIsCallResult(e, func(f *ssa.Function) bool { return f == cal }, true) {
							tested = true
						}
					}
					if !tested {
						bypass = append(bypass, "the return at "+p.InstrPos(ret)+" reports success without the zero-share test having passed (under: "+describeEdges(p, DomEdges(b2))+"): such configurations are accepted unchecked")
					}
				}
				c.R.Check(len(bypass) == 0, "D8", p.FnKey(fn)+"#zero-share-bypass", p.InstrPos(call), "every success return is dominated by the passed test", strings.Join(bypass, "; "))
			}
		}
	}
	if !found {
		c.R.Fail("D8", p.FnKey(ctor)+"#zero-share-test", p.Pos(ctor.Pos()), "the constructor does not reject configurations in which some priority's share is zero")
	}
	_ = types.Typ
}

// provablyError: v, returned from block b as the error result, is certainly non-nil: a sentinel,
// a freshly made error, or a value tested non-nil on the way.
func (p *Prog) provablyError(v ssa.Value, b *ssa.BasicBlock) bool {
	if _, isErr := v.Type().Underlying().(*types.Interface); !isErr {
		return false
	}
	switch x := v.(type) {
	case *ssa.Const:
		return false
	case *ssa.MakeInterface:
		return true
	case *ssa.UnOp:
		if _, isG := x.X.(*ssa.Global); isG && x.Op == token.MUL {
			return true
		}
	case *ssa.Call:
		if cal := p.Callee(x); cal != nil && !p.IsProduct(cal) {
			switch p.funcDisplay(cal) {
			case "errors.New", "fmt.Errorf", "errors.Join":
				return true
			}
		}
	}
	for _, e := range DomEdges(b) {
		iff := e.From.Instrs[len(e.From.Instrs)-1].(*ssa.If)
		base, neg := condOf(iff.Cond)
		if bo, isB := base.(*ssa.BinOp); isB && bo.X == v && isNilConst(bo.Y) {
			if (bo.Op == token.NEQ) == ((e.Succ == 0) != neg) {
				return true
			}
		}
	}
	return false
}

// checkD5b: the verdict of every checked division is tested, and a non-nil verdict is returned.
func checkD5b(c *Ctx, pr *prioRoles) {
	p := pr.p
	n := 0
	for _, cs := range p.CallSites(pr.safeDivideFn) {
		call, ok := cs.(*ssa.Call)
		if !ok {
			continue
		}
		n++
		fn := call.Parent()
		tested := false
		for _, ref := range *call.Referrers() {
			bo, isBo := ref.(*ssa.BinOp)
			if !isBo || !isNilConst(bo.Y) || (bo.Op != token.NEQ && bo.Op != token.EQL) {
				continue
			}
			for _, r2 := range *bo.Referrers() {
				iff, isIf := r2.(*ssa.If)
				if !isIf {
					continue
				}
				errSucc := 0
				if bo.Op == token.EQL {
					errSucc = 1
				}
				tb := iff.Block().Succs[errSucc]
				if ret, isRet := tb.Instrs[len(tb.Instrs)-1].(*ssa.Return); isRet && len(ret.Results) > 0 && returnedValues(ret)[len(ret.Results)-1] == ssa.Value(call) {
					tested = true
				}
			}
		}
		// or handed straight back: `return safeDivide(...)`
		for _, ref := range *call.Referrers() {
			if ret, isRet := ref.(*ssa.Return); isRet && ret.Results[len(ret.Results)-1] == ssa.Value(call) && ret.Block() == call.Block() {
				tested = true
			}
		}
		c.R.Check(tested, "D5", fmt.Sprintf("%s#verdict.%d", p.FnKey(fn), n), p.InstrPos(call), "non-nil verdict returned to the caller", "the verdict of this checked division is not (only) returned when it is non-nil: a divider fault here is swallowed or a correct division is treated as a fault")
	}
}

// isCheckedDivision: a product function (divider, list, dividend, distribution) error - the
// checked division helper, whatever it is called.
func isCheckedDivision(fn *ssa.Function) bool {
	if fn == nil || len(fn.Params) != 4 || !isDividerType(fn.Params[0].Type()) {
		return false
	}
	res := fn.Signature.Results()
	return res.Len() >= 1 && typeShort(res.At(res.Len()-1).Type()) == "error"
}

// prepareFn: the v2 priority function that turns the options into (inputs, sorted list,
// strategic distribution, error) for the constructor: the product callee of the constructor
// whose results are (map, []uint, map[uint]uint, error). Resolved by shape, not by name.
func (p *Prog) prepareFn() *ssa.Function {
	d := p.Disc("priority.Discipline")
	if d == nil {
		return nil
	}
	var found []*ssa.Function
	for _, ctor := range d.Ctors {
		for _, b := range ctor.Blocks {
			for _, in := range b.Instrs {
				call, ok := in.(*ssa.Call)
				if !ok {
					continue
				}
				cal := p.Callee(call)
				if cal == nil || !p.IsProduct(cal) {
					continue
				}
				res := cal.Signature.Results()
				if res.Len() != 4 || typeShort(res.At(3).Type()) != "error" {
					continue
				}
				if _, isSlice := res.At(1).Type().Underlying().(*types.Slice); !isSlice {
					continue
				}
				if _, isMap := res.At(2).Type().Underlying().(*types.Map); !isMap {
					continue
				}
				found = append(found, cal)
			}
		}
	}
	if len(found) == 1 {
		return found[0]
	}
	return nil
}

// isDescendingInterface: v is a slice converted to a private named slice type whose Less(i, j)
// reports x[j] < x[i] (and whose Swap exchanges the two elements, Len is the length).
func (p *Prog) isDescendingInterface(v ssa.Value) bool {
	if mi, ok := v.(*ssa.MakeInterface); ok {
		v = mi.X
	}
	nt, ok := v.Type().(*types.Named)
	if !ok {
		return false
	}
	for i := 0; i < nt.NumMethods(); i++ {
		m := nt.Method(i)
		if m.Name() != "Less" {
			continue
		}
		fn := p.SSA.FuncValue(m)
		if fn == nil || len(fn.Params) != 3 {
			return false
		}
		for _, s := range p.resultSyms(fn, 0) {
			if s.Op != "bin" {
				return false
			}
			idx := func(x *Sym) string {
				x = x.StripConv()
				if x.Op == "index" && x.Args[1].Op == "param" && x.Args[0].StripConv().Op == "param" {
					return x.Args[1].Name
				}
				return ""
			}
			pi, pj := fn.Params[1].Name(), fn.Params[2].Name()
			l, r := s.Args[0], s.Args[1]
			if (s.Name == "<" && idx(l) == pj && idx(r) == pi) || (s.Name == ">" && idx(l) == pi && idx(r) == pj) {
				return true
			}
			return false
		}
	}
	return false
}

// isCountingPhiLoose: ph starts at 0 and every other incoming value is ph itself (element skipped)
// or ph+1 computed after the store st (element kept).
func isCountingPhiLoose(ph *ssa.Phi, st *ssa.Store) bool {
	haveZero, haveInc := false, false
	for _, e := range ph.Edges {
		switch x := e.(type) {
		case *ssa.Const:
			if k, ok := constDuration(x); !ok || k != 0 {
				return false
			}
			haveZero = true
		case *ssa.Phi:
			if x != ph {
				// a merge of "kept" and "skipped" inside the body
				for _, e2 := range x.Edges {
					if e2 == ssa.Value(ph) {
						continue
					}
					bo, ok := e2.(*ssa.BinOp)
					if !ok || bo.Op != token.ADD || bo.X != ssa.Value(ph) {
						return false
					}
					if k, okk := constDuration(bo.Y); !okk || k != 1 || !(bo.Block() == st.Block() || st.Block().Dominates(bo.Block())) {
						return false
					}
					haveInc = true
				}
			}
		case *ssa.BinOp:
			if x.Op != token.ADD || x.X != ssa.Value(ph) {
				return false
			}
			if k, ok := constDuration(x.Y); !ok || k != 1 || !(x.Block() == st.Block() || st.Block().Dominates(x.Block())) {
				return false
			}
			haveInc = true
		default:
			return false
		}
	}
	return haveZero && haveInc
}

// forAllByContainsFunc: the same for-all spelled with the standard helper,
//
//	return !slices.ContainsFunc(list, func(k uint) bool { return distribution[k] == 0 })
//
// list and distribution being parameters of fn (the map captured by the literal).
func (p *Prog) forAllByContainsFunc(fn *ssa.Function) bool {
	var call *ssa.Call
	for _, b := range fn.Blocks {
		for _, in := range b.Instrs {
			switch x := in.(type) {
			case *ssa.Call:
				cal := p.Callee(x)
				if cal == nil {
					return false
				}
				name := p.funcDisplay(cal)
				if i := strings.Index(name, "["); i >= 0 {
					name = name[:i]
				}
				if name != "slices.ContainsFunc" || call != nil {
					return false
				}
				call = x
			case *ssa.Alloc, *ssa.Store, *ssa.MakeClosure, *ssa.UnOp, *ssa.Return, *ssa.ChangeType:
			default:
				return false
			}
		}
	}
	if call == nil || len(fn.Blocks) != 1 {
		return false
	}
	ret, isRet := fn.Blocks[0].Instrs[len(fn.Blocks[0].Instrs)-1].(*ssa.Return)
	if !isRet || len(ret.Results) != 1 {
		return false
	}
	if base, neg := condOf(ret.Results[0]); base != ssa.Value(call) || !neg {
		return false
	}
	// the list: a slice parameter (possibly spilled because the literal could capture it)
	paramOf := func(v ssa.Value) *ssa.Parameter {
		v = stripChangeType(v)
		if par, ok := v.(*ssa.Parameter); ok && par.Parent() == fn {
			return par
		}
		var al *ssa.Alloc
		if ld, ok := v.(*ssa.UnOp); ok && ld.Op == token.MUL {
			al, _ = ld.X.(*ssa.Alloc)
		} else {
			al, _ = v.(*ssa.Alloc)
		}
		if al == nil {
			return nil
		}
		var par *ssa.Parameter
		n := 0
		for _, ref := range *al.Referrers() {
			if st, ok := ref.(*ssa.Store); ok && st.Addr == ssa.Value(al) {
				n++
				par, _ = st.Val.(*ssa.Parameter)
			}
		}
		if n != 1 {
			return nil
		}
		return par
	}
	list := paramOf(call.Call.Args[0])
	if list == nil {
		return false
	}
	if _, isSlice := list.Type().Underlying().(*types.Slice); !isSlice {
		return false
	}
	mc, isMC := call.Call.Args[1].(*ssa.MakeClosure)
	if !isMC {
		return false
	}
	pred, _ := mc.Fn.(*ssa.Function)
	if pred == nil || len(pred.Params) != 1 || len(pred.Blocks) != 1 {
		return false
	}
	pret, isRet := pred.Blocks[0].Instrs[len(pred.Blocks[0].Instrs)-1].(*ssa.Return)
	if !isRet || len(pret.Results) != 1 {
		return false
	}
	var look *ssa.Lookup
	if bo, isBin := pret.Results[0].(*ssa.BinOp); isBin && bo.Op == token.EQL {
		lk, zero := bo.X, bo.Y
		if _, isL := lk.(*ssa.Lookup); !isL {
			lk, zero = zero, lk
		}
		l, isL := lk.(*ssa.Lookup)
		if zc, isC := zero.(*ssa.Const); isL && isC && constString(zc) == "0" {
			look = l
		}
	} else if cm := p.NormCmp(pret.Results[0], true); cm != nil && cm.Op == token.EQL && cm.LC == 0 && cm.RC == 0 {
		// the zero test named by an expression helper: return isEmpty(distribution[k])
		l, r := deepStrip(cm.L), deepStrip(cm.R)
		if r.String() != "0" {
			l, r = r, l
		}
		if r.String() == "0" && l.Op == "index" {
			look, _ = l.V.(*ssa.Lookup)
		}
	}
	if look == nil || look.CommaOk || look.Index != ssa.Value(pred.Params[0]) {
		return false
	}
	// the map looked up: a free variable bound to a map parameter of fn
	mv := look.X
	if ld, ok := mv.(*ssa.UnOp); ok && ld.Op == token.MUL {
		mv = ld.X
	}
	fv, isFV := mv.(*ssa.FreeVar)
	if !isFV {
		return false
	}
	for i, f := range pred.FreeVars {
		if f == fv && i < len(mc.Bindings) {
			if par := paramOf(mc.Bindings[i]); par != nil {
				_, isMap := par.Type().Underlying().(*types.Map)
				return isMap
			}
		}
	}
	return false
}

// instrReachableFrom: b can execute after a (later in the same block, or in a block reachable
// from a's block through its successors).
func instrReachableFrom(a, b ssa.Instruction) bool {
	if a.Block() == b.Block() {
		ia, ib := -1, -1
		for i, in := range a.Block().Instrs {
			if in == a {
				ia = i
			}
			if in == b {
				ib = i
			}
		}
		if ib > ia {
			return true
		}
	}
	seen := map[*ssa.BasicBlock]bool{}
	stack := append([]*ssa.BasicBlock{}, a.Block().Succs...)
	for len(stack) > 0 {
		x := stack[len(stack)-1]
		stack = stack[:len(stack)-1]
		if seen[x] {
			continue
		}
		seen[x] = true
		if x == b.Block() {
			return true
		}
		stack = append(stack, x.Succs...)
	}
	return false
}

// calledOnlyByQuantityHelpers: every chain of callers of fn (closures count as their parents) ends
// in an exported handler-quantity helper (IsNonFatalConfig, IsSuitableConfig, PickUp*), and no
// function on the way has a receiver: fn is a private part of those helpers, not of a discipline.
func (p *Prog) calledOnlyByQuantityHelpers(fn *ssa.Function) bool {
	seen := map[*ssa.Function]bool{}
	var up func(f *ssa.Function, depth int) bool
	up = func(f *ssa.Function, depth int) bool {
		if f == nil || depth > 8 {
			return false
		}
		if seen[f] {
			return true
		}
		seen[f] = true
		if f.Signature.Recv() != nil {
			return false
		}
		if par := f.Parent(); par != nil {
			return up(par, depth+1)
		}
		name := f.Name()
		if f.Object() != nil && f.Object().Exported() {
			return strings.Contains(name, "Config") || strings.Contains(name, "PickUp")
		}
		sites := p.CallSites(f)
		if len(sites) == 0 {
			return false
		}
		for _, cs := range sites {
			if !up(cs.Parent(), depth+1) {
				return false
			}
		}
		return true
	}
	return up(fn, 0)
}
