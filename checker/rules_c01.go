package main

import (
	"fmt"
	"go/token"
	"go/types"
	"sort"
	"strings"

	"golang.org/x/tools/go/ssa"
)

func init() {
	register(&Property{
		ID:          "C01",
		Run:         runC01,
		Explanation: "Capacity bound as a bookkeeping invariant: with the state confined to one goroutine (C20) it suffices that on every CFG path Σactual+Σtactic <= HandlersQuantity whenever the output can be written and that `actual` over-approximates the items in flight. B1 each successful output send is followed, in the sending function, by exactly one tactic[k]-=1 and one actual[k]+=1 with k the Priority tag of the value sent, and no bookkeeping change happens when the send did not succeed; B2 every call of the sending function is dominated by tactic[k] != 0 with no writer of tactic in between; B3 every writer of the tactic map is one of the classified forms; B4 vacants = HandlersQuantity - sum(actual); B5 the top-up writes strategic[p]-actual[p] only under actual[p] <= strategic[p] and answers true only if what it wrote sums to vacants; B7 safeDivide returns nil only for a total of 0 or when after-before equals the dividend, both sums taken by the same overflow-checked helper around the single divider call; B9 actual[k]-=1 happens exactly once per value received from the release channel; B10 typestate of the tactic map (Z all-zero, E established, T/D pending on the tested result, U unknown) over the whole scheduler with boolean-result pruning: the sending function is reachable only in Z or E, divisions are accepted only from Z with the vacants value or with a remainder measured while the map was Z/E and no send since (this subsumes B6 and B8); B11 (v1) delete(actual,k) only under actual[k]==0 and input k unregistered; B12 the simplified disciplines run Handle between receive and release.",
		NotDecided:  []string{"nothing of the bound itself; the arithmetic of a particular divider is irrelevant thanks to B7 (a custom divider that breaks the sum rule is C15's subject)"},
	})
}

func runC01(c *Ctx) {
	r := c.R
	r.Doc("B0", "role resolution by effect", 2)
	r.Doc("B1", "successful send: exactly one tactic[k]-=1 and one actual[k]+=1, k = Priority tag; none otherwise; no other increment of actual, and actual is never handed to a writer", 6)
	r.Doc("B2", "every call of the sending function is guarded by tactic[k] != 0, no tactic writer in between", 4)
	r.Doc("B3", "every writer of tactic is classified", 12)
	r.Doc("B4", "vacants = HandlersQuantity - sum(actual), sum = plain accumulation over the map", 2)
	r.Doc("B5", "top-up: assignment strategic-actual under actual <= strategic; true only if the written total equals vacants", 2)
	r.Doc("B7", "safeDivide: nil only for total 0 or after-before == dividend around the single divider call", 2)
	r.Doc("B9", "actual[k]-=1 exactly once per release received, k = the received value", 7)
	r.Doc("B10", "tactic typestate: the sending function is reached only with an established or all-zero allotment; divisions only from the reset state with a valid dividend", 2)
	r.Doc("B11", "v1: actual entries are deleted only when zero and unregistered; no other writer of actual", 1)
	r.Doc("B12", "simplified disciplines: Handle between receive and release (= X7)", 2)
	r.Doc("B14", "v1: AddInput/RemoveInput commands are received only outside the functions that use the round's allotment (a removal served inside a blocked send deletes tactic[k] under the decrement that follows)", 2)
	r.Doc("B13", "the configured HandlersQuantity is the capacity in force: it is only ever copied, never recomputed", 2)
	for _, p := range []*Prog{c.V1, c.V2} {
		pr, err := resolvePrio(p)
		if err != nil {
			r.Fail("B0", p.Name+":priority", "-", err.Error())
			continue
		}
		r.Pass("B0", pr.key, p.Pos(pr.sendFn.Pos()), pr.String())
		for _, fn := range pr.rt.Funcs {
			r.Funcs[p.FnKey(fn)] = true
		}
		checkB1(c, pr)
		checkB2(c, pr)
		checkB3(c, pr)
		checkB4(c, pr)
		checkB5(c, pr, false)
		checkB7(c, pr)
		checkB9(c, pr)
		checkB10(c, pr)
		checkCapacityUnmodified(c, p, "B13")
		if pr.v1 {
			checkB11(c, pr)
			checkCommandsBetweenRounds(c, pr, "B14")
		}
		c01handlers(c, p)
	}
}

func c01handlers(c *Ctx, p *Prog) {
	// reuse X7 under the name B12
	sub := &Ctx{V1: c.V1, V2: c.V2, Tier: c.Tier, R: NewReport("tmp", c.Tier)}
	c02handlers(sub, p)
	for _, o := range sub.R.Obls {
		key := strings.TrimPrefix(o.Key, "X7@")
		c.R.Check(o.OK, "B12", key, o.Site, o.Detail, o.Detail)
	}
	for f := range sub.R.Funcs {
		c.R.Funcs[f] = true
	}
}

func isOutRole(role string) bool { return role == "field:output" || role == "field:opts.Output" }

func checkB1(c *Ctx, pr *prioRoles) {
	p := pr.p
	fn := pr.sendFn
	var problems []string
	tagSym := func(fr *Frame, v ssa.Value) string {
		return symField(p.SymFrame(fr, v), "Priority").StripInst().String()
	}
	// state: "<sent 0|1|2>:<tactic decrements>:<actual increments>:<stopped 0|1>"; the order of the three
	// events inside the sending function does not matter, the totals at its return do
	bump := func(st string, which int) string {
		b := []byte(st)
		if b[which*2] < '2' {
			b[which*2]++
		}
		return string(b)
	}
	tagParam := pr.sendTag.StripInst().String()
	fl := &Flow{P: p}
	fl.Instr = func(fr *Frame, st string, in ssa.Instruction) []string {
		if s, ok := in.(*ssa.Send); ok && isOutRole(p.chanRole(s.Chan)) {
			if t := tagSym(fr, s.X); t != tagParam {
				problems = append(problems, "the value sent at "+p.InstrPos(in)+" is tagged "+t+", not the sending function's priority parameter")
			}
			return []string{bump(st, 0)}
		}
		w, ok := p.mapWriteOf(fr, in)
		if !ok || (w.Field != "tactic" && w.Field != "actual") {
			return nil
		}
		switch {
		case w.Field == "tactic" && w.Kind == "delta" && w.Delta == -1:
			if w.Key.String() != tagParam {
				problems = append(problems, fmt.Sprintf("tactic[%s] is decremented at %s but the item is sent with tag %s", w.Key, p.InstrPos(in), tagParam))
			}
			return []string{bump(st, 1)}
		case w.Field == "actual" && w.Kind == "delta" && w.Delta == 1:
			if w.Key.String() != tagParam {
				problems = append(problems, fmt.Sprintf("actual[%s] is incremented at %s but the item is sent with tag %s", w.Key, p.InstrPos(in), tagParam))
			}
			return []string{bump(st, 2)}
		default:
			problems = append(problems, fmt.Sprintf("unexpected update %s[%s] (%s %+d) at %s in the sending function", w.Field, w.Key, w.Kind, w.Delta, p.InstrPos(in)))
		}
		return nil
	}
	fl.Edge = func(fr *Frame, st string, from *ssa.BasicBlock, succ int) []string {
		if _, cs, _ := p.CaseOnEdge(from, succ); cs != nil && cs.State.Dir == 1 && isOutRole(p.chanRole(cs.State.Chan)) {
			if t := tagSym(fr, cs.State.Send); t != tagParam {
				problems = append(problems, "the value sent at "+p.InstrPos(from.Instrs[len(from.Instrs)-1])+" is tagged "+t+", not the sending function's priority parameter")
			}
			return []string{bump(st, 0)}
		}
		return nil
	}
	okPath := false
	fl.Exit = func(fr *Frame, st string, ret *ssa.Return) []string {
		if fr.Parent != nil {
			return nil
		}
		sent, dec, inc := st[0], st[2], st[4]
		switch sent {
		case '0':
			if dec != '0' || inc != '0' {
				problems = append(problems, fmt.Sprintf("the path returning at %s changes the bookkeeping (tactic-=%c, actual+=%c) although no output send succeeded on it", p.InstrPos(ret), dec, inc))
			}
		case '1':
			if dec != '1' {
				problems = append(problems, fmt.Sprintf("after a successful send the path returning at %s decrements tactic %c times (must be exactly once): the round's allowance is not consumed and more items than allotted are sent", p.InstrPos(ret), dec))
			}
			if inc != '1' {
				problems = append(problems, fmt.Sprintf("after a successful send the path returning at %s increments actual %c times (must be exactly once): in-flight items are miscounted", p.InstrPos(ret), inc))
			}
			if dec == '1' && inc == '1' {
				okPath = true
			}
		default:
			problems = append(problems, "more than one output send in one call of the sending function (path returning at "+p.InstrPos(ret)+")")
		}
		return nil
	}
	fl.Run(fn, []string{"0:0:0"})
	if !okPath && len(problems) == 0 {
		problems = append(problems, "no path with a successful send and complete bookkeeping found")
	}
	c.R.Check(len(problems) == 0, "B1", p.FnKey(fn), p.Pos(fn.Pos()), "send ok => tactic[k]-=1, actual[k]+=1 (k = tag); otherwise nothing", strings.Join(dedup(problems), "; "))
	// no other increment of actual anywhere in the package
	sendReach := p.Reach(fn)
	for _, g := range p.Funcs() {
		if rel, _ := p.Rel(g); rel != "priority" || !p.Live()[g] {
			continue
		}
		for _, b := range g.Blocks {
			for _, in := range b.Instrs {
				w, ok := p.mapWriteOf(nil, in)
				if !ok || w.Field != "actual" {
					continue
				}
				if w.Kind == "delta" && w.Delta == 1 {
					// the incrementing helper must be called only from the sending function
					okCallers := sendReach[g]
					if g != fn {
						for _, cs := range p.CallSites(g) {
							if !sendReach[cs.Parent()] {
								okCallers = false
							}
						}
					}
					c.R.Check(okCallers, "B1", p.FnKey(g)+"#actual+1", p.InstrPos(in), "actual is incremented only as part of a successful send", "actual is incremented outside the sending function")
				}
			}
		}
	}
	// ... and the in-flight counts are never handed to something that writes its argument (a
	// division made into them - safeDivide(..., dsc.actual) - adds handlers nobody occupies)
	ai := p.alias()
	k := 0
	for _, g := range p.Funcs() {
		if rel, _ := p.Rel(g); rel != "priority" || !p.Live()[g] {
			continue
		}
		for _, w := range ai.contentWritesIn(g) {
			if _, direct := w.In.(*ssa.MapUpdate); direct {
				continue // classified above and by B9 / B11
			}
			if call, ok := w.In.(*ssa.Call); ok {
				if bi, ok := call.Call.Value.(*ssa.Builtin); ok && (bi.Name() == "delete" || bi.Name() == "clear") && pr.v1 {
					continue // B11 (v1: entries of removed inputs; v2 has no removal: nothing is ever deleted)
				}
			}
			for _, root := range ai.Roots(w.Target) {
				if root.Kind == "fieldload" && strings.HasSuffix(root.Path, ".actual") {
					k++
					c.R.Fail("B1", fmt.Sprintf("%s#actual-content.%d", p.FnKey(g), k), p.InstrPos(w.In), "the in-flight counts are written by something other than the +1 of a send and the -1 of a release ("+w.How+"): they no longer count the items being processed, and vacants = HandlersQuantity - sum(actual) is wrong")
				}
			}
		}
	}
	if k == 0 {
		c.R.Pass("B1", pr.key+"#actual-content", "-", "the in-flight counts are never handed to a writer")
	}
}

func checkB2(c *Ctx, pr *prioRoles) {
	p := pr.p
	ord := map[string]int{}
	isTacticWriter := func(in ssa.Instruction) bool {
		if w, ok := p.mapWriteOf(nil, in); ok && w.Field == "tactic" {
			return true
		}
		if call, ok := in.(*ssa.Call); ok {
			if cal := p.Callee(call); cal != nil && p.IsProduct(cal) && p.mayWriteMapField(cal, "tactic") {
				return true
			}
		}
		return false
	}
	// guarded: the call cs (of the sending function, or of a helper that leads to it) is dominated by
	// a test tactic[key] != 0 with no write of tactic in between; keyV is the priority the item is
	// sent under, as a value of cs's function
	var guarded func(cs ssa.CallInstruction, keyV ssa.Value, depth int) (bool, string)
	guarded = func(cs ssa.CallInstruction, keyV ssa.Value, depth int) (bool, string) {
		argKey := p.Sym(keyV).StripInst().String()
		why := "no dominating test tactic[" + argKey + "] != 0"
		for _, e := range InstrDomEdges(cs) {
			iff := e.From.Instrs[len(e.From.Instrs)-1].(*ssa.If)
			cm := p.NormCmp(iff.Cond, e.Succ == 0)
			if cm == nil {
				continue
			}
			// 0 < tactic[k]   (from != 0 on unsigned, or > 0)
			r := deepStrip(cm.R)
			if !(cm.Op == token.LSS && cm.L.String() == "0" && cm.LC == 0 && cm.RC == 0 && r.Op == "index") {
				continue
			}
			if _, path, okp := r.Args[0].FieldPath(); !okp || path[len(path)-1] != "tactic" {
				continue
			}
			if r.Args[1].StripInst().String() != argKey {
				why = fmt.Sprintf("guard tests tactic[%s] but the item is sent under %s", r.Args[1], argKey)
				continue
			}
			if bad := p.writersBetween(e, cs, isTacticWriter); bad != "" {
				why = "tactic may be written at " + bad + " between the guard and the send"
				continue
			}
			return true, ""
		}
		// the send sits in a private helper (forward(item, opened, priority)): every call of the
		// helper is guarded, the key being the helper's parameter, and the helper does not write the
		// allotment before it sends
		fn := cs.Parent()
		par, isPar := stripChangeType(keyV).(*ssa.Parameter)
		obj, _ := fn.Object().(*types.Func)
		if !isPar || depth > 2 || obj == nil || obj.Exported() {
			return false, why
		}
		for _, b := range fn.Blocks {
			for _, in := range b.Instrs {
				if in == ssa.Instruction(cs) {
					break
				}
				if isTacticWriter(in) && reaches(b, cs.Block()) {
					return false, "tactic may be written at " + p.InstrPos(in) + " before the send"
				}
			}
		}
		sites := p.CallSites(p.Norm(fn))
		if len(sites) == 0 {
			return false, why
		}
		idx := paramIndex(fn, par)
		for _, up := range sites {
			if _, isGo := up.(*ssa.Go); isGo || idx < 0 || idx >= len(up.Common().Args) {
				return false, why
			}
			if okUp, whyUp := guarded(up, up.Common().Args[idx], depth+1); !okUp {
				return false, whyUp + " (call at " + p.InstrPos(up) + ")"
			}
		}
		return true, ""
	}
	for _, cs := range p.CallSites(pr.sendFn) {
		fn := cs.Parent()
		fk := p.FnKey(fn)
		ord[fk]++
		key := fmt.Sprintf("%s#send.%d", fk, ord[fk])
		keyV := pr.sendKeyAt(cs)
		if keyV == nil {
			c.R.Fail("B2", key, p.InstrPos(cs), "UNDECIDED: cannot tell under which priority this call sends")
			continue
		}
		argKey := p.Sym(keyV).StripInst().String()
		ok, why := guarded(cs, keyV, 0)
		c.R.Check(ok, "B2", key, p.InstrPos(cs), "guarded by tactic["+argKey+"] != 0", "an item can be written to the output without allowance: "+why)
	}
}

func checkB3(c *Ctx, pr *prioRoles) {
	p := pr.p
	ai := p.alias()
	n := 0
	for _, fn := range p.Funcs() {
		if rel, _ := p.Rel(fn); rel != "priority" || !p.Live()[fn] {
			continue
		}
		for _, w := range ai.contentWritesIn(fn) {
			isTactic := false
			for _, root := range ai.Roots(w.Target) {
				if root.Kind == "fieldload" && strings.HasSuffix(root.Path, ".tactic") {
					isTactic = true
				}
			}
			if !isTactic {
				continue
			}
			n++
			key := fmt.Sprintf("%s#tactic-writer.%d", p.FnKey(fn), n)
			class := ""
			if mw, ok := p.mapWriteOf(nil, w.In); ok {
				switch {
				case mw.Kind == "zero" && fn == pr.resetFn:
					class = "reset loop"
				case mw.Kind == "delta" && mw.Delta == -1 && p.Reach(pr.sendFn)[fn]:
					class = "decrement after a successful send (B1)"
				case mw.Kind == "assign" && fn == pr.topUpFn:
					class = "top-up assignment (B5)"
				}
			} else if call, ok := w.In.(ssa.CallInstruction); ok {
				cal := p.Callee(call)
				switch {
				case cal == pr.safeDivideFn && len(call.Common().Args) == 4 && p.isFieldLoad(call.Common().Args[3], "tactic"):
					class = "distribution argument of safeDivide (B7, B10)"
				case cal == pr.resetFn || (cal != nil && p.Reach(cal)[pr.resetFn] && cal == pr.topUpFn):
					class = "via " + cal.Name()
				case cal != nil && p.IsProduct(cal):
					class = "call of " + cal.Name() + " (its own writes are classified separately)"
				default:
					if bi, ok := call.Common().Value.(*ssa.Builtin); ok && bi.Name() == "delete" && pr.v1 {
						// v1: allowed in the input-removal path only
						onlyFromRemoval := true
						for _, cs := range p.CallSites(fn) {
							okSite := false
							for _, e := range InstrDomEdges(cs) {
								if _, sc, _ := p.CaseOnEdge(e.From, e.Succ); sc != nil && p.chanRole(sc.State.Chan) == "field:inputRmvs" {
									okSite = true
								}
							}
							if !okSite {
								onlyFromRemoval = false
							}
						}
						if onlyFromRemoval && len(p.CallSites(fn)) > 0 {
							class = "delete on input removal (lowers the sum)"
						}
					}
				}
			}
			c.R.Check(class != "", "B3", key, p.InstrPos(w.In), class, "UNDECIDED: unclassified writer of the tactic map ("+w.How+"): the allotment may exceed the vacant handlers")
		}
	}
}

func checkB4(c *Ctx, pr *prioRoles) {
	p := pr.p
	var problems []string
	if !p.isPlainSum(pr.sumFn) {
		problems = append(problems, "the helper "+pr.sumFn.Name()+" is not a plain accumulation over the map it is given")
	}
	if len(pr.vacantsExprs) == 0 {
		problems = append(problems, "no HandlersQuantity - sum(actual) computation found")
	}
	// whoever returns a value built from the subtraction returns exactly the subtraction
	for _, e := range pr.vacantsExprs {
		fn := e.Parent()
		for _, s := range p.resultSyms(fn, 0) {
			if stripChangeType(s.V) == ssa.Value(e) {
				continue
			}
			var arith func(x *Sym) bool
			arith = func(x *Sym) bool {
				if x == nil {
					return false
				}
				if x.V == ssa.Value(e) {
					return true
				}
				if x.Op == "bin" || x.Op == "conv" || x.Op == "un" {
					for _, a := range x.Args {
						if arith(a) {
							return true
						}
					}
				}
				return false
			}
			if arith(s) {
				problems = append(problems, "vacants is computed as "+deepStrip(s).String()+", not HandlersQuantity - sum(actual)")
			}
		}
	}
	if !pr.vacantsInline {
		// the helper returns nothing else
		for _, s := range p.resultSyms(pr.vacantsFn, 0) {
			if k, ok := symConstInt(s); ok && k == 0 {
				continue // v1 error path
			}
			if _, isVac := pr.vacantsValue(s.V); !isVac {
				problems = append(problems, "vacants is computed as "+deepStrip(s).String()+", not HandlersQuantity - sum(actual)")
			}
		}
	}
	c.R.Check(len(problems) == 0, "B4", p.FnKey(pr.vacantsFn), p.Pos(pr.vacantsFn.Pos()), "HandlersQuantity - sum(actual)", strings.Join(problems, "; "))
}

// checkB5: strict=false (C01) accepts any result form implying written total <= vacants;
// strict=true (C05) requires equality and the strict rejection test.
func checkB5(c *Ctx, pr *prioRoles, strict bool) {
	p := pr.p
	fn := pr.topUpFn
	rule := "B5"
	if strict {
		rule = "P1"
	}
	var problems []string
	var assign *ssa.MapUpdate
	for _, b := range fn.Blocks {
		for _, in := range b.Instrs {
			if w, ok := p.mapWriteOf(nil, in); ok && w.Field == "tactic" && w.Kind == "assign" {
				if assign != nil {
					problems = append(problems, "UNDECIDED: more than one assignment to tactic")
				}
				assign = in.(*ssa.MapUpdate)
			}
		}
	}
	if assign == nil {
		c.R.Fail(rule, p.FnKey(fn), p.Pos(fn.Pos()), "UNRESOLVED-ANCHOR: no assignment to tactic in the top-up function")
		return
	}
	w, _ := p.mapWriteOf(nil, assign)
	k := w.Key.String()
	val := deepStrip(w.Val)
	isIdx := func(s *Sym, field string) bool {
		if s.Op != "index" || s.Args[1].StripInst().String() != k {
			return false
		}
		_, path, ok := s.Args[0].FieldPath()
		return ok && path[len(path)-1] == field
	}
	if !(val.Op == "bin" && val.Name == "-" && isIdx(val.Args[0], "strategic") && isIdx(val.Args[1], "actual")) {
		problems = append(problems, fmt.Sprintf("top-up assigns %s to tactic[%s], not strategic[%s] - actual[%s]", val, k, k, k))
	}
	// every registered priority is topped up: the key visits the registered list (a filtered list of
	// an earlier round leaves the others with the allotment the reset gave them: none)
	if !strict {
		// (capacity does not depend on it: fewer priorities topped up is a smaller allotment)
	} else if base, okr := rangeElem(w.Key); !okr {
		problems = append(problems, "the top-up key "+k+" is not the element of a list being visited")
	} else {
		bs := p.upParam(base, 0)
		if _, path, okp := bs.FieldPath(); !okp || path[len(path)-1] != "priorities" {
			problems = append(problems, "the top-up visits "+bs.String()+", not the list of registered priorities: a priority outside that list gets no first-phase allotment although it is below its share")
		}
	}
	// guard: actual[k] <= strategic[k]
	guarded := false
	rejectsOnlyWhenAbove := true
	for _, e := range InstrDomEdges(assign) {
		iff := e.From.Instrs[len(e.From.Instrs)-1].(*ssa.If)
		cm := p.NormCmp(iff.Cond, e.Succ == 0)
		if cm == nil {
			continue
		}
		l, r := deepStrip(cm.L), deepStrip(cm.R)
		if isIdx(l, "actual") && isIdx(r, "strategic") && cm.LC == 0 && cm.RC == 0 {
			switch cm.Op {
			case token.LEQ:
				guarded = true
			case token.LSS:
				guarded = true
				rejectsOnlyWhenAbove = false // rejects also at ==
			}
		}
	}
	if !guarded {
		problems = append(problems, "the subtraction strategic - actual is not protected by actual <= strategic (unsigned underflow yields a huge allotment)")
	}
	if strict {
		for _, e := range InstrDomEdges(assign) {
			if !blockInLoop(e.From) {
				continue
			}
			iff := e.From.Instrs[len(e.From.Instrs)-1].(*ssa.If)
			cm := p.NormCmp(iff.Cond, e.Succ == 0)
			if cm != nil {
				l, r := deepStrip(cm.L), deepStrip(cm.R)
				if (isIdx(l, "actual") && isIdx(r, "strategic")) || isRangeHeaderCmp(cm) {
					continue
				}
			}
			problems = append(problems, "the top-up skips priorities under "+p.condSymOnEdge(e)+": the first-phase allotment is then not the validated strategic distribution")
		}
	}
	if strict && !rejectsOnlyWhenAbove {
		problems = append(problems, "the top-up is rejected already when actual == strategic: a priority sitting exactly on its share is sent down the base path, which can push another priority above its share")
	}
	// (strict) the top-up is refused only because some priority sits above its share: any other
	// refusal - "fewer vacant handlers than priorities" - sends a round that the top-up would have
	// served exactly down the base path, which divides without regard to who is missing how many
	if strict {
		for _, b := range fn.Blocks {
			ret, isRet := b.Instrs[len(b.Instrs)-1].(*ssa.Return)
			if !isRet || b.Comment == "recover" || len(ret.Results) == 0 {
				continue
			}
			cv, isC := ret.Results[0].(*ssa.Const)
			if !isC || constString(cv) != "false" {
				continue
			}
			above := false
			for _, e := range DomEdges(b) {
				iff := e.From.Instrs[len(e.From.Instrs)-1].(*ssa.If)
				cm := p.NormCmp(iff.Cond, e.Succ == 0)
				if cm == nil || cm.LC != 0 || cm.RC != 0 {
					continue
				}
				l, r := deepStrip(cm.L), deepStrip(cm.R)
				// strategic[k] < actual[k]  (or <=, which the strictness check above reports)
				if (cm.Op == token.LSS || cm.Op == token.LEQ) && isIdx(l, "strategic") && isIdx(r, "actual") {
					above = true
				}
			}
			if !above {
				problems = append(problems, "the top-up is refused at "+p.InstrPos(ret)+" for a reason other than a priority above its share: such rounds go down the base path, which can lift a priority above its share")
			}
		}
	}
	// results
	staleSum := false
	for _, s := range p.resultSyms(fn, 0) {
		if s.Op == "const" {
			if s.Name == "true" {
				problems = append(problems, "top-up answers true unconditionally on some path")
			}
			continue
		}
		bo, ok := s.V.(*ssa.BinOp)
		if !ok {
			problems = append(problems, "UNDECIDED: top-up result "+s.String())
			continue
		}
		cm := p.NormCmp(bo, true)
		var vac *ssa.Parameter
		for _, par := range fn.Params[1:] {
			vac = par
		}
		okRes := false
		if cm != nil && vac != nil {
			sumSide := func(x *Sym) bool {
				ph, ok := deepStrip(x).V.(*ssa.Phi)
				if !ok {
					return false
				}
				for i, e := range ph.Edges {
					if kk, isK := constDuration(e); isK && kk == 0 {
						continue
					}
					es := deepStrip(p.Sym(e))
					_ = i
					if !(es.Op == "bin" && es.Name == "+" && es.Args[0].V == ssa.Value(ph)) {
						return false
					}
					add := es.Args[1]
					// what was just written: tactic[k] read back, or the same difference
					if !(isIdx(add, "tactic") || add.String() == val.String()) {
						return false
					}
					// read back after it was written (picked += tactic[k] in front of the
					// assignment sums the emptied map: the top-up is then never accepted and
					// every round goes down the base path, which can lift a priority above its
					// share); capacity does not depend on it
					if strict && isIdx(add, "tactic") && add.String() != val.String() {
						if lk, isIn := add.V.(ssa.Instruction); !isIn || !instrDominates(assign, lk) {
							staleSum = true
							return false
						}
					}
				}
				return true
			}
			isVac := func(x *Sym) bool { return deepStrip(x).V == ssa.Value(vac) }
			switch cm.Op {
			case token.EQL:
				okRes = (sumSide(cm.L) && isVac(cm.R) || sumSide(cm.R) && isVac(cm.L)) && cm.LC == 0 && cm.RC == 0
			case token.LEQ, token.LSS:
				// written total <= vacants is enough for the bound
				okRes = !strict && sumSide(cm.L) && isVac(cm.R) && cm.RC-cm.LC <= 0
			}
		}
		if staleSum {
			problems = append(problems, "the total compared with vacants reads tactic[k] back before the top-up wrote it (it sums the emptied map): the top-up is never accepted")
		}
		if !okRes {
			want := "the written total == vacants"
			problems = append(problems, "top-up answers "+s.String()+", which does not establish "+want)
		}
	}
	c.R.Check(len(problems) == 0, rule, p.FnKey(fn), p.Pos(fn.Pos()), "tactic[p] = strategic[p]-actual[p] under actual<=strategic; true iff total == vacants", strings.Join(dedup(problems), "; "))
}

func checkB7(c *Ctx, pr *prioRoles) {
	p := pr.p
	fn := pr.safeDivideFn
	var problems []string
	var div *ssa.Call
	for _, b := range fn.Blocks {
		for _, in := range b.Instrs {
			if call, ok := in.(*ssa.Call); ok && !call.Call.IsInvoke() && p.Callee(call) == nil {
				if _, isB := call.Call.Value.(*ssa.Builtin); isB {
					continue
				}
				if div != nil {
					problems = append(problems, "more than one dynamic call in safeDivide")
				}
				div = call
			}
		}
	}
	if div == nil || len(fn.Params) != 4 {
		c.R.Fail("B7", p.FnKey(fn), p.Pos(fn.Pos()), "UNRESOLVED-ANCHOR: safeDivide shape (4 parameters, one divider call) not recognised")
		return
	}
	dividend, dist := fn.Params[2], fn.Params[3]
	if len(div.Call.Args) != 3 || div.Call.Args[1] != ssa.Value(dividend) || div.Call.Args[2] != ssa.Value(dist) || div.Call.Args[0] != ssa.Value(fn.Params[1]) {
		problems = append(problems, "the divider is not called with (priorities, dividend, distribution) as given")
	}
	// before / after sums
	var before, after *ssa.Call
	for _, b := range fn.Blocks {
		for _, in := range b.Instrs {
			call, ok := in.(*ssa.Call)
			if !ok || call == div {
				continue
			}
			cal := p.Callee(call)
			if cal == nil || !p.IsProduct(cal) || len(call.Call.Args) != 1 {
				continue
			}
			arg := call.Call.Args[0]
			isDist := arg == ssa.Value(dist) || arg == ssa.Value(div)
			if !isDist {
				continue
			}
			if instrDominates(call, div) {
				before = call
			} else if instrDominates(div, call) {
				after = call
			}
		}
	}
	if before == nil || after == nil {
		problems = append(problems, "the total of the distribution is not taken both before and after the divider call")
	} else {
		// a divider that returns its distribution (v1) is judged by what it returned: the total
		// after the call is taken of the call's result, not of the map handed in (a divider may
		// build and return another map)
		if div.Call.Signature().Results().Len() == 1 {
			if arg := stripChangeType(after.Call.Args[0]); arg != ssa.Value(div) {
				problems = append(problems, "the total after the division is taken of the map handed to the divider, not of the map the divider returned: a faulty division returned in a new map is not noticed")
			}
		}
		if p.Callee(before) != p.Callee(after) {
			problems = append(problems, "different helpers sum the distribution before and after")
		}
		if !p.isPlainSum(p.Callee(before)) {
			problems = append(problems, p.Callee(before).Name()+" is not an (overflow-checked) accumulation over the map")
		}
		isEx := func(s *Sym, call *ssa.Call) bool {
			s = deepStrip(s)
			return s.Op == "extract" && s.Name == "0" && s.Args[0].V == ssa.Value(call)
		}
		for _, b := range fn.Blocks {
			ret, ok := b.Instrs[len(b.Instrs)-1].(*ssa.Return)
			if !ok || b.Comment == "recover" || !isNilConst(ret.Results[0]) {
				continue
			}
			diff := func(x *Sym) bool {
				return x.Op == "bin" && x.Name == "-" && isEx(x.Args[0], after) && isEx(x.Args[1], before)
			}
			okRet := AllPathsPass(b, func(e CondEdge) bool {
				iff := e.From.Instrs[len(e.From.Instrs)-1].(*ssa.If)
				cm := p.NormCmp(iff.Cond, e.Succ == 0)
				if cm == nil || cm.LC != 0 || cm.RC != 0 {
					return false
				}
				l, r := deepStrip(cm.L), deepStrip(cm.R)
				if cm.Op == token.EQL && ((isEx(l, after) && r.String() == "0") || (isEx(r, after) && l.String() == "0")) {
					return true // nothing allotted at all
				}
				if cm.Op == token.LEQ && isEx(l, after) && r.String() == "0" {
					return true
				}
				if cm.Op == token.EQL && ((diff(l) && r.V == ssa.Value(dividend)) || (diff(r) && l.V == ssa.Value(dividend))) {
					return true
				}
				// after == before + dividend (the same test, also under unsigned wrap-around)
				sum := func(x *Sym) bool {
					if x.Op != "bin" || x.Name != "+" {
						return false
					}
					return (isEx(x.Args[0], before) && x.Args[1].V == ssa.Value(dividend)) || (isEx(x.Args[1], before) && x.Args[0].V == ssa.Value(dividend))
				}
				if cm.Op == token.EQL && ((isEx(l, after) && sum(r)) || (isEx(r, after) && sum(l))) {
					return true
				}
				return false
			})
			if !okRet {
				problems = append(problems, "safeDivide returns nil at "+p.InstrPos(ret)+" under "+describeEdges(p, DomEdges(b))+": neither total == 0 nor after-before == dividend, so a divider result that allots more than the dividend is accepted")
			}
		}
	}
	c.R.Check(len(problems) == 0, "B7", p.FnKey(fn), p.Pos(fn.Pos()), "nil only for total 0 or after-before == dividend", strings.Join(dedup(problems), "; "))
}

func checkB9(c *Ctx, pr *prioRoles) {
	p := pr.p
	// every decrement of actual consumes a value just received from the release channel, exactly
	// once per received value - wherever the statement sits (a helper or the receiving clause itself)
	isDec := func(fr *Frame, in ssa.Instruction) (ssa.Value, bool) {
		mu, ok := in.(*ssa.MapUpdate)
		if !ok {
			return nil, false
		}
		if w, ok := p.mapWriteOf(fr, in); ok && w.Field == "actual" && w.Kind == "delta" && w.Delta == -1 {
			return mu.Key, true
		}
		return nil, false
	}
	covered := map[ssa.Instruction]bool{}
	roots := 0
	for _, fn := range pr.rt.Funcs {
		has := false
		for _, rs := range p.RecvSites(fn) {
			if pr.isReleaseRecv(rs) {
				has = true
			}
		}
		if !has {
			continue
		}
		roots++
		cfg := &ItemFlowConfig{
			P:        p,
			IsSource: func(rs *RecvSite) bool { return pr.isReleaseRecv(rs) },
			SinkInstr: func(fr *Frame, in ssa.Instruction) (bool, ssa.Value) {
				if k, ok := isDec(fr, in); ok {
					covered[in] = true
					return true, k
				}
				return false, nil
			},
			StopEdge:        func(fr *Frame, from *ssa.BasicBlock, succ int) bool { return p.stopEdge(from, succ) },
			AllowDropAtExit: false,
		}
		res := RunItemFlow(cfg, fn)
		c.R.Check(len(res.Problems) == 0, "B9", p.FnKey(fn), p.Pos(fn.Pos()), fmt.Sprintf("%d release receive(s), each followed by exactly one actual[received]-=1", res.Sources), strings.Join(res.Problems, "; "))
	}
	if roots == 0 {
		c.R.Fail("B9", pr.key, "-", "UNRESOLVED-ANCHOR: no receive from the release channel in the scheduler")
	}
	// every other write to actual (anything but +1 at the send) is a failure
	for _, g := range p.Funcs() {
		if rel, _ := p.Rel(g); rel != "priority" || !p.Live()[g] {
			continue
		}
		for _, b := range g.Blocks {
			for _, in := range b.Instrs {
				w, ok := p.mapWriteOf(nil, in)
				if !ok || w.Field != "actual" || (w.Kind == "delta" && w.Delta == 1) {
					continue
				}
				if w.Kind == "delta" && w.Delta == -1 {
					c.R.Check(covered[in], "B9", p.FnKey(g)+"#dec", p.InstrPos(in), "fed by a release receive", "actual is decremented at a site that is not fed by a value received from the release channel: capacity in use is freed")
					continue
				}
				c.R.Fail("B9", p.FnKey(g)+"#actual-write", p.InstrPos(in), fmt.Sprintf("actual[%s] is written (%s %+d) outside the release path: capacity that is still in use is freed", w.Key, w.Kind, w.Delta))
			}
		}
	}
}

func checkB11(c *Ctx, pr *prioRoles) {
	p := pr.p
	n := 0
	for _, g := range p.Funcs() {
		if rel, _ := p.Rel(g); rel != "priority" {
			continue
		}
		for _, b := range g.Blocks {
			for _, in := range b.Instrs {
				call, ok := in.(*ssa.Call)
				if !ok {
					continue
				}
				bi, ok := call.Call.Value.(*ssa.Builtin)
				if !ok || (bi.Name() != "delete" && bi.Name() != "clear") || !p.isFieldLoad(call.Call.Args[0], "actual") {
					continue
				}
				n++
				key := fmt.Sprintf("%s#delete.%d", p.FnKey(g), n)
				if bi.Name() == "clear" {
					c.R.Fail("B11", key, p.InstrPos(in), "actual is cleared wholesale: in-flight items are forgotten")
					continue
				}
				k := p.Sym(call.Call.Args[1])
				zero, unreg := false, false
				for _, e := range InstrDomEdges(call) {
					iff := e.From.Instrs[len(e.From.Instrs)-1].(*ssa.If)
					if cm := p.NormCmp(iff.Cond, e.Succ == 0); cm != nil && cm.Op == token.EQL && cm.LC == 0 && cm.RC == 0 {
						l, r := deepStrip(cm.L), deepStrip(cm.R)
						// value of the same range element == 0
						sameElem := func(x *Sym) bool {
							if !(x.Op == "extract" && x.Name == "2" && k.Op == "extract" && k.Name == "1" && x.Args[0].String() == k.Args[0].String()) {
								return false
							}
							// ... of a range over the counters themselves (the value tested is actual[k])
							nx := x.Args[0]
							if nx.Op == "next" && len(nx.Args) == 1 && nx.Args[0].Op == "range" && len(nx.Args[0].Args) == 1 {
								_, path, okp := nx.Args[0].Args[0].FieldPath()
								return okp && path[len(path)-1] == "actual"
							}
							return false
						}
						if (sameElem(l) && r.String() == "0") || (sameElem(r) && l.String() == "0") {
							zero = true
						}
					}
					// the comma-ok of a lookup in the input table by the same key answered false (written
					// in place or hidden in an expression function)
					if base, neg := condOf(iff.Cond); (e.Succ == 0) == neg {
						d := deepStrip(p.SymX(base))
						if d.Op == "extract" && d.Name == "1" && d.Args[0].Op == "index" {
							if _, path, okp := d.Args[0].Args[0].FieldPath(); okp && path[len(path)-1] == "inputs" && deepStrip(d.Args[0].Args[1]).String() == deepStrip(k).String() {
								unreg = true
							}
						}
					}
					if p.edgeIsCallResult(e, func(f *ssa.Function) bool {
						// a function returning the ok of a lookup in the input table by its parameter
						for _, s := range p.resultSyms(f, 0) {
							d := deepStrip(s)
							if d.Op == "extract" && d.Name == "1" && d.Args[0].Op == "index" {
								if _, path, okp := d.Args[0].Args[0].FieldPath(); okp && path[len(path)-1] == "inputs" {
									return true
								}
							}
						}
						return false
					}, false) {
						base, _ := condOf(iff.Cond)
						if cl, okc := base.(*ssa.Call); okc && len(cl.Call.Args) == 2 && p.Sym(cl.Call.Args[1]).String() == k.String() {
							unreg = true
						}
					}
				}
				var bad []string
				if !zero {
					bad = append(bad, "not restricted to actual[k] == 0: in-flight items of a removed input are forgotten and their handlers are handed out again")
				}
				if !unreg {
					bad = append(bad, "not restricted to unregistered inputs")
				}
				c.R.Check(len(bad) == 0, "B11", key, p.InstrPos(in), "delete(actual,k) only when zero and unregistered", strings.Join(bad, "; "))
			}
		}
	}
	if n == 0 {
		c.R.Pass("B11", pr.key+"#no-delete", "-", "actual entries are never deleted")
	}
}

// checkB10: typestate of the tactic map over the whole scheduler.
func checkB10(c *Ctx, pr *prioRoles) {
	p := pr.p
	var problems []string
	b2sites, divisions := map[string]bool{}, map[string]string{}
	callID := func(call ssa.CallInstruction) string {
		return p.FnKey(call.Parent()) + "#" + instrID(call)
	}
	split := func(st string) (m, vac, rem string) {
		parts := strings.SplitN(st, "|", 3)
		return parts[0], parts[1], parts[2]
	}
	join := func(m, vac, rem string) []string { return []string{m + "|" + vac + "|" + rem} }
	// resolve a value through frames to the call instruction that produced it (Call or Extract #0 of a call)
	producer := func(fr *Frame, v ssa.Value) ssa.CallInstruction {
		v, _ = fr.Resolve(v)
		v = stripChangeType(v)
		if ex, ok := v.(*ssa.Extract); ok && ex.Index == 0 {
			v = ex.Tuple
		}
		if call, ok := v.(*ssa.Call); ok {
			return call
		}
		return nil
	}
	instrKey := func(in ssa.Instruction) string { return p.FnKey(in.Parent()) + "#" + instrID(in) }
	validDividend := func(fr *Frame, v ssa.Value, vac, rem string) (bool, string) {
		if rv, _ := fr.Resolve(v); rv != nil {
			if src, isVac := pr.vacantsValue(rv); isVac {
				if vac == "f@"+instrKey(src) {
					return true, "vacants"
				}
				return false, "a vacants value measured before the last output send"
			}
		}
		call := producer(fr, v)
		if call == nil {
			return false, p.SymFrame(fr, v).String()
		}
		id := callID(call)
		switch p.Callee(call) {
		case pr.sumFn:
			if rem == "v@"+id {
				return true, "remainder"
			}
			return false, "sum(tactic) measured while the allotment was not established, or before later output sends"
		}
		return false, p.SymFrame(fr, v).String()
	}
	fl := &Flow{P: p, TrackBoolReturns: true}
	fl.Call = func(fr *Frame, st string, call ssa.CallInstruction, deferred bool) (bool, []string) {
		m, vac, rem := split(st)
		callee := p.Callee(call)
		if callee == nil {
			// dynamic divider call with the tactic map
			cc := call.Common()
			if !cc.IsInvoke() && isDividerType(cc.Value.Type()) && len(cc.Args) == 3 && p.isFieldLoad(cc.Args[2], "tactic") {
				return true, join("U", vac, rem)
			}
			return false, nil
		}
		args := call.Common().Args
		if !pr.vacantsInline && callee == pr.vacantsFn {
			return true, join(m, "f@"+callID(call), rem)
		}
		switch callee {
		case pr.resetFn:
			return true, join("Z", vac, rem)
		case pr.sumFn:
			if len(args) == 1 && p.isFieldLoad(args[0], "tactic") {
				if m == "Z" || m == "E" {
					return true, join(m, vac, "v@"+callID(call))
				}
				return true, join(m, vac, "i")
			}
			return true, []string{st}
		case pr.topUpFn:
			ok, _ := validDividend(fr, args[len(args)-1], vac, rem)
			if ok {
				return true, join("T@"+callID(call), vac, rem)
			}
			return true, join("U", vac, rem)
		case pr.safeDivideFn:
			if len(args) == 4 && p.isFieldLoad(args[3], "tactic") {
				ok, what := validDividend(fr, args[2], vac, rem)
				id := callID(call)
				switch {
				case ok && m == "Z":
					divisions[id] = "from the reset state with " + what
					return true, join("D@"+id, vac, rem)
				case !ok:
					if divisions[id] == "" {
						divisions[id] = "scratch (dividend " + what + "): result must be reset before anything is sent"
					}
				default:
					divisions[id] = "on a map that was not reset (state " + m + ")"
				}
				return true, join("U", vac, rem)
			}
			return true, nil
		case pr.sendFn:
			id := callID(call)
			b2sites[id] = true
			if m != "Z" && m != "E" {
				why := map[string]string{"U": "the tactic map holds an allotment that was never validated against the vacant handlers (a scratch division, a rejected or failed division, or a division on top of a previous allotment)"}[m]
				if why == "" {
					why = "the result of the last division / top-up was not tested (state " + m + ")"
				}
				problems = append(problems, fmt.Sprintf("the output can be written at %s while %s [%s]", p.InstrPos(call), why, fr.Chain(p)))
			}
			return true, join(m, "s", "i")
		}
		return false, nil
	}
	fl.Instr = func(fr *Frame, st string, in ssa.Instruction) []string {
		m, vac, rem := split(st)
		if pr.vacantsInline {
			for _, e := range pr.vacantsExprs {
				if in == ssa.Instruction(e) {
					return join(m, "f@"+instrKey(in), rem)
				}
			}
		}
		if w, ok := p.mapWriteOf(fr, in); ok && w.Field == "tactic" {
			_ = w
			return join("U", vac, rem)
		}
		_ = m
		return nil
	}
	fl.Edge = func(fr *Frame, st string, from *ssa.BasicBlock, succ int) []string {
		m, vac, rem := split(st)
		if !strings.HasPrefix(m, "T@") && !strings.HasPrefix(m, "D@") {
			return nil
		}
		iff, ok := from.Instrs[len(from.Instrs)-1].(*ssa.If)
		if !ok {
			return nil
		}
		base, neg := condOf(iff.Cond)
		if strings.HasPrefix(m, "T@") {
			if call, ok := base.(*ssa.Call); ok && "T@"+callID(call) == m {
				if (succ == 0) != neg {
					return join("E", vac, rem)
				}
				return join("U", vac, rem)
			}
		}
		if strings.HasPrefix(m, "D@") {
			if bo, ok := base.(*ssa.BinOp); ok && isNilConst(bo.Y) {
				if call, ok := bo.X.(*ssa.Call); ok && "D@"+callID(call) == m {
					isErr := (bo.Op == token.NEQ) == ((succ == 0) != neg)
					if isErr {
						return join("U", vac, rem)
					}
					return join("E", vac, rem)
				}
			}
		}
		return nil
	}
	// a wrapper that hands the verdict of its division / top-up straight back: the caller's test of
	// the wrapper's result is the test of that verdict
	fl.Exit = func(fr *Frame, st string, ret *ssa.Return) []string {
		m, vac, rem := split(st)
		if fr.Parent == nil || fr.Site == nil || (!strings.HasPrefix(m, "T@") && !strings.HasPrefix(m, "D@")) {
			return nil
		}
		site, isCall := fr.Site.(*ssa.Call)
		if !isCall {
			return nil
		}
		for _, rv := range returnedValues(ret) {
			if call, ok := rv.(*ssa.Call); ok && m[2:] == callID(call) {
				return join(m[:2]+callID(site), vac, rem)
			}
		}
		return nil
	}
	fl.Run(pr.sr.loopFn, []string{"Z|s|n"})
	if fl.Err != nil {
		problems = append(problems, fl.Err.Error())
	}
	if len(b2sites) == 0 {
		problems = append(problems, "UNRESOLVED-ANCHOR: the sending function is not reached from the scheduling loop")
	}
	var divs []string
	for id, what := range divisions {
		divs = append(divs, id[strings.Index(id, ":")+1:]+": "+what)
	}
	sortStrings(divs)
	c.R.Check(len(problems) == 0, "B10", pr.key, p.Pos(pr.sr.loopFn.Pos()),
		fmt.Sprintf("%d send sites reached only in Z/E; divisions: %s", len(b2sites), strings.Join(divs, "; ")), strings.Join(dedup(problems), "; "))
}

// checkCommandsBetweenRounds (C01/B14 = C17/R8, v1): a command (AddInput / RemoveInput) changes
// the registered set, the shares and - for a removal - deletes the allotment entry of its
// priority. It is therefore received only where no activation that works with the round's
// allotment is on the stack: never in the sending function, in a function that reads or writes
// the allotment map, or in anything those call. (Served inside a blocked send of priority k, a
// RemoveInput(k) deletes tactic[k]; the decrement that follows the send wraps around, the
// remainder of the round becomes huge and the second phase hands out far more than
// HandlersQuantity.)
func checkCommandsBetweenRounds(c *Ctx, pr *prioRoles, rule string) {
	p := pr.p
	core := map[*ssa.Function]bool{pr.sendFn: true}
	for _, fn := range pr.rt.Funcs {
		for _, b := range fn.Blocks {
			for _, in := range b.Instrs {
				if w, ok := p.mapWriteOf(nil, in); ok && w.Field == "tactic" {
					core[fn] = true
				}
				if lk, ok := in.(*ssa.Lookup); ok && p.isFieldLoad(lk.X, "tactic") {
					core[fn] = true
				}
			}
		}
	}
	// (the handlers of the commands themselves write the allotment map - delete(tactic, k), the
	// re-division - but are entered from the clause, not the other way round)
	bad := map[*ssa.Function]*ssa.Function{}
	var roots []*ssa.Function
	for f := range core {
		roots = append(roots, f)
	}
	sort.Slice(roots, func(i, j int) bool { return p.FnKey(roots[i]) < p.FnKey(roots[j]) })
	for _, g := range roots {
		for f := range p.Reach(g) {
			if _, seen := bad[f]; !seen {
				bad[f] = g
			}
		}
	}
	n := 0
	for _, fn := range pr.rt.Funcs {
		for _, s := range Selects(fn) {
			for _, cs := range p.SelectInfo(s).Cases {
				role := p.chanRole(cs.State.Chan)
				if role != "field:inputAdds" && role != "field:inputRmvs" {
					continue
				}
				n++
				key := p.FnKey(fn) + "#command:" + strings.TrimPrefix(role, "field:")
				if g, isBad := bad[fn]; isBad {
					c.R.Fail(rule, key, p.InstrPos(s), "a command is received in "+fn.Name()+", which runs while "+g.Name()+" works with the round's allotment: a removal served here deletes the allotment entry under a decrement that follows (the counter wraps and the round hands out more than HandlersQuantity), an addition re-divides the shares in the middle of a round")
				} else {
					c.R.Pass(rule, key, p.InstrPos(s), "received outside every function that uses the round's allotment")
				}
			}
		}
		for _, rs := range p.RecvSites(fn) {
			if rs.Case != nil {
				continue
			}
			if role := p.chanRole(rs.Chan); role == "field:inputAdds" || role == "field:inputRmvs" {
				n++
				_, isBad := bad[fn]
				c.R.Check(!isBad, rule, p.FnKey(fn)+"#command-recv:"+strings.TrimPrefix(role, "field:"), rs.Pos(p), "received outside every function that uses the round's allotment", "a command is received while the round's allotment is in use")
			}
		}
	}
	if n == 0 {
		c.R.Fail(rule, pr.key+"#commands", "-", "UNRESOLVED-ANCHOR: no receive from the command channels found in the scheduler's goroutine")
	}
}
