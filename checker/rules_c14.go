package main

import (
	"fmt"
	"go/token"
	"go/types"
	"sort"
	"strings"

	"golang.org/x/tools/go/ssa"
)

func init() {
	register(&Property{
		ID:          "C14",
		Run:         runC14,
		Explanation: "Dividers (both versions): A1 every map update writes distribution[p] with p the element of the priorities parameter being visited or priorities[0], as an increment of the existing entry; A2 Rate conservation as credit/debit accounting on SSA values: the running remainder is a loop phi that starts at the dividend and is only ever reduced by exactly the amount just credited, under a guard remainder >= amount; the whole remainder is credited once, right before returning (truncation exit and final leftover to priorities[0]); hence credits sum to the dividend on every path; A3 Fair: one credit of `base` per priority, at most one extra unit, guarded by remainder != 0 and paired with remainder-1, the countdown never increases, so the extra units go to a prefix of the list; A5 Fair conservation by recognised definitions base = dividend/n, remainder = dividend - base*n (or dividend %% n), n = len(priorities), no early exit; A4 sibling agreement: the canonical effect summaries (key, amount, guards of every credit; parameters by position, phis by definition, commutative operands sorted) of v1 FairDivider/RateDivider/SumPriorities and v2 Fair/Rate/SumPriorities are equal modulo the declared difference in nil-map handling.",
		NotDecided:  []string{"Rate monotonicity along the list and closeness to the proportional share (float rounding of base*priority)", "overflow of base*priority beyond exactly representable products"},
	})
}

type credit struct {
	in     *ssa.MapUpdate
	key    *Sym
	amount *Sym
	amtV   ssa.Value
}

// creditsOf lists the map updates of a divider as increments; non-increment updates are reported.
func (p *Prog) creditsOf(fn *ssa.Function) (out []credit, problems []string) {
	for _, b := range fn.Blocks {
		for _, in := range b.Instrs {
			mu, ok := in.(*ssa.MapUpdate)
			if !ok {
				continue
			}
			bo, ok := mu.Value.(*ssa.BinOp)
			if !ok || bo.Op != token.ADD {
				problems = append(problems, "map update at "+p.InstrPos(mu)+" is not an increment of the existing entry (a pre-filled distribution would be overwritten)")
				continue
			}
			lk, ok := bo.X.(*ssa.Lookup)
			amt := bo.Y
			if !ok {
				lk, ok = bo.Y.(*ssa.Lookup)
				amt = bo.X
			}
			if !ok || lk.X != mu.Map || p.Sym(lk.Index).String() != p.Sym(mu.Key).String() {
				problems = append(problems, "map update at "+p.InstrPos(mu)+" does not add to the entry it reads")
				continue
			}
			out = append(out, credit{in: mu, key: p.Sym(mu.Key), amount: p.Sym(amt), amtV: amt})
		}
	}
	return
}

func dividerFns(c *Ctx) []struct {
	p          *Prog
	fair, rate *ssa.Function
	sum        *ssa.Function
} {
	v1f, v1r := c.V1.Func("priority", "FairDivider"), c.V1.Func("priority", "RateDivider")
	v2f, v2r := c.V2.Func("priority/divider", "Fair"), c.V2.Func("priority/divider", "Rate")
	return []struct {
		p          *Prog
		fair, rate *ssa.Function
		sum        *ssa.Function
	}{
		{c.V1, v1f, v1r, c.V1.Func("priority/internal/common", "SumPriorities")},
		{c.V2, v2f, v2r, c.V2.Func("priority/internal/common", "SumPriorities")},
	}
}

func runC14(c *Ctx) {
	r := c.R
	r.Doc("A0", "role resolution: the four exported dividers and their helper", 2)
	r.Doc("A1", "write set: only distribution[p], p an element of the priorities argument, as increments", 4)
	r.Doc("A2", "Rate: credit/debit accounting - credits sum to the dividend on every path", 2)
	r.Doc("A3", "Fair: one base credit per priority, extra units to a prefix of the list", 2)
	r.Doc("A5", "Fair: base = dividend/n, remainder = dividend - base*n, n = len(priorities), no early exit", 2)
	r.Doc("A6", "a divider leaves without distributing only when there is nothing to distribute to: every return that does not pass through the distribution loop lies behind an `== 0` / `== nil` test", 4)
	r.Doc("A4", "v1 and v2 implementations have equal canonical effect summaries", 3)
	ds := dividerFns(c)
	fairOK := true
	for _, d := range ds {
		if d.fair == nil || d.rate == nil || d.sum == nil {
			r.Fail("A0", d.p.Name+":dividers", "-", "UNRESOLVED-ANCHOR: Fair/Rate divider or SumPriorities not found")
			return
		}
		r.Pass("A0", d.p.Name+":dividers", d.p.Pos(d.fair.Pos()), shortFn(d.p, d.fair)+", "+shortFn(d.p, d.rate)+", "+shortFn(d.p, d.sum))
		for _, fn := range []*ssa.Function{d.fair, d.rate, d.sum} {
			r.Funcs[d.p.FnKey(fn)] = true
		}
		checkA1(c, d.p, d.fair)
		checkA1(c, d.p, d.rate)
		checkA6(c, d.p, d.fair)
		checkA6(c, d.p, d.rate)
		checkA2(c, d.p, d.rate)
		fairOK = checkA35(c, d.p, d.fair) && fairOK
	}
	checkA4(c, ds[0].p, ds[0].fair, ds[1].p, ds[1].fair, "Fair", fairOK)
	checkA4(c, ds[0].p, ds[0].rate, ds[1].p, ds[1].rate, "Rate", false)
	checkA4(c, ds[0].p, ds[0].sum, ds[1].p, ds[1].sum, "SumPriorities", false)
}

// checkA6: returns that bypass the distribution loop.
func checkA6(c *Ctx, p *Prog, fn *ssa.Function) {
	loop := map[*ssa.BasicBlock]bool{}
	for _, comp := range sccs(fn.Blocks, blockSet(fn.Blocks)) {
		for _, b := range comp {
			loop[b] = true
		}
	}
	var problems []string
	n := 0
	if len(loop) == 0 {
		problems = append(problems, "UNDECIDED: the divider has no distribution loop")
	}
	for _, ret := range returnsBypassing(fn, loop) {
		n++
		b := ret.Block()
		ok := AllPathsPass(b, func(e CondEdge) bool { return p.isZeroTestEdge(e, 0) })
		if !ok {
			problems = append(problems, "the return at "+p.InstrPos(ret)+" leaves without distributing under "+describeEdges(p, DomEdges(b))+", which is not a nothing-to-distribute test (== 0 / == nil): the dividend is not handed out")
		}
	}
	c.R.Check(len(problems) == 0, "A6", p.FnKey(fn), p.Pos(fn.Pos()), fmt.Sprintf("%d early returns, each behind an == 0 / == nil test", n), strings.Join(dedup(problems), "; "))
}

func checkA1(c *Ctx, p *Prog, fn *ssa.Function) {
	credits, problems := p.creditsOf(fn)
	prios, dist := fn.Params[0], fn.Params[2]
	ai := p.alias()
	for _, cr := range credits {
		// the map is the distribution parameter (v1: or the map made when it is nil)
		okMap := false
		for _, root := range ai.Roots(cr.in.Map) {
			if root.Kind == "param" && root.V == ssa.Value(dist) {
				okMap = true
			}
			// (v1) a map made by the divider may stand in for the argument only when the argument
			// is nil: a non-nil map of the caller, empty or not, is the one the shares are added to
			if mm, isMake := root.V.(*ssa.MakeMap); isMake && mm.Parent() == fn {
				underNil := false
				for _, e := range InstrDomEdges(mm) {
					iff := e.From.Instrs[len(e.From.Instrs)-1].(*ssa.If)
					base, neg := condOf(iff.Cond)
					if bo, isB := base.(*ssa.BinOp); isB && (bo.Op == token.EQL || bo.Op == token.NEQ) {
						x, y := bo.X, bo.Y
						if isNilConst(x) {
							x, y = y, x
						}
						if x == ssa.Value(dist) && isNilConst(y) && ((bo.Op == token.EQL) == ((e.Succ == 0) != neg)) {
							underNil = true
						}
					}
				}
				if !underNil {
					problems = append(problems, "the map made at "+p.InstrPos(mm)+" replaces the distribution argument although it is not nil: the shares are not added to the map that was passed")
				}
			}
		}
		if !okMap {
			problems = append(problems, "update at "+p.InstrPos(cr.in)+" writes a map other than the distribution argument")
		}
		okKey := false
		if base, ok := rangeElem(cr.key); ok && base.V == ssa.Value(prios) {
			okKey = true
		}
		if cr.key.Op == "index" && cr.key.Args[0].V == ssa.Value(prios) {
			if k, ok := symConstInt(cr.key.Args[1]); ok && k == 0 {
				okKey = true
			}
		}
		if !okKey {
			problems = append(problems, fmt.Sprintf("update at %s writes entry %s, which is not a listed priority", p.InstrPos(cr.in), cr.key))
		}
	}
	// nothing else is written: no content write through the priorities argument, no delete
	for _, w := range ai.contentWritesIn(fn) {
		if _, isMU := w.In.(*ssa.MapUpdate); isMU {
			continue
		}
		for _, root := range ai.Roots(w.Target) {
			if root.Kind == "param" {
				problems = append(problems, w.How+" at "+p.InstrPos(w.In)+" changes an argument")
			}
		}
	}
	c.R.Check(len(problems) == 0 && len(credits) > 0, "A1", p.FnKey(fn), p.Pos(fn.Pos()), fmt.Sprintf("%d increments, all of distribution[listed priority]", len(credits)), strings.Join(dedup(problems), "; "))
}

// remainderPhi: the loop phi that starts at `init` (predicate) and is reduced in the loop.
func remainderPhi(fn *ssa.Function, isInit func(v ssa.Value) bool) *ssa.Phi {
	for _, b := range fn.Blocks {
		for _, in := range b.Instrs {
			ph, ok := in.(*ssa.Phi)
			if !ok {
				continue
			}
			for i, e := range ph.Edges {
				if !blockReachesItself(ph.Block()) {
					continue
				}
				_ = i
				if isInit(e) {
					return ph
				}
			}
		}
	}
	return nil
}

func blockReachesItself(b *ssa.BasicBlock) bool { return blockInLoop(b) }

func checkA2(c *Ctx, p *Prog, fn *ssa.Function) {
	dividend := fn.Params[1]
	var problems []string
	rem := remainderPhi(fn, func(v ssa.Value) bool { return v == ssa.Value(dividend) })
	credits, cp := p.creditsOf(fn)
	problems = append(problems, cp...)
	if rem == nil {
		c.R.Fail("A2", p.FnKey(fn), p.Pos(fn.Pos()), "UNDECIDED: no running remainder (a loop variable starting at the dividend) found")
		return
	}
	// every in-loop edge of the remainder is  remainder - X
	debits := map[ssa.Value]*ssa.BinOp{}
	for i, e := range rem.Edges {
		if e == ssa.Value(dividend) || e == ssa.Value(rem) {
			continue
		}
		bo, ok := e.(*ssa.BinOp)
		if !ok || bo.Op != token.SUB || bo.X != ssa.Value(rem) {
			problems = append(problems, fmt.Sprintf("the remainder is set to %s on the edge from block %d: not a reduction by a credited amount", p.Sym(e), rem.Block().Preds[i].Index))
			continue
		}
		debits[bo.Y] = bo
	}
	loop := map[*ssa.BasicBlock]bool{}
	for _, comp := range sccs(fn.Blocks, blockSet(fn.Blocks)) {
		if blockSet(comp)[rem.Block()] {
			loop = blockSet(comp)
		}
	}
	usedDebit := map[ssa.Value]bool{}
	for _, cr := range credits {
		switch {
		case cr.amtV == ssa.Value(rem):
			// whole remainder: nothing may be credited afterwards
			if p.reachesAnotherCredit(cr.in) {
				problems = append(problems, "after the whole remainder is credited at "+p.InstrPos(cr.in)+" more is credited: the total exceeds the dividend")
			}
		case debits[cr.amtV] != nil:
			db := debits[cr.amtV]
			usedDebit[cr.amtV] = true
			// same iteration: the credit and the debit are on the same path of the loop body
			if !(instrDominates(cr.in, db) || instrDominates(db, cr.in)) {
				problems = append(problems, "credit at "+p.InstrPos(cr.in)+" and the matching reduction of the remainder are not on the same path")
			}
			// every way back to the loop head after this credit carries the reduced remainder
			for i, e := range rem.Edges {
				pred := rem.Block().Preds[i]
				if (pred == cr.in.Block() || cr.in.Block().Dominates(pred)) && e != ssa.Value(db) {
					problems = append(problems, "after the credit at "+p.InstrPos(cr.in)+" the loop can continue with the remainder not reduced by the credited amount: the total exceeds the dividend")
				}
			}
			// guard: remainder >= amount
			guarded := false
			for _, e := range InstrDomEdges(cr.in) {
				if !loop[e.From] {
					continue
				}
				iff := e.From.Instrs[len(e.From.Instrs)-1].(*ssa.If)
				cm := p.NormCmp(iff.Cond, e.Succ == 0)
				if cm != nil && cm.Op == token.LEQ && deepStrip(cm.L).String() == deepStrip(cr.amount).String() && cm.R.V == ssa.Value(rem) && cm.LC == 0 && cm.RC == 0 {
					guarded = true
				}
			}
			if !guarded {
				problems = append(problems, "credit at "+p.InstrPos(cr.in)+" is not guarded by remainder >= amount: the unsigned remainder wraps around and the total exceeds the dividend")
			}
		default:
			problems = append(problems, fmt.Sprintf("credit of %s at %s is neither the whole remainder nor an amount that is subtracted from the remainder: the total differs from the dividend", cr.amount, p.InstrPos(cr.in)))
		}
	}
	for v := range debits {
		if !usedDebit[v] {
			problems = append(problems, "the remainder is reduced by "+p.Sym(v).String()+" without crediting it: part of the dividend is lost")
		}
	}
	// every exit after the guards credits the whole remainder: paths to return from inside/after the loop
	for _, b := range fn.Blocks {
		ret, ok := b.Instrs[len(b.Instrs)-1].(*ssa.Return)
		if !ok {
			continue
		}
		// returns before the loop (empty list / nil map) are fine
		if !rem.Block().Dominates(b) {
			continue
		}
		credited := false
		for _, cr := range credits {
			if cr.amtV == ssa.Value(rem) && instrDominates(cr.in, ret) {
				credited = true
			}
		}
		if !credited {
			problems = append(problems, "the path returning at "+p.InstrPos(ret)+" does not credit the remaining part of the dividend: it is lost")
		}
	}
	c.R.Check(len(problems) == 0, "A2", p.FnKey(fn), p.Pos(fn.Pos()), fmt.Sprintf("%d credits: each debited from the remainder under remainder >= amount, or the whole remainder right before returning", len(credits)), strings.Join(dedup(problems), "; "))
}

// reachesAnotherCredit: some map update is reachable after mu.
func (p *Prog) reachesAnotherCredit(mu *ssa.MapUpdate) bool {
	seen := map[*ssa.BasicBlock]bool{}
	var walk func(b *ssa.BasicBlock, from int) bool
	walk = func(b *ssa.BasicBlock, from int) bool {
		for i := from; i < len(b.Instrs); i++ {
			if m, ok := b.Instrs[i].(*ssa.MapUpdate); ok && m != mu {
				return true
			}
		}
		for _, s := range b.Succs {
			if !seen[s] {
				seen[s] = true
				if walk(s, 0) {
					return true
				}
			}
		}
		return false
	}
	idx := 0
	for i, in := range mu.Block().Instrs {
		if in == ssa.Instruction(mu) {
			idx = i + 1
		}
	}
	return walk(mu.Block(), idx)
}

func checkA35(c *Ctx, p *Prog, fn *ssa.Function) bool {
	prios, dividend := fn.Params[0], fn.Params[1]
	credits, problems := p.creditsOf(fn)
	var p5 []string
	isN := func(s *Sym) bool {
		s = deepStrip(s)
		return s.Op == "call" && s.Name == "len" && len(s.Args) == 1 && s.Args[0].V == ssa.Value(prios)
	}
	isBase := func(s *Sym) bool {
		s = deepStrip(s)
		return s.Op == "bin" && s.Name == "/" && s.Args[0].V == ssa.Value(dividend) && isN(s.Args[1])
	}
	// remainder init: dividend - base*n  or dividend % n
	isRemInit := func(v ssa.Value) bool {
		s := deepStrip(p.Sym(v))
		if s.Op == "bin" && s.Name == "%" && s.Args[0].V == ssa.Value(dividend) && isN(s.Args[1]) {
			return true
		}
		if s.Op == "bin" && s.Name == "-" && s.Args[0].V == ssa.Value(dividend) {
			m := s.Args[1]
			if m.Op == "bin" && m.Name == "*" && ((isBase(m.Args[0]) && isN(m.Args[1])) || (isBase(m.Args[1]) && isN(m.Args[0]))) {
				return true
			}
		}
		return false
	}
	rem := remainderPhi(fn, isRemInit)
	indexGuarded := false // the extra units are given under `index < remainder` instead of by a countdown
	nBase, nExtra := 0, 0
	type condCredit struct {
		cr   credit
		edge CondEdge
	}
	var condBase []condCredit
	var combined []credit
	// extraGuard: block b is entered only when an extra unit is due: the countdown is not zero
	// (and is reduced by one on the same path), or the index of the visited priority is below the
	// remainder (the first `remainder` priorities: a prefix by construction)
	extraGuard := func(b *ssa.BasicBlock, idx ssa.Value, at ssa.Instruction) (ok bool, why string) {
		edges := DomEdges(b)
		for _, e := range edges {
			iff := e.From.Instrs[len(e.From.Instrs)-1].(*ssa.If)
			if rem != nil {
				cm := p.NormCmp(iff.Cond, e.Succ == 0)
				if cm != nil && cm.LC == 0 && cm.RC == 0 && ((cm.Op == token.LSS && cm.L.String() == "0" && cm.R.V == ssa.Value(rem)) ||
					(cm.Op == token.NEQ && cm.L.V == ssa.Value(rem) && cm.R.String() == "0") || (cm.Op == token.NEQ && cm.R.V == ssa.Value(rem) && cm.L.String() == "0")) {
					paired := false
					for _, fe := range flatPhiEdges(rem) {
						if bo, isB := fe.v.(*ssa.BinOp); isB && bo.Op == token.SUB && bo.X == ssa.Value(rem) {
							if k, isK := constDuration(bo.Y); isK && k == 1 {
								if fe.pred == b || b.Dominates(fe.pred) || bo.Block() == b {
									paired = true
								}
							}
						}
					}
					if !paired {
						return false, "the extra unit at " + p.InstrPos(at) + " is not paired with remainder-1"
					}
					return true, ""
				}
			}
			base, neg := condOf(iff.Cond)
			if bo, isB := base.(*ssa.BinOp); isB && idx != nil {
				truth := (e.Succ == 0) != neg
				x, y, op := bo.X, bo.Y, bo.Op
				if op == token.GTR {
					x, y, op = y, x, token.LSS
				}
				if op == token.LSS && truth && stripConvValue(x) == idx && isRemInit(y) {
					indexGuarded = true
					return true, ""
				}
			}
		}
		return false, "the extra unit at " + p.InstrPos(at) + " is not guarded by remainder != 0"
	}
	for _, cr := range credits {
		if _, ok := rangeElem(cr.key); !ok {
			problems = append(problems, "credit at "+p.InstrPos(cr.in)+" is not for the priority being visited")
		}
		if blockInLoop(cr.in.Block()) == false {
			problems = append(problems, "credit at "+p.InstrPos(cr.in)+" is outside the loop over the priorities")
		}
		switch {
		case isBase(cr.amount):
			// unconditional within the body: dominated only by the loop test (and the pre-loop guards)
			var cond *CondEdge
			for _, e := range InstrDomEdges(cr.in) {
				if blockInLoop(e.From) {
					iff := e.From.Instrs[len(e.From.Instrs)-1].(*ssa.If)
					if cm := p.NormCmp(iff.Cond, true); cm == nil || !strings.Contains(cm.String(), "len(") {
						e2 := e
						cond = &e2
					}
				}
			}
			if cond != nil {
				// the plain share in one branch, share+1 in the other (judged below)
				condBase = append(condBase, condCredit{cr, *cond})
				continue
			}
			nBase++
		default:
			var idxV ssa.Value
			if cr.key != nil && cr.key.Op == "index" && len(cr.key.Args) == 2 {
				idxV = cr.key.Args[1].V
			}
			if k, ok := symConstInt(cr.amount); ok && k == 1 {
				nExtra++
				// guarded by remainder != 0 and paired with remainder-1 on the same path, or by index < remainder
				if okg, why := extraGuard(cr.in.Block(), idxV, cr.in); !okg {
					problems = append(problems, why)
				}
			} else if es := deepStrip(cr.amount); es.Op == "bin" && es.Name == "+" && len(es.Args) == 2 &&
				((isBase(es.Args[0]) && es.Args[1].String() == "1") || (isBase(es.Args[1]) && es.Args[0].String() == "1")) {
				combined = append(combined, cr)
			} else if ph, isPhi := cr.amtV.(*ssa.Phi); isPhi && len(ph.Edges) == 2 {
				// one credit of `part`, part = base, or base+1 when an extra unit is due
				baseEdge, extraEdge := -1, -1
				for i, e := range ph.Edges {
					es := deepStrip(p.Sym(e))
					switch {
					case isBase(es):
						baseEdge = i
					case es.Op == "bin" && es.Name == "+":
						for k2 := 0; k2 < 2; k2++ {
							if c1, isK := symConstInt(es.Args[k2]); isK && c1 == 1 && isBase(es.Args[1-k2]) {
								extraEdge = i
							}
						}
					}
				}
				if baseEdge < 0 || extraEdge < 0 {
					problems = append(problems, fmt.Sprintf("credit of %s at %s is neither the equal share dividend/len(priorities) nor one extra unit", cr.amount, p.InstrPos(cr.in)))
					continue
				}
				nBase++
				nExtra++
				for _, e := range InstrDomEdges(cr.in) {
					if blockInLoop(e.From) {
						iff := e.From.Instrs[len(e.From.Instrs)-1].(*ssa.If)
						if cm := p.NormCmp(iff.Cond, true); cm == nil || !strings.Contains(cm.String(), "len(") {
							problems = append(problems, "the credit at "+p.InstrPos(cr.in)+" is conditional: some priority does not get its equal share")
						}
					}
				}
				// the base+1 edge comes from a block entered only when an extra unit is due, the base
				// edge from its sibling
				if okg, why := extraGuard(ph.Block().Preds[extraEdge], idxV, cr.in); !okg {
					problems = append(problems, why)
				}
				if okg, _ := extraGuard(ph.Block().Preds[baseEdge], idxV, cr.in); okg && ph.Block().Preds[baseEdge] != ph.Block().Preds[extraEdge] {
					if !ph.Block().Preds[baseEdge].Dominates(ph.Block().Preds[extraEdge]) {
						problems = append(problems, "the plain share at "+p.InstrPos(cr.in)+" is given where an extra unit is due")
					}
				}
			} else {
				problems = append(problems, fmt.Sprintf("credit of %s at %s is neither the equal share dividend/len(priorities) nor one extra unit", cr.amount, p.InstrPos(cr.in)))
			}
		}
	}
	// share in one branch, share+1 in the other: `if extra due { d[p] += base+1 } else { d[p] += base }`
	if len(condBase) == 1 && len(combined) == 1 {
		cb, cm1 := condBase[0], combined[0]
		var idxV ssa.Value
		if cm1.key != nil && cm1.key.Op == "index" && len(cm1.key.Args) == 2 {
			idxV = cm1.key.Args[1].V
		}
		if okg, why := extraGuard(cm1.in.Block(), idxV, cm1.in); !okg {
			problems = append(problems, why)
		}
		// the plain share sits on the other side of the same test
		sibling := false
		for _, e := range InstrDomEdges(cm1.in) {
			if e.From == cb.edge.From && e.Succ != cb.edge.Succ {
				sibling = true
			}
		}
		if !sibling {
			problems = append(problems, "the base credit at "+p.InstrPos(cb.cr.in)+" is conditional: some priority does not get its equal share")
		}
		nBase++
		nExtra++
	} else {
		for _, cb := range condBase {
			nBase++
			problems = append(problems, "the base credit at "+p.InstrPos(cb.cr.in)+" is conditional: some priority does not get its equal share")
		}
		for _, cm1 := range combined {
			problems = append(problems, fmt.Sprintf("credit of %s at %s is neither the equal share dividend/len(priorities) nor one extra unit", cm1.amount, p.InstrPos(cm1.in)))
		}
	}
	if rem == nil && !indexGuarded {
		p5 = append(p5, "UNDECIDED: the countdown of extra units does not start at dividend - (dividend/n)*n (or dividend % n) with n = len(priorities)")
	}
	if rem != nil {
		// the countdown never increases: edges are rem or rem-1
		for _, fe := range flatPhiEdges(rem) {
			e := fe.v
			if e == ssa.Value(rem) || isRemInit(e) {
				continue
			}
			bo, ok := e.(*ssa.BinOp)
			if ok && bo.Op == token.SUB && bo.X == ssa.Value(rem) {
				if k, isK := constDuration(bo.Y); isK && k == 1 {
					continue
				}
			}
			problems = append(problems, "the countdown of extra units is changed to "+p.Sym(e).String()+": the extra units no longer form a prefix of the list")
		}
	}
	if nBase != 1 || nExtra != 1 {
		problems = append(problems, fmt.Sprintf("expected one base credit and one extra-unit credit per priority, found %d and %d", nBase, nExtra))
	}
	// no early exit from the loop
	for _, comp := range sccs(fn.Blocks, blockSet(fn.Blocks)) {
		set := blockSet(comp)
		for _, b := range comp {
			for _, s := range b.Succs {
				if !set[s] && !boundedHeader(b, set) {
					p5 = append(p5, "the loop over the priorities can be left early at "+p.InstrPos(b.Instrs[len(b.Instrs)-1])+": later priorities get nothing")
				}
			}
		}
	}
	c.R.Check(len(problems) == 0, "A3", p.FnKey(fn), p.Pos(fn.Pos()), "base per priority; one extra unit while the countdown is non-zero", strings.Join(dedup(problems), "; "))
	c.R.Check(len(p5) == 0, "A5", p.FnKey(fn), p.Pos(fn.Pos()), "base = dividend/n, countdown = dividend - base*n, full loop", strings.Join(dedup(p5), "; "))
	return len(problems) == 0 && len(p5) == 0
}

type phiEdge struct {
	v    ssa.Value
	pred *ssa.BasicBlock
}

// flatPhiEdges: the non-phi values that flow into ph, looking through the phis that merely join
// branches of the loop body (`if c { x-- }` yields phi(x-1, x) before the loop phi).
func flatPhiEdges(ph *ssa.Phi) []phiEdge {
	var out []phiEdge
	seen := map[*ssa.Phi]bool{ph: true}
	var walk func(x *ssa.Phi)
	walk = func(x *ssa.Phi) {
		for i, e := range x.Edges {
			if inner, ok := e.(*ssa.Phi); ok && inner != ph {
				if !seen[inner] {
					seen[inner] = true
					walk(inner)
				}
				continue
			}
			out = append(out, phiEdge{e, x.Block().Preds[i]})
		}
	}
	walk(ph)
	return out
}

func stripConvValue(v ssa.Value) ssa.Value {
	for {
		switch x := v.(type) {
		case *ssa.Convert:
			v = x.X
		case *ssa.ChangeType:
			v = x.X
		default:
			return v
		}
	}
}

// ---- A4 canonical summaries ----

type canonCtx struct {
	p    *Prog
	fn   *ssa.Function
	seen map[ssa.Value]bool
}

func (cc *canonCtx) canon(s *Sym) string {
	if s == nil {
		return "_"
	}
	switch s.Op {
	case "param":
		if par, ok := s.V.(*ssa.Parameter); ok {
			return fmt.Sprintf("P%d", paramIndex(par.Parent(), par))
		}
		return s.Name
	case "const":
		return s.Name
	case "phi":
		ph, ok := s.V.(*ssa.Phi)
		if !ok {
			return "phi?"
		}
		if cc.seen[ph] {
			return "self"
		}
		if isCountingPhi(s, 0) {
			return "IDX"
		}
		cc.seen[ph] = true
		var es []string
		for _, e := range ph.Edges {
			es = append(es, cc.canon(cc.p.Sym(e)))
		}
		delete(cc.seen, ph)
		sort.Strings(es)
		es = dedup(es)
		if len(es) == 2 && es[0] == "P2" && es[1] == "make" {
			return "P2" // declared difference: v1 allocates the map when it is nil
		}
		return "phi{" + strings.Join(es, "|") + "}"
	case "make":
		return "make"
	case "bin":
		// the index of a loop over all elements of a slice, however the loop is spelled:
		// range (1 + phi{-1 | 1+self}) and three-clause (phi{0 | 1+self}) forms
		if s.Name == "+" {
			for i := 0; i < 2; i++ {
				if k, ok := symConstInt(s.Args[i]); ok && k == 1 && isCountingPhi(s.Args[1-i], -1) && !cc.seen[s.Args[1-i].V] {
					return "IDX"
				}
			}
		}
		a, b := cc.canon(s.Args[0]), cc.canon(s.Args[1])
		switch s.Name {
		case "+", "*", "==", "!=":
			if b < a {
				a, b = b, a
			}
		case ">":
			return "(" + b + " < " + a + ")"
		case ">=":
			return "(" + b + " <= " + a + ")"
		case "-":
			// a - (a/b)*b  is  a % b
			m := s.Args[1].StripConv()
			if m.Op == "bin" && m.Name == "*" {
				for i := 0; i < 2; i++ {
					q, other := m.Args[i].StripConv(), m.Args[1-i]
					if q.Op == "bin" && q.Name == "/" && cc.canon(q.Args[0]) == a && cc.canon(q.Args[1]) == cc.canon(other) {
						return "(" + a + " % " + cc.canon(other) + ")"
					}
				}
			}
		}
		return "(" + a + " " + s.Name + " " + b + ")"
	case "call":
		var as []string
		for _, a := range s.Args {
			as = append(as, cc.canon(a))
		}
		name := s.Name
		return name + "(" + strings.Join(as, ",") + ")"
	case "conv":
		return s.Name + "(" + cc.canon(s.Args[0]) + ")"
	case "index":
		return cc.canon(s.Args[0]) + "[" + cc.canon(s.Args[1]) + "]"
	case "un":
		return s.Name + cc.canon(s.Args[0])
	}
	var as []string
	for _, a := range s.Args {
		as = append(as, cc.canon(a))
	}
	return s.Op + ":" + strings.Join(as, ",")
}

// isCountingPhi: s is a phi whose edges are the constant `start` and itself plus one.
func isCountingPhi(s *Sym, start int64) bool {
	s = s.StripConv()
	ph, ok := s.V.(*ssa.Phi)
	if !ok || s.Op != "phi" || len(ph.Edges) < 2 {
		return false
	}
	haveStart, haveStep := false, false
	for _, e := range ph.Edges {
		if c, isC := e.(*ssa.Const); isC {
			if k, okk := constDuration(c); okk && k == start {
				haveStart = true
				continue
			}
			return false
		}
		step := false
		if bo, isB := e.(*ssa.BinOp); isB && bo.Op == token.ADD {
			if bo.X == ssa.Value(ph) {
				if k, okk := constDuration(bo.Y); okk && k == 1 {
					step = true
				}
			}
			if bo.Y == ssa.Value(ph) {
				if k, okk := constDuration(bo.X); okk && k == 1 {
					step = true
				}
			}
		}
		if !step {
			return false
		}
		haveStep = true
	}
	return haveStart && haveStep
}

// canonCond renders a branch condition taken with the given truth value: negations are folded
// into the comparison operator, > and >= are oriented, and for unsigned operands 0 < x is x != 0.
func (cc *canonCtx) canonCond(s *Sym, truth bool) string {
	for s != nil && s.Op == "un" && s.Name == "!" {
		s, truth = s.Args[0], !truth
	}
	if s == nil || s.Op != "bin" {
		g := cc.canon(s)
		if !truth {
			return "!" + g
		}
		return g
	}
	op := s.Name
	a, b := cc.canon(s.Args[0]), cc.canon(s.Args[1])
	if !truth {
		switch op {
		case "==":
			op = "!="
		case "!=":
			op = "=="
		case "<":
			op = ">="
		case "<=":
			op = ">"
		case ">":
			op = "<="
		case ">=":
			op = "<"
		default:
			return "!" + cc.canon(s)
		}
	}
	switch op {
	case ">":
		a, b, op = b, a, "<"
	case ">=":
		a, b, op = b, a, "<="
	}
	unsigned := false
	if bo, ok := s.V.(*ssa.BinOp); ok {
		if bt, isB := bo.X.Type().Underlying().(*types.Basic); isB && bt.Info()&types.IsUnsigned != 0 {
			unsigned = true
		}
	}
	if unsigned {
		switch {
		case op == "<" && a == "0":
			op = "!="
		case op == "<=" && b == "0":
			a, b, op = "0", a, "=="
		}
	}
	if (op == "==" || op == "!=") && b < a {
		a, b = b, a
	}
	return "(" + a + " " + op + " " + b + ")"
}

// summary: canonical description of every credit (key, amount, guards) plus returned values.
func (p *Prog) effectSummary(fn *ssa.Function) []string {
	cc := &canonCtx{p: p, fn: fn, seen: map[ssa.Value]bool{}}
	var out []string
	guards := func(b *ssa.BasicBlock) string {
		var gs []string
		for _, e := range DomEdges(b) {
			iff := e.From.Instrs[len(e.From.Instrs)-1].(*ssa.If)
			// a guard hidden in a boolean helper (isNothingToDivide(p, d)): the conditions that hold
			// whenever the helper gives this answer, with the arguments substituted
			if atoms, okA := p.helperAtoms(iff.Cond, e.Succ == 0); okA {
				for _, a := range atoms {
					ga := cc.canonCond(a.s, a.truth)
					if strings.Contains(ga, "P2 == nil") || strings.Contains(ga, "nil == P2") || strings.Contains(ga, "P2 != nil") || strings.Contains(ga, "nil != P2") {
						continue
					}
					gs = append(gs, ga)
				}
				continue
			}
			g := cc.canonCond(p.Sym(iff.Cond), e.Succ == 0)
			// declared difference: nil-map handling (v1 allocates, v2 returns)
			if strings.Contains(g, "P2 == nil") || strings.Contains(g, "nil == P2") || strings.Contains(g, "P2 != nil") || strings.Contains(g, "nil != P2") {
				continue
			}
			gs = append(gs, g)
		}
		sort.Strings(gs)
		return strings.Join(gs, " && ")
	}
	for _, b := range fn.Blocks {
		for _, in := range b.Instrs {
			switch x := in.(type) {
			case *ssa.MapUpdate:
				out = append(out, "credit key="+cc.canon(p.Sym(x.Key))+" value="+stripMapName(cc.canon(p.Sym(x.Value)))+" if "+guards(b))
			case *ssa.Return:
				if b.Comment == "recover" {
					continue
				}
				for i, rv := range x.Results {
					if isUintMap(rv.Type()) {
						continue // v1 returns the map, v2 returns nothing: declared difference
					}
					out = append(out, fmt.Sprintf("return#%d %s if %s", i, cc.canon(p.Sym(rv)), guards(b)))
				}
			}
		}
	}
	sort.Strings(out)
	return out
}

// stripMapName: the map being updated is P2 in v2 and phi{P2|make} in v1 (declared difference).
func stripMapName(s string) string {
	s = strings.ReplaceAll(s, "phi{P2|make}", "P2")
	s = strings.ReplaceAll(s, "phi{make|P2}", "P2")
	return s
}

// recognised: both implementations were shown (A1, A3, A5) to be the one definition of the divider;
// how each spells its credits then does not matter, and only what the definition does not cover -
// the results and the conditions of the early returns - is compared.
func checkA4(c *Ctx, p1 *Prog, f1 *ssa.Function, p2 *Prog, f2 *ssa.Function, name string, recognised bool) {
	s1, s2 := p1.effectSummary(f1), p2.effectSummary(f2)
	if recognised {
		keep := func(in []string) []string {
			var out []string
			seen := map[string]bool{}
			for _, e := range in {
				if !strings.HasPrefix(e, "credit ") {
					out = append(out, e)
					continue
				}
				// of a credit only the guards taken before the loop (empty list, nil map) are kept
				i := strings.LastIndex(e, " if ")
				if i < 0 {
					continue
				}
				var atoms []string
				for _, a := range strings.Split(e[i+4:], " && ") {
					if strings.Contains(a, "IDX") || strings.Contains(a, "phi{") || strings.Contains(a, "self") {
						continue
					}
					atoms = append(atoms, a)
				}
				sort.Strings(atoms)
				g := "credits under: " + strings.Join(atoms, " && ")
				if !seen[g] {
					seen[g] = true
					out = append(out, g)
				}
			}
			return out
		}
		s1, s2 = keep(s1), keep(s2)
	}
	var diffs []string
	m1, m2 := map[string]int{}, map[string]int{}
	for _, s := range s1 {
		m1[s]++
	}
	for _, s := range s2 {
		m2[s]++
	}
	for s, n := range m1 {
		if m2[s] != n {
			diffs = append(diffs, "only in v1 "+shortFn(p1, f1)+": "+s)
		}
	}
	for s, n := range m2 {
		if m1[s] != n {
			diffs = append(diffs, "only in v2 "+shortFn(p2, f2)+": "+s)
		}
	}
	sort.Strings(diffs)
	if len(diffs) > 4 {
		diffs = append(diffs[:4], fmt.Sprintf("... %d more", len(diffs)-4))
	}
	c.R.Check(len(diffs) == 0, "A4", "pair:"+name, p2.Pos(f2.Pos()), fmt.Sprintf("%d summary entries agree", len(s2)), "the v1 and v2 implementations differ: "+strings.Join(diffs, " ;; "))
}

type condAtom struct {
	s     *Sym
	truth bool
}

// helperAtoms: cond (taken with the given truth) is the answer of a side-effect free boolean
// product helper `return a || b` / `return a && b` / `return a`; it returns the conditions that
// hold on every path on which the helper gives that answer (empty with ok=false when the answer is
// a disjunction), rendered over the caller's values.
func (p *Prog) helperAtoms(cond ssa.Value, truth bool) ([]condAtom, bool) {
	base, neg := condOf(cond)
	if neg {
		truth = !truth
	}
	call, ok := base.(*ssa.Call)
	if !ok {
		return nil, false
	}
	fn := p.Callee(call)
	if fn == nil || !p.IsProduct(fn) || !returnsBoolOnly(fn) || len(fn.Blocks) > 6 {
		return nil, false
	}
	// purity: no stores, sends, calls of impure functions
	for _, b := range fn.Blocks {
		for _, in := range b.Instrs {
			switch x := in.(type) {
			case *ssa.Store, *ssa.MapUpdate, *ssa.Send, *ssa.Go, *ssa.Defer, *ssa.Select, *ssa.Panic:
				return nil, false
			case *ssa.Call:
				if bi, isB := x.Call.Value.(*ssa.Builtin); !isB || (bi.Name() != "len" && bi.Name() != "cap") {
					return nil, false
				}
			}
		}
	}
	var rets []*ssa.Return
	for _, b := range fn.Blocks {
		if r, isRet := b.Instrs[len(b.Instrs)-1].(*ssa.Return); isRet && b != fn.Recover {
			if len(r.Results) != 1 {
				return nil, false
			}
			rets = append(rets, r)
		}
	}
	if len(rets) == 0 {
		return nil, false
	}
	mk := func(v ssa.Value, t bool) condAtom {
		b2, n2 := condOf(v)
		if n2 {
			t = !t
		}
		return condAtom{p.substParams(call, fn, p.Sym(b2)), t}
	}
	pathAtoms := func(b *ssa.BasicBlock) []condAtom {
		var out []condAtom
		for _, e := range DomEdges(b) {
			iff := e.From.Instrs[len(e.From.Instrs)-1].(*ssa.If)
			out = append(out, mk(iff.Cond, e.Succ == 0))
		}
		return out
	}
	var contributing [][]condAtom
	for _, ret := range rets {
		rv := ret.Results[0]
		if ph, isPhi := rv.(*ssa.Phi); isPhi {
			for i, ev := range ph.Edges {
				pred := ph.Block().Preds[i]
				atoms := pathAtoms(pred)
				// the edge into the phi block may itself be conditional
				if iff, isIf := pred.Instrs[len(pred.Instrs)-1].(*ssa.If); isIf {
					for k, su := range pred.Succs {
						if su == ph.Block() && pred.Succs[1-k] != ph.Block() {
							atoms = append(atoms, mk(iff.Cond, k == 0))
						}
					}
				}
				if c, isC := ev.(*ssa.Const); isC {
					if (constString(c) == "true") != truth {
						continue
					}
					contributing = append(contributing, atoms)
					continue
				}
				contributing = append(contributing, append(atoms, mk(ev, truth)))
			}
			continue
		}
		if c, isC := rv.(*ssa.Const); isC {
			if (constString(c) == "true") == truth {
				contributing = append(contributing, pathAtoms(ret.Block()))
			}
			continue
		}
		contributing = append(contributing, append(pathAtoms(ret.Block()), mk(rv, truth)))
	}
	if len(contributing) != 1 {
		return nil, false
	}
	return contributing[0], true
}
