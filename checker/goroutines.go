package main

import (
	"fmt"
	"go/constant"
	"go/types"
	"sort"
	"strings"

	"golang.org/x/tools/go/ssa"
)

// Routine is the code a goroutine entry can execute, stopping at the API boundary of
// other disciplines (calls to their exported methods are recorded as sub-calls).
type Routine struct {
	P        *Prog
	D        *Disc
	E        *GoEntry
	Funcs    []*ssa.Function
	SubCalls []ssa.CallInstruction // calls of exported methods of other discipline structs
}

func (p *Prog) Routine(d *Disc, e *GoEntry) *Routine {
	rt := &Routine{P: p, D: d, E: e}
	seen := map[*ssa.Function]bool{}
	discOf := map[*types.Named]*Disc{}
	for _, x := range p.Discs() {
		discOf[x.Named] = x
	}
	var visit func(fn *ssa.Function)
	visit = func(fn *ssa.Function) {
		fn = p.Norm(fn)
		if fn == nil || seen[fn] || !p.IsProduct(fn) {
			return
		}
		seen[fn] = true
		rt.Funcs = append(rt.Funcs, fn)
		for _, b := range fn.Blocks {
			for _, in := range b.Instrs {
				switch x := in.(type) {
				case *ssa.Go:
				case ssa.CallInstruction:
					c := p.Callee(x)
					if c == nil {
						continue
					}
					if recv := c.Signature.Recv(); recv != nil {
						if od := discOf[namedOrigin(recv.Type())]; od != nil && od != d {
							rt.SubCalls = append(rt.SubCalls, x)
							continue
						}
					}
					visit(c)
				case *ssa.MakeClosure:
					if cf, ok := x.Fn.(*ssa.Function); ok && !isGoOnlyClosure(cf) {
						if t := p.wrapperTarget(cf); t != nil {
							cf = t
							if recv := t.Signature.Recv(); recv != nil {
								if od := discOf[namedOrigin(recv.Type())]; od != nil && od != d {
									continue // a method of an owned sub-discipline handed on as a value
								}
							}
						}
						visit(cf)
					}
				}
			}
		}
	}
	visit(e.Entry)
	sort.Slice(rt.Funcs, func(i, j int) bool { return p.FnKey(rt.Funcs[i]) < p.FnKey(rt.Funcs[j]) })
	return rt
}

func (rt *Routine) isSubCall(in ssa.Instruction) bool {
	for _, s := range rt.SubCalls {
		if ssa.Instruction(s) == in {
			return true
		}
	}
	return false
}

// RequiredStops: the stop signals every blocking operation of this v1 goroutine must watch.
// Handler-style entries (a context.Context parameter) watch that context; scheduler-style
// entries watch their own breaker and Opts.Ctx.
func (rt *Routine) RequiredStops() []string {
	for _, par := range rt.E.Entry.Params {
		if typeShort(par.Type()) == "context.Context" {
			return []string{"stop:ctx(" + par.Name() + ")"}
		}
	}
	return []string{"stop:breaker", "stop:ctx(opts.Ctx)"}
}

// stopRoleOf refines chanRole for stop signals with the context's origin.
func (p *Prog) stopRoleOf(ch ssa.Value) string {
	s := p.Sym(ch).StripConv()
	role := symChanRole(s)
	if role == "stop:ctx" && len(s.Args) == 1 {
		a := s.Args[0]
		if a.Op == "param" {
			a = p.upParam(a, 0) // the context handed on to a helper is the caller's context
		}
		if _, path, ok := a.FieldPath(); ok {
			return "stop:ctx(" + strings.Join(path, ".") + ")"
		}
		return "stop:ctx(" + a.String() + ")"
	}
	return role
}

// selectStops: the stop roles among a select's clauses, with the clause for each.
func (p *Prog) selectStops(si *SelInfo) map[string]*SelCase {
	m := map[string]*SelCase{}
	for _, c := range si.Cases {
		r := p.stopRoleOf(c.State.Chan)
		if strings.HasPrefix(r, "stop:") {
			m[r] = c
		}
	}
	return m
}

func hasAll(m map[string]*SelCase, req []string) (missing []string) {
	for _, r := range req {
		if m[r] == nil {
			missing = append(missing, r)
		}
	}
	return
}

// DeferRunOrder returns the deferred calls of fn in the order they run; ok=false when some
// defer is conditional (not in the entry block), which the ordering rules do not handle.
func DeferRunOrder(fn *ssa.Function) (order []*ssa.Defer, ok bool) {
	ok = true
	for _, b := range fn.Blocks {
		for _, in := range b.Instrs {
			if d, isD := in.(*ssa.Defer); isD {
				if b.Index != 0 {
					ok = false
				}
				order = append([]*ssa.Defer{d}, order...)
			}
		}
	}
	return
}

// straightLine: fn is one basic block (plus, possibly, the recover block): whatever it does, it
// does unconditionally and in source order.
func straightLine(fn *ssa.Function) *ssa.BasicBlock {
	var body *ssa.BasicBlock
	for _, b := range fn.Blocks {
		if b == fn.Recover {
			continue
		}
		if body != nil {
			return nil
		}
		body = b
	}
	return body
}

// CleanupOrder: the calls the deferred calls of fn amount to, in the order they run. A deferred
// product helper with a straight-line body (`defer dsc.terminate()`, terminate = close(a); close(b))
// stands for its own calls in order followed by its own defers in reverse order, so gathering
// several defers into one clean-up method does not change what the ordering rules see.
func (p *Prog) CleanupOrder(fn *ssa.Function) (order []ssa.CallInstruction, ok bool) {
	ds, ok := DeferRunOrder(fn)
	for _, d := range ds {
		order = append(order, p.expandCleanup(d, 0)...)
	}
	return order, ok
}

func (p *Prog) expandCleanup(c ssa.CallInstruction, depth int) []ssa.CallInstruction {
	callee := p.Callee(c)
	if callee == nil || !p.IsProduct(callee) || depth > 2 {
		return []ssa.CallInstruction{c}
	}
	// stop/wait methods of (other) discipline structs keep their identity (substop, wait)
	if callee.Signature.Recv() != nil {
		if obj, _ := callee.Object().(*types.Func); obj != nil && obj.Exported() {
			return []ssa.CallInstruction{c}
		}
	}
	body := straightLine(callee)
	if body == nil {
		return []ssa.CallInstruction{c}
	}
	var out []ssa.CallInstruction
	var own []ssa.CallInstruction
	n := 0
	for _, in := range body.Instrs {
		switch x := in.(type) {
		case *ssa.Defer:
			own = append([]ssa.CallInstruction{x}, own...)
			n++
		case *ssa.Call:
			if bi, isB := x.Call.Value.(*ssa.Builtin); isB && bi.Name() != "close" {
				continue // len, cap ...
			}
			out = append(out, p.expandCleanup(x, depth+1)...)
			n++
		case *ssa.Go, *ssa.Send, *ssa.Select:
			return []ssa.CallInstruction{c} // more than a clean-up sequence
		}
	}
	if n == 0 {
		return []ssa.CallInstruction{c}
	}
	for _, d := range own {
		out = append(out, p.expandCleanup(d, depth+1)...)
	}
	return out
}

// cleanupOnly: fn is a straight-line helper that is only ever called as an unconditional defer of
// a goroutine entry (directly, or from another such helper): what it does, the entry's defers do.
func (p *Prog) cleanupOnly(fn *ssa.Function, entries map[*ssa.Function]*GoEntry, depth int) *GoEntry {
	if depth > 2 || straightLine(fn) == nil {
		return nil
	}
	sites := p.CallSites(fn)
	if len(sites) == 0 {
		return nil
	}
	var owner *GoEntry
	for _, cs := range sites {
		var e *GoEntry
		parent := cs.Parent()
		if _, isDefer := cs.(*ssa.Defer); isDefer && cs.Block().Index == 0 && entries[parent] != nil {
			e = entries[parent]
		} else if cs.Block() == straightLine(parent) {
			if _, isGo := cs.(*ssa.Go); !isGo {
				e = p.cleanupOnly(parent, entries, depth+1)
			}
		}
		if e == nil || (owner != nil && owner != e) {
			return nil
		}
		owner = e
	}
	return owner
}

func (p *Prog) deferKind(d ssa.CallInstruction) (kind, arg string) {
	cc := d.Common()
	if b, ok := cc.Value.(*ssa.Builtin); ok {
		if b.Name() == "close" {
			return "close", symChanRole(p.Sym(cc.Args[0]))
		}
		return "builtin:" + b.Name(), ""
	}
	if callee := p.Callee(d); callee != nil {
		name := p.funcDisplay(callee)
		switch {
		case strings.HasSuffix(name, "breaker.Breaker).Complete"):
			if _, path, ok := p.Sym(cc.Args[0]).FieldPath(); ok {
				return "complete", path[len(path)-1]
			}
			return "complete", "?"
		case name == "(*sync.WaitGroup).Wait":
			return "wgwait", ""
		case name == "(*sync.WaitGroup).Done":
			return "wgdone", ""
		case name == "(*time.Ticker).Stop":
			return "tickerstop", ""
		}
		if p.IsProduct(callee) {
			return "call", name
		}
		return "ext", name
	}
	// dynamic: cancel func from context.WithCancel
	s := p.Sym(cc.Value)
	if s.Op == "extract" && s.Name == "1" && s.Args[0].Op == "call" && s.Args[0].Name == "context.WithCancel" {
		return "cancel", ""
	}
	return "dyn", s.String()
}

func (p *Prog) describeDefers(order []ssa.CallInstruction) string {
	var parts []string
	for _, d := range order {
		k, a := p.deferKind(d)
		if a != "" {
			k += "(" + a + ")"
		}
		parts = append(parts, k)
	}
	return strings.Join(parts, ", ")
}

// loopCheck decides rule S2/G1-loops for one function: every cycle of the CFG passes through a
// bounded-loop header or an "exit point" accepted by isExit (a block that leaves the SCC when the
// goroutine must end). It returns one message per offending SCC.
func (p *Prog) loopCheck(fn *ssa.Function, exitBlock func(b *ssa.BasicBlock, scc map[*ssa.BasicBlock]bool) bool) (loops int, problems []string) {
	all := blockSet(fn.Blocks)
	var rec func(comp []*ssa.BasicBlock)
	rec = func(comp []*ssa.BasicBlock) {
		loops++
		c := blockSet(comp)
		rest := map[*ssa.BasicBlock]bool{}
		removed := 0
		for _, b := range comp {
			if boundedHeader(b, c) || exitBlock(b, c) {
				removed++
				continue
			}
			rest[b] = true
		}
		if removed == 0 {
			var idx []string
			sort.Slice(comp, func(i, j int) bool { return comp[i].Index < comp[j].Index })
			for _, b := range comp {
				idx = append(idx, fmt.Sprintf("b%d(%s)", b.Index, b.Comment))
			}
			problems = append(problems, fmt.Sprintf("loop at %s {%s} has neither a bounded trip count nor an exit taken on stop/termination", p.InstrPos(comp[0].Instrs[0]), strings.Join(idx, " ")))
			return
		}
		var restList []*ssa.BasicBlock
		for _, b := range comp {
			if rest[b] {
				restList = append(restList, b)
			}
		}
		for _, sub := range sccs(restList, rest) {
			rec(sub)
		}
	}
	for _, comp := range sccs(fn.Blocks, all) {
		rec(comp)
	}
	return
}

// leavesSCC: the successor reached through clause c is outside the SCC.
func caseLeaves(c *SelCase, scc map[*ssa.BasicBlock]bool) bool {
	if c.Body == nil {
		return false
	}
	if !scc[c.Body] {
		return true
	}
	// a flag-conditioned loop (for active := true; active; { select { case <-stop: active = false
	// ... } }): the clause only sets the constant that makes the loop's own test leave
	known := map[ssa.Value]string{}
	cur := c.Body
	for step := 0; step < 4; step++ {
		last := cur.Instrs[len(cur.Instrs)-1]
		if iff, ok := last.(*ssa.If); ok {
			base, neg := condOf(iff.Cond)
			v, okv := known[base]
			if !okv {
				return false
			}
			truth := (v == "true") != neg
			succ := cur.Succs[1]
			if truth {
				succ = cur.Succs[0]
			}
			return !scc[succ]
		}
		if _, ok := last.(*ssa.Jump); !ok || len(cur.Succs) != 1 {
			return false
		}
		// only the clause's own assignments of constants may precede the jump
		for _, in := range cur.Instrs[:len(cur.Instrs)-1] {
			switch in.(type) {
			case *ssa.Phi, *ssa.DebugRef:
			default:
				if cur != c.Body {
					return false
				}
			}
		}
		next := cur.Succs[0]
		pi, cnt := -1, 0
		for k, pb := range next.Preds {
			if pb == cur {
				pi, cnt = k, cnt+1
			}
		}
		if cnt != 1 {
			return false
		}
		upd := map[ssa.Value]string{}
		for _, in := range next.Instrs {
			ph, ok := in.(*ssa.Phi)
			if !ok {
				break
			}
			switch e := ph.Edges[pi].(type) {
			case *ssa.Const:
				if e.Value != nil && e.Value.Kind() == constant.Bool {
					upd[ph] = e.Value.ExactString()
				}
			default:
				if v, okv := known[e]; okv {
					upd[ph] = v
				}
			}
		}
		for k, v := range upd {
			known[k] = v
		}
		cur = next
	}
	return false
}

// helperBounded decides the "joined helper" idiom: a single child goroutine whose only
// potentially blocking operation is a stop call (GracefulStop/Stop) on an owned sub-discipline,
// started by an entry that (a) stops that same sub-discipline in a deferred call which runs
// (b) before the deferred wg.Wait() that joins the child. The sub-discipline's Stop() returns
// only after its goroutine completed all its breakers (its own S4/S8), after which the pending
// stop call of the helper returns too; so the helper ends without any signal of its own.
func (p *Prog) helperBounded(d *Disc, child *GoEntry) (ok bool, detail string) {
	if child.Parent == nil || child.Multi {
		return false, "not a single child goroutine of another entry"
	}
	rt := p.Routine(d, child)
	for _, fn := range rt.Funcs {
		for _, op := range p.BlockingOps(fn) {
			if rt.isSubCall(op.In) {
				continue
			}
			return false, "helper goroutine has a blocking operation of its own (" + op.Kind + " at " + p.InstrPos(op.In) + ")"
		}
		if comps := sccs(fn.Blocks, blockSet(fn.Blocks)); len(comps) > 0 {
			return false, "helper goroutine loops"
		}
	}
	fields := map[string]bool{}
	for _, sc := range rt.SubCalls {
		callee := p.Callee(sc)
		switch callee.Name() {
		case "GracefulStop", "Stop":
		case "Err", "Output":
			continue
		default:
			return false, "helper goroutine calls " + callee.Name() + " on a sub-discipline"
		}
		_, path, okp := p.Sym(sc.Common().Args[0]).FieldPath()
		if !okp {
			return false, "UNDECIDED: receiver of the sub-discipline call is not a field of the struct"
		}
		fields[path[len(path)-1]] = true
	}
	if len(fields) == 0 {
		return true, "helper goroutine never blocks"
	}
	order, okd := p.CleanupOrder(child.Parent.Entry)
	if !okd {
		return false, "UNDECIDED: conditional defer in the spawning entry"
	}
	wait := -1
	stopped := map[string]int{}
	for i, df := range order {
		k, a := p.deferKind(df)
		if k == "wgwait" && wait < 0 {
			wait = i
		}
		if k == "call" && strings.HasSuffix(a, ".Stop") {
			if _, path, okp := p.Sym(df.Common().Args[0]).FieldPath(); okp {
				if _, seen := stopped[path[len(path)-1]]; !seen {
					stopped[path[len(path)-1]] = i
				}
			}
		}
	}
	if wait < 0 {
		return false, "the spawning entry never joins the helper (no deferred wg.Wait)"
	}
	for f := range fields {
		i, oks := stopped[f]
		if !oks {
			return false, "the spawning entry never stops sub-discipline " + f + " the helper waits for"
		}
		if i > wait {
			return false, "the spawning entry joins the helper before it stops sub-discipline " + f + ": the helper's pending stop call has no reason to return"
		}
	}
	return true, "the spawning entry's deferred Stop() of the same sub-discipline runs before its wg.Wait(): the helper's pending stop call returns once that discipline has completed (run order: " + p.describeDefers(order) + ")"
}

// routineBlocks: the blocks of every function the goroutine runs (entry and helpers it calls).
func (rt *Routine) routineBlocks() []*ssa.BasicBlock {
	var out []*ssa.BasicBlock
	for _, fn := range rt.Funcs {
		out = append(out, fn.Blocks...)
	}
	return out
}
