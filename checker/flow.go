package main

import (
	"fmt"
	"go/constant"
	"go/token"
	"go/types"
	"sort"
	"strings"

	"golang.org/x/tools/go/ssa"
)

// Frame is one activation in the (acyclic) inlined call tree explored by Flow.
type Frame struct {
	Fn     *ssa.Function
	Site   ssa.CallInstruction
	Parent *Frame
	key    string
	// for a call through a function value (a bound method handed on as an argument): the
	// effective arguments, parallel to Fn.Params, and the frame each of them lives in
	Args  []ssa.Value
	ArgFr []*Frame
}

// Arg returns the argument bound to parameter idx of this activation and the frame it lives in.
func (fr *Frame) Arg(idx int) (ssa.Value, *Frame, bool) {
	if fr == nil || fr.Site == nil || fr.Parent == nil || idx < 0 {
		return nil, nil, false
	}
	if fr.Args != nil {
		if idx >= len(fr.Args) {
			return nil, nil, false
		}
		return fr.Args[idx], fr.ArgFr[idx], true
	}
	args := fr.Site.Common().Args
	if idx >= len(args) {
		return nil, nil, false
	}
	return args[idx], fr.Parent, true
}

func (fr *Frame) Key() string { return fr.key }

// Chain renders the call chain for diagnostics: entry -> ... -> fn.
func (fr *Frame) Chain(p *Prog) string {
	var parts []string
	for f := fr; f != nil; f = f.Parent {
		parts = append([]string{strings.TrimPrefix(p.FnKey(f.Fn), p.Name+":")}, parts...)
	}
	return strings.Join(parts, " -> ")
}

// Resolve maps a parameter of the current activation to the caller's argument (transitively).
func (fr *Frame) Resolve(v ssa.Value) (ssa.Value, *Frame) {
	for {
		par, ok := v.(*ssa.Parameter)
		if !ok || fr.Site == nil || fr.Parent == nil {
			return v, fr
		}
		idx := -1
		for i, q := range fr.Fn.Params {
			if q == par {
				idx = i
			}
		}
		a, afr, okA := fr.Arg(idx)
		if !okA {
			return v, fr
		}
		v, fr = a, afr
		// look through instantiation changetype
		if ct, ok := v.(*ssa.ChangeType); ok {
			v = ct.X
		}
	}
}

// Flow is a forward typestate dataflow over the SSA CFG with inlining of product callees.
// Rule states are strings; the engine adds the stack of registered defers to each state.
type Flow struct {
	P *Prog
	// Instr: transfer for one instruction (calls included when not descended). nil result = unchanged.
	Instr func(fr *Frame, st string, in ssa.Instruction) []string
	// Edge: transfer along from->Succs[succ]; nil = unchanged; empty non-nil = edge infeasible.
	Edge func(fr *Frame, st string, from *ssa.BasicBlock, succ int) []string
	// Call: consulted for each call (deferred=true when it runs from rundefers).
	// handled=true: use out, do not descend.
	Call func(fr *Frame, st string, c ssa.CallInstruction, deferred bool) (bool, []string)
	// AfterCall: called after a descended call returned, for each exit state.
	AfterCall func(fr *Frame, st string, c ssa.CallInstruction, callee *ssa.Function) []string
	// Exit: at each return of a function (after its defers ran).
	Exit func(fr *Frame, st string, ret *ssa.Return) []string
	// ContextInsensitive: memoise summaries per function only (no Resolve needed by the rule).
	ContextInsensitive bool
	// TrackBoolReturns: constant boolean results of inlined calls decide the If that tests them.
	TrackBoolReturns bool
	// RunDefersHook: consulted when a function is about to run its deferred calls.
	RunDefersHook func(fr *Frame, st string, in *ssa.RunDefers) []string

	memo    map[string][]string
	Visited map[*ssa.Function]bool
	Seen    map[string]bool // every rule state that occurred at some program point
	Steps   int
	Err     error
}

const deferSep = "\x00"
const retSep = "\x01"

// engine state = rule state, stack of registered defers, known boolean results of calls
type est struct{ st, defers, facts string }

func (e est) enc() string { return e.st + deferSep + e.defers + deferSep + e.facts }

func dec(s string) est {
	parts := strings.SplitN(s, deferSep, 3)
	for len(parts) < 3 {
		parts = append(parts, "")
	}
	return est{parts[0], parts[1], parts[2]}
}

func uniq(xs []string) []string {
	if len(xs) < 2 {
		return xs
	}
	m := map[string]bool{}
	var out []string
	for _, x := range xs {
		if !m[x] {
			m[x] = true
			out = append(out, x)
		}
	}
	sort.Strings(out)
	return out
}

func instrID(in ssa.Instruction) string {
	b := in.Block()
	for i, x := range b.Instrs {
		if x == in {
			return fmt.Sprintf("%d.%d", b.Index, i)
		}
	}
	return fmt.Sprintf("%d.?", b.Index)
}

// setFacts replaces the facts about call id with the returned constants encoded in rets ("0=true,1=false").
func setFacts(facts, id, rets string) string {
	var keep []string
	for _, f := range strings.Split(facts, ",") {
		if f != "" && !strings.HasPrefix(f, id+":") {
			keep = append(keep, f)
		}
	}
	for _, r := range strings.Split(rets, ",") {
		if r != "" {
			keep = append(keep, id+":"+r)
		}
	}
	sort.Strings(keep)
	return strings.Join(keep, ",")
}

func factOf(facts, id string, idx int) (val string, ok bool) {
	pre := fmt.Sprintf("%s:%d=", id, idx)
	for _, f := range strings.Split(facts, ",") {
		if strings.HasPrefix(f, pre) {
			return f[len(pre):], true
		}
	}
	return "", false
}

// Run analyses fn from the given rule states and returns the rule states at its returns.
func (f *Flow) Run(fn *ssa.Function, in []string) []string {
	if f.memo == nil {
		f.memo = map[string][]string{}
		f.Visited = map[*ssa.Function]bool{}
		f.Seen = map[string]bool{}
	}
	root := &Frame{Fn: fn, key: f.P.FnKey(fn)}
	var out []string
	for _, st := range uniq(in) {
		for _, o := range f.runOne(root, st) {
			out = append(out, strings.SplitN(o, retSep, 2)[0])
		}
	}
	return uniq(out)
}

// runOne returns exit states encoded as  st + retSep + "idx=val,..." (constant boolean results).
func (f *Flow) runOne(fr *Frame, st0 string) []string {
	for a := fr.Parent; a != nil; a = a.Parent {
		if a.Fn == fr.Fn {
			f.Err = fmt.Errorf("UNDECIDED: recursion through %s", f.P.FnKey(fr.Fn))
			return nil
		}
	}
	mk := fr.key + "|" + st0
	if f.ContextInsensitive {
		mk = f.P.FnKey(fr.Fn) + "|" + st0
	}
	if r, ok := f.memo[mk]; ok {
		return r
	}
	f.memo[mk] = nil
	f.Visited[fr.Fn] = true
	fn := fr.Fn
	deferID := map[*ssa.Defer]string{}
	deferByID := map[string]*ssa.Defer{}
	for _, b := range fn.Blocks {
		for i, in := range b.Instrs {
			if d, ok := in.(*ssa.Defer); ok {
				id := fmt.Sprintf("%d.%d", b.Index, i)
				deferID[d] = id
				deferByID[id] = d
			}
		}
	}
	seen := make([]map[string]bool, len(fn.Blocks))
	pending := make([][]string, len(fn.Blocks))
	for i := range seen {
		seen[i] = map[string]bool{}
	}
	var exits []string
	work := []int{0}
	e0 := est{st: st0}.enc()
	seen[0][e0] = true
	pending[0] = []string{e0}
	f.Seen[st0] = true
	apply := func(e est, outs []string) []string {
		var r []string
		for _, o := range outs {
			r = append(r, est{o, e.defers, e.facts}.enc())
		}
		return r
	}
	for len(work) > 0 {
		bi := work[0]
		work = work[1:]
		states := pending[bi]
		pending[bi] = nil
		if len(states) == 0 {
			continue
		}
		b := fn.Blocks[bi]
		cur := states
		terminated := false
		for _, in := range b.Instrs {
			f.Steps++
			if f.Steps > 20_000_000 {
				f.Err = fmt.Errorf("UNDECIDED: analysis budget exceeded in %s", f.P.FnKey(fn))
				return nil
			}
			var next []string
			switch in := in.(type) {
			case *ssa.Defer:
				for _, es := range cur {
					e := dec(es)
					outs := []string{e.st}
					if f.Instr != nil {
						if r := f.Instr(fr, e.st, in); r != nil {
							outs = r
						}
					}
					nd := e.defers
					// a defer statement inside a loop is recorded once (the analysis does not count
					// how often the deferred call will run)
					if !strings.Contains(","+nd+",", ","+deferID[in]+",") {
						if nd != "" {
							nd += ","
						}
						nd += deferID[in]
					}
					for _, o := range outs {
						next = append(next, est{o, nd, e.facts}.enc())
					}
				}
			case *ssa.RunDefers:
				for _, es := range cur {
					e := dec(es)
					sts := []string{e.st}
					if f.RunDefersHook != nil {
						if r := f.RunDefersHook(fr, e.st, in); r != nil {
							sts = uniq(r)
						}
					}
					if e.defers != "" {
						ids := strings.Split(e.defers, ",")
						for i := len(ids) - 1; i >= 0; i-- {
							d := deferByID[ids[i]]
							var nsts []string
							for _, s := range sts {
								for _, o := range f.doCall(fr, s, d, true, e.facts) {
									nsts = append(nsts, strings.SplitN(o, retSep, 2)[0])
								}
							}
							sts = uniq(nsts)
						}
					}
					for _, s := range sts {
						next = append(next, est{s, "", e.facts}.enc())
					}
				}
			case *ssa.Call:
				id := instrID(in)
				for _, es := range cur {
					e := dec(es)
					for _, o := range f.doCall(fr, e.st, in, false, e.facts) {
						parts := strings.SplitN(o, retSep, 2)
						facts := e.facts
						if f.TrackBoolReturns {
							rets := ""
							if len(parts) == 2 {
								rets = parts[1]
							}
							facts = setFacts(facts, id, rets)
						}
						next = append(next, est{parts[0], e.defers, facts}.enc())
					}
				}
			case *ssa.Return:
				// facts about returned values: boolean constants, nil / non-nil errors, and
				// facts passed through from inner calls; they depend on the facts of each state
				retsFor := func(facts string) string {
					if !f.TrackBoolReturns {
						return ""
					}
					var rs []string
					for i, v := range returnedValues(in) {
						if c, ok := v.(*ssa.Const); ok {
							if c.Value == nil {
								rs = append(rs, fmt.Sprintf("%d=nil", i))
							} else if c.Value.Kind() == constant.Bool {
								rs = append(rs, fmt.Sprintf("%d=%s", i, c.Value.ExactString()))
							}
							continue
						}
						if ld, ok := v.(*ssa.UnOp); ok && ld.Op == token.MUL {
							// package-level error variables are initialised by the package
							// initialiser and never written again (C20/H3)
							if g, isG := ld.X.(*ssa.Global); isG && typeShort(ld.Type()) == "error" && strings.HasPrefix(g.Name(), "Err") {
								rs = append(rs, fmt.Sprintf("%d=nonnil", i))
								continue
							}
						}
						if id, idx, ok := callResultOf(v, fn); ok {
							if val, ok := factOf(facts, id, idx); ok {
								rs = append(rs, fmt.Sprintf("%d=%s", i, val))
								continue
							}
						}
						for _, e := range DomEdges(b) {
							iff := e.From.Instrs[len(e.From.Instrs)-1].(*ssa.If)
							base, neg := condOf(iff.Cond)
							if bo, ok := base.(*ssa.BinOp); ok && bo.X == v && isNilConst(bo.Y) && (bo.Op == token.NEQ || bo.Op == token.EQL) {
								nonnil := (bo.Op == token.NEQ) == ((e.Succ == 0) != neg)
								if nonnil {
									rs = append(rs, fmt.Sprintf("%d=nonnil", i))
								} else {
									rs = append(rs, fmt.Sprintf("%d=nil", i))
								}
								break
							}
						}
					}
					return strings.Join(rs, ",")
				}
				for _, es := range cur {
					e := dec(es)
					outs := []string{e.st}
					if f.Exit != nil {
						if r := f.Exit(fr, e.st, in); r != nil {
							outs = r
						}
					}
					for _, o := range outs {
						exits = append(exits, o+retSep+retsFor(e.facts))
					}
				}
				terminated = true
			case *ssa.Panic:
				terminated = true
			case *ssa.If, *ssa.Jump:
				next = cur
			default:
				for _, es := range cur {
					e := dec(es)
					outs := []string{e.st}
					if f.Instr != nil {
						if r := f.Instr(fr, e.st, in); r != nil {
							outs = r
						}
					}
					next = append(next, apply(e, outs)...)
				}
			}
			if terminated {
				break
			}
			cur = uniq(next)
			for _, es := range cur {
				f.Seen[dec(es).st] = true
			}
			if len(cur) == 0 {
				break
			}
		}
		if terminated || len(cur) == 0 {
			continue
		}
		// facts about call results may decide an If
		var factCall string
		factIdx, factNeg, haveCond, nilTest, nilOpNeq := 0, false, false, false, false
		if f.TrackBoolReturns && len(b.Succs) == 2 {
			if iff, ok := b.Instrs[len(b.Instrs)-1].(*ssa.If); ok {
				base, neg := condOf(iff.Cond)
				if id, idx, ok := callResultOf(base, fn); ok {
					factCall, factIdx, factNeg, haveCond = id, idx, neg, true
				} else if bo, ok := base.(*ssa.BinOp); ok && isNilConst(bo.Y) && (bo.Op == token.NEQ || bo.Op == token.EQL) {
					if id, idx, ok := callResultOf(bo.X, fn); ok {
						factCall, factIdx, factNeg, haveCond, nilTest, nilOpNeq = id, idx, neg, true, true, bo.Op == token.NEQ
					}
				}
			}
		}
		for si, succ := range b.Succs {
			for _, es := range cur {
				e := dec(es)
				if haveCond {
					if v, ok := factOf(e.facts, factCall, factIdx); ok {
						known := true
						truth := false
						switch {
						case !nilTest && (v == "true" || v == "false"):
							truth = (v == "true") != factNeg
						case nilTest && (v == "nil" || v == "nonnil"):
							truth = ((v == "nonnil") == nilOpNeq) != factNeg
						default:
							known = false
						}
						if known && truth != (si == 0) {
							continue
						}
					}
				}
				outs := []string{e.st}
				if f.Edge != nil {
					if r := f.Edge(fr, e.st, b, si); r != nil {
						outs = r
					}
				}
				efacts := e.facts
				if f.TrackBoolReturns {
					efacts = phiValueFacts(e.facts, b, succ, fn)
				}
				for _, x := range succ.Instrs {
					// which alternative of a function-valued phi this path selects (run := dsc.loop;
					// if untimed { run = dsc.loopUntimeouted }; run())
					ph, isPhi := x.(*ssa.Phi)
					if !isPhi {
						break
					}
					if _, isSig := ph.Type().Underlying().(*types.Signature); !isSig {
						continue
					}
					pi, cnt := -1, 0
					for k, pb := range succ.Preds {
						if pb == b {
							pi = k
							cnt++
						}
					}
					if cnt == 1 {
						efacts = setFacts(efacts, "phi"+instrID(ph), fmt.Sprintf("0=%d", pi))
					}
				}
				for _, o := range outs {
					ne := est{o, e.defers, efacts}.enc()
					if !seen[succ.Index][ne] {
						seen[succ.Index][ne] = true
						f.Seen[o] = true
						pending[succ.Index] = append(pending[succ.Index], ne)
						work = append(work, succ.Index)
					}
				}
			}
		}
	}
	exits = uniq(exits)
	f.memo[mk] = exits
	return exits
}

// doCall returns states encoded as st [+ retSep + rets].
func (f *Flow) doCall(fr *Frame, st string, c ssa.CallInstruction, deferred bool, facts string) []string {
	if f.Call != nil {
		if handled, out := f.Call(fr, st, c, deferred); handled {
			if out == nil {
				return []string{st} // handled, state unchanged (an empty non-nil result means infeasible)
			}
			return out
		}
	}
	callee := f.P.Callee(c)
	var targets []FnTarget
	if callee != nil && f.P.IsProduct(callee) {
		targets = []FnTarget{{Fn: callee}}
	} else {
		targets = f.P.funcValueTargetsChoice(fr, c, func(ph *ssa.Phi) (int, bool) {
			if ph.Parent() != fr.Fn {
				return 0, false
			}
			if v, ok := factOf(facts, "phi"+instrID(ph), 0); ok {
				var k int
				if _, err := fmt.Sscanf(v, "%d", &k); err == nil {
					return k, true
				}
			}
			return 0, false
		})
	}
	if len(targets) > 0 {
		var all []string
		for _, t := range targets {
			callee := t.Fn
			child := &Frame{Fn: callee, Site: c, Parent: fr, key: fr.key + ">" + f.P.InstrPos(c) + ":" + f.P.FnKey(callee), Args: t.Args, ArgFr: t.ArgFr}
			outs := f.runOne(child, st)
			if f.AfterCall != nil {
				var n []string
				for _, o := range outs {
					parts := strings.SplitN(o, retSep, 2)
					tail := ""
					if len(parts) == 2 {
						tail = retSep + parts[1]
					}
					if r := f.AfterCall(fr, parts[0], c, callee); r != nil {
						for _, x := range r {
							n = append(n, x+tail)
						}
					} else {
						n = append(n, o)
					}
				}
				outs = uniq(n)
			}
			all = append(all, outs...)
		}
		return uniq(all)
	}
	if f.Instr != nil {
		if r := f.Instr(fr, st, c); r != nil {
			return r
		}
	}
	return []string{st}
}

// FnTarget is one product function a call through a function value may run, with the arguments
// its parameters receive (a bound method gets its receiver from the closure) and their frames.
type FnTarget struct {
	Fn    *ssa.Function
	Args  []ssa.Value
	ArgFr []*Frame
}

// funcValueTarget: the single target of a call through a function value (see funcValueTargets).
func (p *Prog) funcValueTarget(fr *Frame, c ssa.CallInstruction) (*ssa.Function, []ssa.Value, []*Frame) {
	ts := p.funcValueTargets(fr, c)
	if len(ts) != 1 {
		return nil, nil, nil
	}
	return ts[0].Fn, ts[0].Args, ts[0].ArgFr
}

// funcValueTargets resolves a call through a function value - one that reached the current
// activation as an argument (loop(dsc.process, dsc.pass) ... handle(item)), a method value held
// in a local (delay := dsc.delay), or one of several chosen by a branch (transfer := dsc.iou;
// if buffered { transfer = dsc.io }): the product functions behind it. nil when any alternative
// is not a product function.
func (p *Prog) funcValueTargets(fr *Frame, c ssa.CallInstruction) []FnTarget {
	return p.funcValueTargetsChoice(fr, c, nil)
}

// funcValueTargetsChoice: choice, when given, tells which edge of a phi the current path took.
func (p *Prog) funcValueTargetsChoice(fr *Frame, c ssa.CallInstruction, choice func(ph *ssa.Phi) (int, bool)) []FnTarget {
	cc := c.Common()
	if cc.IsInvoke() {
		return nil
	}
	if _, isB := cc.Value.(*ssa.Builtin); isB {
		return nil
	}
	if _, isFn := cc.Value.(*ssa.Function); isFn {
		return nil // a static call
	}
	v, vfr := cc.Value, fr
	if fr != nil {
		v, vfr = fr.Resolve(cc.Value)
	}
	if par, isPar := v.(*ssa.Parameter); isPar {
		// the analysis started below the function that handed the value in: take it from the
		// call sites when they all pass the same function
		if obj, _ := par.Parent().Object().(*types.Func); obj != nil && !obj.Exported() {
			idx := paramIndex(par.Parent(), par)
			var pick ssa.Value
			key := ""
			for _, cs := range p.CallSites(p.Norm(par.Parent())) {
				args := cs.Common().Args
				if idx < 0 || idx >= len(args) {
					return nil
				}
				k := p.Sym(args[idx]).String()
				if pick != nil && k != key {
					return nil
				}
				pick, key = args[idx], k
			}
			if pick != nil {
				v, vfr = pick, nil
			}
		}
	}
	own := func(first ssa.Value, firstFr *Frame) ([]ssa.Value, []*Frame) {
		var args []ssa.Value
		var frs []*Frame
		if first != nil {
			args, frs = append(args, first), append(frs, firstFr)
		}
		for _, a := range cc.Args {
			args, frs = append(args, a), append(frs, fr)
		}
		return args, frs
	}
	var out []FnTarget
	seen := map[ssa.Value]bool{}
	var add func(v ssa.Value, depth int) bool
	add = func(v ssa.Value, depth int) bool {
		if seen[v] {
			return true
		}
		seen[v] = true
		if depth > 3 {
			return false
		}
		switch x := v.(type) {
		case *ssa.Function:
			if g := p.Norm(x); p.IsProduct(g) {
				args, frs := own(nil, nil)
				out = append(out, FnTarget{g, args, frs})
				return true
			}
		case *ssa.MakeClosure:
			fn, _ := x.Fn.(*ssa.Function)
			if t := p.wrapperTarget(fn); t != nil && len(x.Bindings) == 1 && p.IsProduct(t) {
				args, frs := own(x.Bindings[0], vfr)
				out = append(out, FnTarget{t, args, frs})
				return true
			}
			if fn != nil && fn.Synthetic == "" && len(fn.FreeVars) == 0 && p.IsProduct(p.Norm(fn)) {
				args, frs := own(nil, nil)
				out = append(out, FnTarget{p.Norm(fn), args, frs})
				return true
			}
		case *ssa.Phi:
			if choice != nil {
				if k, ok := choice(x); ok && k >= 0 && k < len(x.Edges) {
					return add(x.Edges[k], depth+1)
				}
			}
			for _, e := range x.Edges {
				if !add(e, depth+1) {
					return false
				}
			}
			return len(x.Edges) > 0
		case *ssa.ChangeType:
			return add(x.X, depth+1)
		}
		return false
	}
	if !add(v, 0) {
		return nil
	}
	return out
}

// ---- call graph utilities ----

// Reach returns all product functions reachable from entry through static calls
// (including deferred calls, closures created, but not `go` targets).
func (p *Prog) Reach(entries ...*ssa.Function) map[*ssa.Function]bool {
	seen := map[*ssa.Function]bool{}
	var visit func(fn *ssa.Function)
	visit = func(fn *ssa.Function) {
		fn = p.Norm(fn)
		if fn == nil || seen[fn] || !p.IsProduct(fn) {
			return
		}
		seen[fn] = true
		for _, b := range fn.Blocks {
			for _, in := range b.Instrs {
				switch in := in.(type) {
				case *ssa.Go:
					continue
				case ssa.CallInstruction:
					if c := p.Callee(in); c != nil {
						visit(c)
					}
				case *ssa.MakeClosure:
					if cf, ok := in.Fn.(*ssa.Function); ok && !isGoOnlyClosure(cf) {
						if t := p.wrapperTarget(cf); t != nil {
							cf = t // a method value: the method may be called through it
						}
						visit(cf)
					}
				}
			}
		}
	}
	for _, e := range entries {
		visit(e)
	}
	return seen
}

// Callers: map callee -> call sites in product code.
func (p *Prog) CallSites(callee *ssa.Function) []ssa.CallInstruction {
	var out []ssa.CallInstruction
	for _, fn := range p.Funcs() {
		for _, b := range fn.Blocks {
			for _, in := range b.Instrs {
				if c, ok := in.(ssa.CallInstruction); ok {
					if p.Callee(c) == callee {
						out = append(out, c)
					}
				}
			}
		}
	}
	return out
}

// CalleeX: the static callee, or the product function behind a method value / function-typed
// parameter when that can be resolved (see funcValueTarget).
func (p *Prog) CalleeX(c ssa.CallInstruction) *ssa.Function {
	cal := p.Callee(c)
	if cal == nil || !p.IsProduct(cal) {
		if t, _, _ := p.funcValueTarget(nil, c); t != nil {
			return t
		}
	}
	return cal
}

// SiteArgs is a call of a function together with the arguments its parameters receive there.
type SiteArgs struct {
	Call ssa.CallInstruction
	Args []ssa.Value
}

// CallSitesX: the static call sites of callee and the calls that reach it through a method value
// or a function-typed parameter (delay := dsc.delay; delay(d)); Args are aligned with
// callee.Params (a bound method's receiver comes from the closure).
func (p *Prog) CallSitesX(callee *ssa.Function) []SiteArgs {
	var out []SiteArgs
	for _, fn := range p.Funcs() {
		for _, b := range fn.Blocks {
			for _, in := range b.Instrs {
				c, ok := in.(ssa.CallInstruction)
				if !ok {
					continue
				}
				if p.Callee(c) == callee {
					out = append(out, SiteArgs{c, c.Common().Args})
					continue
				}
				if _, isGo := c.(*ssa.Go); isGo {
					continue
				}
				for _, t := range p.funcValueTargets(nil, c) {
					if t.Fn == callee {
						out = append(out, SiteArgs{c, t.Args})
					}
				}
			}
		}
	}
	return out
}

// GoStmts lists all go statements in product code.
func (p *Prog) GoStmts() []*ssa.Go {
	var out []*ssa.Go
	for _, fn := range p.Funcs() {
		for _, b := range fn.Blocks {
			for _, in := range b.Instrs {
				if g, ok := in.(*ssa.Go); ok {
					out = append(out, g)
				}
			}
		}
	}
	return out
}

// EachInstr visits every instruction of every function in fns (sorted order).
func (p *Prog) EachInstr(fns map[*ssa.Function]bool, visit func(fn *ssa.Function, in ssa.Instruction)) {
	var list []*ssa.Function
	for f := range fns {
		list = append(list, f)
	}
	sort.Slice(list, func(i, j int) bool { return p.FnKey(list[i]) < p.FnKey(list[j]) })
	for _, fn := range list {
		for _, b := range fn.Blocks {
			for _, in := range b.Instrs {
				visit(fn, in)
			}
		}
	}
}

func (p *Prog) AllFuncSet() map[*ssa.Function]bool {
	m := map[*ssa.Function]bool{}
	for _, f := range p.Funcs() {
		m[f] = true
	}
	return m
}

func (f *Flow) sawState(s string) bool { return f.Seen[s] }

// callResultOf: v is the value (or extracted component) of a call made in fn.
func callResultOf(v ssa.Value, fn *ssa.Function) (id string, idx int, ok bool) {
	switch x := v.(type) {
	case *ssa.Phi:
		// a boolean / error variable assigned from calls on several paths (proceed, err :=
		// calc(); for err == nil && !proceed { ...; proceed, err = calc() }): what is known about
		// it is what was known about the value that came in over the edge taken (phiValueFacts)
		if x.Parent() == fn {
			return "vphi" + instrID(x), 0, true
		}
	case *ssa.Call:
		if x.Parent() == fn {
			return instrID(x), 0, true
		}
	case *ssa.Extract:
		if c, isCall := x.Tuple.(*ssa.Call); isCall && c.Parent() == fn {
			return instrID(c), x.Index, true
		}
	}
	return "", 0, false
}

// phiValueFacts: facts about the boolean / error phis of succ when it is entered from b - the
// constant that comes in over this edge, or what is known about the call result (or earlier phi)
// that does. All phis of a block are assigned at once, from the facts before the edge.
func phiValueFacts(facts string, b, succ *ssa.BasicBlock, fn *ssa.Function) string {
	pi, cnt := -1, 0
	for k, pb := range succ.Preds {
		if pb == b {
			pi = k
			cnt++
		}
	}
	type upd struct{ id, val string }
	var upds []upd
	for _, x := range succ.Instrs {
		ph, isPhi := x.(*ssa.Phi)
		if !isPhi {
			break
		}
		isBool := false
		if bt, ok := ph.Type().Underlying().(*types.Basic); ok && bt.Kind() == types.Bool {
			isBool = true
		}
		if !isBool && typeShort(ph.Type()) != "error" {
			continue
		}
		val := ""
		if cnt == 1 {
			switch in := ph.Edges[pi].(type) {
			case *ssa.Const:
				if in.Value == nil {
					val = "0=nil"
				} else if in.Value.Kind() == constant.Bool {
					val = "0=" + in.Value.ExactString()
				}
			default:
				if id, idx, ok := callResultOf(in, fn); ok {
					if v, ok := factOf(facts, id, idx); ok {
						val = "0=" + v
					}
				}
			}
		}
		upds = append(upds, upd{"vphi" + instrID(ph), val})
	}
	for _, u := range upds {
		facts = setFacts(facts, u.id, u.val)
	}
	return facts
}
