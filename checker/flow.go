package main

import (
	"fmt"
	"sort"
	"strings"

	"golang.org/x/tools/go/ssa"
)

// Frame is one activation in the (acyclic) inlined call tree explored by Flow.
type Frame struct {
	Fn     *ssa.Function
	Site   ssa.CallInstruction
	Parent *Frame
	key    string
}

func (fr *Frame) Key() string { return fr.key }

// Chain renders the call chain for diagnostics: entry -> ... -> fn.
func (fr *Frame) Chain(p *Prog) string {
	var parts []string
	for f := fr; f != nil; f = f.Parent {
		parts = append([]string{strings.TrimPrefix(p.FnKey(f.Fn), p.Name+":")}, parts...)
	}
	return strings.Join(parts, " -> ")
}

// Resolve maps a parameter of the current activation to the caller's argument (transitively).
func (fr *Frame) Resolve(v ssa.Value) (ssa.Value, *Frame) {
	for {
		par, ok := v.(*ssa.Parameter)
		if !ok || fr.Site == nil || fr.Parent == nil {
			return v, fr
		}
		idx := -1
		for i, q := range fr.Fn.Params {
			if q == par {
				idx = i
			}
		}
		args := fr.Site.Common().Args
		if idx < 0 || idx >= len(args) {
			return v, fr
		}
		v = args[idx]
		fr = fr.Parent
		// look through instantiation changetype
		if ct, ok := v.(*ssa.ChangeType); ok {
			v = ct.X
		}
	}
}

// Flow is a forward typestate dataflow over the SSA CFG with inlining of product callees.
// Rule states are strings; the engine adds the stack of registered defers to each state.
type Flow struct {
	P *Prog
	// Instr: transfer for one instruction (calls included when not descended). nil result = unchanged.
	Instr func(fr *Frame, st string, in ssa.Instruction) []string
	// Edge: transfer along from->Succs[succ]; nil = unchanged; empty non-nil = edge infeasible.
	Edge func(fr *Frame, st string, from *ssa.BasicBlock, succ int) []string
	// Call: consulted for each call (deferred=true when it runs from rundefers).
	// handled=true: use out, do not descend.
	Call func(fr *Frame, st string, c ssa.CallInstruction, deferred bool) (bool, []string)
	// AfterCall: called after a descended call returned, for each exit state.
	AfterCall func(fr *Frame, st string, c ssa.CallInstruction, callee *ssa.Function) []string
	// Exit: at each return of a function (after its defers ran).
	Exit func(fr *Frame, st string, ret *ssa.Return) []string
	// ContextInsensitive: memoise summaries per function only (no Resolve needed by the rule).
	ContextInsensitive bool

	memo    map[string][]string
	Visited map[*ssa.Function]bool
	Seen    map[string]bool // every rule state that occurred at some program point
	Steps   int
	Err     error
}

const deferSep = "\x00"

func splitState(es string) (st, defers string) {
	i := strings.Index(es, deferSep)
	if i < 0 {
		return es, ""
	}
	return es[:i], es[i+1:]
}

func uniq(xs []string) []string {
	if len(xs) < 2 {
		return xs
	}
	m := map[string]bool{}
	var out []string
	for _, x := range xs {
		if !m[x] {
			m[x] = true
			out = append(out, x)
		}
	}
	sort.Strings(out)
	return out
}

// Run analyses fn from the given rule states and returns the rule states at its returns.
func (f *Flow) Run(fn *ssa.Function, in []string) []string {
	if f.memo == nil {
		f.memo = map[string][]string{}
		f.Visited = map[*ssa.Function]bool{}
		f.Seen = map[string]bool{}
	}
	root := &Frame{Fn: fn, key: f.P.FnKey(fn)}
	return f.run(root, uniq(in))
}

func (f *Flow) run(fr *Frame, in []string) []string {
	var out []string
	for _, st := range in {
		out = append(out, f.runOne(fr, st)...)
	}
	return uniq(out)
}

func (f *Flow) runOne(fr *Frame, st0 string) []string {
	for a := fr.Parent; a != nil; a = a.Parent {
		if a.Fn == fr.Fn {
			f.Err = fmt.Errorf("UNDECIDED: recursion through %s", f.P.FnKey(fr.Fn))
			return nil
		}
	}
	mk := fr.key + "|" + st0
	if f.ContextInsensitive {
		mk = f.P.FnKey(fr.Fn) + "|" + st0
	}
	if r, ok := f.memo[mk]; ok {
		return r
	}
	f.memo[mk] = nil
	f.Visited[fr.Fn] = true
	fn := fr.Fn
	// defer ids
	deferID := map[*ssa.Defer]string{}
	deferByID := map[string]*ssa.Defer{}
	for _, b := range fn.Blocks {
		for i, in := range b.Instrs {
			if d, ok := in.(*ssa.Defer); ok {
				id := fmt.Sprintf("%d.%d", b.Index, i)
				deferID[d] = id
				deferByID[id] = d
			}
		}
	}
	seen := make([]map[string]bool, len(fn.Blocks))
	pending := make([][]string, len(fn.Blocks))
	for i := range seen {
		seen[i] = map[string]bool{}
	}
	var exits []string
	work := []int{0}
	seen[0][st0+deferSep] = true
	pending[0] = []string{st0 + deferSep}
	for len(work) > 0 {
		bi := work[0]
		work = work[1:]
		states := pending[bi]
		pending[bi] = nil
		if len(states) == 0 {
			continue
		}
		b := fn.Blocks[bi]
		cur := states
		terminated := false
		for _, in := range b.Instrs {
			f.Steps++
			var next []string
			switch in := in.(type) {
			case *ssa.Defer:
				for _, es := range cur {
					st, ds := splitState(es)
					outs := []string{st}
					if f.Instr != nil {
						if r := f.Instr(fr, st, in); r != nil {
							outs = r
						}
					}
					nd := ds
					if nd != "" {
						nd += ","
					}
					nd += deferID[in]
					for _, o := range outs {
						next = append(next, o+deferSep+nd)
					}
				}
			case *ssa.RunDefers:
				for _, es := range cur {
					st, ds := splitState(es)
					sts := []string{st}
					if ds != "" {
						ids := strings.Split(ds, ",")
						for i := len(ids) - 1; i >= 0; i-- {
							d := deferByID[ids[i]]
							var nsts []string
							for _, s := range sts {
								nsts = append(nsts, f.doCall(fr, s, d, true)...)
							}
							sts = uniq(nsts)
						}
					}
					for _, s := range sts {
						next = append(next, s+deferSep)
					}
				}
			case *ssa.Call:
				for _, es := range cur {
					st, ds := splitState(es)
					for _, o := range f.doCall(fr, st, in, false) {
						next = append(next, o+deferSep+ds)
					}
				}
			case *ssa.Return:
				for _, es := range cur {
					st, _ := splitState(es)
					outs := []string{st}
					if f.Exit != nil {
						if r := f.Exit(fr, st, in); r != nil {
							outs = r
						}
					}
					exits = append(exits, outs...)
				}
				terminated = true
			case *ssa.Panic:
				terminated = true
			case *ssa.If, *ssa.Jump:
				next = cur
			default:
				for _, es := range cur {
					st, ds := splitState(es)
					outs := []string{st}
					if f.Instr != nil {
						if r := f.Instr(fr, st, in); r != nil {
							outs = r
						}
					}
					for _, o := range outs {
						next = append(next, o+deferSep+ds)
					}
				}
			}
			if terminated {
				break
			}
			cur = uniq(next)
			for _, es := range cur {
				st, _ := splitState(es)
				f.Seen[st] = true
			}
			if len(cur) == 0 {
				break
			}
		}
		if terminated || len(cur) == 0 {
			continue
		}
		for si, succ := range b.Succs {
			for _, es := range cur {
				st, ds := splitState(es)
				outs := []string{st}
				if f.Edge != nil {
					if r := f.Edge(fr, st, b, si); r != nil {
						outs = r
					}
				}
				for _, o := range outs {
					ne := o + deferSep + ds
					if !seen[succ.Index][ne] {
						seen[succ.Index][ne] = true
						f.Seen[o] = true
						pending[succ.Index] = append(pending[succ.Index], ne)
						work = append(work, succ.Index)
					}
				}
			}
		}
	}
	exits = uniq(exits)
	f.memo[mk] = exits
	return exits
}

func (f *Flow) doCall(fr *Frame, st string, c ssa.CallInstruction, deferred bool) []string {
	if f.Call != nil {
		if handled, out := f.Call(fr, st, c, deferred); handled {
			return out
		}
	}
	callee := f.P.Callee(c)
	if callee != nil && f.P.IsProduct(callee) {
		child := &Frame{Fn: callee, Site: c, Parent: fr, key: fr.key + ">" + f.P.InstrPos(c) + ":" + f.P.FnKey(callee)}
		outs := f.runOne(child, st)
		if f.AfterCall != nil {
			var n []string
			for _, o := range outs {
				if r := f.AfterCall(fr, o, c, callee); r != nil {
					n = append(n, r...)
				} else {
					n = append(n, o)
				}
			}
			outs = uniq(n)
		}
		return outs
	}
	if f.Instr != nil {
		if r := f.Instr(fr, st, c); r != nil {
			return r
		}
	}
	return []string{st}
}

// ---- call graph utilities ----

// Reach returns all product functions reachable from entry through static calls
// (including deferred calls, closures created, but not `go` targets).
func (p *Prog) Reach(entries ...*ssa.Function) map[*ssa.Function]bool {
	seen := map[*ssa.Function]bool{}
	var visit func(fn *ssa.Function)
	visit = func(fn *ssa.Function) {
		fn = p.Norm(fn)
		if fn == nil || seen[fn] || !p.IsProduct(fn) {
			return
		}
		seen[fn] = true
		for _, b := range fn.Blocks {
			for _, in := range b.Instrs {
				switch in := in.(type) {
				case *ssa.Go:
					continue
				case ssa.CallInstruction:
					if c := p.Callee(in); c != nil {
						visit(c)
					}
				case *ssa.MakeClosure:
					if cf, ok := in.Fn.(*ssa.Function); ok {
						visit(cf)
					}
				}
			}
		}
	}
	for _, e := range entries {
		visit(e)
	}
	return seen
}

// Callers: map callee -> call sites in product code.
func (p *Prog) CallSites(callee *ssa.Function) []ssa.CallInstruction {
	var out []ssa.CallInstruction
	for _, fn := range p.Funcs() {
		for _, b := range fn.Blocks {
			for _, in := range b.Instrs {
				if c, ok := in.(ssa.CallInstruction); ok {
					if p.Callee(c) == callee {
						out = append(out, c)
					}
				}
			}
		}
	}
	return out
}

// GoStmts lists all go statements in product code.
func (p *Prog) GoStmts() []*ssa.Go {
	var out []*ssa.Go
	for _, fn := range p.Funcs() {
		for _, b := range fn.Blocks {
			for _, in := range b.Instrs {
				if g, ok := in.(*ssa.Go); ok {
					out = append(out, g)
				}
			}
		}
	}
	return out
}

// EachInstr visits every instruction of every function in fns (sorted order).
func (p *Prog) EachInstr(fns map[*ssa.Function]bool, visit func(fn *ssa.Function, in ssa.Instruction)) {
	var list []*ssa.Function
	for f := range fns {
		list = append(list, f)
	}
	sort.Slice(list, func(i, j int) bool { return p.FnKey(list[i]) < p.FnKey(list[j]) })
	for _, fn := range list {
		for _, b := range fn.Blocks {
			for _, in := range b.Instrs {
				visit(fn, in)
			}
		}
	}
}

func (p *Prog) AllFuncSet() map[*ssa.Function]bool {
	m := map[*ssa.Function]bool{}
	for _, f := range p.Funcs() {
		m[f] = true
	}
	return m
}

func (f *Flow) sawState(s string) bool { return f.Seen[s] }
