package main

import (
	"go/constant"
	"go/token"

	"golang.org/x/tools/go/ssa"
)

// SelCase is one communication clause of a select statement.
type SelCase struct {
	Idx   int
	State *ssa.SelectState
	// edge on which this clause is entered: the If in block From, successor index Succ.
	From *ssa.BasicBlock
	Succ int
	Body *ssa.BasicBlock // From.Succs[Succ]
	// RecvVal is the Extract of the received value (nil if unused or a send clause).
	RecvVal *ssa.Extract
}

type SelInfo struct {
	Sel        *ssa.Select
	Cases      []*SelCase
	HasDefault bool
	// Default edge (only if HasDefault)
	DefFrom *ssa.BasicBlock
	DefSucc int
	OkVal   *ssa.Extract // Extract #1 (comma-ok), shared by all receive clauses
}

// SelectInfo decodes the If-chain the SSA builder emits after a select.
func (p *Prog) SelectInfo(sel *ssa.Select) *SelInfo {
	if si, ok := p.selCache[sel]; ok {
		return si
	}
	si := &SelInfo{Sel: sel, HasDefault: !sel.Blocking}
	var idxVal *ssa.Extract
	recvVals := map[int]*ssa.Extract{}
	for _, r := range *sel.Referrers() {
		if ex, ok := r.(*ssa.Extract); ok {
			switch {
			case ex.Index == 0:
				idxVal = ex
			case ex.Index == 1:
				si.OkVal = ex
			default:
				recvVals[ex.Index] = ex
			}
		}
	}
	// map receive-state ordinal to extract index
	recvOrd := 0
	for i, st := range sel.States {
		c := &SelCase{Idx: i, State: st}
		if st.Dir == 2 /* types.RecvOnly */ {
			c.RecvVal = recvVals[2+recvOrd]
			recvOrd++
		}
		si.Cases = append(si.Cases, c)
	}
	if idxVal != nil {
		found := 0
		var lastIf *ssa.If
		for _, r := range *idxVal.Referrers() {
			bo, ok := r.(*ssa.BinOp)
			if !ok || bo.Op != token.EQL {
				continue
			}
			cst, ok := bo.Y.(*ssa.Const)
			if !ok || cst.Value == nil || cst.Value.Kind() != constant.Int {
				continue
			}
			k, _ := constant.Int64Val(cst.Value)
			for _, rr := range *bo.Referrers() {
				iff, ok := rr.(*ssa.If)
				if !ok {
					continue
				}
				if int(k) >= 0 && int(k) < len(si.Cases) {
					c := si.Cases[int(k)]
					c.From, c.Succ, c.Body = iff.Block(), 0, iff.Block().Succs[0]
					found++
					if int(k) == len(si.Cases)-1 {
						lastIf = iff
					}
				}
			}
		}
		if si.HasDefault && lastIf != nil {
			si.DefFrom, si.DefSucc = lastIf.Block(), 1
		}
	}
	p.selCache[sel] = si
	return si
}

// CaseOnEdge returns the select clause entered when control moves along from->Succs[succ];
// isDefault is true for the default clause.
func (p *Prog) CaseOnEdge(from *ssa.BasicBlock, succ int) (si *SelInfo, c *SelCase, isDefault bool) {
	if len(from.Instrs) == 0 {
		return nil, nil, false
	}
	iff, ok := from.Instrs[len(from.Instrs)-1].(*ssa.If)
	if !ok {
		return nil, nil, false
	}
	bo, ok := iff.Cond.(*ssa.BinOp)
	if !ok || bo.Op != token.EQL {
		return nil, nil, false
	}
	ex, ok := bo.X.(*ssa.Extract)
	if !ok || ex.Index != 0 {
		return nil, nil, false
	}
	sel, ok := ex.Tuple.(*ssa.Select)
	if !ok {
		return nil, nil, false
	}
	si = p.SelectInfo(sel)
	for _, c := range si.Cases {
		if c.From == from && c.Succ == succ {
			return si, c, false
		}
	}
	if si.HasDefault && si.DefFrom == from && si.DefSucc == succ {
		return si, nil, true
	}
	return si, nil, false
}

// Selects lists all select instructions of fn.
func Selects(fn *ssa.Function) []*ssa.Select {
	var out []*ssa.Select
	for _, b := range fn.Blocks {
		for _, in := range b.Instrs {
			if s, ok := in.(*ssa.Select); ok {
				out = append(out, s)
			}
		}
	}
	return out
}
