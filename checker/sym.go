package main

import (
	"fmt"
	"go/constant"
	"go/token"
	"go/types"
	"sort"
	"strings"

	"golang.org/x/tools/go/ssa"
)

// Sym is a canonical symbolic expression for an SSA value, built from use-def chains only
// (nothing is evaluated). Loads of struct fields are rendered as access paths
// ("dsc.opts.Input"); they denote "the current content of that location".
type Sym struct {
	Op   string // param const field index call bin un conv phi recv extract struct global alloc make slice next range closure other
	Name string
	Args []*Sym
	V    ssa.Value
	Keys []string // for struct: field names parallel to Args
}

func (s *Sym) String() string {
	if s == nil {
		return "<nil>"
	}
	switch s.Op {
	case "param", "const", "global", "free":
		return s.Name
	case "field":
		return s.Args[0].String() + "." + s.Name
	case "index":
		return s.Args[0].String() + "[" + s.Args[1].String() + "]"
	case "call":
		var a []string
		for _, x := range s.Args {
			a = append(a, x.String())
		}
		return s.Name + "(" + strings.Join(a, ", ") + ")"
	case "bin":
		return "(" + s.Args[0].String() + " " + s.Name + " " + s.Args[1].String() + ")"
	case "un":
		return s.Name + s.Args[0].String()
	case "conv":
		return s.Name + "(" + s.Args[0].String() + ")"
	case "recv":
		return "<-" + s.Args[0].String() + "#" + s.Name
	case "extract":
		return s.Args[0].String() + "#" + s.Name
	case "struct":
		var a []string
		for i, x := range s.Args {
			a = append(a, s.Keys[i]+": "+x.String())
		}
		return s.Name + "{" + strings.Join(a, ", ") + "}"
	case "slice":
		var a []string
		for _, x := range s.Args[1:] {
			if x == nil {
				a = append(a, "")
			} else {
				a = append(a, x.String())
			}
		}
		return s.Args[0].String() + "[" + strings.Join(a, ":") + "]"
	}
	if len(s.Args) > 0 {
		var a []string
		for _, x := range s.Args {
			a = append(a, x.String())
		}
		return s.Op + ":" + s.Name + "(" + strings.Join(a, ", ") + ")"
	}
	return s.Op + ":" + s.Name
}

// StripConv removes integer/type conversions and ChangeType wrappers.
func (s *Sym) StripConv() *Sym {
	for s != nil && s.Op == "conv" {
		s = s.Args[0]
	}
	return s
}

// Contains reports whether sub's rendering occurs as a subexpression of s.
func (s *Sym) Contains(pred func(*Sym) bool) bool {
	if s == nil {
		return false
	}
	if pred(s) {
		return true
	}
	for _, a := range s.Args {
		if a.Contains(pred) {
			return true
		}
	}
	return false
}

func (p *Prog) Sym(v ssa.Value) *Sym {
	if v == nil {
		return &Sym{Op: "other", Name: "nil"}
	}
	if s, ok := p.symCache[v]; ok {
		if s == nil { // cycle
			return &Sym{Op: "phi", Name: v.Name(), V: v}
		}
		return s
	}
	p.symCache[v] = nil
	s := p.sym(v)
	if s.V == nil {
		s.V = v
	}
	p.symCache[v] = s
	return s
}

func constString(c *ssa.Const) string {
	if c.Value == nil {
		return "nil"
	}
	if c.Value.Kind() == constant.String {
		return c.Value.ExactString()
	}
	return c.Value.ExactString()
}

func typeShort(t types.Type) string {
	return types.TypeString(t, func(p *types.Package) string { return p.Name() })
}

func (p *Prog) calleeName(cc *ssa.CallCommon) string {
	if cc.IsInvoke() {
		return "invoke:" + typeShort(cc.Value.Type()) + "." + cc.Method.Name()
	}
	switch v := cc.Value.(type) {
	case *ssa.Builtin:
		return v.Name()
	case *ssa.Function:
		return p.funcDisplay(v)
	case *ssa.MakeClosure:
		if f, ok := v.Fn.(*ssa.Function); ok {
			return p.funcDisplay(f)
		}
	}
	return "dyn:" + p.Sym(cc.Value).String()
}

// funcDisplay: product functions by FnKey without module prefix, foreign by full name.
func (p *Prog) funcDisplay(f *ssa.Function) string {
	f = p.Norm(f)
	if _, ok := p.Rel(f); ok {
		k := p.FnKey(f)
		return strings.TrimPrefix(k, p.Name+":")
	}
	if obj := f.Object(); obj != nil {
		if fo, ok := obj.(*types.Func); ok {
			return fo.FullName()
		}
	}
	return f.String()
}

func (p *Prog) sym(v ssa.Value) *Sym {
	switch v := v.(type) {
	case *ssa.Parameter:
		if info, ok := p.entryParams()[v]; ok {
			// a value handed to the goroutine with the go statement reads as the field it replaces
			return &Sym{Op: "field", Name: info.role, Args: []*Sym{p.Sym(info.recv)}}
		}
		if u := p.uniformFieldParam(v); u != nil {
			return u
		}
		return &Sym{Op: "param", Name: v.Name()}
	case *ssa.FreeVar:
		return &Sym{Op: "free", Name: v.Name()}
	case *ssa.Const:
		return &Sym{Op: "const", Name: constString(v)}
	case *ssa.Global:
		return &Sym{Op: "global", Name: v.Pkg.Pkg.Name() + "." + v.Name()}
	case *ssa.Function:
		return &Sym{Op: "const", Name: "func:" + p.funcDisplay(v)}
	case *ssa.Builtin:
		return &Sym{Op: "const", Name: "builtin:" + v.Name()}
	case *ssa.FieldAddr:
		if d := p.derivedLoad(v); d != nil {
			return d // a field that caches an option denotes the option (derived.go)
		}
		if isHolderField(v.X.Type(), v.Field) {
			return p.Sym(v.X) // a private struct that only groups fields is transparent (canon.go)
		}
		return &Sym{Op: "field", Name: fieldName(v.X.Type(), v.Field), Args: []*Sym{p.Sym(v.X)}}
	case *ssa.Field:
		if isHolderField(v.X.Type(), v.Field) {
			return p.Sym(v.X)
		}
		return &Sym{Op: "field", Name: fieldName(v.X.Type(), v.Field), Args: []*Sym{p.Sym(v.X)}}
	case *ssa.IndexAddr:
		return &Sym{Op: "index", Args: []*Sym{p.Sym(v.X), p.Sym(v.Index)}}
	case *ssa.Index:
		return &Sym{Op: "index", Args: []*Sym{p.Sym(v.X), p.Sym(v.Index)}}
	case *ssa.Lookup:
		return &Sym{Op: "index", Args: []*Sym{p.Sym(v.X), p.Sym(v.Index)}}
	case *ssa.UnOp:
		switch v.Op {
		case token.MUL:
			return p.symLoad(v)
		case token.ARROW:
			return &Sym{Op: "recv", Name: v.Name() + "@" + p.FnKey(v.Parent()), Args: []*Sym{p.Sym(v.X)}}
		default:
			return &Sym{Op: "un", Name: v.Op.String(), Args: []*Sym{p.Sym(v.X)}}
		}
	case *ssa.BinOp:
		return &Sym{Op: "bin", Name: v.Op.String(), Args: []*Sym{p.Sym(v.X), p.Sym(v.Y)}}
	case *ssa.Convert:
		return &Sym{Op: "conv", Name: typeShort(v.Type()), Args: []*Sym{p.Sym(v.X)}}
	case *ssa.ChangeType:
		switch v.Type().Underlying().(type) {
		case *types.Map, *types.Chan, *types.Slice:
			// a private named map / channel / slice type is the same object under another name
			return p.Sym(v.X)
		}
		return &Sym{Op: "conv", Name: typeShort(v.Type()), Args: []*Sym{p.Sym(v.X)}}
	case *ssa.ChangeInterface:
		return p.Sym(v.X)
	case *ssa.MakeInterface:
		return p.Sym(v.X)
	case *ssa.Call:
		s := &Sym{Op: "call", Name: p.calleeName(&v.Call)}
		if v.Call.IsInvoke() {
			s.Args = append(s.Args, p.Sym(v.Call.Value))
		}
		if strings.HasPrefix(s.Name, "dyn:") {
			// a product method called through a method value (output := dsc.priority.Output ...
			// output()) reads as the call of that method on the bound receiver
			if ts := p.funcValueTargets(nil, v); len(ts) == 1 {
				s.Name = p.funcDisplay(ts[0].Fn)
				for _, a := range ts[0].Args {
					s.Args = append(s.Args, p.Sym(a))
				}
				return s
			}
		}
		for _, a := range v.Call.Args {
			s.Args = append(s.Args, p.Sym(a))
		}
		return s
	case *ssa.Extract:
		return &Sym{Op: "extract", Name: fmt.Sprint(v.Index), Args: []*Sym{p.Sym(v.Tuple)}}
	case *ssa.Phi:
		return &Sym{Op: "phi", Name: v.Name() + "@" + p.FnKey(v.Parent())}
	case *ssa.Alloc:
		n := v.Comment
		if n == "" {
			n = v.Name()
		}
		return &Sym{Op: "alloc", Name: n + "@" + p.FnKey(v.Parent()) + "#" + v.Name()}
	case *ssa.MakeMap:
		return &Sym{Op: "make", Name: "map#" + v.Name() + "@" + p.FnKey(v.Parent())}
	case *ssa.MakeChan:
		return &Sym{Op: "make", Name: "chan#" + v.Name() + "@" + p.FnKey(v.Parent()), Args: []*Sym{p.Sym(v.Size)}}
	case *ssa.MakeSlice:
		return &Sym{Op: "make", Name: "slice#" + v.Name() + "@" + p.FnKey(v.Parent()), Args: []*Sym{p.Sym(v.Len), p.Sym(v.Cap)}}
	case *ssa.MakeClosure:
		return &Sym{Op: "closure", Name: p.funcDisplay(v.Fn.(*ssa.Function))}
	case *ssa.Slice:
		s := &Sym{Op: "slice", Args: []*Sym{p.Sym(v.X), nil, nil, nil}}
		if v.Low != nil {
			s.Args[1] = p.Sym(v.Low)
		}
		if v.High != nil {
			s.Args[2] = p.Sym(v.High)
		}
		if v.Max != nil {
			s.Args[3] = p.Sym(v.Max)
		}
		return s
	case *ssa.Select:
		return &Sym{Op: "select", Name: v.Name() + "@" + p.FnKey(v.Parent())}
	case *ssa.Range:
		return &Sym{Op: "range", Name: v.Name() + "@" + p.FnKey(v.Parent()), Args: []*Sym{p.Sym(v.X)}}
	case *ssa.Next:
		return &Sym{Op: "next", Name: v.Name() + "@" + p.FnKey(v.Parent()), Args: []*Sym{p.Sym(v.Iter)}}
	case *ssa.TypeAssert:
		return &Sym{Op: "conv", Name: "assert:" + typeShort(v.AssertedType), Args: []*Sym{p.Sym(v.X)}}
	}
	return &Sym{Op: "other", Name: fmt.Sprintf("%T:%s", v, v.Name())}
}

func isHolderField(t types.Type, idx int) bool {
	if len(canonHolders) == 0 {
		return false
	}
	if pt, ok := t.Underlying().(*types.Pointer); ok {
		t = pt.Elem()
	}
	nt, ok := t.(*types.Named)
	if !ok {
		return false
	}
	canonMu.Lock()
	defer canonMu.Unlock()
	return canonHolders[canonKey{nt.Origin(), idx}]
}

func fieldName(t types.Type, idx int) string {
	if pt, ok := t.Underlying().(*types.Pointer); ok {
		t = pt.Elem()
	}
	st, ok := t.Underlying().(*types.Struct)
	if !ok || idx >= st.NumFields() {
		return fmt.Sprintf("#%d", idx)
	}
	if len(canonFields) > 0 {
		if nt, isNamed := t.(*types.Named); isNamed {
			if c, ok := canonFields[canonKey{nt.Origin(), idx}]; ok {
				return c
			}
		}
	}
	return st.Field(idx).Name()
}

// symLoad resolves *addr.
func (p *Prog) symLoad(ld *ssa.UnOp) *Sym {
	switch a := ld.X.(type) {
	case *ssa.Alloc:
		if s := p.allocValueAt(a, ld); s != nil {
			return s
		}
		return &Sym{Op: "un", Name: "*", Args: []*Sym{p.Sym(a)}}
	case *ssa.FieldAddr:
		if base, ok := a.X.(*ssa.Alloc); ok {
			// field of a local struct: find latest dominating field store or fall back to the base value's field
			name := fieldName(a.X.Type(), a.Field)
			if s := p.allocFieldAt(base, name, a.Field, ld); s != nil {
				return s
			}
		}
		if d := p.derivedLoad(a); d != nil {
			return d
		}
		return p.Sym(a) // "x.f" denotes content
	case *ssa.IndexAddr:
		return p.Sym(a)
	case *ssa.Global:
		return p.Sym(a)
	}
	return &Sym{Op: "un", Name: "*", Args: []*Sym{p.Sym(ld.X)}}
}

// instrBefore reports whether a executes strictly before b whenever both execute on a
// path reaching b (a dominates b).
func instrDominates(a, b ssa.Instruction) bool {
	if a.Block() == b.Block() {
		for _, x := range a.Block().Instrs {
			if x == a {
				return true
			}
			if x == b {
				return false
			}
		}
		return false
	}
	return a.Block().Dominates(b.Block())
}

type allocStore struct {
	st    *ssa.Store
	field int // -1 whole
}

func allocStores(a *ssa.Alloc) (stores []allocStore, escapes bool) {
	for _, r := range *a.Referrers() {
		switch r := r.(type) {
		case *ssa.Store:
			if r.Addr == a {
				stores = append(stores, allocStore{r, -1})
			} else {
				escapes = true
			}
		case *ssa.FieldAddr:
			for _, rr := range *r.Referrers() {
				switch rr := rr.(type) {
				case *ssa.Store:
					if rr.Addr == r {
						stores = append(stores, allocStore{rr, r.Field})
					} else {
						escapes = true
					}
				case *ssa.UnOp:
				default:
					escapes = true
				}
			}
		case *ssa.UnOp, *ssa.DebugRef:
		case *ssa.MakeClosure:
			// captured by a closure that only reads it: the value at a load in this function is
			// still decided by this function's stores
			readOnly := false
			if cf, ok := r.Fn.(*ssa.Function); ok {
				for i, bnd := range r.Bindings {
					if bnd != ssa.Value(a) || i >= len(cf.FreeVars) {
						continue
					}
					readOnly = true
					for _, fr := range *cf.FreeVars[i].Referrers() {
						switch u := fr.(type) {
						case *ssa.UnOp:
							if u.Op != token.MUL {
								readOnly = false
							}
						case *ssa.DebugRef:
						default:
							readOnly = false
						}
					}
				}
			}
			if !readOnly {
				escapes = true
			}
		default:
			escapes = true
		}
	}
	return
}

// latest store among candidates that dominates `at` and is dominated by all other dominating ones;
// returns nil if some candidate store does not dominate `at` but may still reach it (loop/branch).
func latestDominating(cands []*ssa.Store, at ssa.Instruction) (*ssa.Store, bool) {
	var dom []*ssa.Store
	for _, s := range cands {
		if instrDominates(s, at) {
			dom = append(dom, s)
		} else if s.Block() == at.Block() {
			// a store later in the same block reaches `at` only around a loop
			if blockInLoop(s.Block()) {
				return nil, false
			}
		} else if reaches(s.Block(), at.Block()) {
			return nil, false
		}
	}
	if len(dom) == 0 {
		return nil, true
	}
	best := dom[0]
	for _, s := range dom[1:] {
		if instrDominates(best, s) {
			best = s
		}
	}
	return best, true
}

func reaches(from, to *ssa.BasicBlock) bool {
	seen := map[*ssa.BasicBlock]bool{}
	var dfs func(b *ssa.BasicBlock) bool
	dfs = func(b *ssa.BasicBlock) bool {
		if b == to {
			return true
		}
		if seen[b] {
			return false
		}
		seen[b] = true
		for _, s := range b.Succs {
			if dfs(s) {
				return true
			}
		}
		return false
	}
	for _, s := range from.Succs {
		if dfs(s) {
			return true
		}
	}
	return from == to
}

func (p *Prog) allocValueAt(a *ssa.Alloc, at ssa.Instruction) *Sym {
	stores, esc := allocStores(a)
	if esc {
		return nil
	}
	var whole []*ssa.Store
	fields := map[int][]*ssa.Store{}
	for _, s := range stores {
		if s.field < 0 {
			whole = append(whole, s.st)
		} else {
			fields[s.field] = append(fields[s.field], s.st)
		}
	}
	w, ok := latestDominating(whole, at)
	if !ok {
		return nil
	}
	if len(fields) == 0 {
		if w == nil {
			return nil
		}
		return p.Sym(w.Val)
	}
	st, isStruct := a.Type().(*types.Pointer).Elem().Underlying().(*types.Struct)
	if !isStruct {
		return nil
	}
	out := &Sym{Op: "struct", Name: typeShort(a.Type().(*types.Pointer).Elem())}
	var idxs []int
	for i := range fields {
		idxs = append(idxs, i)
	}
	sort.Ints(idxs)
	if w != nil {
		out.Keys = append(out.Keys, "<base>")
		out.Args = append(out.Args, p.Sym(w.Val))
	}
	for _, i := range idxs {
		fs, ok := latestDominating(fields[i], at)
		if !ok {
			return nil
		}
		if fs == nil {
			continue
		}
		if w != nil && !instrDominates(w, fs) {
			continue // overwritten by the later whole store
		}
		out.Keys = append(out.Keys, st.Field(i).Name())
		out.Args = append(out.Args, p.Sym(fs.Val))
	}
	return out
}

func (p *Prog) allocFieldAt(a *ssa.Alloc, name string, field int, at ssa.Instruction) *Sym {
	whole := p.allocValueAt(a, at)
	if whole == nil {
		return nil
	}
	return symField(whole, name)
}

// symField projects a field out of a symbolic struct value.
func symField(s *Sym, name string) *Sym {
	if s.Op == "struct" {
		for i := len(s.Keys) - 1; i >= 0; i-- {
			if s.Keys[i] == name {
				return s.Args[i]
			}
		}
		for i, k := range s.Keys {
			if k == "<base>" {
				return symField(s.Args[i], name)
			}
		}
		return &Sym{Op: "const", Name: "zero"}
	}
	return &Sym{Op: "field", Name: name, Args: []*Sym{s}, V: nil}
}

// FieldPath returns the access path ("dsc.opts.Input") split into root and field names when s
// is a pure chain of field selections over a parameter / value; ok=false otherwise.
func (s *Sym) FieldPath() (root *Sym, path []string, ok bool) {
	cur := s
	for cur != nil && cur.Op == "field" {
		path = append([]string{cur.Name}, path...)
		cur = cur.Args[0]
	}
	if cur == nil {
		return nil, nil, false
	}
	return cur, path, len(path) > 0
}

// uniformFieldParam: a map, channel, slice or field address that a private function or method
// receives as a parameter (typically the receiver of a method of a private named type:
// dsc.tactic.reset(), dsc.join.add(item)) reads as the discipline field it is at every call
// site, when all call sites pass the same field. Scalars are not followed (they are snapshots).
func (p *Prog) uniformFieldParam(v *ssa.Parameter) *Sym {
	fn := v.Parent()
	if fn == nil || fn.Parent() != nil || !p.IsProduct(fn) {
		return nil
	}
	if obj, _ := fn.Object().(*types.Func); obj == nil || obj.Exported() {
		return nil
	}
	switch t := v.Type().Underlying().(type) {
	case *types.Map, *types.Chan, *types.Slice:
	case *types.Pointer:
		if _, isStruct := t.Elem().Underlying().(*types.Struct); isStruct {
			return nil
		}
	default:
		return nil
	}
	idx := paramIndex(fn, v)
	if idx != 0 || fn.Signature.Recv() == nil {
		return nil // only the receiver of a method of a private named map / channel / slice type
	}
	discs := map[*types.Named]bool{}
	for _, d := range p.Discs() {
		discs[d.Named] = true
	}
	var found *Sym
	for _, cs := range p.CallSites(fn) {
		if _, isGo := cs.(*ssa.Go); isGo {
			return nil
		}
		args := cs.Common().Args
		if idx >= len(args) {
			return nil
		}
		a := p.Sym(args[idx])
		root, _, ok := a.FieldPath()
		if !ok || root.V == nil || !discs[namedOrigin(root.V.Type())] {
			return nil
		}
		if found != nil && found.String() != a.String() {
			return nil
		}
		found = a
	}
	return found
}

// stripRefConv looks through conversions between a map / channel / slice type and a named type
// of the same underlying type (the same object under another name).
func stripRefConv(v ssa.Value) ssa.Value {
	for {
		ct, ok := v.(*ssa.ChangeType)
		if !ok {
			return v
		}
		switch ct.Type().Underlying().(type) {
		case *types.Map, *types.Chan, *types.Slice:
			v = ct.X
		default:
			return v
		}
	}
}

// refConvReferrers: the referrers of v, looking through such conversions.
func refConvReferrers(v ssa.Value) []ssa.Instruction {
	var out []ssa.Instruction
	if v.Referrers() == nil {
		return nil
	}
	for _, r := range *v.Referrers() {
		if ct, ok := r.(*ssa.ChangeType); ok && stripRefConv(ct) != ssa.Value(ct) {
			out = append(out, refConvReferrers(ct)...)
			continue
		}
		out = append(out, r)
	}
	return out
}
