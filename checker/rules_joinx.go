package main

import (
	"fmt"
	"go/token"
	"go/types"
	"strings"

	"golang.org/x/tools/go/ssa"
)

// Join-family rules over events (joinev.go). Every rule is a typestate over the event sequence of
// each path of a loop function (a function of the goroutine that receives from the input), with
// all product callees inlined.

func (jr *joinRoles) loopKey(fn *ssa.Function) string { return jr.p.FnKey(fn) }

// itemFacts are facts about the value received last; they end at the next receive.
var itemFacts = []string{"small", "le", "big", "fits", "nofit"}

// ---- J1/J2: every received value is ingested whole or forwarded whole, exactly once ----

func checkJ1(c *Ctx, jr *joinRoles) {
	p := jr.p
	for _, fn := range jr.loops {
		var whole []string
		sinkOf := func(fr *Frame, in ssa.Instruction, v ssa.Value, isIngest bool) (bool, ssa.Value) {
			if isIngest {
				if jr.unite {
					return true, v
				}
				el, okv := varargsElem(v)
				if _, isSlice := v.Type().Underlying().(*types.Slice); !okv && !isSlice {
					el, okv = v, true // the element itself, handed to an append helper (ingestOfFr)
				}
				if !okv {
					whole = append(whole, fmt.Sprintf("ingest at %s appends %s, not exactly the received element", p.InstrPos(in), p.SymFrame(fr, v)))
					return true, v
				}
				return true, el
			}
			pl := p.payloadOrigin(fr, v)
			if pl.origin != "item" {
				return false, nil
			}
			if pl.sliced {
				whole = append(whole, "forward at "+p.InstrPos(in)+" sends a sub-slice of the input slice")
			}
			return true, pl.root
		}
		cfg := &ItemFlowConfig{
			P:        p,
			IsSource: func(rs *RecvSite) bool { return p.chanRole(rs.Chan) == "field:opts.Input" },
			SinkInstr: func(fr *Frame, in ssa.Instruction) (bool, ssa.Value) {
				if src, ok := p.ingestOfFr(fr, in); ok {
					return sinkOf(fr, in, src, true)
				}
				if v, ok := p.emitInstr(in); ok {
					return sinkOf(fr, in, v, false)
				}
				return false, nil
			},
			SinkEdge: func(fr *Frame, from *ssa.BasicBlock, succ int) (bool, ssa.Value) {
				if v, ok := p.emitEdge(from, succ); ok {
					return sinkOf(fr, from.Instrs[len(from.Instrs)-1], v, false)
				}
				return false, nil
			},
			StopEdge: func(fr *Frame, from *ssa.BasicBlock, succ int) bool {
				if p.stopEdge(from, succ) {
					return true
				}
				val, ok := p.unreleasedEdge(from, succ)
				return ok && val
			},
			ItemOf: func(fr *Frame, consumed ssa.Value) *Sym {
				s := p.SymFrame(fr, consumed).StripInst()
				// an input slice appended as `item...` is the item itself
				return s
			},
		}
		res := RunItemFlow(cfg, fn)
		c.R.Check(len(res.Problems) == 0 && res.Sources > 0, "J1", joinKey(jr, fn, ""), p.Pos(fn.Pos()),
			fmt.Sprintf("%d receive site(s), each value ingested or forwarded exactly once; closed => nothing is taken", res.Sources), strings.Join(res.Problems, "; "))
		c.R.Check(len(whole) == 0, "J2", joinKey(jr, fn, ""), p.Pos(fn.Pos()), "ingests append the whole received value, forwards send the whole slice", strings.Join(dedup(whole), "; "))
		for _, rs := range p.RecvSites(fn) {
			if p.chanRole(rs.Chan) != "field:opts.Input" {
				continue
			}
			if rs.Ok == nil {
				c.R.Fail("J1", joinKey(jr, fn, "closed"), rs.Pos(p), "input receive does not observe the closed state")
			}
		}
	}
}

func checkJ2(c *Ctx, jr *joinRoles) {} // decided together with J1

// ---- J5: the buffer is sent only when non-empty; a slice is forwarded alone only when big ----

type jsite struct {
	what    string
	classes map[string]bool
	bad     []string
}

type jsites struct {
	m     map[ssa.Instruction]*jsite
	order []ssa.Instruction
}

func (js *jsites) at(in ssa.Instruction) *jsite {
	if js.m == nil {
		js.m = map[ssa.Instruction]*jsite{}
	}
	s := js.m[in]
	if s == nil {
		s = &jsite{classes: map[string]bool{}}
		js.m[in] = s
		js.order = append(js.order, in)
	}
	return s
}

func knownFacts(st string) string {
	_, known := fsSplit(st)
	return fmt.Sprint(sortedKeys(known))
}

func checkJ5(c *Ctx, jr *joinRoles) {
	p := jr.p
	jf := jr.flow()
	var sites jsites
	for _, fn := range jr.loops {
		jf.run(fn, "", jhandler{
			on: func(fr *Frame, st string, ev jev) []string {
				if ev.kind != "emit" {
					return nil
				}
				pl := p.payloadOrigin(fr, ev.v)
				sr := sites.at(ev.in)
				switch pl.origin {
				case "B":
					sr.what = "buffer"
					if !fsHas(st, "nonempty") {
						sr.bad = append(sr.bad, "the buffer can be sent while empty: an empty output slice is produced ["+fr.Chain(p)+", known: "+knownFacts(st)+"]")
					}
				case "item":
					if sr.what == "" {
						sr.what = "forward"
					}
					if !fsHas(st, "big") {
						sr.bad = append(sr.bad, "an input slice shorter than JoinSize can be forwarded on its own (possibly empty) ["+fr.Chain(p)+"]")
					}
				}
				return nil
			},
		})
	}
	for n, in := range sites.order {
		sr := sites.m[in]
		okDetail := "buffer sent only when non-empty"
		if sr.what == "forward" {
			okDetail = "input slice forwarded alone only when len >= JoinSize"
		}
		c.R.Check(len(sr.bad) == 0, "J5", joinKey(jr, in.Parent(), fmt.Sprintf("emit.%d", n+1)), p.InstrPos(in), okDetail, strings.Join(dedup(sr.bad), "; "))
	}
	if len(sites.order) == 0 {
		c.R.Fail("J5", jr.key+"#emit", "-", "UNRESOLVED-ANCHOR: no output send reached from the loop functions")
	}
	// constructor
	found := false
	for _, ctor := range jr.d.Ctors {
		for fn := range p.Reach(ctor) {
			for _, b := range fn.Blocks {
				iff, ok := b.Instrs[len(b.Instrs)-1].(*ssa.If)
				if !ok {
					continue
				}
				for _, truth := range []bool{true, false} {
					cm := p.NormCmp(iff.Cond, truth)
					if cm == nil {
						continue
					}
					l, r := deepStrip(cm.L), deepStrip(cm.R)
					isJS := func(s *Sym) bool {
						_, path, ok := s.FieldPath()
						return ok && path[len(path)-1] == "JoinSize"
					}
					zero := func(s *Sym, k int64) bool { return s.String() == "0" && k == 0 }
					isZeroTest := (cm.Op == token.EQL && ((isJS(l) && zero(r, cm.RC)) || (isJS(r) && zero(l, cm.LC)))) ||
						(cm.Op == token.LEQ && isJS(l) && zero(r, cm.RC) && cm.LC == 0) ||
						(cm.Op == token.LSS && isJS(l) && r.String() == "0" && cm.RC == 1 && cm.LC == 0)
					if !isZeroTest {
						continue
					}
					succ := 0
					if !truth {
						succ = 1
					}
					tb := b.Succs[succ]
					if ret, ok := tb.Instrs[len(tb.Instrs)-1].(*ssa.Return); ok && len(ret.Results) > 0 && !isNilConst(ret.Results[len(ret.Results)-1]) {
						found = true
					}
				}
			}
		}
	}
	c.R.Check(found, "J5", jr.key+"#ctor", p.Pos(jr.d.Ctors[0].Pos()), "constructor rejects JoinSize == 0", "constructor does not reject JoinSize == 0 (then every slice, even an empty one, counts as full)")
}

// ---- J6: after an ingest: flush, or go on under a fresh len(B) < JoinSize ----

func checkJ6(c *Ctx, jr *joinRoles) {
	p := jr.p
	jf := jr.flow()
	var ingests []ssa.Instruction
	idxOf := map[ssa.Instruction]int{}
	chains := map[int][]ssa.Instruction{}
	problems := map[int][]string{}
	pendingOf := func(st string) (int, bool) {
		m := jMode(st)
		if !strings.HasPrefix(m, "pending:") {
			return -1, false
		}
		k := -1
		fmt.Sscanf(m, "pending:%d", &k)
		return k, true
	}
	for _, fn := range jr.loops {
		loopFn := fn
		jf.run(fn, "idle", jhandler{
			on: func(fr *Frame, st string, ev jev) []string {
				k, pending := pendingOf(st)
				switch ev.kind {
				case "ingest":
					i, seen := idxOf[ev.in]
					if !seen {
						i = len(ingests)
						idxOf[ev.in] = i
						ingests = append(ingests, ev.in)
					}
					var chain []ssa.Instruction
					for f := fr; f != nil && f.Site != nil; f = f.Parent {
						chain = append(chain, f.Site)
					}
					chains[i] = append(chain, ev.in)
					return []string{fsMode(st, fmt.Sprintf("pending:%d", i))}
				case "emit":
					if pending && p.payloadOrigin(fr, ev.v).origin == "B" {
						return []string{fsMode(st, "idle")}
					}
				case "stop", "unrel+":
					if pending {
						return []string{fsMode(st, "idle")}
					}
				case "src", "select":
					if pending {
						problems[k] = append(problems[k], "after the ingest control returns to the receive at "+p.InstrPos(ev.in)+" without flushing and without having established len(buffer) < JoinSize: the buffer can grow beyond JoinSize")
						return []string{fsMode(st, "idle")}
					}
				}
				return nil
			},
			edge: func(fr *Frame, st string, facts []string, e CondEdge) string {
				k, pending := pendingOf(st)
				if !pending {
					return ""
				}
				notfull := false
				for _, f := range facts {
					if f == "notfull" {
						notfull = true
					}
				}
				if !notfull {
					return ""
				}
				// the length must have been read after the ingest
				iff := e.From.Instrs[len(e.From.Instrs)-1].(*ssa.If)
				fresh := true
				seen := map[ssa.Value]bool{}
				var visit func(v ssa.Value)
				visit = func(v ssa.Value) {
					if v == nil || seen[v] {
						return
					}
					seen[v] = true
					// the ingest itself (or the value it stores): the buffer after the ingest
					for _, x := range chains[k] {
						if xv, isV := x.(ssa.Value); isV && xv == v {
							return
						}
						if st, isSt := x.(*ssa.Store); isSt && st.Val == v {
							return
						}
					}
					if ld, ok := v.(*ssa.UnOp); ok && ld.Op == token.MUL && p.isFieldLoad(ld, "join") {
						for _, x := range chains[k] {
							if x.Parent() == ld.Parent() && !instrDominates(x, ld) {
								fresh = false
							}
						}
						return
					}
					if in, ok := v.(ssa.Instruction); ok {
						for _, op := range in.Operands(nil) {
							visit(*op)
						}
					}
				}
				visit(iff.Cond)
				if fresh {
					return fsMode(st, "idle")
				}
				return ""
			},
			exit: func(fr *Frame, st string, ret *ssa.Return) []string {
				if k, pending := pendingOf(st); pending && fr.Parent == nil {
					problems[k] = append(problems[k], "after the ingest a path returns from "+shortFn(p, loopFn)+" at "+p.InstrPos(ret)+" without flushing and without having established len(buffer) < JoinSize")
				}
				return nil
			},
		})
	}
	if len(ingests) == 0 {
		c.R.Fail("J6", jr.key, "-", "UNRESOLVED-ANCHOR: no ingest of the buffer reached from the loop functions")
		return
	}
	for i, ing := range ingests {
		c.R.Check(len(problems[i]) == 0, "J6", joinKey(jr, ing.Parent(), fmt.Sprintf("ingest.%d", i+1)), p.InstrPos(ing), "flush, or go on under len(B) < JoinSize", strings.Join(dedup(problems[i]), "; "))
	}
}

// ---- J7 (unite): fit facts at the ingest and the forward ----

func checkJ7(c *Ctx, jr *joinRoles) {
	if !jr.unite {
		return
	}
	p := jr.p
	jf := jr.flow()
	var problems []string
	ingests, forwards := 0, 0
	for _, fn := range jr.loops {
		jf.run(fn, "", jhandler{
			on: func(fr *Frame, st string, ev jev) []string {
				switch ev.kind {
				case "ingest":
					ingests++
					if !(fsHas(st, "fits") || (fsHas(st, "empty") && (fsHas(st, "small") || fsHas(st, "le")))) {
						problems = append(problems, fmt.Sprintf("ingest at %s is reached without len(item)+len(buffer) <= JoinSize being established (known: %s): the output slice can exceed JoinSize or an input slice is split", p.InstrPos(ev.in), knownFacts(st)))
					}
				case "emit":
					if p.payloadOrigin(fr, ev.v).origin == "item" {
						forwards++
						if !fsHas(st, "big") {
							problems = append(problems, "forward at "+p.InstrPos(ev.in)+" is not restricted to slices of at least JoinSize elements")
						}
						if !fsHas(st, "empty") {
							problems = append(problems, "forward at "+p.InstrPos(ev.in)+" is not preceded by a flush of the buffer: the oversize slice overtakes earlier elements")
						}
					}
				}
				return nil
			},
		})
	}
	if ingests == 0 || forwards == 0 {
		problems = append(problems, fmt.Sprintf("UNRESOLVED-ANCHOR: %d ingests and %d forwards reached from the loop functions", ingests, forwards))
	}
	c.R.Check(len(problems) == 0, "J7", jr.key, p.Pos(jr.entry.Pos()), "ingest only when the whole slice fits (or into the emptied buffer with a small slice); forward only big slices after a flush", strings.Join(dedup(problems), "; "))
}

// ---- J8: whatever was accumulated is flushed before the loop function is left ----

func checkJ8(c *Ctx, jr *joinRoles) {
	p := jr.p
	jf := jr.flow()
	// run from the goroutine entry: the final flush may be deferred by the loop function or by the
	// entry that calls it; what matters is that the goroutine does not end with elements in the buffer
	isLoop := map[*ssa.Function]int{}
	for i, fn := range jr.loops {
		isLoop[fn] = i
	}
	problems := map[int][]string{}
	jf.run(jr.entry, "clean", jhandler{
		on: func(fr *Frame, st string, ev jev) []string {
			switch ev.kind {
			case "ingest", "bufwrite":
				return []string{fsMode(st, "dirty")}
			case "emit":
				if fsHas(st, "outclosed") {
					problems[-1] = append(problems[-1], "the output is written at "+p.InstrPos(ev.in)+" after it was closed (the final flush is deferred before the close, so it runs after it): the tail is lost in a panic")
				}
				if p.payloadOrigin(fr, ev.v).origin == "B" {
					return []string{fsMode(st, "clean")}
				}
			case "outclose":
				return []string{fsWith(st, []string{"outclosed"}, nil)}
			case "stop", "unrel+":
				return []string{fsMode(st, "clean")} // a rough stop may drop the tail
			}
			return nil
		},
		edge: func(fr *Frame, st string, facts []string, e CondEdge) string {
			for _, f := range facts {
				if f == "empty" && !fsHas(st, "nonempty") && !fsHas(st, "full") {
					return fsMode(st, "clean")
				}
			}
			return ""
		},
		exit: func(fr *Frame, st string, ret *ssa.Return) []string {
			if i, ok := isLoop[fr.Fn]; ok && fr.Parent != nil && jMode(st) == "dirty" {
				// remember which loop function was left with a tail; a caller's defer may still flush it
				return []string{fsWith(st, []string{fmt.Sprintf("left:%d:%s", i, p.InstrPos(ret))}, nil)}
			}
			if fr.Parent == nil && jMode(st) == "dirty" {
				_, facts := fsSplit(st)
				found := false
				for f := range facts {
					if strings.HasPrefix(f, "left:") {
						parts := strings.SplitN(f, ":", 3)
						var i int
						fmt.Sscanf(parts[1], "%d", &i)
						problems[i] = append(problems[i], "a path leaves the loop function at "+parts[2]+" with elements still in the buffer and no later flush before the goroutine ends: the accumulated tail is lost at end of input")
						found = true
					}
				}
				if !found {
					idx := -1
					if i, ok := isLoop[fr.Fn]; ok {
						idx = i
					}
					problems[idx] = append(problems[idx], "a path leaves the goroutine at "+p.InstrPos(ret)+" with elements still in the buffer: the accumulated tail is lost at end of input")
				}
			}
			return nil
		},
	})
	for i, fn := range jr.loops {
		pr := append(problems[i], problems[-1]...)
		c.R.Check(len(pr) == 0, "J8", joinKey(jr, fn, ""), p.Pos(fn.Pos()), "the accumulated tail is flushed on every path from the loop function to the end of the goroutine", strings.Join(dedup(pr), "; "))
	}
	order, okd := p.CleanupOrder(jr.entry)
	closes := false
	for _, df := range order {
		if k, a := p.deferKind(df); k == "close" && a == "field:output" {
			closes = true
		}
	}
	c.R.Check(okd && closes, "J8", joinKey(jr, jr.entry, "close"), p.Pos(jr.entry.Pos()), "output closed by the entry's defer, after the loop function (and its final flush) returned", "output is not closed by an unconditional defer of the goroutine entry")
}

// ---- M1: the buffer is sent only when full / timed out in the ticker clause / at end of input ----

func checkM1(c *Ctx, jr *joinRoles) {
	p := jr.p
	jf := jr.flow()
	var sites jsites
	for _, fn := range jr.loops {
		jf.run(fn, "", jhandler{
			on: func(fr *Frame, st string, ev jev) []string {
				if ev.kind != "emit" || p.payloadOrigin(fr, ev.v).origin != "B" {
					return nil
				}
				sr := sites.at(ev.in)
				switch {
				case fsHas(st, "full"):
					sr.classes["full"] = true
				case fsHas(st, "tick") && fsHas(st, "tmo"):
					sr.classes["timeout in the ticker clause"] = true
				case fsHas(st, "ending"):
					sr.classes["end of input"] = true
				case jr.unite && fsHas(st, "big"):
					sr.classes["oversize input slice"] = true
				case jr.unite && fsHas(st, "nofit"):
					sr.classes["input slice would not fit"] = true
				default:
					sr.bad = append(sr.bad, fmt.Sprintf("the buffer is sent under %s [%s]: not one of {buffer full, timeout expired in the ticker clause, end of input%s}: a slice is cut short prematurely", knownFacts(st), fr.Chain(p), map[bool]string{true: ", oversize slice, slice would not fit", false: ""}[jr.unite]))
				}
				return nil
			},
		})
	}
	for i, in := range sites.order {
		sr := sites.m[in]
		c.R.Check(len(sr.bad) == 0, "M1", joinKey(jr, in.Parent(), fmt.Sprintf("flush.%d", i+1)), p.InstrPos(in), "sent when: "+strings.Join(sortedKeys(sr.classes), " | "), strings.Join(dedup(sr.bad), "; "))
	}
	if len(sites.order) == 0 {
		c.R.Fail("M1", jr.key, "-", "UNRESOLVED-ANCHOR: the buffer is never sent")
	}
}

// ---- T1: passAt is set by the constructor and when something was sent / the ticker fired ----

func checkT1(c *Ctx, jr *joinRoles) {
	p := jr.p
	jf := jr.flow()
	var problems []string
	writers := 0
	for _, fn := range jr.rt.Funcs {
		for _, b := range fn.Blocks {
			for _, in := range b.Instrs {
				if st, ok := fieldStore(in, "passAt"); ok && rootStructOf(st.Addr.(*ssa.FieldAddr)) == jr.d.Named {
					writers++
					// the reference point of the timeout is the moment of the pass: time.Now() itself (a
					// moment shifted into the future makes elements wait longer than Timeout, one shifted
					// into the past flushes early)
					vs := p.SymX(st.Val)
					for vs.Op == "conv" && len(vs.Args) == 1 {
						vs = vs.Args[0]
					}
					if !(vs.Op == "call" && vs.Name == "time.Now" && len(vs.Args) == 0) {
						problems = append(problems, "passAt is set to "+vs.String()+" at "+p.InstrPos(in)+", not to time.Now(): the timeout is measured from a shifted moment, so elements wait longer (or shorter) than Timeout")
					}
				}
			}
		}
	}
	for _, fn := range jr.loops {
		jf.run(fn, "", jhandler{
			on: func(fr *Frame, st string, ev jev) []string {
				if ev.kind == "passat" && !(fsHas(st, "emitted") || fsHas(st, "tick") || fsHas(st, "ending") || fsHas(st, "big")) {
					problems = append(problems, "passAt is re-set at "+p.InstrPos(ev.in)+" on the path that only accepted an element ["+fr.Chain(p)+"]: under a steady trickle the timeout never expires")
				}
				return nil
			},
		})
	}
	if writers == 0 {
		problems = append(problems, "UNRESOLVED-ANCHOR: no write of passAt found")
	}
	// the constructor starts the clock before the goroutine runs
	for _, ctor := range jr.d.Ctors {
		hasGo := false
		for _, b := range ctor.Blocks {
			for _, in := range b.Instrs {
				if _, isGo := in.(*ssa.Go); isGo {
					hasGo = true
				}
			}
		}
		if !hasGo {
			continue // a private builder: the clock is started by the function that starts the goroutine
		}
		started := false
		for _, b := range ctor.Blocks {
			for _, in := range b.Instrs {
				if _, isGo := in.(*ssa.Go); isGo {
					goto done
				}
				if _, ok := fieldStore(in, "passAt"); ok {
					started = true
				}
				if call, ok := in.(*ssa.Call); ok {
					if cal := p.Callee(call); cal != nil && p.IsProduct(cal) && p.mayWriteField(cal, "passAt") {
						started = true
					}
				}
			}
		}
	done:
		if !started {
			problems = append(problems, "the constructor does not set passAt before starting the goroutine: the timeout is measured from the zero time, so the first incomplete slice is flushed immediately instead of Timeout after creation")
		}
	}
	c.R.Check(len(problems) == 0, "T1", jr.key, p.Pos(jr.entry.Pos()), fmt.Sprintf("%d writer(s) of passAt: constructor, after a send, in the ticker clause or at the end", writers), strings.Join(dedup(problems), "; "))
}

// ---- T2: after a send the pass time is re-set before the next receive ----

func checkT2(c *Ctx, jr *joinRoles) {
	p := jr.p
	jf := jr.flow()
	for _, fn := range jr.loops {
		var problems []string
		jf.run(fn, "idle", jhandler{
			on: func(fr *Frame, st string, ev jev) []string {
				switch ev.kind {
				case "emit":
					return []string{fsMode(st, "unstamped")}
				case "passat", "stop", "unrel+":
					return []string{fsMode(st, "idle")}
				case "select", "src":
					if jMode(st) == "unstamped" {
						problems = append(problems, "control returns to the receive at "+p.InstrPos(ev.in)+" after the output send without re-setting passAt: the next timeout is measured from before this emission and the next slice is cut short")
						return []string{fsMode(st, "idle")}
					}
				}
				return nil
			},
		})
		c.R.Check(len(problems) == 0, "T2", joinKey(jr, fn, ""), p.Pos(fn.Pos()), "emit -> passAt reset before the next receive", strings.Join(dedup(problems), "; "))
	}
}

// ---- T3/T6: the ticker clause tests the timeout and an expired buffer is delivered ----

func checkT3T6(c *Ctx, jr *joinRoles) {
	p := jr.p
	jf := jr.flow()
	found := false
	for _, fn := range jr.loops {
		var tickSel *ssa.Select
		for _, s := range Selects(fn) {
			si := p.SelectInfo(s)
			var tick, inp *SelCase
			for _, cs := range si.Cases {
				role := p.chanRole(cs.State.Chan)
				if strings.HasPrefix(role, "ticker:") {
					tick = cs
				}
				if role == "field:opts.Input" {
					inp = cs
				}
			}
			if tick == nil {
				continue
			}
			found = true
			tickSel = s
			c.R.Check(inp != nil && s.Blocking, "T6", joinKey(jr, fn, "select"), p.InstrPos(s), "ticker and input are clauses of one blocking select", "the ticker clause is not in the same blocking select as the input clause: while blocked on the input the timeout is never examined")
		}
		if tickSel == nil {
			continue
		}
		// every receive from the input reachable from the timed loop is a clause of a select that
		// also watches the ticker: otherwise the timeout is not examined while input keeps arriving
		for g := range p.Reach(fn) {
			for _, rs := range p.RecvSites(g) {
				if p.chanRole(rs.Chan) != "field:opts.Input" {
					continue
				}
				watched := false
				if rs.Case != nil && rs.Sel != nil {
					for _, cs := range rs.Sel.Cases {
						if strings.HasPrefix(p.chanRole(cs.State.Chan), "ticker:") {
							watched = true
						}
					}
				}
				if rs.In != ssa.Instruction(tickSel) {
					c.R.Check(watched, "T6", joinKey(jr, g, "recv@"+shortFn(p, fn)), rs.Pos(p), "input receive in a select that watches the ticker", "the input is also received at "+rs.Pos(p)+" outside the select that watches the ticker: while input keeps arriving there the timeout is not examined and elements wait longer than Timeout*(1+1/divider)")
				}
			}
		}
		var problems []string
		sawExpired := false
		jf.run(fn, "idle", jhandler{
			on: func(fr *Frame, st string, ev jev) []string {
				m := jMode(st)
				switch ev.kind {
				case "tick":
					return []string{fsMode(st, "ticked")}
				case "tmo+":
					if m == "ticked" || m == "expired" {
						sawExpired = true
						return []string{fsMode(st, "expired")}
					}
				case "tmo-":
					if m == "ticked" {
						return []string{fsMode(st, "idle")}
					}
				case "emit":
					if m == "expired" && p.payloadOrigin(fr, ev.v).origin == "B" {
						return []string{fsMode(st, "idle")}
					}
				case "stop", "unrel+":
					return []string{fsMode(st, "idle")}
				case "select", "src":
					switch m {
					case "ticked":
						problems = append(problems, "the ticker clause returns to the select at "+p.InstrPos(ev.in)+" without testing the timeout: an expired buffer is never delivered")
					case "expired":
						problems = append(problems, "after the timeout test answered true control returns to the select at "+p.InstrPos(ev.in)+" without sending the buffer: an expired buffer is not delivered")
					}
					return []string{fsMode(st, "idle")}
				}
				return nil
			},
			edge: func(fr *Frame, st string, facts []string, e CondEdge) string {
				if jMode(st) == "expired" {
					for _, f := range facts {
						if f == "empty" && !fsHas(st, "nonempty") && !fsHas(st, "full") {
							return fsMode(st, "idle") // nothing to deliver
						}
					}
				}
				return ""
			},
		})
		if !sawExpired {
			problems = append(problems, "no timeout predicate tested in the ticker clause")
		}
		c.R.Check(len(problems) == 0, "T3", joinKey(jr, fn, "ticker"), p.InstrPos(tickSel), "tick -> timeout test -> expired => buffer sent before the next select", strings.Join(dedup(problems), "; "))
	}
	if !found {
		c.R.Fail("T6", jr.key, "-", "UNRESOLVED-ANCHOR: no select with a ticker clause in the loop functions")
	}
}

// ---- T4: every timeout test is  time.Since(passAt) >= Timeout ----

func checkT4(c *Ctx, jr *joinRoles) {
	p := jr.p
	n := 0
	var problems []string
	var first ssa.Instruction
	seenFn := map[*ssa.Function]bool{}
	var scan func(fn *ssa.Function)
	scan = func(fn *ssa.Function) {
		if seenFn[fn] {
			return
		}
		seenFn[fn] = true
		for _, b := range fn.Blocks {
			iff, ok := b.Instrs[len(b.Instrs)-1].(*ssa.If)
			if !ok {
				continue
			}
			isTO, _, canonical, cm := p.timeoutCmp(iff.Cond, true)
			if !isTO {
				continue
			}
			n++
			if first == nil {
				first = iff
			}
			if !canonical {
				problems = append(problems, "timeout test at "+p.InstrPos(iff)+" is "+cm.String()+", expected Timeout <= time.Since(passAt)")
			}
		}
	}
	for _, fn := range jr.rt.Funcs {
		scan(fn)
	}
	if n == 0 {
		if jr.hasTimedLoop() {
			c.R.Fail("T4", jr.key, "-", "UNRESOLVED-ANCHOR: no timeout predicate tested in the ticker clause")
		}
		return
	}
	c.R.Check(len(problems) == 0, "T4", jr.key+"#timeout-test", p.InstrPos(first), fmt.Sprintf("%d timeout test(s): time.Since(passAt) >= Timeout", n), strings.Join(dedup(problems), "; "))
}

// ---- K2: no-copy: after a send nothing touches the buffer before the release ----

func checkK2(c *Ctx, jr *joinRoles) {
	p := jr.p
	jf := jr.flow()
	sawSent := false
	frozen := map[bool]string{true: " or frozen the buffer (unreleased = true)", false: ""}[jr.v1]
	for _, fn := range jr.loops {
		var problems []string
		h := jhandler{
			on: func(fr *Frame, st string, ev jev) []string {
				owed := jMode(st) == "owed"
				switch ev.kind {
				case "emit":
					sawSent = true
					if owed {
						problems = append(problems, "in no-copy mode the output is written again at "+p.InstrPos(ev.in)+" before the release of the previous slice was received")
					}
					return []string{fsMode(st, "owed")}
				case "release", "setunrel+":
					if owed {
						return []string{fsMode(st, "idle")}
					}
				case "ingest", "reset", "bufwrite":
					if owed {
						problems = append(problems, "in no-copy mode the buffer is modified at "+p.InstrPos(ev.in)+" after the output send without having received the release signal"+frozen+": the buffer is reused while the consumer owns the slice ["+fr.Chain(p)+"]")
						return []string{fsMode(st, "idle")}
					}
				case "select", "src":
					if owed {
						problems = append(problems, "in no-copy mode control returns to the receive at "+p.InstrPos(ev.in)+" after the output send without having received the release signal"+frozen+": the buffer is reused while the consumer owns the slice")
						return []string{fsMode(st, "idle")}
					}
				}
				return nil
			},
			exit: func(fr *Frame, st string, ret *ssa.Return) []string {
				if fr.Parent == nil && jMode(st) == "owed" {
					problems = append(problems, "in no-copy mode a path returns at "+p.InstrPos(ret)+" after the output send without having received the release signal"+frozen)
				}
				return nil
			},
		}
		jf.pruneEdge = func(e CondEdge) bool {
			nc, ok := p.modeEdge(e)
			return ok && !nc // contradicts the no-copy assumption
		}
		jf.run(fn, "idle", h)
		jf.pruneEdge = nil
		c.R.Check(len(problems) == 0, "K2", joinKey(jr, fn, ""), p.Pos(fn.Pos()), "send -> release receive (or freeze) before the buffer is touched again, on every no-copy path", strings.Join(dedup(problems), "; "))
	}
	if !sawSent {
		c.R.Fail("K2", jr.key, "-", "UNRESOLVED-ANCHOR: no output send reached under the no-copy assumption")
	}
}

// ---- K3 (v1): the buffer is touched only under a valid !unreleased test ----

func checkK3(c *Ctx, jr *joinRoles) {
	p := jr.p
	jf := jr.flow()
	var sites jsites
	touch := func(fr *Frame, st string, in ssa.Instruction, what string) {
		sr := sites.at(in)
		sr.what = what
		if !fsHas(st, "free") {
			sr.bad = append(sr.bad, what+" of the buffer is not protected by a valid `!unreleased` test (none on this path, or the flag may have been set after it) ["+fr.Chain(p)+"]: after a stop before release the delivered slice is touched again")
		}
	}
	for _, fn := range jr.loops {
		jf.run(fn, "", jhandler{
			on: func(fr *Frame, st string, ev jev) []string {
				switch ev.kind {
				case "ingest":
					touch(fr, st, ev.in, "ingest")
				case "reset", "bufwrite":
					touch(fr, st, ev.in, "reset")
				case "emit":
					if p.payloadOrigin(fr, ev.v).origin == "B" {
						touch(fr, st, ev.in, "send")
					}
				}
				return nil
			},
		})
	}
	for i, in := range sites.order {
		sr := sites.m[in]
		c.R.Check(len(sr.bad) == 0, "K3", joinKey(jr, in.Parent(), fmt.Sprintf("%s.%d", sr.what, i+1)), p.InstrPos(in), sr.what+" guarded by !unreleased", strings.Join(dedup(sr.bad), "; "))
	}
}

// ---- K5 (unite): a received input slice is only read ----

func checkK5(c *Ctx, jr *joinRoles) {
	p := jr.p
	ai := p.alias()
	// values that hold a received slice: the receive results and every parameter they are passed to
	holds := map[ssa.Value]bool{}
	var work []ssa.Value
	for _, rs := range jr.srcs {
		if rs.Val != nil {
			holds[rs.Val] = true
			work = append(work, rs.Val)
		}
	}
	for len(work) > 0 {
		v := work[0]
		work = work[1:]
		refs := v.Referrers()
		if refs == nil {
			continue
		}
		for _, r := range *refs {
			switch x := r.(type) {
			case *ssa.ChangeType:
				if !holds[x] {
					holds[x] = true
					work = append(work, x)
				}
			case ssa.CallInstruction:
				cal := p.Callee(x)
				if cal == nil || !p.IsProduct(cal) {
					continue
				}
				for i, a := range x.Common().Args {
					if a == v && i < len(cal.Params) && !holds[cal.Params[i]] {
						holds[cal.Params[i]] = true
						work = append(work, cal.Params[i])
					}
				}
			}
		}
	}
	var where []string
	for _, g := range jr.rt.Funcs {
		for _, w := range ai.contentWritesIn(g) {
			for _, root := range ai.Roots(w.Target) {
				if root.V != nil && holds[root.V] {
					where = append(where, fmt.Sprintf("%s at %s", w.How, p.InstrPos(w.In)))
				}
			}
		}
	}
	c.R.Check(len(where) == 0, "K5", jr.key, p.Pos(jr.entry.Pos()), "input slices are only read", "a received input slice may be written through: "+strings.Join(dedup(where), "; "))
}
