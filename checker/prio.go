package main

import (
	"fmt"
	"go/token"
	"go/types"
	"strings"

	"golang.org/x/tools/go/ssa"
)

// prioRoles resolves, by effect, the functions of a priority scheduler that the bookkeeping
// rules talk about. State fields are addressed by the names the properties anchor
// (actual, tactic, strategic, priorities, uncrowded, useful, inputs).
type prioRoles struct {
	p   *Prog
	d   *Disc
	rt  *Routine
	v1  bool
	sr  *schedRoles
	key string

	sendFn        *ssa.Function
	sendPrioIdx   int      // parameter of sendFn that becomes the Priority tag
	sendTag       *Sym     // the Priority tag of the value sent, in terms of sendFn's parameters
	sendStructIdx int      // when the tag is a field of a struct parameter: that parameter ...
	sendTagPath   []string // ... and the field path to the tag
	resetFn       *ssa.Function
	safeDivideFn  *ssa.Function
	sumFn         *ssa.Function          // plain sum of a distribution
	vacantsFn     *ssa.Function          // the helper returning H - sum(actual), or the function that computes it in place
	vacantsExprs  []*ssa.BinOp           // the subtraction(s) H - sum(actual)
	vacantsInline bool                   // the subtraction is written in place (vacantsFn does more than return it)
	vacantsInner  map[*ssa.Function]bool // pure helpers behind vacantsFn (each with a single call site)
	topUpFn       *ssa.Function
	decActualFn   *ssa.Function
	releaseRole   string
}

func (pr *prioRoles) String() string {
	n := func(f *ssa.Function) string {
		if f == nil {
			return "-"
		}
		return f.Name()
	}
	return fmt.Sprintf("send=%s reset=%s safeDivide=%s sum=%s vacants=%s topUp=%s decActual=%s release=%s", n(pr.sendFn), n(pr.resetFn), n(pr.safeDivideFn), n(pr.sumFn), n(pr.vacantsFn), n(pr.topUpFn), n(pr.decActualFn), pr.releaseRole)
}

// mapDelta recognises  F[k] = F[k] ± c ,  F[k] = 0  and other assignments to a map held in a
// struct field (or a parameter resolved through the frame).
type mapWrite struct {
	Field string // field name holding the map ("" if not a field load)
	Key   *Sym
	Kind  string // "delta" "zero" "assign"
	Delta int64
	Val   *Sym
}

func (p *Prog) mapWriteOf(fr *Frame, in ssa.Instruction) (mapWrite, bool) {
	mu, ok := in.(*ssa.MapUpdate)
	if !ok {
		return mapWrite{}, false
	}
	var ms, ks, vs *Sym
	if fr != nil {
		ms, ks, vs = p.SymFrame(fr, mu.Map), p.SymFrame(fr, mu.Key), p.SymFrame(fr, mu.Value)
	} else {
		ms, ks, vs = p.Sym(mu.Map), p.Sym(mu.Key), p.Sym(mu.Value)
	}
	w := mapWrite{Key: ks.StripInst(), Val: vs, Kind: "assign"}
	if _, path, ok := ms.FieldPath(); ok {
		w.Field = path[len(path)-1]
	}
	if k, ok := symConstInt(vs); ok && k == 0 {
		w.Kind = "zero"
		return w, true
	}
	d := vs
	if d.Op == "bin" && (d.Name == "+" || d.Name == "-") {
		if k, ok := symConstInt(d.Args[1]); ok {
			base := d.Args[0]
			if base.Op == "index" && base.Args[0].String() == ms.String() && base.Args[1].StripInst().String() == w.Key.String() {
				w.Kind = "delta"
				w.Delta = k
				if d.Name == "-" {
					w.Delta = -k
				}
			}
		}
	}
	return w, true
}

// mayWriteMapField: fn (transitively) updates / deletes from / hands to a divider the map in field.
func (p *Prog) mayWriteMapField(fn *ssa.Function, field string) bool {
	ai := p.alias()
	for g := range p.Reach(fn) {
		for _, w := range ai.contentWritesIn(g) {
			for _, root := range ai.Roots(w.Target) {
				if root.Kind == "fieldload" && strings.HasSuffix(root.Path, "."+field) {
					return true
				}
			}
		}
	}
	return false
}

// writersBetween scans every instruction on paths from the target of edge e to `target`
// (not passing e.From again) and returns the position of the first one accepted by isWriter.
func (p *Prog) writersBetween(e CondEdge, target ssa.Instruction, isWriter func(in ssa.Instruction) bool) string {
	start := e.From.Succs[e.Succ]
	bad := ""
	seen := map[*ssa.BasicBlock]bool{}
	var walk func(x *ssa.BasicBlock)
	walk = func(x *ssa.BasicBlock) {
		if seen[x] || x == e.From || !reaches(x, target.Block()) {
			return
		}
		seen[x] = true
		for _, y := range x.Instrs {
			if y == target {
				return
			}
			if isWriter(y) {
				bad = p.InstrPos(y)
			}
		}
		if x != target.Block() {
			for _, s := range x.Succs {
				walk(s)
			}
		}
	}
	walk(start)
	return bad
}

// resolvePrioLight: the roles the list-membership rules (D2, P2) need - the routine, the
// scheduling roles and the checking wrapper - without the sending / accounting roles.
func resolvePrioLight(p *Prog) (*prioRoles, error) {
	sr, err := resolveSchedRoles(p)
	if err != nil {
		return nil, err
	}
	pr := &prioRoles{p: p, d: sr.d, rt: sr.rt, sr: sr, v1: p.Name == "v1", key: p.Name + ":priority.Discipline", sendPrioIdx: -1, sendStructIdx: -1}
	for _, fn := range pr.rt.Funcs {
		if isCheckedDivision(fn) {
			pr.safeDivideFn = fn
		}
	}
	if pr.safeDivideFn == nil {
		return nil, fmt.Errorf("UNRESOLVED-ANCHOR: %s: cannot find the checking wrapper of the divider", pr.key)
	}
	return pr, nil
}

// sendKeyAt: the priority under which the call cs of the sending function sends its item.
func (pr *prioRoles) sendKeyAt(cs ssa.CallInstruction) ssa.Value {
	args := cs.Common().Args
	if pr.sendPrioIdx >= 0 && pr.sendPrioIdx < len(args) {
		return args[pr.sendPrioIdx]
	}
	if pr.sendStructIdx >= 0 && pr.sendStructIdx < len(args) {
		s := pr.p.Sym(args[pr.sendStructIdx])
		for _, f := range pr.sendTagPath {
			s = symField(s, f)
		}
		if s != nil && s.V != nil {
			return s.V
		}
		return args[pr.sendStructIdx]
	}
	return nil
}

func resolvePrio(p *Prog) (*prioRoles, error) {
	sr, err := resolveSchedRoles(p)
	if err != nil {
		return nil, err
	}
	pr := &prioRoles{p: p, d: sr.d, rt: sr.rt, sr: sr, v1: p.Name == "v1", key: p.Name + ":priority.Discipline", sendPrioIdx: -1, sendStructIdx: -1}
	pr.releaseRole = "field:feedback"
	if pr.v1 {
		pr.releaseRole = "field:opts.Feedback"
	}
	outRole := map[string]bool{"field:output": true, "field:opts.Output": true}
	for _, fn := range pr.rt.Funcs {
		for _, ss := range p.SendSites(fn) {
			if outRole[p.chanRole(ss.Chan)] {
				if pr.sendFn != nil && pr.sendFn != fn {
					return nil, fmt.Errorf("UNDECIDED: output is written in more than one function (%s, %s)", pr.sendFn.Name(), fn.Name())
				}
				pr.sendFn = fn
				tag := symField(p.Sym(ss.Val), "Priority")
				if par, ok := tag.V.(*ssa.Parameter); ok && tag.Op == "param" {
					pr.sendPrioIdx = paramIndex(fn, par)
					pr.sendTag = tag
				} else if root, path, okp := tag.FieldPath(); okp && root.Op == "param" {
					// the sending function takes the value to send (send(prioritized types.Prioritized[Type]))
					if rp, isPar := root.V.(*ssa.Parameter); isPar {
						pr.sendStructIdx = paramIndex(fn, rp)
						pr.sendTagPath = path
						pr.sendTag = tag
					}
				}
			}
		}
		for _, b := range fn.Blocks {
			for _, in := range b.Instrs {
				w, ok := p.mapWriteOf(nil, in)
				if !ok {
					continue
				}
				switch {
				case w.Field == "tactic" && w.Kind == "zero" && strings.HasPrefix(w.Key.String(), "next:"):
					pr.resetFn = fn
				case w.Field == "tactic" && w.Kind == "assign":
					pr.topUpFn = fn
				case w.Field == "actual" && w.Kind == "delta" && w.Delta == -1:
					pr.decActualFn = fn
				}
			}
		}
	}
	// safeDivide: a product function that calls one of its own parameters of Divider type
	for _, fn := range p.Funcs() {
		if rel, _ := p.Rel(fn); rel != "priority" {
			continue
		}
		for _, b := range fn.Blocks {
			for _, in := range b.Instrs {
				if call, ok := in.(*ssa.Call); ok && !call.Call.IsInvoke() {
					if par, ok := call.Call.Value.(*ssa.Parameter); ok && isDividerType(par.Type()) {
						pr.safeDivideFn = fn
					}
				}
			}
		}
	}
	// vacants: the subtraction HandlersQuantity - sum(actual), wherever it is written; the sum helper
	// is the function it applies to the actual map
	for _, fn := range pr.rt.Funcs {
		for _, b := range fn.Blocks {
			for _, in := range b.Instrs {
				bo, ok := in.(*ssa.BinOp)
				if !ok || bo.Op != token.SUB {
					continue
				}
				// (both operands may reach a pure helper as arguments: calcVacants(H, actual))
				if _, path, okp := deepStrip(p.upParam(p.Sym(bo.X), 0)).FieldPath(); !okp || !strings.HasSuffix(strings.Join(path, "."), "HandlersQuantity") {
					continue
				}
				y := stripChangeType(bo.Y)
				if ex, isEx := y.(*ssa.Extract); isEx && ex.Index == 0 {
					y = ex.Tuple
				}
				call, isCall := y.(*ssa.Call)
				if !isCall || len(call.Call.Args) != 1 || !p.IsProduct(p.Callee(call)) {
					continue
				}
				if _, apath, okp := deepStrip(p.upParam(p.Sym(call.Call.Args[0]), 0)).FieldPath(); !okp || apath[len(apath)-1] != "actual" {
					continue
				}
				pr.vacantsExprs = append(pr.vacantsExprs, bo)
				pr.sumFn = p.Callee(call)
				pr.vacantsFn = fn
			}
		}
	}
	if pr.vacantsFn != nil {
		// a pure helper returns the subtraction (v1: with an error); anything else computes it in place
		pr.vacantsInline = false
		for _, b := range pr.vacantsFn.Blocks {
			ret, ok := b.Instrs[len(b.Instrs)-1].(*ssa.Return)
			if !ok || b == pr.vacantsFn.Recover {
				continue
			}
			vals := returnedValues(ret)
			if len(vals) == 0 {
				pr.vacantsInline = true
				continue
			}
			isExpr := false
			for _, e := range pr.vacantsExprs {
				if stripChangeType(vals[0]) == ssa.Value(e) {
					isExpr = true
				}
			}
			if k, isK := symConstInt(p.Sym(vals[0])); isK && k == 0 {
				isExpr = true // error path
			}
			if !isExpr {
				pr.vacantsInline = true
			}
		}
		if len(pr.vacantsExprs) != 1 {
			pr.vacantsInline = true
		}
		// a wrapper that only hands the helper's answer on (dsc.calcVacants() = calcVacants(H, actual))
		// is the producer the callers see
		for depth := 0; depth < 3 && !pr.vacantsInline; depth++ {
			sites := p.CallSites(pr.vacantsFn)
			if len(sites) != 1 {
				break
			}
			w := sites[0].Parent()
			inRoutine := false
			for _, f := range pr.rt.Funcs {
				if f == w {
					inRoutine = true
				}
			}
			if !inRoutine || w == pr.vacantsFn {
				break
			}
			passes := true
			nret := 0
			for _, b := range w.Blocks {
				ret, ok := b.Instrs[len(b.Instrs)-1].(*ssa.Return)
				if !ok || b == w.Recover {
					continue
				}
				nret++
				vals := returnedValues(ret)
				if len(vals) == 0 {
					passes = false
					continue
				}
				v := stripChangeType(vals[0])
				if ex, isEx := v.(*ssa.Extract); isEx && ex.Index == 0 {
					v = ex.Tuple
				}
				if v != ssa.Value(sites[0].Value()) {
					passes = false
				}
			}
			if !passes || nret != 1 {
				break
			}
			if pr.vacantsInner == nil {
				pr.vacantsInner = map[*ssa.Function]bool{}
			}
			pr.vacantsInner[pr.vacantsFn] = true
			pr.vacantsFn = w
		}
	}
	var missing []string
	for name, f := range map[string]*ssa.Function{"output-sending function": pr.sendFn, "tactic reset": pr.resetFn, "safeDivide": pr.safeDivideFn,
		"vacants producer (H - sum(actual))": pr.vacantsFn, "sum helper": pr.sumFn, "top-up (tactic = strategic - actual)": pr.topUpFn, "actual decrement": pr.decActualFn} {
		if f == nil {
			missing = append(missing, name)
		}
	}
	if pr.sendTag == nil {
		missing = append(missing, "priority parameter of the sending function")
	}
	if len(missing) > 0 {
		return nil, fmt.Errorf("UNRESOLVED-ANCHOR: %s: cannot find %s", pr.key, strings.Join(missing, ", "))
	}
	return pr, nil
}

// isPlainSum: fn ranges over its map parameter and returns the accumulated values.
func (p *Prog) isPlainSum(fn *ssa.Function) bool {
	if fn == nil || len(fn.Params) != 1 {
		return false
	}
	rg := rangesOver(fn, func(v ssa.Value) bool { return v == ssa.Value(fn.Params[0]) })
	if rg == nil {
		return false
	}
	for _, s := range p.resultSyms(fn, 0) {
		ph, ok := s.V.(*ssa.Phi)
		if !ok {
			if k, isK := symConstInt(s); isK && k == 0 {
				continue
			}
			return false
		}
		for _, e := range ph.Edges {
			if k, isK := constDuration(e); isK && k == 0 {
				continue
			}
			// phi + value   or   result of safe.SumInt(phi, value)
			es := p.Sym(e)
			okEdge := false
			if es.Op == "bin" && es.Name == "+" && es.Args[0].V == ssa.Value(ph) && strings.HasPrefix(es.Args[1].String(), "next:") {
				okEdge = true
			}
			if es.Op == "extract" && es.Args[0].Op == "call" && strings.HasSuffix(es.Args[0].Name, "safe.SumInt") && len(es.Args[0].Args) == 2 &&
				es.Args[0].Args[0].V == ssa.Value(ph) && strings.HasPrefix(es.Args[0].Args[1].String(), "next:") {
				okEdge = true
			}
			if !okEdge {
				return false
			}
		}
	}
	return true
}

// releaseRecv: is rs a receive from the release / feedback channel?
func (pr *prioRoles) isReleaseRecv(rs *RecvSite) bool {
	return pr.p.chanRole(rs.Chan) == pr.releaseRole
}

func isUintMap(t types.Type) bool {
	m, ok := t.Underlying().(*types.Map)
	if !ok {
		return false
	}
	b, ok := m.Elem().Underlying().(*types.Basic)
	return ok && b.Kind() == types.Uint
}

var _ = token.ADD

// asDivision: call is a checked division of the tactic map - the checked-division helper itself,
// or a private wrapper that hands one of its parameters to it as the dividend (a helper that
// resets the map and divides). Returns the dividend and the priority list as seen at the call.
func (pr *prioRoles) asDivision(call *ssa.Call) (dividend, list ssa.Value, ok bool) {
	p := pr.p
	cal := p.Callee(call)
	if cal == nil {
		return nil, nil, false
	}
	args := call.Call.Args
	if cal == pr.safeDivideFn {
		if len(args) == 4 {
			return args[2], args[1], true
		}
		return nil, nil, false
	}
	if !p.IsProduct(cal) || cal == pr.sendFn || cal == pr.topUpFn {
		return nil, nil, false
	}
	var inner *ssa.Call
	n := 0
	for _, b := range cal.Blocks {
		for _, in := range b.Instrs {
			if c2, isCall := in.(*ssa.Call); isCall && p.Callee(c2) == pr.safeDivideFn && len(c2.Call.Args) == 4 {
				inner = c2
				n++
			}
		}
	}
	if n != 1 {
		return nil, nil, false
	}
	through := func(v ssa.Value) ssa.Value {
		if par, isPar := stripChangeType(v).(*ssa.Parameter); isPar {
			if i := paramIndex(cal, par); i >= 0 && i < len(args) {
				return args[i]
			}
		}
		return nil
	}
	d := through(inner.Call.Args[2])
	if d == nil {
		return nil, nil, false
	}
	l := through(inner.Call.Args[1])
	return d, l, true
}

// vacantsValue: v is the number of vacant handlers - the result of the helper or the subtraction itself.
// It returns the instruction that produced it (for identity in typestate rules).
func (pr *prioRoles) vacantsValue(v ssa.Value) (ssa.Instruction, bool) {
	v = stripChangeType(v)
	for _, e := range pr.vacantsExprs {
		if v == ssa.Value(e) {
			return e, true
		}
	}
	if ex, ok := v.(*ssa.Extract); ok && ex.Index == 0 {
		v = ex.Tuple
	}
	if call, ok := v.(*ssa.Call); ok && !pr.vacantsInline && (pr.p.Callee(call) == pr.vacantsFn || pr.vacantsInner[pr.p.Callee(call)]) {
		return call, true
	}
	return nil, false
}

// vacantsSites: where the vacants value becomes available in a function: (function, value).
func (pr *prioRoles) vacantsSites() []ssa.Value {
	var out []ssa.Value
	if pr.vacantsInline {
		for _, e := range pr.vacantsExprs {
			out = append(out, e)
		}
		return out
	}
	for _, cs := range pr.p.CallSites(pr.vacantsFn) {
		if cs.Value() == nil {
			continue
		}
		vac := ssa.Value(cs.Value())
		if cs.Value().Type().String() != "uint" {
			for _, ref := range *cs.Value().Referrers() {
				if ex, ok := ref.(*ssa.Extract); ok && ex.Index == 0 {
					vac = ex
				}
			}
		}
		out = append(out, vac)
	}
	return out
}

// mustWriteMapField: on every path from the entry of fn to a return, fn (or a product function it
// calls, to a small depth) writes the map held in the given discipline field: the effect is not
// conditional on anything.
func (p *Prog) mustWriteMapField(fn *ssa.Function, field string, depth int) bool {
	if fn == nil || len(fn.Blocks) == 0 || depth > 4 {
		return false
	}
	ai := p.alias()
	writes := map[*ssa.BasicBlock]bool{}
	for _, w := range ai.contentWritesIn(fn) {
		if w.How != "map update" && w.How != "delete" {
			continue
		}
		for _, root := range ai.Roots(w.Target) {
			if root.Kind == "fieldload" && strings.HasSuffix(root.Path, "."+field) {
				writes[w.In.Block()] = true
			}
		}
	}
	for _, b := range fn.Blocks {
		for _, in := range b.Instrs {
			if call, ok := in.(*ssa.Call); ok {
				if cal := p.Callee(call); cal != nil && cal != fn && p.IsProduct(cal) && p.mustWriteMapField(cal, field, depth+1) {
					writes[b] = true
				}
			}
		}
	}
	if writes[fn.Blocks[0]] {
		return true
	}
	seen := map[*ssa.BasicBlock]bool{fn.Blocks[0]: true}
	stack := []*ssa.BasicBlock{fn.Blocks[0]}
	for len(stack) > 0 {
		x := stack[len(stack)-1]
		stack = stack[:len(stack)-1]
		if _, isRet := x.Instrs[len(x.Instrs)-1].(*ssa.Return); isRet {
			return false
		}
		for _, s := range x.Succs {
			if !seen[s] && !writes[s] {
				seen[s] = true
				stack = append(stack, s)
			}
		}
	}
	return true
}
