package main

import (
	"fmt"
	"go/token"
	"go/types"
	"sort"
	"strings"

	"golang.org/x/tools/go/ssa"
)

func init() {
	register(&Property{
		ID:          "C13",
		Run:         runC13,
		Explanation: "Rate conversion by order-type dataflow (predicate abstraction, no execution, no solver): the control flow of Recalculate (with IsValid and the quantity helper inlined) depends on its inputs only through comparisons among 0, minimum and interval := Interval/Quantity and the signs of Interval and Quantity. The abstract state at a program point is the set of order types (sign of Interval, Quantity zero or not, one of the weak orderings of {0, minimum, interval}) still possible there; a branch keeps the order types in which its normalised condition is true resp. false. For every return the rules then demand, in every order type that reaches it: V1 a non-nil error comes with the zero Rate; V2 a nil error comes with Interval > 0 and Quantity > 0 (for the big-integer branch, whose quantity is the recognised floor(Quantity*minimum/Interval), this holds iff interval < minimum strictly - paper lemma L13); V3 Interval >= minimum; V4 Quantity is the constant 1 unless Interval is minimum; V5 each error value is returned only in its region; V6 the division is reached only with Quantity != 0 and Optimize/Flatten pass non-negative constants; V7 the returned numbers are the recognised floors.",
		NotDecided:  []string{"nothing, provided the two definitions are recognised (uint64(I)/Q; big.Int SetUint64/SetInt64, Mul, Quo, IsUint64, Uint64); any other arithmetic is UNDECIDED"},
	})
}

// order type: I sign (n,z,p), Q (z,p), ranks of 0,m,v in a weak ordering
type otype struct {
	I, Q       byte
	r0, rm, rv int
}

func (o otype) String() string {
	return fmt.Sprintf("%c%c%d%d%d", o.I, o.Q, o.r0, o.rm, o.rv)
}

func parseOtype(s string) otype {
	return otype{I: s[0], Q: s[1], r0: int(s[2] - '0'), rm: int(s[3] - '0'), rv: int(s[4] - '0')}
}

func (o otype) describe() string {
	names := map[int][]string{}
	names[o.r0] = append(names[o.r0], "0")
	names[o.rm] = append(names[o.rm], "minimum")
	names[o.rv] = append(names[o.rv], "interval")
	var ranks []int
	for r := range names {
		ranks = append(ranks, r)
	}
	sort.Ints(ranks)
	var parts []string
	for _, r := range ranks {
		parts = append(parts, strings.Join(names[r], " = "))
	}
	i := map[byte]string{'n': "Interval<0", 'z': "Interval=0", 'p': "Interval>0"}[o.I]
	q := map[byte]string{'z': "Quantity=0", 'p': "Quantity>0"}[o.Q]
	return i + ", " + q + ", " + strings.Join(parts, " < ")
}

// witness builds a concrete input for an order type (arithmetic on the ordering only).
func (o otype) witness() string {
	if o.I != 'p' || o.Q != 'p' {
		return ""
	}
	m := int64(3 * (o.rm - o.r0))
	v := int64(3 * (o.rv - o.r0))
	if v < 0 {
		return ""
	}
	q := int64(2)
	i := v*q + 1 // floor(i/q) = v with a remainder
	if v == 0 {
		i = 1
	}
	return fmt.Sprintf("e.g. Rate{Interval: %d, Quantity: %d}.Recalculate(%d) (interval = %d)", i, q, m, v)
}

func allOtypes() []string {
	var out []string
	// weak orderings of three elements as rank triples normalised to start at 0 without gaps
	seen := map[string]bool{}
	for a := 0; a < 3; a++ {
		for b := 0; b < 3; b++ {
			for c := 0; c < 3; c++ {
				rs := []int{a, b, c}
				// normalise
				uniq := map[int]bool{a: true, b: true, c: true}
				var us []int
				for u := range uniq {
					us = append(us, u)
				}
				sort.Ints(us)
				idx := map[int]int{}
				for i, u := range us {
					idx[u] = i
				}
				key := fmt.Sprintf("%d%d%d", idx[rs[0]], idx[rs[1]], idx[rs[2]])
				if seen[key] {
					continue
				}
				seen[key] = true
				for _, I := range []byte{'n', 'z', 'p'} {
					for _, Q := range []byte{'z', 'p'} {
						o := otype{I: I, Q: Q, r0: idx[rs[0]], rm: idx[rs[1]], rv: idx[rs[2]]}
						// defining facts: with Interval>0 and Quantity>0 the quotient is >= 0
						if I == 'p' && Q == 'p' && o.rv < o.r0 {
							continue
						}
						out = append(out, o.String())
					}
				}
			}
		}
	}
	sort.Strings(out)
	return out
}

func runC13(c *Ctx) {
	r := c.R
	p := c.V2
	r.Doc("V0", "role resolution: Recalculate, validity helper, quantity helper; tracked terms recognised", 1)
	r.Doc("V1", "non-nil error => zero Rate", 4)
	r.Doc("V2", "nil error => Interval > 0 and Quantity > 0 in every order type reaching the return", 2)
	r.Doc("V3", "nil error => Interval >= minimum", 2)
	r.Doc("V4", "Quantity is the constant 1 unless Interval is minimum", 2)
	r.Doc("V5", "each error value only in its region", 4)
	r.Doc("V6", "division only with Quantity != 0; Optimize/Flatten pass constants >= 0", 3)
	r.Doc("V7", "returned numbers are the recognised floors", 2)
	fn := p.Func("limit", "Rate.Recalculate")
	if fn == nil {
		r.Fail("V0", "v2:limit.Rate.Recalculate", "-", "UNRESOLVED-ANCHOR: Recalculate not found")
		return
	}
	// V9: the conversion is a function of its arguments alone: it reads no package-level variable
	// except the error sentinels (a cache or scratch value kept between calls makes the result
	// depend on other, possibly concurrent, calls)
	r.Doc("V9", "Recalculate and its helpers use no package-level variable other than the error sentinels", 1)
	{
		var bad []string
		for g := range p.Reach(fn) {
			for _, b := range g.Blocks {
				for _, in := range b.Instrs {
					for _, op := range in.Operands(nil) {
						gl, isG := (*op).(*ssa.Global)
						if !isG {
							continue
						}
						if typeShort(gl.Type().(*types.Pointer).Elem()) == "error" && strings.HasPrefix(gl.Name(), "Err") {
							if ld, isLd := in.(*ssa.UnOp); isLd && ld.Op == token.MUL {
								continue
							}
						}
						bad = append(bad, gl.Name()+" at "+p.InstrPos(in))
					}
				}
			}
		}
		sort.Strings(bad)
		r.Check(len(bad) == 0, "V9", p.FnKey(fn)+"#pure", p.Pos(fn.Pos()), "no package-level state", "the conversion uses package-level variables ("+strings.Join(dedup(bad), "; ")+"): its result depends on other calls - overlapping calls mix their operands and a valid rate can come back invalid or not equivalent")
	}
	r.Doc("V8", "error tests are not inverted: no error value returned where it was tested nil, none dropped where tested non-nil", 3)
	var v8 []*ssa.Function
	for _, g := range p.errorFuncs("limit") {
		if strings.Contains(p.Pos(g.Pos()), "rate.go:") {
			v8 = append(v8, g)
		}
	}
	checkErrorTests(c, p, "V8", v8)
	for g := range p.Reach(fn) {
		r.Funcs[p.FnKey(g)] = true
	}
	recv := fn.Params[0]
	minPar := fn.Params[1]
	// term classification
	term := func(fr *Frame, s *Sym) string {
		s = deepStrip(p.expandSym(p.substFrame(fr, s), 0)) // quotient hidden in an expression helper
		if k, ok := symConstInt(s); ok && k == 0 {
			return "0"
		}
		if s.V == ssa.Value(minPar) {
			return "m"
		}
		if root, path, ok := s.FieldPath(); ok && root.V == ssa.Value(recv) && len(path) == 1 {
			switch path[0] {
			case "Interval":
				return "I"
			case "Quantity":
				return "Q"
			}
		}
		if s.Op == "bin" && s.Name == "/" {
			a, b := deepStrip(s.Args[0]), deepStrip(s.Args[1])
			ra, pa, oka := a.FieldPath()
			rb, pb, okb := b.FieldPath()
			if oka && okb && ra.V == ssa.Value(recv) && rb.V == ssa.Value(recv) && pa[0] == "Interval" && pb[0] == "Quantity" {
				// the recognised definition is the *unsigned* quotient uint64(Interval)/Quantity
				if bo, isBo := s.V.(*ssa.BinOp); isBo {
					if bt, isBasic := bo.X.Type().Underlying().(*types.Basic); isBasic && bt.Info()&types.IsUnsigned != 0 {
						return "v"
					}
				}
				return ""
			}
		}
		return ""
	}
	// evaluate a comparison in an order type: returns 1 true, 0 false, -1 unknown
	rank := func(o otype, t string) (int, bool) {
		switch t {
		case "0":
			return o.r0, true
		case "m":
			return o.rm, true
		case "v":
			return o.rv, true
		}
		return 0, false
	}
	var undecided []string
	eval := func(fr *Frame, o otype, cond ssa.Value, truth bool) int {
		cm := p.NormCmp(cond, truth)
		if cm == nil {
			return -1
		}
		l, rr := term(fr, cm.L), term(fr, cm.R)
		if l == "" || rr == "" || cm.LC != 0 || cm.RC != 0 {
			return -1
		}
		cmpInts := func(a, b int) int {
			res := false
			switch cm.Op {
			case token.LSS:
				res = a < b
			case token.LEQ:
				res = a <= b
			case token.EQL:
				res = a == b
			case token.NEQ:
				res = a != b
			}
			if res {
				return 1
			}
			return 0
		}
		sign := func(t string) (int, bool) { // position relative to 0 for I and Q
			switch t {
			case "I":
				return map[byte]int{'n': -1, 'z': 0, 'p': 1}[o.I], true
			case "Q":
				return map[byte]int{'z': 0, 'p': 1}[o.Q], true
			case "0":
				return 0, true
			}
			return 0, false
		}
		if (l == "I" || l == "Q" || rr == "I" || rr == "Q") && (l == "0" || rr == "0") {
			a, _ := sign(l)
			b, _ := sign(rr)
			return cmpInts(a, b)
		}
		a, ok1 := rank(o, l)
		b, ok2 := rank(o, rr)
		if ok1 && ok2 {
			return cmpInts(a, b)
		}
		return -1
	}
	type retInfo struct {
		ret   *ssa.Return
		types map[string]bool
		fr    *Frame
	}
	rets := map[*ssa.Return]*retInfo{}
	divTypes := map[ssa.Instruction]map[string]bool{}
	fl := &Flow{P: p, TrackBoolReturns: true}
	fl.Edge = func(fr *Frame, st string, from *ssa.BasicBlock, succ int) []string {
		iff, ok := from.Instrs[len(from.Instrs)-1].(*ssa.If)
		if !ok {
			return nil
		}
		o := parseOtype(st)
		res := eval(fr, o, iff.Cond, succ == 0)
		switch res {
		case 0:
			return []string{}
		case 1:
			return nil
		}
		// not a comparison of tracked terms: either way is accepted only for enumerated forms
		base, _ := condOf(iff.Cond)
		s := p.Sym(base).String()
		switch {
		case strings.HasPrefix(s, "(*math/big.Int).IsUint64("):
		case isProductCallResult(p, base):
			// a boolean handed back by a product helper (flatten(rt, minimum) (Rate, bool)): the
			// engine inlines the helper, its own comparisons are evaluated there, and a constant
			// answer decides this branch
		case strings.HasPrefix(s, "(math/bits.Mul64(") || strings.Contains(s, " math/bits.Mul64("):
			// the overflow guard of the 128-bit form (its shape is checked by V7)
		case strings.Contains(s, "!= nil)") || strings.Contains(s, "== nil)"):
		default:
			undecided = append(undecided, fmt.Sprintf("branch condition %s at %s is not a comparison of {0, minimum, Interval/Quantity, Interval, Quantity}", s, p.InstrPos(iff)))
		}
		return nil
	}
	callTypes := map[ssa.Instruction]map[string]bool{}
	fl.Call = func(fr *Frame, st string, cc ssa.CallInstruction, deferred bool) (bool, []string) {
		if callTypes[cc] == nil {
			callTypes[cc] = map[string]bool{}
		}
		callTypes[cc][st] = true
		return false, nil
	}
	fl.Instr = func(fr *Frame, st string, in ssa.Instruction) []string {
		if bo, ok := in.(*ssa.BinOp); ok && (bo.Op == token.QUO || bo.Op == token.REM) {
			if divTypes[in] == nil {
				divTypes[in] = map[string]bool{}
			}
			divTypes[in][st] = true
		}
		return nil
	}
	fl.Exit = func(fr *Frame, st string, ret *ssa.Return) []string {
		// a boolean answered by an inlined helper is accepted by the caller's branch as "evaluated in
		// the helper": so the helper's answer itself has to be a constant, a comparison of the tracked
		// terms, or one of the enumerated forms - not an estimate made on the raw operands
		// (bits.Len64(quantity)+bits.Len64(minimum)-bits.Len64(interval) > 64)
		if fr.Parent != nil {
			o := parseOtype(st)
			for _, rv := range returnedValues(ret) {
				bt, isB := rv.Type().Underlying().(*types.Basic)
				if !isB || bt.Kind() != types.Bool {
					continue
				}
				if _, isC := rv.(*ssa.Const); isC {
					continue
				}
				if _, isPhi := rv.(*ssa.Phi); isPhi {
					continue // assembled from branches, each judged as a branch
				}
				if eval(fr, o, rv, true) != -1 {
					continue
				}
				base, _ := condOf(rv)
				bs := p.Sym(base).String()
				switch {
				case strings.HasPrefix(bs, "(*math/big.Int).IsUint64("):
				case isProductCallResult(p, base):
				case strings.HasPrefix(bs, "(math/bits.Mul64(") || strings.Contains(bs, " math/bits.Mul64("):
				case strings.Contains(bs, "!= nil)") || strings.Contains(bs, "== nil)"):
				default:
					undecided = append(undecided, fmt.Sprintf("the helper %s answers %s at %s, which is not a comparison of {0, minimum, Interval/Quantity, Interval, Quantity}", fr.Fn.Name(), bs, p.InstrPos(ret)))
				}
			}
		}
		if fr.Parent == nil {
			ri := rets[ret]
			if ri == nil {
				ri = &retInfo{ret: ret, types: map[string]bool{}, fr: fr}
				rets[ret] = ri
			}
			ri.types[st] = true
		}
		return nil
	}
	fl.Run(fn, allOtypes())
	if len(undecided) > 0 || fl.Err != nil {
		msg := strings.Join(dedup(undecided), "; ")
		if fl.Err != nil {
			msg += fl.Err.Error()
		}
		r.Fail("V0", p.FnKey(fn), p.Pos(fn.Pos()), "UNDECIDED: "+msg)
		return
	}
	r.Pass("V0", p.FnKey(fn), p.Pos(fn.Pos()), fmt.Sprintf("%d order types at entry, %d returns", len(allOtypes()), len(rets)))

	var retList []*ssa.Return
	for ret := range rets {
		retList = append(retList, ret)
	}
	sort.Slice(retList, func(i, j int) bool { return retList[i].Pos() < retList[j].Pos() })
	describeTypes := func(ts []otype) string {
		var parts []string
		for i, o := range ts {
			if i >= 3 {
				parts = append(parts, fmt.Sprintf("... %d more", len(ts)-3))
				break
			}
			d := "{" + o.describe() + "}"
			if w := o.witness(); w != "" {
				d += " " + w
			}
			parts = append(parts, d)
		}
		return strings.Join(parts, "; ")
	}
	for n, ret := range retList {
		ri := rets[ret]
		var ots []otype
		for t := range ri.types {
			ots = append(ots, parseOtype(t))
		}
		sort.Slice(ots, func(i, j int) bool { return ots[i].String() < ots[j].String() })
		vals := returnedValues(ret)
		rateV, errV := vals[0], vals[1]
		key := fmt.Sprintf("%s#return.%d", p.FnKey(fn), n+1)
		site := p.InstrPos(ret)
		rateS := p.Sym(rateV)
		if rs := p.tupleResultAt(rateV, ret); rs != nil {
			rateS = rs // the Rate handed back by a helper, on the branch its boolean companion selects
		}
		// `return recalculated(interval, quantity)`: a pure helper that builds the result tuple
		errIsNil := isNilConst(errV)
		if xs := p.SymX(rateV); xs.String() != p.Sym(rateV).String() {
			if es := p.SymX(errV); es.Op == "const" && es.Name == "nil" {
				rateS, errIsNil = xs, true
			}
		}
		isZeroRate := false
		if cst, ok := rateV.(*ssa.Const); ok && cst.Value == nil {
			isZeroRate = true
		}
		if rateS.Op == "struct" && len(rateS.Keys) == 0 {
			isZeroRate = true
		}
		if !errIsNil {
			// V1
			r.Check(isZeroRate, "V1", key, site, "error with the zero Rate", "a non-nil error is returned together with the non-zero Rate "+rateS.String())
			// V5 region of the error value
			es := p.Sym(errV)
			name := es.String()
			var regionOf func(v ssa.Value, depth int) (func(o otype) bool, bool)
			regionOf = func(v ssa.Value, depth int) (func(o otype) bool, bool) {
				nm := p.Sym(v).String()
				switch {
				case strings.HasSuffix(nm, ".IsValid(rt)") || strings.Contains(nm, "IsValid"):
					return func(o otype) bool { return o.I != 'p' || o.Q != 'p' }, true
				case strings.HasSuffix(nm, "ErrMinimumIntervalNegative"):
					return func(o otype) bool { return o.rm < o.r0 }, true
				case strings.HasSuffix(nm, "ErrConvertedIntervalZero"):
					return func(o otype) bool { return o.rm == o.r0 && o.rv == o.r0 }, true
				case p.onlyErrorOf(v, "ErrConvertedQuantityUnrepresentable") || strings.HasSuffix(nm, "ErrConvertedQuantityUnrepresentable"):
					return func(o otype) bool { return o.I == 'p' && o.Q == 'p' && o.rm > o.r0 }, true
				}
				// a private validation helper that hands on one of several errors (isRecalculable =
				// IsValid, then minimum < 0): the union of their regions
				idx := 0
				cv := v
				if ex, isEx := cv.(*ssa.Extract); isEx {
					cv, idx = ex.Tuple, ex.Index
				}
				call, isCall := cv.(*ssa.Call)
				if !isCall || depth > 2 {
					return nil, false
				}
				cal := p.Callee(call)
				if cal == nil || !p.IsProduct(cal) || len(call.Call.Args) == 0 || p.Sym(call.Call.Args[0]).String() != p.Sym(recv).String() {
					return nil, false
				}
				var parts []func(o otype) bool
				for _, rs := range p.resultSyms(cal, idx) {
					if rs.Op == "const" && rs.Name == "nil" {
						continue
					}
					if rs.V == nil {
						return nil, false
					}
					part, okp := regionOf(rs.V, depth+1)
					if !okp {
						return nil, false
					}
					parts = append(parts, part)
				}
				if len(parts) == 0 {
					return nil, false
				}
				return func(o otype) bool {
					for _, part := range parts {
						if part(o) {
							return true
						}
					}
					return false
				}, true
			}
			region, known := regionOf(errV, 0)
			if !known {
				region = func(o otype) bool { return true }
			}
			var bad []otype
			for _, o := range ots {
				if !region(o) {
					bad = append(bad, o)
				}
			}
			if !known {
				r.Fail("V5", key, site, "UNDECIDED: error value "+name+" has no declared region")
			} else {
				r.Check(len(bad) == 0, "V5", key, site, fmt.Sprintf("%s in %d order types, all inside its region", shortErr(name), len(ots)), "error "+shortErr(name)+" is returned outside its region, for "+describeTypes(bad))
			}
			continue
		}
		// nil error: a Rate
		iS, qS := symField(rateS, "Interval"), symField(rateS, "Quantity")
		it := term(ri.fr, iS)
		qOne := false
		if k, ok := symConstInt(qS); ok && k == 1 {
			qOne = true
		}
		qFloor := isQuantityFloor(p, qS, recv, minPar, func(call *ssa.Call) bool {
			// Interval > 0 and minimum > 0 in every order type in which the helper is called
			ts := callTypes[call]
			if len(ts) == 0 {
				return false
			}
			for t := range ts {
				if o := parseOtype(t); !(o.I == 'p' && o.rm > o.r0) {
					return false
				}
			}
			return true
		})
		// V7 recognised forms
		okForm := (it == "v" && qOne) || (it == "m" && qFloor)
		r.Check(okForm, "V7", key, site, map[bool]string{true: "{floor(I/Q), 1}", false: "{minimum, floor(Q*minimum/I)}"}[it == "v"],
			"UNDECIDED: returned Rate {"+iS.String()+", "+qS.String()+"} is not one of the recognised forms {Interval/Quantity, 1} / {minimum, floor(Quantity*minimum/Interval)}")
		if !okForm {
			continue
		}
		// V4
		r.Check(qOne || it == "m", "V4", key, site, "Quantity 1 unless Interval is minimum", "Quantity is not 1 although Interval is not minimum")
		// V2 / V3 over order types
		var bad2, bad3 []otype
		for _, o := range ots {
			if o.I != 'p' || o.Q != 'p' {
				bad2 = append(bad2, o)
				continue
			}
			switch it {
			case "v":
				if !(o.rv > o.r0) {
					bad2 = append(bad2, o)
				}
				if !(o.rv >= o.rm) {
					bad3 = append(bad3, o)
				}
			case "m":
				// Interval = minimum > 0 ; Quantity = floor(Q*m/I) >= 1 iff floor(I/Q) < m  (L13)
				if !(o.rm > o.r0) || !(o.rv < o.rm) {
					bad2 = append(bad2, o)
				}
			}
		}
		r.Check(len(bad2) == 0, "V2", key, site, fmt.Sprintf("valid in all %d order types reaching it", len(ots)),
			"the returned Rate is invalid (Interval or Quantity is 0) with a nil error when "+describeTypes(bad2))
		r.Check(len(bad3) == 0, "V3", key, site, "Interval >= minimum", "the returned Interval is below minimum when "+describeTypes(bad3))
	}
	// V6
	n := 0
	for in, ts := range divTypes {
		n++
		var bad []otype
		for t := range ts {
			if o := parseOtype(t); o.Q != 'p' {
				bad = append(bad, o)
			}
		}
		r.Check(len(bad) == 0, "V6", fmt.Sprintf("%s#div.%d", p.FnKey(in.Parent()), n), p.InstrPos(in), "Quantity > 0 at the division", "division by Quantity reachable with Quantity = 0: "+describeTypes(bad))
	}
	for _, name := range []string{"Rate.Optimize", "Rate.Flatten"} {
		g := p.Func("limit", name)
		if g == nil {
			r.Fail("V6", "v2:limit."+name, "-", "UNRESOLVED-ANCHOR: "+name+" not found")
			continue
		}
		ok := false
		what := "does not call Recalculate"
		ncalls := 0
		for _, b := range g.Blocks {
			for _, in := range b.Instrs {
				if call, isCall := in.(*ssa.Call); isCall && p.Callee(call) == fn {
					ncalls++
					if k, isK := constDuration(call.Call.Args[1]); isK && k >= 0 {
						ok = true
						what = fmt.Sprintf("Recalculate(%d)", k)
					} else {
						ok = false
						what = "passes a non-constant or negative minimum"
					}
					// on its own receiver, and the result is handed back unchanged
					if rs := p.Sym(call.Call.Args[0]); rs.Op != "param" {
						ok = false
						what = "recalculates " + rs.String() + " instead of its receiver: an intermediate conversion rounds twice and the result no longer matches the original speed within one rounding step"
					}
					for _, b2 := range g.Blocks {
						if ret, isRet := b2.Instrs[len(b2.Instrs)-1].(*ssa.Return); isRet && b2.Comment != "recover" {
							for i, rv := range ret.Results {
								ex, isEx := rv.(*ssa.Extract)
								if !isEx || ex.Tuple != ssa.Value(call) || ex.Index != i {
									ok = false
									what = "does not return the result of Recalculate on its receiver unchanged"
								}
							}
						}
					}
				}
			}
		}
		if ncalls > 1 {
			ok = false
			what = "calls Recalculate more than once (conversions are not composable: each one rounds)"
		}
		for cal := range p.Reach(g) {
			if cal != g && cal != fn && !p.Reach(fn)[cal] {
				ok = false
				what = "goes through " + cal.Name() + " before/besides Recalculate on its receiver"
			}
		}
		r.Check(ok, "V6", p.FnKey(g), p.Pos(g.Pos()), what, name+" "+what)
	}
}

func shortErr(s string) string {
	if i := strings.LastIndex(s, "."); i >= 0 && !strings.Contains(s, "(") {
		return s[i+1:]
	}
	return s
}

// isQuantityFloor: qS is result #0 of a helper computing floor(Quantity*minimum/Interval) in big integers,
// called with (rt.Quantity, minimum, rt.Interval).
// tupleResultAt: v is component k of the results of a product helper with several returns, used at
// `at` under tests of its boolean companions (`if r, ok := helper(); ok { return r }`): the returns of
// the helper that agree with those tests; the value of component k when exactly one remains.
func (p *Prog) tupleResultAt(v ssa.Value, at ssa.Instruction) *Sym {
	ex, ok := v.(*ssa.Extract)
	if !ok {
		return nil
	}
	call, ok := ex.Tuple.(*ssa.Call)
	if !ok {
		return nil
	}
	callee := p.Callee(call)
	if callee == nil || !p.IsProduct(callee) {
		return nil
	}
	want := map[int]bool{}
	for _, e := range InstrDomEdges(at) {
		iff := e.From.Instrs[len(e.From.Instrs)-1].(*ssa.If)
		base, neg := condOf(iff.Cond)
		if ex2, isEx := base.(*ssa.Extract); isEx && ex2.Tuple == ssa.Value(call) {
			want[ex2.Index] = (e.Succ == 0) != neg
		}
	}
	if len(want) == 0 {
		return nil
	}
	var cands []*ssa.Return
	for _, b := range callee.Blocks {
		ret, isRet := b.Instrs[len(b.Instrs)-1].(*ssa.Return)
		if !isRet || b == callee.Recover {
			continue
		}
		okRet := true
		for idx, truth := range want {
			if idx >= len(ret.Results) {
				return nil
			}
			cv, isC := ret.Results[idx].(*ssa.Const)
			if !isC {
				return nil // not a constant companion: undecided
			}
			if (constString(cv) == "true") != truth {
				okRet = false
			}
		}
		if okRet {
			cands = append(cands, ret)
		}
	}
	if len(cands) != 1 || ex.Index >= len(cands[0].Results) {
		return nil
	}
	return p.substParams(call, callee, p.Sym(cands[0].Results[ex.Index]))
}

// isProductCallResult: v is (a component of) the result of a call of a product function.
func isProductCallResult(p *Prog, v ssa.Value) bool {
	if ex, ok := v.(*ssa.Extract); ok {
		v = ex.Tuple
	}
	call, ok := v.(*ssa.Call)
	if !ok {
		return false
	}
	cal := p.Callee(call)
	return cal != nil && p.IsProduct(cal)
}

func isQuantityFloor(p *Prog, qS *Sym, recv, minPar *ssa.Parameter, positiveAt func(*ssa.Call) bool) bool {
	if qS.Op != "extract" || qS.Name != "0" || qS.Args[0].Op != "call" {
		return false
	}
	call, ok := qS.Args[0].V.(*ssa.Call)
	if !ok {
		return false
	}
	callee := p.Callee(call)
	if callee == nil || !p.IsProduct(callee) || len(call.Call.Args) < 2 || len(call.Call.Args) > 3 {
		return false
	}
	argTerm := func(v ssa.Value) string {
		s := deepStrip(p.Sym(v))
		if s.V == ssa.Value(minPar) {
			return "m"
		}
		if s.V == ssa.Value(recv) {
			return "<rate>" // the helper is handed the whole rate (a method on Rate)
		}
		if root, path, ok := s.FieldPath(); ok && root.V == ssa.Value(recv) {
			return path[0]
		}
		return "?"
	}
	// which parameter plays which role is read off the helper's body
	role := map[string]string{}
	for i, a := range call.Call.Args {
		role[callee.Params[i].Name()] = argTerm(a)
	}
	results, okBig := p.bigResultSyms(callee, 0)
	if !okBig {
		return false
	}
	for _, s := range results {
		if k, isK := symConstInt(s); isK && k == 0 {
			continue
		}
		d := deepStrip(s)
		// 128-bit form: q, _ := bits.Div64(hi, lo, uint64(C)) with hi, lo := bits.Mul64(A, uint64(B)).
		// The conversions of the signed operands are right only for positive values (checked at the
		// call site through the order types), and Div64 needs hi < divisor, which is exactly
		// "the quotient is representable".
		if d.Op == "extract" && d.Name == "0" && len(d.Args) == 1 && d.Args[0].Op == "call" && d.Args[0].Name == "math/bits.Div64" && len(d.Args[0].Args) == 3 {
			hi, lo, den := d.Args[0].Args[0], d.Args[0].Args[1], d.Args[0].Args[2]
			okShape := hi.Op == "extract" && lo.Op == "extract" && hi.Name == "0" && lo.Name == "1" &&
				hi.Args[0].Op == "call" && hi.Args[0].Name == "math/bits.Mul64" && hi.Args[0].V != nil && hi.Args[0].V == lo.Args[0].V && len(hi.Args[0].Args) == 2
			if !okShape {
				return false
			}
			leafU := func(x *Sym) string {
				a := deepStrip(x)
				if a.Op == "param" {
					return role[a.Name]
				}
				if root, path, okp := a.FieldPath(); okp && len(path) == 1 && root.Op == "param" && role[root.Name] == "<rate>" {
					return path[0]
				}
				return "?"
			}
			f1, f2, dn := leafU(hi.Args[0].Args[0]), leafU(hi.Args[0].Args[1]), leafU(den)
			if !(((f1 == "Quantity" && f2 == "m") || (f1 == "m" && f2 == "Quantity")) && dn == "Interval") {
				return false
			}
			divCall, _ := d.Args[0].V.(*ssa.Call)
			if divCall == nil {
				return false
			}
			guarded := false
			for _, e := range InstrDomEdges(divCall) {
				iff := e.From.Instrs[len(e.From.Instrs)-1].(*ssa.If)
				cm := p.NormCmp(iff.Cond, e.Succ == 0)
				if cm != nil && cm.Op == token.LSS && cm.LC == 0 && cm.RC == 0 && cm.L.V != nil && cm.L.V == hi.V && deepStrip(cm.R).String() == den.String() {
					guarded = true
				}
			}
			if !guarded || positiveAt == nil || !positiveAt(call) {
				return false
			}
			continue
		}
		// Uint64(Quo(_, Mul(_, SetUint64(_, A), SetInt64(_, B)), SetInt64(_, C)))
		if d.Op != "call" || !strings.HasSuffix(d.Name, "big.Int).Uint64") || len(d.Args) != 1 {
			return false
		}
		q := d.Args[0]
		if q.Op != "call" || !strings.HasSuffix(q.Name, "big.Int).Quo") || len(q.Args) != 3 {
			return false
		}
		mul, den := q.Args[1], q.Args[2]
		if mul.Op != "call" || !strings.HasSuffix(mul.Name, "big.Int).Mul") || len(mul.Args) != 3 {
			return false
		}
		leaf := func(x *Sym) string {
			// SetUint64(_, A) | SetInt64(_, int64(B)) | big.NewInt(int64(B)); an unsigned operand
			// must be converted with SetUint64 (through int64 it would go negative above 2^63-1)
			var arg *Sym
			unsignedConv := false
			// a private conversion helper (durationToBig(d) = new(big.Int).SetInt64(int64(d))) stands
			// for what it returns, with its parameter replaced by the argument given here
			if x.Op == "call" {
				if hc, isCall := x.V.(*ssa.Call); isCall {
					if hf := p.Callee(hc); hf != nil && p.IsProduct(hf) {
						if rs := p.resultSyms(hf, 0); len(rs) == 1 {
							x = deepStrip(p.substParams(hc, hf, rs[0]))
						}
					}
				}
			}
			switch {
			case x.Op == "call" && strings.HasSuffix(x.Name, "big.Int).SetUint64") && len(x.Args) == 2:
				arg, unsignedConv = x.Args[1], true
			case x.Op == "call" && strings.HasSuffix(x.Name, "big.Int).SetInt64") && len(x.Args) == 2:
				arg = x.Args[1]
			case x.Op == "call" && x.Name == "math/big.NewInt" && len(x.Args) == 1:
				arg = x.Args[0]
			default:
				return "?"
			}
			a := deepStrip(arg)
			if a.Op == "field" {
				// a field of the rate the helper was handed
				if root, path, okp := a.FieldPath(); okp && len(path) == 1 && root.Op == "param" && role[root.Name] == "<rate>" {
					if a.V != nil {
						if b, isB := a.V.Type().Underlying().(*types.Basic); isB && b.Info()&types.IsUnsigned != 0 && !unsignedConv {
							return "?"
						}
						if pt, isP := a.V.Type().Underlying().(*types.Pointer); isP {
							if b, isB := pt.Elem().Underlying().(*types.Basic); isB && b.Info()&types.IsUnsigned != 0 && !unsignedConv {
								return "?"
							}
						}
					}
					return path[0]
				}
				return "?"
			}
			if a.Op != "param" {
				return "?"
			}
			if par, ok := a.V.(*ssa.Parameter); ok {
				if b, isB := par.Type().Underlying().(*types.Basic); isB && b.Info()&types.IsUnsigned != 0 && !unsignedConv {
					return "?"
				}
			}
			return role[a.Name]
		}
		f1, f2, dn := leaf(mul.Args[1]), leaf(mul.Args[2]), leaf(den)
		okMul := (f1 == "Quantity" && f2 == "m") || (f1 == "m" && f2 == "Quantity")
		if !(okMul && dn == "Interval") {
			return false
		}
		// the non-representable case must be an error, checked before Uint64()
	}
	return true
}

// onlyErrorOf: v is the error result of a call of a private product function every non-nil
// error result of which is the package-level error variable named want (the helper that
// recalculates the quantity, whatever it is called).
func (p *Prog) onlyErrorOf(v ssa.Value, want string) bool {
	ex, ok := v.(*ssa.Extract)
	if !ok {
		return false
	}
	call, ok := ex.Tuple.(*ssa.Call)
	if !ok {
		return false
	}
	fn := p.Callee(call)
	if fn == nil || !p.IsProduct(fn) {
		return false
	}
	if obj, _ := fn.Object().(*types.Func); obj != nil && obj.Exported() {
		return false
	}
	n := 0
	for _, s := range p.resultSyms(fn, ex.Index) {
		if s.Op == "const" && s.Name == "nil" {
			continue
		}
		if s.Op == "global" && strings.HasSuffix(s.Name, "."+want) {
			n++
			continue
		}
		return false
	}
	return n > 0
}
