#!/usr/bin/env python3
"""operand_sweep.py [--jobs N] [--out FILE]: second gap finder. Replaces one operand by a sibling of
the same type (a field of the discipline by another field of the same type, a local by its
neighbour: tactic <-> strategic <-> actual, useful <-> uncrowded <-> priorities, vacants <->
remainder, ...) and records, like mutation_sweep.py, which checks report the mutant and whether
the package tests kill it. Development tool; nothing registered depends on it."""
import argparse, concurrent.futures as cf, json, os, re, sys
sys.path.insert(0, os.path.dirname(os.path.abspath(__file__)))
import mutation_sweep as ms

GROUPS = [
    ["dsc.actual", "dsc.strategic", "dsc.tactic"],
    ["dsc.priorities", "dsc.uncrowded", "dsc.useful"],
    ["vacants", "remainder"],
    ["dsc.opts.HandlersQuantity", "vacants"],
    ["dsc.breaker", "dsc.graceful"],
    ["smpl.breaker", "smpl.graceful"],
    ["dsc.inputAdds", "dsc.inputRmvs"],
    ["dsc.opts.Timeout", "dsc.interruptInterval"],
    ["opts.Timeout", "opts.JoinSize"],
    ["len(dsc.join)", "cap(dsc.join)"],
    ["len(item)", "cap(item)"],
    ["dsc.opts.Limit.Interval", "duration"],
    ["rt.Interval", "minimum"],
    ["priorities[j]", "priorities[i]"],
    ["base", "remainder"],
]
FILES = ["priority/priority.go", "priority/simple.go", "priority/assist.go", "priority/divider.go",
         "v2/priority/priority.go", "v2/priority/assist.go", "v2/priority/divider/divider.go",
         "join/join.go", "v2/join/join.go", "v2/join/unite/unite.go", "v2/limit/limit.go", "v2/limit/rate.go",
         "priority/internal/common/priorities.go", "v2/priority/internal/common/priorities.go"]


def gen():
    out = []
    for f in FILES:
        lines = open(os.path.join("/repo", f)).read().split("\n")
        for i, line in enumerate(lines):
            s = line.strip()
            if not s or s.startswith("//") or "func " in line and line.startswith("func"):
                continue
            code = line.split("//")[0]
            for g in GROUPS:
                for a in g:
                    for m in re.finditer(re.escape(a) + r"(?![A-Za-z0-9_])", code):
                        if m.start() > 0 and (code[m.start() - 1].isalnum() or code[m.start() - 1] in "._"):
                            continue
                        for b in g:
                            if b != a:
                                out.append((f, i, line[:m.start()] + b + line[m.end():], "%s->%s" % (a, b)))
    seen, res = set(), []
    for m in out:
        k = (m[0], m[1], m[2])
        if k not in seen:
            seen.add(k)
            res.append(m)
    return res


def main():
    ap = argparse.ArgumentParser()
    ap.add_argument("--jobs", type=int, default=6)
    ap.add_argument("--out", default="/tmp/opsweep.jsonl")
    a = ap.parse_args()
    muts = gen()
    print("mutants:", len(muts), flush=True)
    with open(a.out, "w") as fo, cf.ThreadPoolExecutor(max_workers=a.jobs) as ex:
        for r in ex.map(ms.run_one, muts):
            fo.write(json.dumps(r) + "\n")
            fo.flush()


if __name__ == "__main__":
    main()
