#!/usr/bin/env python3
"""structure_sweep.py [--jobs N] [--out FILE]: third gap finder. Structural first-order mutants of the
product source: two adjacent simple statements swapped (including adjacent defers), one clause of a
select / switch removed with its body, break <-> continue, a `default:` clause of a select removed
(the poll becomes a wait), an `if` guard replaced by its body (guard dropped). Records, like
mutation_sweep.py, which checks report the mutant and whether the package tests kill it.
Development tool; nothing registered depends on it."""
import argparse, concurrent.futures as cf, json, os, re, shutil, subprocess, sys, tempfile
sys.path.insert(0, os.path.dirname(os.path.abspath(__file__)))
import mutation_sweep as ms

VERIF = ms.VERIF


def indent(l):
    return len(l) - len(l.lstrip("\t"))


SIMPLE = re.compile(r"^\t+(defer )?[A-Za-z_][A-Za-z0-9_.\[\]]*(\(.*\)|\+\+|--| (=|:=|\+=|-=) .*[^{(,])$")


def is_simple(l):
    s = l.strip()
    if not s or s.startswith("//") or s.endswith("{") or s.endswith(",") or s.endswith("("):
        return False
    if re.match(r"^(return|break|continue|case|default|if|for|select|switch|go|var|type|func|\}|\))", s):
        return False
    return bool(SIMPLE.match(l))


def gen():
    out = []
    for f in ms.PRODUCT:
        path = os.path.join("/repo", f)
        if not os.path.exists(path):
            continue
        L = open(path).read().split("\n")
        for i, line in enumerate(L):
            s = line.strip()
            # 1. swap with the next statement (possibly over one blank line)
            if is_simple(line):
                j = i + 1
                if j < len(L) and not L[j].strip():
                    j += 1
                if j < len(L) and is_simple(L[j]) and indent(L[j]) == indent(line) and L[j].strip() != s:
                    out.append((f, {i: L[j], j: line}, "swap", s + "  <->  " + L[j].strip()))
            # 2. remove a case clause with its body
            if re.match(r"^(case .*|default):$", s):
                ind = indent(line)
                j = i + 1
                while j < len(L) and not (indent(L[j]) <= ind and L[j].strip() and re.match(r"^(case .*:|default:|\})", L[j].strip())):
                    j += 1
                if j < len(L):
                    out.append((f, {k: None for k in range(i, j)}, "drop-clause", s))
            # 3. break <-> continue
            if s == "break":
                out.append((f, {i: line.replace("break", "continue")}, "break->continue", s))
            if s == "continue":
                out.append((f, {i: line.replace("continue", "break")}, "continue->break", s))
            # 4. guard dropped: `if cond {` ... `}` with a single-level body and no else -> body
            m = re.match(r"^(\t+)if .* \{$", line)
            if m and ";" not in line:
                ind = indent(line)
                j = i + 1
                while j < len(L) and not (indent(L[j]) == ind and L[j].strip().startswith("}")):
                    j += 1
                if j < len(L) and L[j].strip() == "}" and j - i <= 8:
                    ch = {i: None, j: None}
                    for k in range(i + 1, j):
                        ch[k] = L[k][1:] if L[k].startswith("\t") else L[k]
                    out.append((f, ch, "drop-guard", s))
    return out


def run_one(m):
    f, changes, op, what = m
    t = tempfile.mkdtemp(prefix="cqos-sweep.")
    res = {"file": f, "line": min(changes) + 1, "op": op, "what": what}
    try:
        subprocess.run(["rsync", "-a", "--exclude", ".git", "/repo/", t + "/"], check=True)
        p = os.path.join(t, f)
        lines = open(p).read().split("\n")
        new = []
        for i, l in enumerate(lines):
            if i in changes:
                if changes[i] is not None:
                    new.append(changes[i])
            else:
                new.append(l)
        open(p, "w").write("\n".join(new))
        res["patch"] = subprocess.run(["diff", "-u", os.path.join("/repo", f), p], stdout=subprocess.PIPE, text=True).stdout.replace(t + "/", "b/").replace("/repo/", "a/")
        mod = "v2" if f.startswith("v2/") else "."
        pkg = "./" + os.path.dirname(f[3:] if mod == "v2" else f)
        rc, o = ms.sh("go build %s && go vet %s" % (pkg, pkg), os.path.join(t, mod), 300)
        if rc != 0:
            res["status"] = "does-not-build"
            res.pop("patch")
            return res
        rc, o = ms.sh("%s/bin/cqoscheck -property all -repo %s -no-evidence -evidence %s/.ev -known %s/known_findings.json" % (VERIF, t, t, VERIF), t, 400)
        caught = {}
        for line in o.splitlines():
            mm = re.match(r"^(C\d+)/(\S+) (\S+) (\S+)$", line)
            if mm:
                caught.setdefault(mm.group(1), set()).add(mm.group(2))
        res["checks"] = {k: sorted(v) for k, v in sorted(caught.items())}
        if caught:
            res["status"] = "reported"
            res.pop("patch")
            return res
        rc, o = ms.sh("go test -vet=off -count=1 -timeout 300s %s" % pkg, os.path.join(t, mod), 400)
        if rc != 0:
            res["status"] = "killed-by-tests-only"
            res["test_tail"] = o[-300:]
        else:
            res["status"] = "SURVIVES"
        return res
    except Exception as e:  # noqa
        res["status"] = "error: %s" % e
        return res
    finally:
        shutil.rmtree(t, ignore_errors=True)


def main():
    ap = argparse.ArgumentParser()
    ap.add_argument("--jobs", type=int, default=6)
    ap.add_argument("--out", default="/tmp/structsweep.jsonl")
    ap.add_argument("--count", action="store_true")
    a = ap.parse_args()
    muts = gen()
    print("mutants:", len(muts), flush=True)
    if a.count:
        import collections
        print(collections.Counter(m[2] for m in muts))
        return
    with open(a.out, "w") as fo, cf.ThreadPoolExecutor(max_workers=a.jobs) as ex:
        for r in ex.map(run_one, muts):
            fo.write(json.dumps(r) + "\n")
            fo.flush()


if __name__ == "__main__":
    main()
