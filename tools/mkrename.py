#!/usr/bin/env python3
"""mkrename.py <name> <v1|v2>:<pkg>.<Type>.<field>=<new> ...
Creates selftest/ALL/benign/<name>.patch: a behaviour-preserving rename of private struct fields (through type
information, tests included, with /verif/bin/rename). The renamed tree must build, vet, and its tests compile."""
import os, shutil, subprocess, sys, tempfile
VERIF = os.path.dirname(os.path.dirname(os.path.abspath(__file__)))
ENV = dict(os.environ, GOFLAGS="-mod=mod", GOPROXY="off", GOSUMDB="off", GOTOOLCHAIN="local", GOWORK="off")
name, specs = sys.argv[1], sys.argv[2:]
t = tempfile.mkdtemp(prefix="mkren.")
try:
    a, b = os.path.join(t, "a"), os.path.join(t, "b")
    for d in (a, b):
        subprocess.run(["rsync", "-a", "--exclude", ".git", "/repo/", d + "/"], check=True)
    for mod, sub in (("v1", "."), ("v2", "v2")):
        args = [s.split(":", 1)[1] for s in specs if s.startswith(mod + ":")]
        if not args:
            continue
        # "@privfuncs=X" / "@privfields=X" / "@privlocals=X": bulk modes of the rename tool
        args = [("-" + a[1:]) if a.startswith("@") else a for a in args]
        args.sort(key=lambda a: not a.startswith("-"))
        r = subprocess.run([os.path.join(VERIF, "bin", "rename"), "-dir", os.path.join(b, sub)] + args, env=ENV, stdout=subprocess.PIPE, stderr=subprocess.STDOUT, text=True)
        print(r.stdout.strip())
        if r.returncode != 0:
            sys.exit("rename failed")
    subprocess.run("gofmt -w .", shell=True, cwd=b, env=ENV)
    for sub in (".", "v2"):
        r = subprocess.run("go build ./... && go vet ./... && go test -vet=off -count=1 -run '^$' ./... >/dev/null", shell=True, cwd=os.path.join(b, sub), env=ENV, stdout=subprocess.PIPE, stderr=subprocess.STDOUT, text=True)
        if r.returncode != 0:
            sys.exit("renamed tree does not build in %s:\n%s" % (sub, r.stdout[-2000:]))
    p = subprocess.run(["diff", "-ruN", "-x", "*.sum", "a", "b"], cwd=t, stdout=subprocess.PIPE, text=True)
    out = os.path.join(VERIF, "selftest", "ALL", "benign", name + ".patch")
    open(out, "w").write(p.stdout)
    print("wrote", out, len(p.stdout.splitlines()), "lines")
finally:
    shutil.rmtree(t)
