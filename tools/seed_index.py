#!/usr/bin/env python3
"""Regenerates /verif/seeded/INDEX.md and the marked table in DESIGN.md from seeded/*/meta.json."""
import glob, json, os, re
V = os.path.dirname(os.path.dirname(os.path.abspath(__file__)))
rows = []
for m in sorted(glob.glob(os.path.join(V, "seeded", "*", "meta.json"))):
    d = json.load(open(m))
    dirn = os.path.dirname(m)
    patch = open(os.path.join(dirn, "patch.diff")).read()
    files = sorted(set(re.findall(r"^\+\+\+ b/(\S+)", patch, re.M)))
    dels = [l[1:].strip() for l in patch.splitlines() if l.startswith("-") and not l.startswith("---") and l[1:].strip() and not l[1:].strip().startswith("//")]
    adds = [l[1:].strip() for l in patch.splitlines() if l.startswith("+") and not l.startswith("+++") and l[1:].strip() and not l[1:].strip().startswith("//")]
    gist = ("`%s` -> `%s`" % ((dels[0] if dels else "")[:70], (adds[0] if adds else "")[:70])).replace("|", "\\|")
    cr = d.get("checks_reporting", {})
    own = d.get("property")
    ownrules = sorted(set(k.split("@")[0] for k in cr.get(own, [])))
    others = ", ".join("%s(%s)" % (p, "/".join(sorted(set(k.split("@")[0] for k in v)))) for p, v in sorted(cr.items()) if p != own)
    rows.append((d["name"], own, ", ".join(files), gist, "/".join(ownrules) or "**MISSED**", others, d.get("demo_with_change"), d.get("suite_with_change")))
hdr = "| seed | property | file(s) | change (first edited line) | caught by (own property rules) | also reported by |\n|---|---|---|---|---|---|\n"
body = "".join("| %s | %s | %s | %s | %s | %s |\n" % r[:6] for r in rows)
idx = "# Independently written breaking changes\n\nEach directory holds patch.diff, the demonstration test, the author's SEED.md and meta.json (what was re-verified here: builds, demo fails with / passes without the change, pinned suite passes with it, which checks report it).\n\n" + hdr + body
open(os.path.join(V, "seeded", "INDEX.md"), "w").write(idx)
dp = os.path.join(V, "DESIGN.md")
s = open(dp).read()
b, e = "<!-- SEEDED-TABLE-BEGIN -->", "<!-- SEEDED-TABLE-END -->"
table = b + "\n" + hdr + body + e
if b in s:
    s = s[:s.index(b)] + table + s[s.index(e) + len(e):]
else:
    s += "\n" + table + "\n"
open(dp, "w").write(s)
print(len(rows), "seeds;", sum(1 for r in rows if r[4] == "**MISSED**"), "missed by own property")
