#!/usr/bin/env python3
"""recheck_seeds.py [name ...]: re-run every check of /verif against each seeded change
(/verif/seeded/<name>/patch.diff applied to a scratch copy of /repo's current tree) and update
meta.json with the checks that report it. Prints one line per seed."""
import concurrent.futures as cf
import glob
import json
import os
import re
import shutil
import subprocess
import sys
import tempfile

VERIF = os.path.dirname(os.path.dirname(os.path.abspath(__file__)))
ENV = dict(os.environ, GOFLAGS="-mod=mod", GOPROXY="off", GOSUMDB="off", GOTOOLCHAIN="local", GOWORK="off")
BIN = os.environ.get("CQOSCHECK", os.path.join(VERIF, "bin", "cqoscheck"))


def one(d):
    name = os.path.basename(d)
    meta_p = os.path.join(d, "meta.json")
    meta = json.load(open(meta_p)) if os.path.exists(meta_p) else {"name": name}
    t = tempfile.mkdtemp(prefix="cqos-seed.")
    try:
        subprocess.run(["rsync", "-a", "--exclude", ".git", "/repo/", t + "/"], check=True)
        ap = subprocess.run(["patch", "-p1", "-s", "--no-backup-if-mismatch", "-i", os.path.join(d, "patch.diff")], cwd=t,
                            stdout=subprocess.PIPE, stderr=subprocess.STDOUT, text=True)
        if ap.returncode != 0:
            return name, meta.get("property"), None, "patch does not apply"
        p = subprocess.run([BIN, "-property", "all", "-repo", t, "-no-evidence", "-evidence", t + "/.ev", "-known", os.path.join(VERIF, "known_findings.json")],
                           env=ENV, stdout=subprocess.PIPE, stderr=subprocess.STDOUT, text=True)
        caught = {}
        for line in p.stdout.splitlines():
            m = re.match(r"^(C\d+)/(\S+) (\S+) (\S+)$", line)
            if m:
                caught.setdefault(m.group(1), []).append(m.group(4))
        meta["checks_reporting"] = {k: sorted(set(v))[:8] for k, v in sorted(caught.items())}
        meta["caught_by_own_property"] = meta.get("property") in caught
        json.dump(meta, open(meta_p, "w"), indent=1)
        return name, meta.get("property"), meta["caught_by_own_property"], ", ".join("%s:%s" % (k, "|".join(x.split("@")[0] for x in v)) for k, v in sorted(caught.items()))
    finally:
        shutil.rmtree(t, ignore_errors=True)


def main():
    dirs = sorted(d for d in glob.glob(os.path.join(VERIF, "seeded", "*")) if os.path.isdir(d))
    if len(sys.argv) > 1:
        dirs = [d for d in dirs if os.path.basename(d) in sys.argv[1:]]
    with cf.ThreadPoolExecutor(max_workers=6) as ex:
        for name, prop, own, what in ex.map(one, dirs):
            print("%-22s %-4s own=%-5s %s" % (name, prop, own, what))


if __name__ == "__main__":
    main()
