#!/usr/bin/env python3
"""ingest_seed.py <PROPERTY-ID> [<seed-name>]

Takes the uncommitted change + demonstration test a sub-agent left in /tmp/wt-<ID>, re-verifies it
independently in a fresh scratch worktree of /repo (builds, demo fails with the change and passes
without it, the full pinned suite passes with the change), runs every check of /verif against the
changed tree, and stores patch.diff, the demonstration and meta.json under /verif/seeded/<name>/.
The scratch worktree is removed afterwards.
"""
import glob
import json
import os
import re
import shutil
import subprocess
import sys
import time

VERIF = os.path.dirname(os.path.dirname(os.path.abspath(__file__)))
ENV = dict(os.environ, GOFLAGS="-mod=mod", GOPROXY="off", GOSUMDB="off", GOTOOLCHAIN="local", GOWORK="off")


def sh(cmd, cwd=None, timeout=1800):
    p = subprocess.run(cmd, shell=True, cwd=cwd, env=ENV, stdout=subprocess.PIPE, stderr=subprocess.STDOUT, text=True, timeout=timeout)
    return p.returncode, p.stdout


def main():
    pid = sys.argv[1]
    name = sys.argv[2] if len(sys.argv) > 2 else pid.lower() + "-agent1"
    src = os.environ.get("SEED_PREFIX", "/tmp/wt-") + pid
    rc, diff = sh("git diff", cwd=src)
    if not diff.strip():
        sys.exit("no tracked change in " + src)
    demos = [f for f in glob.glob(src + "/**/zz_seed_*_test.go", recursive=True)]
    if not demos:
        sys.exit("no demonstration test in " + src)
    out = os.path.join(VERIF, "seeded", name)
    os.makedirs(out, exist_ok=True)
    open(os.path.join(out, "patch.diff"), "w").write(diff)
    demo_rel = [os.path.relpath(d, src) for d in demos]
    for d, r in zip(demos, demo_rel):
        shutil.copy(d, os.path.join(out, os.path.basename(d)))
    if os.path.exists(src + "/SEED.md"):
        shutil.copy(src + "/SEED.md", os.path.join(out, "SEED.md"))

    vf = "/tmp/vf-" + pid
    sh("git -C /repo worktree remove --force " + vf)
    rc, o = sh("git -C /repo worktree add -q --detach %s HEAD" % vf)
    meta = {"property": pid, "name": name, "source": "sub-agent given only the property text and its own worktree",
            "patch": "patch.diff", "demonstration": [os.path.basename(d) for d in demos], "demo_paths": demo_rel,
            "verified_at": time.strftime("%Y-%m-%dT%H:%M:%SZ", time.gmtime())}
    try:
        for d, r in zip(demos, demo_rel):
            os.makedirs(os.path.dirname(os.path.join(vf, r)), exist_ok=True)
            shutil.copy(d, os.path.join(vf, r))
        # which module / package does each demo live in
        runs = []
        for r in demo_rel:
            mod = "v2" if r.startswith("v2/") else "."
            pkg = "./" + os.path.dirname(r[3:] if mod == "v2" else r)
            test = "TestSeed" + pid
            runs.append((mod, pkg, test))
        def run_demo():
            ok = True
            outs = []
            for mod, pkg, test in runs:
                rc, o = sh("go test %s -vet=off -count=1 -run '^%s$' %s" % ("-race" if os.environ.get("SEED_RACE") else "", test, pkg), cwd=os.path.join(vf, mod), timeout=900)
                outs.append(o[-1500:])
                ok = ok and rc == 0
            return ok, "\n".join(outs)
        ok0, o0 = run_demo()
        meta["demo_without_change"] = "pass" if ok0 else "FAIL"
        rc, o = sh("git apply " + os.path.join(out, "patch.diff"), cwd=vf)
        if rc != 0:
            meta["error"] = "patch does not apply: " + o
            raise SystemExit(meta["error"])
        rc, o = sh("go build ./... && cd v2 && go build ./...", cwd=vf)
        meta["builds"] = rc == 0
        ok1, o1 = run_demo()
        meta["demo_with_change"] = "pass" if ok1 else "fail (expected)"
        meta["demo_output_with_change"] = o1[-1200:]
        rc, o = sh("go test -vet=off -count=1 -timeout 25m ./... 2>&1 | grep -v 'no test files' ; cd v2 && go test -vet=off -count=1 -timeout 25m ./... 2>&1 | grep -v 'no test files'", cwd=vf, timeout=3000)
        # the demo itself fails: ignore its package's FAIL if caused only by TestSeed
        fails = [l for l in o.splitlines() if l.startswith("--- FAIL") and ("TestSeed" + pid) not in l]
        if fails:
            # timing-sensitive tests can fail under load: re-run the failing tests alone, once
            still = []
            for l in fails:
                t = l.split()[2]
                rc2, o2 = sh("go test -vet=off -count=1 -run '^%s$' ./... 2>&1 | grep -v 'no test files'; cd v2 && go test -vet=off -count=1 -run '^%s$' ./... 2>&1 | grep -v 'no test files'" % (t, t), cwd=vf, timeout=1200)
                if "--- FAIL" in o2:
                    still.append(l)
            meta["suite_retry"] = "re-ran %d failing test(s) alone: %d still fail" % (len(fails), len(still))
            fails = still
        meta["suite_with_change"] = "pass" if not fails else "FAIL: " + "; ".join(fails[:5])
        # run every check on the changed tree (demo test files are _test.go: not loaded)
        rc, o = sh("%s/bin/cqoscheck -property all -repo %s -no-evidence -evidence %s/.ev -known %s/known_findings.json" % (VERIF, vf, vf, VERIF), timeout=900)
        caught = {}
        for line in o.splitlines():
            m = re.match(r"^(C\d+)/(\S+) (\S+) (\S+)$", line)
            if m:
                caught.setdefault(m.group(1), []).append(m.group(4))
        meta["checks_reporting"] = {k: sorted(set(v))[:8] for k, v in sorted(caught.items())}
        meta["caught_by_own_property"] = pid in caught
        meta["what_we_ran"] = ["go build ./... (both modules)", "demo test with and without the change", "full pinned suite with the change",
                               "cqoscheck -property all on the changed tree"]
        json.dump(meta, open(os.path.join(out, "meta.json"), "w"), indent=1)
        print(json.dumps({k: meta[k] for k in ("property", "demo_without_change", "demo_with_change", "builds", "suite_with_change", "caught_by_own_property", "checks_reporting")}, indent=1))
    finally:
        sh("git -C /repo worktree remove --force " + vf)
        shutil.rmtree(vf, ignore_errors=True)


if __name__ == "__main__":
    main()
