#!/usr/bin/env python3
"""literal_sweep.py [--jobs N] [--out FILE]: fifth gap finder. Replaces one integer literal of the
product source by a neighbour (0 <-> 1, 1 <-> 2, n -> n+1 / n-1), one at a time, and records, like
mutation_sweep.py, which checks report the mutant and whether the package tests kill it.
Development tool; nothing registered depends on it."""
import argparse, concurrent.futures as cf, json, os, re, sys
sys.path.insert(0, os.path.dirname(os.path.abspath(__file__)))
import mutation_sweep as ms

EXTRA = ["internal/general/consts.go", "v2/internal/consts/consts.go", "join/internal/defaults/defaults.go",
         "v2/join/internal/defaults/defaults.go", "v2/join/defaults/defaults.go", "internal/breaker/breaker.go"]


def gen():
    out = []
    files = list(ms.PRODUCT) + [f for f in EXTRA if os.path.exists(os.path.join("/repo", f))]
    for f in files:
        path = os.path.join("/repo", f)
        if not os.path.exists(path):
            continue
        lines = open(path).read().split("\n")
        for i, line in enumerate(lines):
            s = line.strip()
            if not s or s.startswith("//") or s.startswith("import") or s.startswith("package") or s.startswith('"'):
                continue
            code = line.split("//")[0]
            for m in re.finditer(r"(?<![A-Za-z0-9_.\"])(\d+)(?![A-Za-z0-9_.\"])", code):
                v = int(m.group(1))
                for nv in sorted({v + 1, max(v - 1, 0)} - {v}):
                    out.append((f, i, line[:m.start(1)] + str(nv) + line[m.end(1):], "%d->%d" % (v, nv)))
    seen, res = set(), []
    for m in out:
        k = (m[0], m[1], m[2])
        if k not in seen:
            seen.add(k)
            res.append(m)
    return res


def main():
    ap = argparse.ArgumentParser()
    ap.add_argument("--jobs", type=int, default=6)
    ap.add_argument("--out", default="/tmp/litsweep.jsonl")
    ap.add_argument("--count", action="store_true")
    a = ap.parse_args()
    muts = gen()
    print("mutants:", len(muts), flush=True)
    if a.count:
        return
    with open(a.out, "w") as fo, cf.ThreadPoolExecutor(max_workers=a.jobs) as ex:
        for r in ex.map(ms.run_one, muts):
            fo.write(json.dumps(r) + "\n")
            fo.flush()


if __name__ == "__main__":
    main()
