#!/usr/bin/env python3
"""recheck_sweep.py <sweep.jsonl> <out.jsonl>: re-run the checker (a private copy of the current binary) on the
mutants of an earlier sweep that no check reported, keeping their test verdicts. Development tool."""
import concurrent.futures as cf, json, os, re, shutil, subprocess, sys, tempfile
VERIF = os.path.dirname(os.path.dirname(os.path.abspath(__file__)))
ENV = dict(os.environ, GOFLAGS="-mod=mod", GOPROXY="off", GOSUMDB="off", GOTOOLCHAIN="local", GOWORK="off")
src, out = sys.argv[1], sys.argv[2]
BIN = tempfile.mktemp(prefix="cqoscheck.")
shutil.copy(os.path.join(VERIF, "bin", "cqoscheck"), BIN)
rows = [json.loads(l) for l in open(src)]
def one(r):
    if r["status"] not in ("SURVIVES", "killed-by-tests-only"):
        return r
    t = tempfile.mkdtemp(prefix="cqos-sweep.")
    try:
        subprocess.run(["rsync", "-a", "--exclude", ".git", "/repo/", t + "/"], check=True)
        p = os.path.join(t, r["file"])
        lines = open(p).read().split("\n")
        i = r["line"] - 1
        if lines[i].strip() != r["old"]:
            r["recheck"] = "source moved"
            return r
        indent = lines[i][:len(lines[i]) - len(lines[i].lstrip())]
        lines[i] = (indent + r["new"]) if r["new"] else ""
        open(p, "w").write("\n".join(lines))
        o = subprocess.run([BIN, "-property", "all", "-repo", t, "-no-evidence", "-evidence", t + "/.ev", "-known", VERIF + "/known_findings.json"], env=ENV, stdout=subprocess.PIPE, stderr=subprocess.STDOUT, text=True).stdout
        caught = {}
        for line in o.splitlines():
            m = re.match(r"^(C\d+)/(\S+) (\S+) (\S+)$", line)
            if m:
                caught.setdefault(m.group(1), set()).add(m.group(2))
        if caught:
            r["status_before"] = r["status"]
            r["status"] = "reported"
            r["checks"] = {k: sorted(v) for k, v in sorted(caught.items())}
        return r
    finally:
        shutil.rmtree(t, ignore_errors=True)
with open(out, "w") as fo, cf.ThreadPoolExecutor(max_workers=6) as ex:
    for r in ex.map(one, rows):
        fo.write(json.dumps(r) + "\n")
os.remove(BIN)
