#!/usr/bin/env python3
"""mk_seed_prompts.py <round> : writes /tmp/seedprompts/<ID>-r<round>.txt for every property, from the
property text only (never anything else of /verif) plus a one-line textual summary of the changes earlier
sub-agents already produced for that property (so that a new agent goes elsewhere).
Development tool; nothing registered depends on it."""
import glob, json, os, re, sys
VERIF = os.path.dirname(os.path.dirname(os.path.abspath(__file__)))
rnd = int(sys.argv[1])
W = "/tmp/w%d-" % rnd
words = {1: "one other engineer has", 2: "two other engineers have", 3: "three other engineers have", 4: "four other engineers have", 5: "five other engineers have", 6: "six other engineers have"}
props = [json.loads(l) for l in open(os.path.join(VERIF, "properties.jsonl")) if l.strip()]
os.makedirs("/tmp/seedprompts", exist_ok=True)

def summarize(patch):
    out = []
    cur = None
    rem, add = [], []
    def flush():
        nonlocal rem, add
        if cur and (rem or add):
            out.append("%s: removed `%s` / added `%s`" % (cur, " ; ".join(rem)[:160], " ; ".join(add)[:200]))
        rem, add = [], []
    for line in open(patch):
        if line.startswith("+++ "):
            flush()
            cur = re.sub(r"^b/", "", line[4:].strip().split("\t")[0])
        elif line.startswith("---"):
            continue
        elif line.startswith("-") and line[1:].strip() and not line[1:].strip().startswith("//"):
            rem.append(line[1:].strip())
        elif line.startswith("+") and line[1:].strip() and not line[1:].strip().startswith("//"):
            add.append(line[1:].strip())
    flush()
    return out

for p in props:
    pid = p["id"]
    wt = W + pid
    prev = []
    for d in sorted(glob.glob(os.path.join(VERIF, "seeded", pid.lower() + "-agent*"))):
        prev += summarize(os.path.join(d, "patch.diff"))
    def g(*names):
        for n in names:
            if n in p:
                v = p[n]
                return ", ".join(v) if isinstance(v, list) else str(v)
        return ""
    text = []
    text.append("You are working in a scratch git worktree of the Go library akramarenkov/cqos at %s (two Go modules: the repository root, module github.com/akramarenkov/cqos, and the sub-directory v2/, module github.com/akramarenkov/cqos/v2). Work ONLY inside %s. Do not read or write /verif, /repo or any other /tmp/w* directory.\n" % (wt, wt))
    text.append("Every shell command needs this environment (there is no network):\n  export GOFLAGS=-mod=mod GOPROXY=off GOSUMDB=off GOTOOLCHAIN=local\n")
    text.append("Here is a semantic property the library is supposed to satisfy:\n")
    text.append("  " + json.dumps(p, indent=2).replace("\n", "\n  ") + "\n")
    if prev:
        text.append("NOTE: %s already produced such changes for this property:" % words.get(len(glob.glob(os.path.join(VERIF, "seeded", pid.lower() + "-agent*"))), "several other engineers have"))
        for s in prev:
            text.append("   - " + s)
        text.append("Produce something DIFFERENT from all of them - a different function AND a different mechanism; if they all touched one module version (v1 = repository root, v2 = v2/) or one discipline variant, go to another one; if they all attacked one clause of the statement, attack another clause. Think about which clause of the statement has NOT been broken yet, and which code keeps that clause true. Prefer a regression that is plausible as a maintainer's refactoring or optimisation, hard to notice in review, and that needs a particular interleaving, a sequence of operations, a boundary input, or two cooperating edits to manifest. Changes that ADD code (a new fast path, a new cache, a new helper, an extra goroutine, an early return) are as welcome as changes that remove or alter a line.\n")
    text.append("NOTE on the test suite: the machine is shared, and the wall-clock test ExampleDiscipline in v2/limit can fail under heavy load for reasons unrelated to your change; run the suites with `-p 4`, and if only that test fails, re-run that package alone before concluding.\n")
    low = pid.lower()
    text.append("""YOUR TASK: make ONE small, realistic change to the library's non-test source code (the kind of regression a maintainer could plausibly introduce during a refactoring or an 'optimisation') that BREAKS this property, while
  (a) the code still compiles:   (cd {wt} && go build ./... && cd v2 && go build ./...)
  (b) the existing test suite still passes, unedited:  (cd {wt} && go test -p 4 -vet=off -count=1 ./... && cd v2 && go test -p 4 -vet=off -count=1 ./...)   (takes 1-2 minutes; run it, do not assume)
Prefer a change that needs something SPECIFIC to manifest - a particular interleaving, a fault or stop/cancel at a particular point, a multi-step sequence of operations, an unusual input or configuration, or two cooperating sites that each look fine on their own - rather than something ordinary use would expose at once. Do not edit or delete existing tests. Do not add build tags. Keep the diff small (typically 1-15 lines).

Then write a DEMONSTRATION: one new Go test file named zz_seed_{low}_test.go in the package it needs (it may be an in-package test so that it can reach internals, and may use timeouts to detect hangs; keep it deterministic, finishing in under 20 seconds) containing a test named TestSeed{pid} that FAILS with your change and PASSES on the original code. Verify both: run it with your change; then save your change with `git diff > {wt}/.seed.patch && git apply -R {wt}/.seed.patch`, run the test again on the original code, then restore with `git apply {wt}/.seed.patch`. NEVER use `git stash` (the stash is shared between worktrees and other engineers are working in sibling worktrees).

Finally leave the source change and the test file uncommitted in the worktree and write {wt}/SEED.md with: the files changed and why the change breaks the property; what exactly is needed for the breakage to manifest; the exact command that runs the demonstration; and the observed output of (1) the demonstration with the change (failing), (2) the demonstration without the change (passing), (3) the full existing test suite with the change (passing). Your final message should be a 5-line summary of the same.""".format(wt=wt, low=low, pid=pid))
    open("/tmp/seedprompts/%s-r%d.txt" % (pid, rnd), "w").write("\n".join(text) + "\n")
print("wrote", len(props), "prompts")
