#!/usr/bin/env python3
"""mkmut.py <property> <mutants|benign> <name> [--expect KEYSUBSTR ...] -- file old new [file old new ...]
Creates selftest/<property>/<kind>/<name>.patch from textual replacements against /repo (each old must occur exactly once)."""
import os, subprocess, sys, tempfile, shutil
def main():
    a = sys.argv[1:]
    prop, kind, name = a[0], a[1], a[2]
    rest = a[3:]
    expect = []
    while rest and rest[0] == "--expect":
        expect.append(rest[1]); rest = rest[2:]
    assert rest[0] == "--"; rest = rest[1:]
    assert len(rest) % 3 == 0
    repo = os.environ.get("VERIF_REPO", "/repo")
    t = tempfile.mkdtemp(prefix="mkmut.")
    try:
        a_dir, b_dir = os.path.join(t, "a"), os.path.join(t, "b")
        for i in range(0, len(rest), 3):
            f, old, new = rest[i:i+3]
            old = old.encode().decode("unicode_escape"); new = new.encode().decode("unicode_escape")
            for d in (a_dir, b_dir):
                os.makedirs(os.path.dirname(os.path.join(d, f)), exist_ok=True)
            if not os.path.exists(os.path.join(a_dir, f)):
                shutil.copy(os.path.join(repo, f), os.path.join(a_dir, f))
                shutil.copy(os.path.join(repo, f), os.path.join(b_dir, f))
            s = open(os.path.join(b_dir, f)).read()
            if s.count(old) != 1:
                sys.exit("old text occurs %d times in %s: %r" % (s.count(old), f, old))
            open(os.path.join(b_dir, f), "w").write(s.replace(old, new))
        p = subprocess.run(["diff", "-ruN", "a", "b"], cwd=t, stdout=subprocess.PIPE, text=True)
        out = os.path.join(os.path.dirname(os.path.dirname(os.path.abspath(__file__))), "selftest", prop, kind)
        os.makedirs(out, exist_ok=True)
        open(os.path.join(out, name + ".patch"), "w").write(p.stdout)
        if expect:
            open(os.path.join(out, name + ".expect"), "w").write("\n".join(expect) + "\n")
        print("wrote", os.path.join(out, name + ".patch"), len(p.stdout.splitlines()), "lines")
    finally:
        shutil.rmtree(t)
main()
