#!/bin/bash
# usage: try_patches.sh <patch>...  : apply each patch to a scratch copy of /repo and list what every check reports
VERIF=$(cd "$(dirname "$0")/.." && pwd)
export GOFLAGS=-mod=mod GOPROXY=off GOSUMDB=off GOTOOLCHAIN=local GOWORK=off
for P in "$@"; do P=$(realpath "$P")
  T=$(mktemp -d /tmp/cqos-try.XXXXXX)
  rsync -a --exclude .git /repo/ "$T/"
  if ! (cd "$T" && patch -p1 -s < "$P") >/dev/null 2>&1; then echo "== $P: DOES NOT APPLY"; rm -rf "$T"; continue; fi
  if ! (cd "$T" && go build ./... && cd v2 && go build ./...) >/dev/null 2>&1; then echo "== $P: DOES NOT BUILD"; rm -rf "$T"; continue; fi
  OUT=$("$VERIF/bin/cqoscheck" -property all -repo "$T" -no-evidence -evidence "$T/.ev" -known "$VERIF/known_findings.json" 2>&1 | grep -A1 "^C[0-9]*/" | sed "s#$T/##g" | cut -c1-${CUT:-260})
  if [ -z "$OUT" ]; then echo "== $P: silent"; else echo "== $P: ALARMS"; echo "$OUT" | head -${HEADN:-30}; fi
  rm -rf "$T"
done
