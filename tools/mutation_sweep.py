#!/usr/bin/env python3
"""mutation_sweep.py [--jobs N] [--limit K] [--out FILE]

Generates first-order syntactic mutants of the product source of /repo (relational and logical
operator flips, arithmetic flips, statement deletions, defer removal, constant tweaks), and for
each one that still compiles records which /verif checks report it. Mutants that no check
reports are then run against the tests of the packages they touch; the ones that also survive the
tests are listed for triage (equivalent mutant, or a gap in the rules).

Nothing here is a registered check: it is a development tool for finding gaps."""
import argparse
import concurrent.futures as cf
import json
import os
import re
import shutil
import subprocess
import sys
import tempfile

VERIF = os.path.dirname(os.path.dirname(os.path.abspath(__file__)))
ENV = dict(os.environ, GOFLAGS="-mod=mod", GOPROXY="off", GOSUMDB="off", GOTOOLCHAIN="local", GOWORK="off")
PRODUCT = [
    "priority/priority.go", "priority/simple.go", "priority/assist.go", "priority/divider.go", "priority/utils.go",
    "priority/internal/common/distribution.go", "priority/internal/common/priorities.go",
    "join/join.go", "join/assist.go",
    "v2/priority/priority.go", "v2/priority/assist.go", "v2/priority/simple/simple.go", "v2/priority/divider/divider.go",
    "v2/priority/utils/utils.go", "v2/priority/internal/common/distribution.go", "v2/priority/internal/common/priorities.go",
    "v2/join/join.go", "v2/join/assist.go", "v2/join/unite/unite.go", "v2/join/unite/assist.go",
    "v2/limit/limit.go", "v2/limit/rate.go", "v2/internal/general/dividing.go", "internal/general/dividing.go",
]

REL = [(" < ", " <= "), (" <= ", " < "), (" > ", " >= "), (" >= ", " > "), (" == ", " != "), (" != ", " == "),
       (" && ", " || "), (" || ", " && "), (" + ", " - "), (" - ", " + "), ("++", "--"), ("--", "++"),
       (" < ", " > "), (" > ", " < ")]


def gen_mutants():
    out = []
    for f in PRODUCT:
        path = os.path.join("/repo", f)
        if not os.path.exists(path):
            continue
        lines = open(path).read().split("\n")
        in_comment = False
        for i, line in enumerate(lines):
            s = line.strip()
            if s.startswith("/*"):
                in_comment = True
            if in_comment:
                if "*/" in s:
                    in_comment = False
                continue
            if not s or s.startswith("//") or s.startswith("import") or s.startswith("package") or s.startswith('"'):
                continue
            code = line.split("//")[0]
            # operator replacements (first occurrence of each kind per line)
            for a, b in REL:
                k = code.find(a)
                if k >= 0 and "<-" not in code[max(0, k - 1):k + 3]:
                    out.append((f, i, line[:k] + b + line[k + len(a):], "%s->%s" % (a.strip(), b.strip())))
            # statement deletion: call statements, simple assignments, defers
            if re.match(r"^\t+(dsc|smpl)\.[A-Za-z.]+\(.*\)$", line) or re.match(r"^\t+[a-zA-Z]+\.[A-Za-z]+\(.*\)$", line):
                out.append((f, i, "", "delete-call"))
            if re.match(r"^\t+defer ", line):
                out.append((f, i, "", "delete-defer"))
                out.append((f, i, line.replace("defer ", "", 1), "undefer"))
            if re.match(r"^\t+(dsc|smpl)\.[a-zA-Z.\[\]]+ (=|\+=|-=) .*$", line) or re.match(r"^\t+(dsc|smpl)\.[a-zA-Z.\[\]]+(\+\+|--)$", line):
                out.append((f, i, "", "delete-assign"))
            if re.match(r"^\t+return$", line):
                out.append((f, i, "", "delete-return"))
            if re.match(r"^\t+continue$", line):
                out.append((f, i, "", "delete-continue"))
            # constants in comparisons
            m = re.search(r"(==|!=|<|>|<=|>=) 0\b", code)
            if m:
                out.append((f, i, line[:m.end() - 1] + "1" + line[m.end():], "0->1"))
            if re.search(r"\btrue\b", code) and "return" in code:
                out.append((f, i, re.sub(r"\btrue\b", "false", line, 1), "true->false"))
            if re.search(r"\bfalse\b", code) and "return" in code:
                out.append((f, i, re.sub(r"\bfalse\b", "true", line, 1), "false->true"))
    # dedupe
    seen, res = set(), []
    for m in out:
        key = (m[0], m[1], m[2])
        if key not in seen and m[2] != open(os.path.join("/repo", m[0])).read().split("\n")[m[1]]:
            seen.add(key)
            res.append(m)
    return res


def sh(cmd, cwd, timeout=900):
    try:
        p = subprocess.run(cmd, shell=True, cwd=cwd, env=ENV, stdout=subprocess.PIPE, stderr=subprocess.STDOUT, text=True, timeout=timeout)
        return p.returncode, p.stdout
    except subprocess.TimeoutExpired:
        return 124, "timeout"


def run_one(m):
    f, i, new, op = m
    t = tempfile.mkdtemp(prefix="cqos-sweep.")
    res = {"file": f, "line": i + 1, "op": op, "new": new.strip()}
    try:
        subprocess.run(["rsync", "-a", "--exclude", ".git", "/repo/", t + "/"], check=True)
        p = os.path.join(t, f)
        lines = open(p).read().split("\n")
        res["old"] = lines[i].strip()
        lines[i] = new
        open(p, "w").write("\n".join(lines))
        mod = "v2" if f.startswith("v2/") else "."
        pkg = "./" + os.path.dirname(f[3:] if mod == "v2" else f)
        rc, o = sh("go build %s && go vet %s" % (pkg, pkg), os.path.join(t, mod), 300)
        if rc != 0:
            res["status"] = "does-not-build"
            return res
        rc, o = sh("%s/bin/cqoscheck -property all -repo %s -no-evidence -evidence %s/.ev -known %s/known_findings.json" % (VERIF, t, t, VERIF), t, 400)
        caught = {}
        for line in o.splitlines():
            mm = re.match(r"^(C\d+)/(\S+) (\S+) (\S+)$", line)
            if mm:
                caught.setdefault(mm.group(1), set()).add(mm.group(2))
        res["checks"] = {k: sorted(v) for k, v in sorted(caught.items())}
        if caught:
            res["status"] = "reported"
            return res
        # not reported: do the tests kill it?
        rc, o = sh("go test -vet=off -count=1 -timeout 300s %s" % pkg, os.path.join(t, mod), 400)
        if rc != 0:
            res["status"] = "killed-by-tests-only"
            res["test_tail"] = o[-400:]
        else:
            res["status"] = "SURVIVES"
        return res
    except Exception as e:  # noqa
        res["status"] = "error: %s" % e
        return res
    finally:
        shutil.rmtree(t, ignore_errors=True)


def main():
    ap = argparse.ArgumentParser()
    ap.add_argument("--jobs", type=int, default=6)
    ap.add_argument("--limit", type=int, default=0)
    ap.add_argument("--out", default="/tmp/sweep.jsonl")
    ap.add_argument("--files", default="")
    a = ap.parse_args()
    muts = gen_mutants()
    if a.files:
        muts = [m for m in muts if any(m[0].startswith(x) for x in a.files.split(","))]
    if a.limit:
        muts = muts[:a.limit]
    print("mutants:", len(muts), file=sys.stderr)
    with open(a.out, "w") as fo, cf.ThreadPoolExecutor(max_workers=a.jobs) as ex:
        for r in ex.map(run_one, muts):
            fo.write(json.dumps(r) + "\n")
            fo.flush()


if __name__ == "__main__":
    main()
