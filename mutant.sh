#!/bin/bash
# usage: ./mutant.sh <patch-file> <property-id|all> [extra cqoscheck flags]
# Applies a patch to a scratch copy of /repo, runs the checker on it, removes the copy.
set -u
VERIF=$(cd "$(dirname "$0")" && pwd)
PATCH=$(realpath "$1"); ID=$2; shift 2
export GOFLAGS=-mod=mod GOPROXY=off GOSUMDB=off GOTOOLCHAIN=local GOWORK=off
T=$(mktemp -d /tmp/cqos-mut.XXXXXX)
trap 'rm -rf "$T"' EXIT
rsync -a --exclude .git ${VERIF_REPO:-/repo}/ "$T/"
(cd "$T" && patch -p1 -s < "$PATCH") || { echo "PATCH-DOES-NOT-APPLY $PATCH"; exit 3; }
if [ "${MUTANT_BUILD:-0}" = 1 ]; then
  (cd "$T" && go build ./... && cd v2 && go build ./...) || { echo "MUTANT-DOES-NOT-BUILD"; exit 4; }
fi
"$VERIF/bin/cqoscheck" -property "$ID" -repo "$T" -no-evidence -evidence "$T/.ev" -known "$VERIF/known_findings.json" "$@" | sed "s#$T/##g; s#$T#<scratch>#g"
exit ${PIPESTATUS[0]}
